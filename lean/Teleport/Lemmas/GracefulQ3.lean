/-
Lemmas/GracefulQ3 — the last two invariants behind "Close returns" and the assembly `QInv`:
`rep`: the REPLY frame of a call the peer has answered and that is still unbound is in the inbound queue;
`wrOK`: inside the cancel loop (`callCmdMap.Range`) and after it every call that is still written and
unanswered is one the loop has yet to visit — none is left behind when the loop ends.
-/
import Teleport.Lemmas.GracefulQ2
namespace Teleport.Graceful

theorem get_set_some {α} {l : List α} {i j : Nat} {b c : α} (h : (l.set i b)[j]? = some c) :
    (i = j ∧ c = b) ∨ (i ≠ j ∧ l[j]? = some c) := by
  by_cases hij : i = j
  · subst hij
    left
    refine ⟨rfl, ?_⟩
    rw [List.getElem?_set] at h
    simp only [if_true] at h
    split at h
    · cases h; rfl
    · cases h
  · right
    exact ⟨hij, by rwa [List.getElem?_set_ne hij] at h⟩

theorem get_snoc_some {α} {l : List α} {j : Nat} {b c : α} (h : (l ++ [b])[j]? = some c) :
    l[j]? = some c ∨ c = b := by
  rcases Nat.lt_trichotomy j l.length with hj | hj | hj
  · left; rwa [List.getElem?_append_left hj] at h
  · right; subst hj; simp at h; exact h.symm
  · rw [List.getElem?_eq_none (by simp; omega)] at h; cases h

theorem step_qr_rep {s t : St} {e : Ev} (hI : QC s)
    (hl : ∀ j c, s.cs[j]? = some c → c.pc = .written → c.replied = true → Frame.reply j ∈ s.inq)
    (hs : step s e = some t) :
    ∀ j c, t.cs[j]? = some c → c.pc = .written → c.replied = true → Frame.reply j ∈ t.inq := by
  have hco := hI.copen
  c08_step_cases hs
  all_goals first
    | exact hl
    | (intro j c hg hp hr; exact List.mem_append_left _ (hl j c hg hp hr))
    | (intro j c hg hp hr
       rcases get_set_some hg with ⟨rfl, rfl⟩ | ⟨hne, hg'⟩
       · simp_all
       · exact hl j c hg' hp hr)
    | (intro j c hg hp hr
       rcases get_set_some hg with ⟨rfl, rfl⟩ | ⟨hne, hg'⟩
       · have := hco _ (List.mem_of_getElem? ‹s.cs[_]? = some _›); simp_all
       · exact hl j c hg' hp hr)
    | (intro j c hg hp hr
       rcases get_set_some hg with ⟨rfl, rfl⟩ | ⟨hne, hg'⟩
       · simp
       · exact List.mem_append_left _ (hl j c hg' hp hr))
    | (intro j c hg hp hr
       rcases get_snoc_some hg with hg' | rfl
       · exact hl j c hg' hp hr
       · simp at hp)
    | (intro j c hg hp hr; have := hl j c hg hp hr; rw [‹s.inq = _›] at this; simpa using this)
    | (intro j c hg hp hr
       rcases get_set_some hg with ⟨rfl, rfl⟩ | ⟨hne, hg'⟩
       · simp at hp
       · have := hl j c hg' hp hr
         rw [‹s.inq = _›] at this
         rcases List.mem_cons.1 this with h | h
         · injection h with h; exact absurd h.symm hne
         · exact h)
    | (intro j c hg hp hr
       have := hl j c hg hp hr
       rw [‹s.inq = _›] at this
       rcases List.mem_cons.1 this with h | h
       · injection h with h; subst h; simp_all
       · exact h)

/-- inside `Range` (and after it) every call that is still written-and-unanswered is one the loop has
    yet to visit: none is left behind when the loop ends. -/
def wrOKf (r : RPc) (cs : List C) : Prop :=
  match r with
  | .dloop _ todo => ∀ (j : Nat) (c : C), cs[j]? = some c → c.pc = .written → j ∈ todo
  | .dlock _ k todo => ∀ (j : Nat) (c : C), cs[j]? = some c → c.pc = .written → j = k ∨ j ∈ todo
  | .dsock | .rexit => ∀ (j : Nat) (c : C), cs[j]? = some c → c.pc ≠ .written
  | _ => True

def wrOK (s : St) : Prop := wrOKf s.reader s.cs

theorem wrOKf_set {r : RPc} {cs : List C} {i : Nat} {a b : C} (hw : wrOKf r cs) (hg : cs[i]? = some a)
    (hb : b.pc = .written → a.pc = .written) : wrOKf r (cs.set i b) := by
  unfold wrOKf at hw ⊢
  cases r with
  | dloop a' todo =>
    intro j c hc hp
    rcases get_set_some hc with ⟨rfl, rfl⟩ | ⟨_, hc'⟩
    · exact hw _ a hg (hb hp)
    · exact hw j c hc' hp
  | dlock a' k todo =>
    intro j c hc hp
    rcases get_set_some hc with ⟨rfl, rfl⟩ | ⟨_, hc'⟩
    · exact hw _ a hg (hb hp)
    · exact hw j c hc' hp
  | dsock =>
    intro j c hc hp
    rcases get_set_some hc with ⟨rfl, rfl⟩ | ⟨_, hc'⟩
    · exact hw _ a hg (hb hp)
    · exact hw j c hc' hp
  | rexit =>
    intro j c hc hp
    rcases get_set_some hc with ⟨rfl, rfl⟩ | ⟨_, hc'⟩
    · exact hw _ a hg (hb hp)
    · exact hw j c hc' hp
  | _ => trivial

theorem wrOKf_snoc {r : RPc} {cs : List C} {b : C} (hw : wrOKf r cs) (hb : b.pc ≠ .written) : wrOKf r (cs ++ [b]) := by
  unfold wrOKf at hw ⊢
  cases r with
  | dloop a' todo =>
    intro j c hc hp
    rcases get_snoc_some hc with hc' | rfl
    · exact hw j c hc' hp
    · exact absurd hp hb
  | dlock a' k todo =>
    intro j c hc hp
    rcases get_snoc_some hc with hc' | rfl
    · exact hw j c hc' hp
    · exact absurd hp hb
  | dsock =>
    intro j c hc hp
    rcases get_snoc_some hc with hc' | rfl
    · exact hw j c hc' hp
    · exact absurd hp hb
  | rexit =>
    intro j c hc hp
    rcases get_snoc_some hc with hc' | rfl
    · exact hw j c hc' hp
    · exact absurd hp hb
  | _ => trivial

theorem mem_openIdx {cs : List C} {j : Nat} {c : C} (hg : cs[j]? = some c) (ho : c.isOpen = true) : j ∈ openIdx cs := by
  unfold openIdx
  rw [List.mem_filter]
  refine ⟨?_, by simp [hg, ho]⟩
  rw [List.mem_range]
  rcases Nat.lt_or_ge j cs.length with h | h
  · exact h
  · rw [List.getElem?_eq_none h] at hg; cases hg

theorem mem_erase_or {l : List Nat} {j k : Nat} (h : j ∈ l) : j = k ∨ j ∈ l.erase k := by
  by_cases hj : j = k
  · exact Or.inl hj
  · exact Or.inr ((List.mem_erase_of_ne hj).2 h)

theorem wok_fails {s : St} (hS : SInv s) (hI : QC s) {j : Nat} {c : C}
    (hg : s.cs[j]? = some c) (hp : c.pc = .wok) (hd : Dsc s) : ¬ (s.sock = false ∧ s.lost = false) := by
  intro ⟨h1, h2⟩
  have := bound_rank hS hI hg (Or.inr (Or.inr hp))
  rcases hd with hd | hd | hd
  · rw [h2] at hd; cases hd
  · rw [h1] at hd; cases hd
  · omega

theorem step_qr_wr1 {s t : St} {e : Ev} (hk : e.isReader = true) (hS : SInv s) (hQ : QS s) (hI : QC s) (hw : wrOK s)
    (hs : step s e = some t) : wrOK t := by
  have hrd := hQ.rd
  unfold rdOK at hrd
  unfold wrOK wrOKf at hw ⊢
  c08_step_cases hs
  all_goals (first | (simp [Ev.isReader] at hk; done) | skip)
  all_goals (clear hk)
  all_goals first
    | trivial
    | (simp_all; done)
    | (intro j c hg hp; exact mem_openIdx hg (by simp [C.isOpen, hp]))
    | (intro j c hg hp
       have h4 := bound_rank hS hI hg (Or.inr (Or.inl hp))
       rw [‹s.reader = _›] at hrd
       obtain ⟨_, _, _, h3⟩ := hrd
       rcases h3 with h | ⟨h, _⟩ | ⟨_, h⟩
       · contradiction
       · contradiction
       · omega)
    | (intro j c hg hp
       rw [‹s.reader = _›] at hw
       exact mem_erase_or (hw j c hg hp))
    | (intro j c hg hp
       rw [‹s.reader = _›] at hw
       rcases get_set_some hg with ⟨rfl, rfl⟩ | ⟨hne, hg'⟩
       · simp at hp
       · rcases hw j c hg' hp with h | h
         · exact absurd h.symm hne
         · exact h)
    | (intro j c hg hp
       rw [‹s.reader = _›] at hw
       rcases hw j c hg hp with h | h
       · subst h; simp_all
       · exact h)
    | (rw [‹s.reader = _›] at hw
       cases ‹Bool› <;> simp <;> intro j c hg hp <;> have := hw j c hg hp <;> simp at this)
    | (rw [‹s.reader = _›] at hw; exact hw)

theorem wr_cwrite {s : St} (hS : SInv s) (hQ : QS s) (hI : QC s) {j : Nat} {c : C}
    (hg : s.cs[j]? = some c) (hp : c.pc = .wok) (hok : s.sock = false ∧ s.lost = false) (b : C) :
    wrOKf s.reader (s.cs.set j b) := by
  have hrd := hQ.rd
  unfold rdOK at hrd
  have hf := wok_fails hS hI hg hp
  unfold wrOKf
  generalize s.reader = r at hrd ⊢
  cases r with
  | dloop a todo => exact absurd hok (hf hrd.1)
  | dlock a k todo => exact absurd hok (hf hrd.1)
  | dsock => exact absurd hok (hf hrd.1)
  | rexit => exact absurd hok (hf hrd.1)
  | _ => trivial

theorem step_qr_wr2 {s t : St} {e : Ev} (hk : e.isReader = false) (hS : SInv s) (hQ : QS s) (hI : QC s) (hw : wrOK s)
    (hs : step s e = some t) : wrOK t := by
  have hrd := hQ.rd
  unfold rdOK at hrd
  unfold wrOK at hw ⊢
  c08_step_cases hs
  all_goals (first | (simp [Ev.isReader] at hk; done) | skip)
  all_goals (clear hk)
  all_goals first
    | exact hw
    | (exact wr_cwrite hS hQ hI ‹s.cs[_]? = some _› ‹_› ‹_ ∧ _› _)
    | (exact wrOKf_set hw ‹s.cs[_]? = some _› (by simp_all))
    | (exact wrOKf_snoc hw (by simp))

/-- everything "Close returns" needs, in every reachable state. -/
structure QInv (s : St) : Prop where
  qs : QS s
  qc : QC s
  rep : ∀ j c, s.cs[j]? = some c → c.pc = .written → c.replied = true → Frame.reply j ∈ s.inq
  wr : wrOK s

theorem qinv_init : QInv St.init := by
  refine ⟨qs_init, qc_init, ?_, ?_⟩
  · intro j c h; simp [St.init] at h
  · simp [wrOK, wrOKf, St.init]

theorem qinv_step {s t : St} (hS : SInv s) (hI : QInv s) (hst : Step s t) : QInv t := by
  obtain ⟨e, hs⟩ := hst
  refine ⟨qs_step hI.qs hs, qc_step hS hI.qs hI.qc hs, step_qr_rep hI.qc hI.rep hs, ?_⟩
  cases hk : e.isReader
  · exact step_qr_wr2 hk hS hI.qs hI.qc hI.wr hs
  · exact step_qr_wr1 hk hS hI.qs hI.qc hI.wr hs

theorem qinv_reach {s : St} (r : Reach St.init s) : QInv s := by
  induction r with
  | refl => exact qinv_init
  | step r' hst ih => exact qinv_step (sinv_reach r') ih hst

end Teleport.Graceful
