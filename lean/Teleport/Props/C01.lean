/-
Props/C01 — a call's result is the reply to that call, under any concurrency.

System (Model/Calls): ANY number of session pairs (`Sys = List Pair`, `connect` at any moment), on
every end ANY number of goroutines inside `AsyncCall`/`Push` (`callers`) and ANY number of handler
goroutines (`handlers`), ONE reader per end; `Reach` = every interleaving of the atomic steps
`alloc, store, write, recv, hRun, replyWrite, complete, cancel` of all ends of all pairs, any length.
Payloads are opaque tokens; `H`/`Hm` (handler result body / reply metadata as a function of the
handler's input) are arbitrary functions.

Assumptions (stated, not proved here):
  * a frame written is the frame read, for every protocol / codec / filter pipe — wire transparency
    is C05 (`C05_raw_stream`: any number of back-to-back frames decode to the same frame sequence),
    C12 (`C12_pipe_inverts`), C11; here a frame is a value in a FIFO;
  * `write` appends one WHOLE frame (write lock around `WriteMessage`, one `Write` per `Pack`) —
    validated on every run by the harness: every `conn.Write` of every run parses as exactly one frame;
  * recycled contexts / messages are indistinguishable from fresh ones (C20);
  * the `int32` counter does not wrap: fewer than 2^31 sequence numbers are drawn on one session.
-/
import Teleport.Lemmas.Calls
import Teleport.Gen.CallPath
namespace Teleport
namespace C01
open Teleport.Calls

variable {H Hm : Nat → Nat → Nat}

/-- **Sequence numbers identify calls.** In every reachable state, on every end `x` of every session:
    the pending table is injective on seq (two entries with the same sequence number are the same
    entry; the key list has no duplicate), every stored seq and every seq held by a goroutine inside
    `AsyncCall`/`Push` is ≤ the counter, the goroutines hold pairwise distinct numbers, and a number
    that is drawn but not yet stored is not a key — so `callCmdMap.Store` never overwrites a live
    entry and distinct pending calls have distinct seqs. (No wrap-around: see the file header.) -/
theorem C01_seq_injective {s : Sys} (h : Reach H Hm s) {p : Pair} (hp : p ∈ s) {x y : End} (hd : (x, y) ∈ dirs p) :
    (∀ e₁ ∈ x.table, ∀ e₂ ∈ x.table, e₁.1 = e₂.1 → e₁ = e₂) ∧
    (keys x.table).Nodup ∧
    (∀ k ∈ keys x.table, k ≤ x.ctr) ∧
    (∀ c ∈ x.callers, c.seq ≤ x.ctr) ∧
    (∀ c₁ ∈ x.callers, ∀ c₂ ∈ x.callers, c₁.seq = c₂.seq → c₁ = c₂) ∧
    (∀ c ∈ x.callers, c.pc = .alloc → c.seq ∉ keys x.table) := by
  have sq := (dirs_inv h hp hd).sq
  exact ⟨fun e₁ h₁ e₂ h₂ e => nodup_map_inj sq.knodup h₁ h₂ e, sq.knodup, sq.kle, sq.cle,
    fun c₁ h₁ c₂ h₂ e => nodup_map_inj sq.cnodup h₁ h₂ e, sq.afresh⟩

/-- **The result is the own reply.** In every reachable state — any interleaving, any number of
    goroutines and sessions — every completed call `d` (on either end of any session) with OK status
    holds `d.result = H d.args d.mtok` and `d.replyMeta = Hm d.args d.mtok`: exactly what the handler
    function yields for that call's own argument and metadata (`d.args`, `d.mtok` are the values the
    calling goroutine passed to `AsyncCall`: `store` copies them from the goroutine's locals into the
    table entry, `bind` only touches the entry's reply slot, `complete` copies them out). -/
theorem C01_result_is_own_reply {s : Sys} (h : Reach H Hm s) {p : Pair} (hp : p ∈ s) {x y : End}
    (hd : (x, y) ∈ dirs p) {d : Done} (hdn : d ∈ x.done) (hok : d.ok = true) :
    d.result = H d.args d.mtok ∧ d.replyMeta = Hm d.args d.mtok :=
  (dirs_inv h hp hd).lk.kd d hdn hok

/-- the same guarantee one step earlier: a result slot that `bindReply` has filled with an OK reply
    (caller not yet woken) already holds the handler function of that entry's own arguments. -/
theorem C01_bound_slot_is_own_reply {s : Sys} (h : Reach H Hm s) {p : Pair} (hp : p ∈ s) {x y : End}
    (hd : (x, y) ∈ dirs p) {e : Nat × Pending} (he : e ∈ x.table) {r rm : Nat} (hr : e.2.reply = some (true, r, rm)) :
    r = H e.2.args e.2.mtok ∧ rm = Hm e.2.args e.2.mtok :=
  (dirs_inv h hp hd).lk.kt e he r rm hr

/-- **Every handler input is a sent message, exactly once.** For every direction `x → y` of every
    session in every reachable state: the log of inputs bound by `y`'s reader (`y.invoked`: one entry
    per handler / push-receiver invocation, in binding order) is a PREFIX of the log of CALL/PUSH
    messages `x` has written (`x.sent`) — the k-th invocation's (type, body, metadata) is exactly the
    k-th issued message of the peer, so no input is invented, altered, duplicated or taken from
    anywhere else; every live handler goroutine `g` holds the input at its own position `g.idx` of
    that log, positions of distinct goroutines are distinct, and what a handler has produced is the
    handler function of that very input. -/
theorem C01_handler_input_is_sent {s : Sys} (h : Reach H Hm s) {p : Pair} (hp : p ∈ s) {x y : End}
    (hd : (x, y) ∈ dirs p) :
    (∃ inflight, x.sent = y.invoked ++ inflight) ∧
    (∀ g ∈ y.handlers, x.sent[g.idx]? = some ⟨g.isPush, g.body, g.mtok⟩) ∧
    (∀ g₁ ∈ y.handlers, ∀ g₂ ∈ y.handlers, g₁.idx = g₂.idx → g₁ = g₂) ∧
    (∀ g ∈ y.handlers, ∀ r rm, g.out = some (true, r, rm) → r = H g.body g.mtok ∧ rm = Hm g.body g.mtok) := by
  have inv := dirs_inv h hp hd
  refine ⟨⟨_, inv.ff.fifo⟩, ?_, fun g₁ h₁ g₂ h₂ e => nodup_map_inj inv.ff.inodup h₁ h₂ e, inv.hl⟩
  intro g hg
  have := inv.ff.hidx g hg
  rw [inv.ff.fifo, List.getElem?_append_left (getElem?_lt_of_some this)]
  exact this

/-- **Nothing crosses sessions.** A step of session `i` (a) leaves the component of every other
    session untouched and (b) is a function of session `i`'s own component only: in any other
    system holding the same pair at `i` the same step is enabled and yields the same pair. Together
    with `SInv` being a conjunction over the pairs (`SInv s ↔ ∀ p ∈ s, PInv p`, by definition), nothing
    of another session can be observed in a call result, a handler input or a push. -/
theorem C01_cross_session {s t : Sys} {i : Nat} {sd : Side} {e : Ev} (h : step H Hm s i sd e = some t) :
    (∀ j, j ≠ i → t[j]? = s[j]?) ∧ t.length = s.length ∧
    (∀ s' : Sys, s'[i]? = s[i]? → ∃ t', step H Hm s' i sd e = some t' ∧ t'[i]? = t[i]?) := by
  obtain ⟨p, q, hp, hq, rfl⟩ := step_spec h
  refine ⟨fun j hj => by rw [List.getElem?_set_ne (Ne.symm hj)], by simp, fun s' hs' => ?_⟩
  have hi : i < s.length := getElem?_lt_of_some hp
  have hi' : i < s'.length := getElem?_lt_of_some (hs'.trans hp)
  refine ⟨s'.set i q, by simp [step, hs', hp, hq], ?_⟩
  rw [List.getElem?_set_self hi', List.getElem?_set_self hi]

/-- the invariant behind the theorems holds in every reachable state and is a product over sessions. -/
theorem C01_invariant {s : Sys} (h : Reach H Hm s) : ∀ p ∈ s, DInv H Hm p.a p.b ∧ DInv H Hm p.b p.a :=
  reach_inv h

/-! ### non-vacuity: concrete reachable states -/

/-- two sessions; on session 0 two goroutines of end A call concurrently (5,7) and (6,8), a push
    (9,1) goes the other way; the second call's frame is written first, replies come back in the order
    of the handlers' finishing; both calls complete — with their own results. On session 1 a call is
    cancelled. -/
def demoSchedule : List (Nat × Side × Ev) :=
  [(0, .a, .alloc false 5 7), (0, .a, .alloc false 6 8), (0, .b, .alloc true 9 1), (1, .a, .alloc false 4 4),
   (0, .a, .store 2), (0, .a, .store 1), (1, .a, .store 1), (0, .a, .write 2), (0, .b, .write 1), (0, .a, .write 1),
   (0, .b, .recv), (0, .b, .recv), (0, .a, .recv), (0, .a, .hRun 0 true),
   (0, .b, .hRun 1 true), (0, .b, .hRun 0 true), (0, .b, .replyWrite 1), (0, .b, .replyWrite 0),
   (0, .a, .recv), (0, .a, .recv), (0, .a, .complete 2), (0, .a, .complete 1), (1, .a, .cancel 1)]

def demoH (a m : Nat) : Nat := a + 3 * m
def demoHm (a m : Nat) : Nat := 2 * a + m + 1

/-- the schedule is enabled step by step; the two calls of session 0 completed with the handler
    function of their OWN tokens (26 = 5 + 3·7, 18 = 2·5 + 7 + 1; 30 = 6 + 3·8, 21 = 2·6 + 8 + 1) although the
    frames crossed; every bound input is a sent message. -/
example : (runEvs demoH demoHm (connect (connect [])) demoSchedule).map
      (fun t => (t.map (fun p => p.a.done), t.map (fun p => p.a.invoked), t.map (fun p => p.b.invoked))) =
    some ([[⟨1, 5, 7, true, 26, 18⟩, ⟨2, 6, 8, true, 30, 21⟩], [⟨1, 4, 4, false, 0, 0⟩]],
          [[⟨true, 9, 1⟩], []],
          [[⟨false, 6, 8⟩, ⟨false, 5, 7⟩], []]) := by decide

/-- ... and its final state is reachable, so all the theorems above speak about it. -/
example : ∀ t, runEvs demoH demoHm (connect (connect [])) demoSchedule = some t → Reach demoH demoHm t :=
  fun _ ht => Reach.run (Reach.connect (Reach.connect Reach.init)) ht

/-! ## tie A: the statement shape of the call path (`Teleport.Gen.CallPath`, regenerated from
`session.go` / `context.go` on every run by `srcfacts`). Each theorem states "the extracted fact = the
shape Model/Calls assumes"; a change of that shape in the Go source changes the generated list and the
theorem no longer checks. -/

/-- keep only the landmarks named in `ks` (the order relative to other landmarks is not the fact). -/
def proj (ks l : List String) : List String := l.filter ks.contains

/-- **Model step `alloc` is one atomic step.** `Calls.estep (.alloc ..)` increments the end's counter and
    hands the new value to the goroutine in ONE transition (`ctr := x.ctr + 1`, caller gets `x.ctr + 1`),
    which is what `C01_seq_injective` rests on. The code justifies it iff the value given to the single
    `output.SetSeq(...)` of `AsyncCall` and of `Push` IS the result of `atomic.AddInt32(&s.seq, 1)` (directly
    or through a variable with exactly that one definition), the `seq` field is mentioned nowhere else in
    the two functions (no plain read or write beside the atomic add), the pending table is keyed by that
    same variable, and `bindReply` looks the call up by the received header's `Seq()`. -/
theorem C01_callpath_seq_atomic :
    Gen.callPath_missing = [] ∧
    Gen.asyncCall_seq_source = ["atomic.AddInt32(&recv.seq, 1)"] ∧ Gen.asyncCall_seq_refs = 1 ∧
    Gen.push_seq_source = ["atomic.AddInt32(&recv.seq, 1)"] ∧ Gen.push_seq_refs = 1 ∧
    Gen.asyncCall_store_key = ["the sequence variable"] ∧
    Gen.bindReply_lookup_key = ["param.Seq()"] := by
  decide

/-- **Model order `alloc < store < write`.** `Calls.CPc` has the program counters `alloc` (after the
    atomic add) and `stored` (after `callCmdMap.Store`, before `s.write`); `Caller.canWrite` lets a CALL be
    written only from `stored`, a PUSH from `alloc`. So a reply can only arrive for a sequence number
    whose entry is already in the table (`C01_result_is_own_reply`, `C01_bound_slot_is_own_reply`). The
    code justifies it iff in `AsyncCall` the three landmarks occur exactly once each and in this order,
    and in `Push` the allocation precedes the write. -/
theorem C01_callpath_store_before_write :
    Gen.callPath_missing = [] ∧
    proj ["seq.alloc", "table.store", "write"] Gen.asyncCall_landmarks = ["seq.alloc", "table.store", "write"] ∧
    proj ["seq.alloc", "table.store", "write"] Gen.push_landmarks = ["seq.alloc", "write"] := by
  decide

/-- **Model step `write` appends one WHOLE frame.** In `Calls.estep (.write n)` the frame is appended to
    the direction's FIFO in one transition. The code justifies it iff `session.write` loads and checks the
    status, takes `writeLock`, defers its release and calls `socket.WriteMessage` exactly once, lexically
    inside the locked region (no early unlock, not in a closure), and EVERY `.WriteMessage(` call of the
    root package (the other one is `doSend`, the pre-session sender) sits inside such a region. (That one
    `WriteMessage` is one `Write` on the connection is `C05_frames_single_write`.) -/
theorem C01_callpath_write_whole_frame :
    Gen.callPath_missing = [] ∧
    Gen.write_landmarks = ["status.load", "status.check", "writeLock.lock", "defer writeLock.unlock", "WriteMessage"] ∧
    Gen.writeMessage_sites.all (fun s => s.2 == "locked") = true ∧
    (Gen.writeMessage_sites.filter (fun s => s.1 == "session.write")).length = 1 := by
  decide

end C01
end Teleport
