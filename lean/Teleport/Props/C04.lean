/-
Props/C04 — The caller sees OK iff the handler succeeded and the reply was decoded; otherwise it is
exactly the code, message and cause produced by the handler or by the framework rule that applies.
`Dispatch.callerObs` = caller side of `AsyncCall` ∘ server decision `handleFrame` (the C03 model) ∘
status transport of the wire protocol ∘ `bindReply`/`handleReply`.
Statuses range over every int32 code and all message / cause byte strings.
-/
import Teleport.Lemmas.Dispatch
import Teleport.Lemmas.Raw
import Teleport.Gen.Consts
import Teleport.Lemmas.WsSubProto
namespace Teleport
namespace C04
open Dispatch

/-! ### status transport -/

/-- Every protocol whose frame has a status field delivers code, message and cause unchanged, for
    every int32 code and all byte strings (C05's `Status.decode_encode`). -/
theorem C04_transport_exact (p : Proto) (st : Status) (hp : p.carriesStatus = true) (hc : Num.inInt32 st.code) :
    transport p st = some st := by
  unfold transport; simp [hp, Status.decode_encode st hc]

/-- Raw protocol, byte level: the REPLY frame packed by the server and unpacked by the caller has
    the same status, seq and type (within the protocol limits `Raw.WF`). -/
theorem C04_raw_wire (reg : Registry) (limit : Nat) (m : Msg) (bs rest : Bytes) (sz : Nat)
    (hw : Raw.WF reg m) (hp : Raw.pack reg limit m = .ok (bs, sz)) (hlt : bs.length < 4294967296) :
    ∃ m', (Raw.unpack reg limit (bs ++ rest)).out = .ok m' rest ∧
      m'.status = m.status ∧ m'.seq = m.seq ∧ m'.mtype = m.mtype := by
  have := (Raw.unpack_pack reg limit m bs rest sz hw hp hlt).1
  exact ⟨{ m with size := sz }, by rw [this], rfl, rfl, rfl⟩

/-- The protobuf websocket sub-protocol has no status field: whatever status the reply carries, the
    caller's frame has the zero status (witness: 404 "Not Found" arrives as OK). The JSON websocket
    sub-protocol carries the status since fix C04b (`C04_transport_exact` applies to it). -/
theorem C04_ws_subproto_witness :
    transport .wsPb stNotFound = some Status.zero ∧ (Status.zero).ok = true ∧ stNotFound.ok = false ∧
    transport .wsJson stNotFound = some stNotFound := by
  refine ⟨by decide, by decide, by decide, C04_transport_exact _ _ rfl (by decide)⟩

/-! ### server side: which REPLY each cause produces -/

/-- rule 404: no such route and no unknown-call handler → `(404, "Not Found", "")`. -/
theorem C04_rule_not_found (sc : Scenario) (hs : QuietServer sc)
    (hv : veto? sc.pv.postReadHeader = none) (hm : sc.frame.method.isEmpty = false)
    (hr : lookup sc.cfg.calls sc.cfg.rawCalls sc.cfg.unknownCall sc.frame.method = .none) :
    sc.outcome.replies = [⟨sc.frame.seq, stNotFound, 0, false⟩] ∧ sc.outcome.invocations = 0 := by
  have e1 : (sc.frame.mtype == tReply) = false := by rw [hs.call]; decide
  have e2 : (sc.frame.mtype == tPush) = false := by rw [hs.call]; decide
  have e3 : (sc.frame.mtype == tCall) = true := by rw [hs.call]; decide
  have hb : binding sc.cfg sc.frame sc.pv = ⟨stNotFound, .nil, false⟩ := by
    simp [binding, e1, e2, e3, bindRoute, hv, hm, hr]
  apply error_reply sc hs stNotFound
  · simp [leaves, frameErr, hb, readErr, hs.goon]
  · simp [statAfterRead, frameErr, hb, readErr]
  · decide
  · decide

/-- rule 400 (empty method) → `(400, "Bad Message", "invalid service method for message")`. -/
theorem C04_rule_empty_method (sc : Scenario) (hs : QuietServer sc)
    (hv : veto? sc.pv.postReadHeader = none) (hm : sc.frame.method.isEmpty = true) :
    sc.outcome.replies = [⟨sc.frame.seq, stBadMethod, 0, false⟩] ∧ sc.outcome.invocations = 0 := by
  have e1 : (sc.frame.mtype == tReply) = false := by rw [hs.call]; decide
  have e2 : (sc.frame.mtype == tPush) = false := by rw [hs.call]; decide
  have e3 : (sc.frame.mtype == tCall) = true := by rw [hs.call]; decide
  have hb : binding sc.cfg sc.frame sc.pv = ⟨stBadMethod, .nil, false⟩ := by
    simp [binding, e1, e2, e3, bindRoute, hv, hm]
  apply error_reply sc hs stBadMethod
  · simp [leaves, frameErr, hb, readErr, hs.goon]
  · simp [statAfterRead, frameErr, hb, readErr]
  · decide
  · decide

/-- rule 400 (bad body): a registered typed route, a non-empty body whose codec id is not 0 and
    which cannot be decoded (error text `e`) → `(400, "Bad Message", e)`. -/
theorem C04_rule_bad_body (sc : Scenario) (hs : QuietServer sc) (e : Bytes)
    (hv : veto? sc.pv.postReadHeader = none) (hv2 : veto? sc.pv.preReadBody = none)
    (hm : sc.frame.method.isEmpty = false)
    (hr : lookup sc.cfg.calls sc.cfg.rawCalls sc.cfg.unknownCall sc.frame.method = .exact false)
    (hbody : sc.frame.bodyEmpty = false) (hc0 : (sc.frame.codec == 0) = false)
    (herr : readErr sc.cfg.codecs sc.env.dec sc.frame.codec false .value = some e) :
    sc.outcome.replies = [⟨sc.frame.seq, stBadMessage e, 0, false⟩] ∧ sc.outcome.invocations = 0 := by
  have e1 : (sc.frame.mtype == tReply) = false := by rw [hs.call]; decide
  have e2 : (sc.frame.mtype == tPush) = false := by rw [hs.call]; decide
  have e3 : (sc.frame.mtype == tCall) = true := by rw [hs.call]; decide
  have hb : binding sc.cfg sc.frame sc.pv = ⟨Status.zero, .value, true⟩ := by
    simp [binding, e1, e2, e3, bindRoute, hv, hv2, hm, hr]
  apply error_reply sc hs (stBadMessage e)
  · simp [leaves, frameErr, hb, hbody, herr, hc0, hs.goon]
  · simp [statAfterRead, frameErr, hb, hbody, herr]
  · simp [stBadMessage, copyOf, Status.ok]
  · simp [stBadMessage, copyOf]

/-- a veto at a pre-handler stage in the reader (`postReadCallHeader`) → the plugin's status. -/
theorem C04_rule_veto_header (sc : Scenario) (hs : QuietServer sc) (v : Status)
    (hv : veto? sc.pv.postReadHeader = some v) (h405 : (v.code == 405) = false) :
    sc.outcome.replies = [⟨sc.frame.seq, v, 0, false⟩] ∧ sc.outcome.invocations = 0 := by
  have e1 : (sc.frame.mtype == tReply) = false := by rw [hs.call]; decide
  have e2 : (sc.frame.mtype == tPush) = false := by rw [hs.call]; decide
  have e3 : (sc.frame.mtype == tCall) = true := by rw [hs.call]; decide
  have hb : binding sc.cfg sc.frame sc.pv = ⟨v, .nil, false⟩ := by
    simp [binding, e1, e2, e3, bindRoute, hv]
  have hvok : v.ok = false := by
    unfold veto? at hv
    cases h : sc.pv.postReadHeader with
    | none => simp [h] at hv
    | some s =>
      simp only [h, Option.bind_some] at hv
      split at hv
      · simp at hv
      · rename_i hn; simp only [Option.some.injEq] at hv; subst hv; simpa using hn
  apply error_reply sc hs v
  · simp [leaves, frameErr, hb, readErr, hs.goon]
  · simp [statAfterRead, frameErr, hb, readErr]
  · exact hvok
  · exact h405

/-- rule 500: the handler panics with a value whose text is `p` → `(500, "Internal Server Error", p)`,
    one invocation, one reply. -/
theorem C04_rule_panic (sc : Scenario) (hs : QuietServer sc) (hr : Reached sc) (p : Bytes) (slow : Bool)
    (hb : sc.hb = .panic p slow) :
    sc.outcome.replies = [⟨sc.frame.seq, stInternal p, 0, false⟩] ∧ sc.outcome.invocations = 1 := by
  rw [reached_handleCall sc hs hr]
  unfold handleCall
  simp [hr.hv3, hb, hs.noAge, effW, panicPhase, hs.w1, mkReply, stInternal, copyOf, Status.ok, Status.zero]

/-- the handler's own failure status is the reply's status, whatever code, message and cause. -/
theorem C04_rule_handler_status (sc : Scenario) (hs : QuietServer sc) (hr : Reached sc) (st : Status) (r : Ret)
    (slow : Bool) (hb : sc.hb = .ret st r slow) (hok : st.ok = false) :
    sc.outcome.replies = [⟨sc.frame.seq, st, 0, false⟩] ∧ sc.outcome.invocations = 1 := by
  rw [reached_handleCall sc hs hr]
  unfold handleCall
  have hz : Status.zero.ok = true := by decide
  simp [hz, hr.hv3, hb, hok, hs.noAge, effW, replyPhase, hs.w1, mkReply]

/-- the handler succeeds and the result can be marshalled: an OK reply with a body. -/
theorem C04_rule_ok (sc : Scenario) (hs : QuietServer sc) (hr : Reached sc) (st : Status) (r : Ret)
    (slow : Bool) (hb : sc.hb = .ret st r slow) (hok : st.ok = true)
    (hm : marshalErr sc.cfg (replyCodec sc.cfg sc.frame r.setCodec) r = none) :
    sc.outcome.replies = [⟨sc.frame.seq, Status.zero, replyCodec sc.cfg sc.frame r.setCodec, true⟩] ∧
    sc.outcome.invocations = 1 := by
  rw [reached_handleCall sc hs hr]
  unfold handleCall
  have hz : Status.zero.ok = true := by decide
  simp [hz, hr.hv3, hb, hok, hs.noAge, effW, hm, replyPhase, hs.w1, mkReply]

/-! ### caller side -/

/-- `C04_exact`, caller half: an error REPLY (no body) is seen by the caller exactly as written —
    code, message, cause — over every protocol that has a status field, for every int32 code. -/
theorem C04_exact (sc : Scenario) (hc : QuietClient sc.cli) (hp : sc.proto.carriesStatus = true)
    (st : Status) (hcode : Num.inInt32 st.code) (hok : st.ok = false)
    (hrep : sc.outcome.replies = [⟨sc.frame.seq, st, 0, false⟩]) :
    callerObs sc = .done st false := by
  unfold callerObs
  simp only [hc.w, hc.open_, hc.wrote, hrep, Bool.false_eq_true, if_false, C04_transport_exact _ _ hp hcode]
  unfold clientReply
  simp [hc.h, hc.b, readErr, hok]

/-- … and the failures on the caller's own side: a vetoing `preWriteCall` plugin's status, 102 for
    a closed session, 104 for a failed write — nothing is sent and the status is exactly that. -/
theorem C04_exact_local (sc : Scenario) :
    (∀ v, veto? sc.cli.preWriteCall = some v → callerObs sc = .done v false) ∧
    (veto? sc.cli.preWriteCall = none → sc.cli.closed = true → callerObs sc = .done stConnClosed false) ∧
    (∀ e, veto? sc.cli.preWriteCall = none → sc.cli.closed = false → sc.cli.writeFail = some e →
      callerObs sc = .done (stWriteFailed e) false) := by
  refine ⟨?_, ?_, ?_⟩
  · intro v h; unfold callerObs; rw [h]
  · intro h1 h2; unfold callerObs; rw [h1]; simp [h2]
  · intro e h1 h2 h3; unfold callerObs; rw [h1]; simp [h2, h3]

/-- … and a disconnect instead of a reply (e.g. unsupported type, undecodable body with codec id 0):
    102 "Connection Closed" with the read error text, if any, as the cause. -/
theorem C04_exact_disconnected (sc : Scenario) (hc : QuietClient sc.cli)
    (hrep : sc.outcome.replies = []) (hd : sc.outcome.disconnected = true) :
    callerObs sc = .done (connClosedWith sc.cli.discReason) false := by
  unfold callerObs
  simp [hc.w, hc.open_, hc.wrote, hrep, hd]

/-
FULL STATEMENT (the property text):
    (∃ d, callerObs sc = .done st d ∧ st.ok) ↔ handler ran to completion ∧ returned OK ∧ reply body decoded
`C04_ok_iff` proves it over every protocol whose frame has a status field: OK ⇔ (an OK reply was
written ∧ the reply was decoded into the caller's result); `C04_ok_implies_handler_ok` adds that an
OK reply is written only by a handler that ran once, to completion, and returned OK; `C04_rule_ok`
is the converse on the server side. `C04_rule_undecodable_reply` is the framework rule for the
remaining case (400 "Bad Message", cause = the decoder's error text).
Still open: `C04_ws_subproto_witness` / `C04_ok_iff_witness_ws` — over the protobuf websocket
sub-protocol (generated payload message without a status field) a failing handler's status never
reaches the caller; the JSON websocket sub-protocol carries it since fix C04b.
-/

/-- Caller OK ⇔ the server wrote an OK reply and the reply was decoded into the caller's result
    (with a quiet caller: no caller-side plugin veto, request written). When the caller sees OK, the
    result object was filled iff the reply had a body. -/
theorem C04_ok_iff (sc : Scenario) (hc : QuietClient sc.cli) (hp : sc.proto.carriesStatus = true)
    (r : Reply) (hrep : sc.outcome.replies = [r]) (hcode : Num.inInt32 r.status.code) :
    (∃ st d, callerObs sc = .done st d ∧ st.ok = true) ↔
      (r.status.ok = true ∧ readErr sc.cli.codecs sc.cli.rdec r.codec (!r.hasBody) sc.cli.obj = none) := by
  have ht := C04_transport_exact _ _ hp hcode
  rw [callerObs_reply sc hc r r.status hrep ht]
  unfold clientReply
  rw [hc.h, hc.b, hc.p]
  cases hh : readErr sc.cli.codecs sc.cli.rdec r.codec (!r.hasBody) sc.cli.obj with
  | some e =>
    cases hr : r.status.ok with
    | true => simp [stBadMessage, copyOf, Status.ok]
    | false => simp [hr]
  | none =>
    cases hr : r.status.ok with
    | true => simp [hr]
    | false => simp [hr]

/-- … and then the caller's status is the reply's (zero) status and the result is filled from the
    reply body. -/
theorem C04_ok_decoded (sc : Scenario) (hc : QuietClient sc.cli) (hp : sc.proto.carriesStatus = true)
    (r : Reply) (hrep : sc.outcome.replies = [r]) (hcode : Num.inInt32 r.status.code)
    (hok : r.status.ok = true)
    (hdec : readErr sc.cli.codecs sc.cli.rdec r.codec (!r.hasBody) sc.cli.obj = none) :
    callerObs sc = .done r.status r.hasBody := by
  have ht := C04_transport_exact _ _ hp hcode
  rw [callerObs_reply sc hc r r.status hrep ht]
  unfold clientReply
  rw [hc.h, hc.b, hc.p, hdec]
  simp [hok]

/-- rule 400 on the caller's side: an OK reply whose body cannot be decoded into the caller's
    result (any codec id, decoder error text `e`) completes the call with
    `(400, "Bad Message", e)` and the result left unset — the rule the server applies to an
    undecodable CALL body (`C04_rule_bad_body`). -/
theorem C04_rule_undecodable_reply (sc : Scenario) (hc : QuietClient sc.cli) (hp : sc.proto.carriesStatus = true)
    (r : Reply) (hrep : sc.outcome.replies = [r]) (hcode : Num.inInt32 r.status.code)
    (hok : r.status.ok = true) (e : Bytes)
    (herr : readErr sc.cli.codecs sc.cli.rdec r.codec (!r.hasBody) sc.cli.obj = some e) :
    callerObs sc = .done (stBadMessage e) false := by
  have ht := C04_transport_exact _ _ hp hcode
  rw [callerObs_reply sc hc r r.status hrep ht]
  unfold clientReply
  rw [hc.h, hc.b, hc.p, herr]
  simp [hok]

/-- "⇒" of the property over every protocol with a status field: if the caller sees OK then the
    handler was invoked exactly once, ran to completion and returned OK. -/
theorem C04_ok_implies_handler_ok (sc : Scenario) (hp : sc.proto.carriesStatus = true)
    (hcodes : ∀ r ∈ sc.outcome.replies, Num.inInt32 r.status.code)
    (st : Status) (d : Bool) (hobs : callerObs sc = .done st d) (hok : st.ok = true) :
    sc.outcome.invocations = 1 ∧ ∃ hst rt s, sc.hb = .ret hst rt s ∧ hst.ok = true := by
  have hrep : ∃ r, r ∈ sc.outcome.replies ∧ r.status.ok = true := by
    unfold callerObs at hobs
    cases h1 : veto? sc.cli.preWriteCall with
    | some v =>
      rw [h1] at hobs; simp only [Obs.done.injEq] at hobs
      have := vetoNotOk _ v h1; rw [hobs.1] at this; simp [this] at hok
    | none =>
      rw [h1] at hobs
      cases h2 : sc.cli.closed with
      | true => simp [h2] at hobs; rw [← hobs.1] at hok; exact absurd hok (by decide)
      | false =>
        cases h3 : sc.cli.writeFail with
        | some e => simp [h2, h3] at hobs; rw [← hobs.1] at hok; simp [stWriteFailed, copyOf, Status.ok] at hok
        | none =>
          cases h4 : sc.outcome.replies with
          | nil =>
            cases h5 : sc.outcome.disconnected with
            | true =>
              simp [h2, h3, h4, h5] at hobs; rw [← hobs.1] at hok
              cases h6 : sc.cli.discReason <;> simp [h6, connClosedWith, stConnClosed, sentinel, copyOf, Status.ok] at hok
            | false => simp [h2, h3, h4, h5] at hobs
          | cons r rest =>
            have hmem : r ∈ sc.outcome.replies := by rw [h4]; simp
            have ht := C04_transport_exact _ _ hp (hcodes r hmem)
            simp [h2, h3, h4, ht] at hobs
            refine ⟨r, by simp, ?_⟩
            unfold clientReply at hobs
            cases h5 : veto? sc.cli.postReadReplyHeader with
            | some v =>
              rw [h5] at hobs; simp only [Obs.done.injEq] at hobs
              have := vetoNotOk _ v h5; rw [hobs.1] at this; simp [this] at hok
            | none =>
              cases h6 : veto? sc.cli.preReadReplyBody with
              | some v =>
                rw [h5, h6] at hobs; simp only [Obs.done.injEq] at hobs
                have := vetoNotOk _ v h6; rw [hobs.1] at this; simp [this] at hok
              | none =>
                rw [h5, h6] at hobs
                cases h7 : readErr sc.cli.codecs sc.cli.rdec r.codec (!r.hasBody) sc.cli.obj with
                | some e =>
                  simp only [h7, Obs.done.injEq] at hobs
                  cases hro : r.status.ok with
                  | true => rfl
                  | false => simp [hro] at hobs; rw [← hobs.1] at hok; rw [hro] at hok; exact absurd hok (by decide)
                | none =>
                  simp only [h7, Obs.done.injEq] at hobs
                  cases hro : r.status.ok with
                  | true => rfl
                  | false => simp [hro] at hobs; rw [← hobs.1] at hok; rw [hro] at hok; exact absurd hok (by decide)
  obtain ⟨r, hr, hro⟩ := hrep
  -- and an OK reply only from the handler
  have hcs := handleFrame_cases sc.cfg sc.env sc.frame sc.hb sc.pv sc.wr
  unfold Scenario.outcome at hr ⊢
  generalize handleFrame sc.cfg sc.env sc.frame sc.hb sc.pv sc.wr = o at hcs hr ⊢
  cases hcs with
  | left st => simp at hr
  | refused st h => simp at hr
  | handled h =>
    have hh := handle_cases sc.cfg sc.frame (binding sc.cfg sc.frame sc.pv)
      (statAfterRead sc.cfg sc.env sc.frame sc.pv) sc.hb sc.pv sc.wr.1 sc.wr.2
    generalize handle sc.cfg sc.frame (binding sc.cfg sc.frame sc.pv)
      (statAfterRead sc.cfg sc.env sc.frame sc.pv) sc.hb sc.pv sc.wr.1 sc.wr.2 = o at hh hr ⊢
    cases hh with
    | close => simp at hr
    | reply h' => simp at hr
    | push h' => simp [(handlePush_facts _ _ _).2.2.1] at hr
    | call h' _ => exact ok_reply_from_handler _ _ _ _ _ _ _ r hr hro

/-! ### Witnesses -/

def exCfg : Cfg := { calls := [[47, 97]], rawCalls := [[47, 97]], codecs := [106] }
def exFrame : Frame := ⟨1, 7, [47, 97], 106, false, none⟩
def exRet : Ret := { rawResult := true }
/-- the handler returns the JSON string `"str"`, the caller asked for an int: decode error `e`. -/
def exUndecodable : Scenario :=
  { proto := .raw, cfg := exCfg, frame := exFrame, hb := .ret Status.zero exRet false,
    cli := { codecs := [106], rdec := some [101] } }
/-- over the protobuf websocket sub-protocol, a handler failing with (7, "no", nil). -/
def exWs : Scenario :=
  { proto := .wsPb, cfg := exCfg, frame := exFrame, hb := .ret ⟨7, [110, 111], none⟩ exRet false,
    cli := { codecs := [106] } }
def exFail : Scenario :=
  { exUndecodable with hb := .ret ⟨-2147483648, [37, 0, 255], some []⟩ exRet false }
def exNoRoute : Scenario := { exUndecodable with frame := { exFrame with method := [47, 98] } }

/-- The former defect `c04:undecodable-reply-seen-as-ok`, repaired: the handler returns the JSON
    string `"str"`, the caller asked for an int — the caller now sees `(400, "Bad Message", e)`
    (`C04_rule_undecodable_reply` applies: non-vacuity). -/
example : callerObs exUndecodable = .done (stBadMessage [101]) false :=
  C04_rule_undecodable_reply exUndecodable ⟨rfl, rfl, rfl, rfl, rfl, rfl⟩ rfl ⟨7, Status.zero, 106, true⟩
    (by decide) (by decide) (by decide) [101] (by decide)

/-- the same call with a reply body that decodes. -/
def exDecodable : Scenario := { exUndecodable with cli := { codecs := [106] } }

/-- `C04_ok_iff` / `C04_ok_decoded` apply (non-vacuity): OK, result filled. -/
example : callerObs exDecodable = .done Status.zero true :=
  C04_ok_decoded exDecodable ⟨rfl, rfl, rfl, rfl, rfl, rfl⟩ rfl ⟨7, Status.zero, 106, true⟩
    (by decide) (by decide) (by decide) (by decide)
example : ∃ st d, callerObs exDecodable = .done st d ∧ st.ok = true :=
  (C04_ok_iff exDecodable ⟨rfl, rfl, rfl, rfl, rfl, rfl⟩ rfl ⟨7, Status.zero, 106, true⟩ (by decide) (by decide)).2
    ⟨by decide, by decide⟩
example : ¬ ∃ st d, callerObs exUndecodable = .done st d ∧ st.ok = true := fun h =>
  absurd ((C04_ok_iff exUndecodable ⟨rfl, rfl, rfl, rfl, rfl, rfl⟩ rfl ⟨7, Status.zero, 106, true⟩ (by decide)
    (by decide)).1 h).2 (by decide)

/-- Defect (open): over the protobuf websocket sub-protocol a handler failing with (7, "no", nil) is
    seen as OK; over the JSON one it is seen exactly (next example). -/
theorem C04_ok_iff_witness_ws : callerObs exWs = .done Status.zero false := by
  rw [callerObs_reply exWs ⟨rfl, rfl, rfl, rfl, rfl, rfl⟩ ⟨7, ⟨7, [110, 111], none⟩, 0, false⟩ Status.zero
    (by decide) (by decide)]
  decide

/-- the same failing handler over the JSON websocket sub-protocol is seen exactly (fix C04b;
    `C04_rule_handler_status` + `C04_exact` apply with `proto := .wsJson`). -/
example : callerObs { exWs with proto := .wsJson } = .done ⟨7, [110, 111], none⟩ false :=
  C04_exact { exWs with proto := .wsJson } ⟨rfl, rfl, rfl, rfl, rfl, rfl⟩ rfl _ (by decide) (by decide)
    (C04_rule_handler_status { exWs with proto := .wsJson } ⟨rfl, rfl, rfl, rfl, rfl, rfl⟩
      ⟨rfl, rfl, rfl, rfl, ⟨true, .inl (by decide)⟩, by intro obj; cases obj <;> decide⟩ _ exRet false rfl (by decide)).1

/-! ### Non-vacuity -/

example : QuietServer exUndecodable := ⟨rfl, rfl, rfl, rfl, rfl, rfl⟩
example : QuietClient exUndecodable.cli := ⟨rfl, rfl, rfl, rfl, rfl, rfl⟩
example : Reached exUndecodable :=
  ⟨rfl, rfl, rfl, rfl, ⟨true, .inl (by decide)⟩, by intro obj; cases obj <;> decide⟩
/-- a handler failing with min-int32 and odd bytes is seen exactly (`C04_rule_handler_status` + `C04_exact`). -/
example : callerObs exFail = .done ⟨-2147483648, [37, 0, 255], some []⟩ false :=
  C04_exact exFail ⟨rfl, rfl, rfl, rfl, rfl, rfl⟩ rfl _ (by decide) (by decide)
    (C04_rule_handler_status exFail ⟨rfl, rfl, rfl, rfl, rfl, rfl⟩
      ⟨rfl, rfl, rfl, rfl, ⟨true, .inl (by decide)⟩, by intro obj; cases obj <;> decide⟩ _ exRet false rfl (by decide)).1
/-- unknown route → the 404 sentinel at the caller (`C04_rule_not_found` + `C04_exact`). -/
example : callerObs exNoRoute = .done stNotFound false :=
  C04_exact exNoRoute ⟨rfl, rfl, rfl, rfl, rfl, rfl⟩ rfl _ (by decide) (by decide)
    (C04_rule_not_found exNoRoute ⟨rfl, rfl, rfl, rfl, rfl, rfl⟩ rfl (by decide) (by decide)).1


/-! ### tie A — framework status codes, texts and sentinels (fact group `Consts`) -/

/-- ASCII text of a regenerated constant as bytes. -/
def constBytes (s : String) : Bytes := s.toList.map (fun c => c.toNat.toUInt8)

/-- the predefined status `name` as status.go / session.go declare it now (arguments evaluated). -/
def genSentinel (name : String) : Option Status :=
  (Gen.consts_sentinels.find? (·.1 == name)).map fun r =>
    ⟨r.2.1, constBytes r.2.2.1, if r.2.2.2 == "!nil" then none else some (constBytes r.2.2.2)⟩

/-- `<sentinel>.Copy(cause)` of the regenerated sentinel. -/
def genCopy (name : String) (cause : Bytes) : Option Status :=
  (genSentinel name).map fun s => { s with cause := some cause }

def genCode (name : String) : Option Int := Gen.consts_codes.lookup name

/-- probe configuration: one CALL route `/c`, json registered. -/
def kCfg : Cfg := { calls := [[47, 99]], codecs := [106] }
def kFrame (t : UInt8) (m : Bytes) : Frame := { mtype := t, seq := 7, method := m, codec := 106, bodyEmpty := false }

/-- **C04 tie A, framework rule statuses**: every status the dispatch model produces by a framework rule
    is the predefined status of status.go with the code, text (`CodeText` EXECUTED on the code) and cause
    the source declares now — obtained by RUNNING the model: unknown route → `statNotFound`; message type
    outside CALL/REPLY/PUSH → `statCodeMtypeNotAllowed`, and that code is the one `handle` closes the
    session on; empty service method → `statBadMessage.Copy("invalid service method for message")` (the
    text of the `Copy` call in bindCall and bindPush); undecodable body → `statBadMessage.Copy(err)`;
    handler panic → `statInternalServerError.Copy(p)`; failed write → `statWriteFailed.Copy(e)` then
    `statInternalServerError.Copy(e)`; closed session → `statConnClosed`. Every sentinel's text is
    `CodeText` of its code. Changing `CodeNotFound`'s value or text breaks this. -/
theorem C04_consts_dispatch_statuses :
    Gen.consts_missing = [] ∧
    some (binding kCfg (kFrame tCall [47, 122]) {}).stat = genSentinel "statNotFound" ∧
    some (binding kCfg (kFrame 9 [47, 99]) {}).stat = genSentinel "statCodeMtypeNotAllowed" ∧
    (genSentinel "statCodeMtypeNotAllowed").map
      (fun s => (handle kCfg (kFrame tCall [47, 99]) (binding kCfg (kFrame tCall [47, 99]) {}) s
        (.ret Status.zero {} false) {} .sent .sent).closeRequested) = some true ∧
    (genSentinel "statNotFound").map
      (fun s => (handle kCfg (kFrame tCall [47, 99]) (binding kCfg (kFrame tCall [47, 99]) {}) s
        (.ret Status.zero {} false) {} .sent .sent).closeRequested) = some false ∧
    -- every place that copies statBadMessage with a literal cause uses this text (whichever function
    -- holds the check: bindCall / bindPush or a helper extracted from them), and there is one
    ((Gen.consts_copy_texts.filter (fun r => r.2.1 == "statBadMessage")).map (fun r => r.2.2)).eraseDups =
      ["invalid service method for message"] ∧
    some (binding kCfg (kFrame tCall []) {}).stat =
      genCopy "statBadMessage" (constBytes "invalid service method for message") ∧
    some (statAfterRead kCfg { dec := some [1, 2] } (kFrame tCall [47, 99]) {}) = genCopy "statBadMessage" [1, 2] ∧
    some (handleCall kCfg (kFrame tCall [47, 99]) Status.zero (.panic [3] false) {} .sent .sent).stat =
      genCopy "statInternalServerError" [3] ∧
    some (handleCall kCfg (kFrame tCall [47, 99]) Status.zero (.ret Status.zero {} false) {} (.failed [4] false) .sent).stat =
      genCopy "statWriteFailed" [4] ∧
    (handleCall kCfg (kFrame tCall [47, 99]) Status.zero (.ret Status.zero {} false) {} (.failed [4] false) .sent).replies.map
      (fun r => some r.status) = [genCopy "statInternalServerError" [4]] ∧
    some (handleCall kCfg (kFrame tCall [47, 99]) Status.zero (.ret Status.zero {} false) {} .connClosed .sent).stat =
      genSentinel "statConnClosed" ∧
    some (connClosedWith none) = genSentinel "statConnClosed" ∧
    some (connClosedWith (some [5])) = genCopy "statConnClosed" [5] ∧
    (Gen.consts_sentinels.all fun r =>
      Gen.consts_code_text.lookup r.2.1 == some r.2.2.1 &&
      Gen.consts_codes.any (fun c => c.2 == r.2.1)) = true ∧
    (genCode "CodeOK", genCode "CodeNoError") = (some 0, some 0) ∧
    Gen.consts_code_text.lookup 0 = some "" := by
  decide +kernel

/-- **C04 tie A, codec constants the dispatch model uses**: the text of the unsupported-codec error is
    `codec.Get`'s format with the id in decimal; `codec.NilCodecID` is the id for which the read loop is
    left on a read error (`leaves`), a registered id is not. -/
theorem C04_consts_codec_texts :
    Gen.consts_missing = [] ∧
    constBytes Gen.consts_codec_unsupported = txtUnsupportedCodec ++ constBytes "%d" ∧
    unsupportedCodec 7 = txtUnsupportedCodec ++ constBytes "7" ∧
    leaves { calls := [[47, 99]], codecs := [106] } { dec := some [1] }
      { mtype := tCall, seq := 1, method := [47, 99], codec := Gen.consts_nil_codec_id.toUInt8, bodyEmpty := false } {} = true ∧
    leaves { calls := [[47, 99]], codecs := [106] } { dec := some [1] }
      { mtype := tCall, seq := 1, method := [47, 99], codec := 106, bodyEmpty := false } {} = false ∧
    (Gen.consts_codecs.all fun c => c.2.1 != Gen.consts_nil_codec_id) = true := by
  decide +kernel


-- BEGIN websocket sub-protocols
/-! ### the websocket sub-protocols, byte level (Model/WsSubProto)

`transport .wsJson` / `transport .wsPb` above assume what the container does with the status; the
two theorems below prove it from the byte-level model of `jsonSubProto` / `pbSubProto` `Pack` and
`Unpack` (which the correspondence check compares with the real code). -/

/-- jsonSubProto, byte level: the REPLY document packed by the server and unpacked by the caller
    has the same status, seq and type (supported field set `WFj`, any lawful pipe) — exactly what
    `transport .wsJson` says (the status is carried since fix d2190d3). -/
theorem C04_wsjson_status_carried (reg : Registry) (limit : Nat) (m : Msg) (bs : Bytes) (sz : Nat)
    (hw : JsonP.WFj m) (hl : ∀ i ∈ m.pipe, ∃ f, reg i = some f ∧ Xfer.Lawful f)
    (hp : WsP.packJson reg limit m = .ok (bs, sz)) (hlt : bs.length < 4294967296) :
    ∃ m', WsP.unpackJson reg limit bs = .ok m' ∧ m'.status = m.status ∧ m'.seq = m.seq ∧ m'.mtype = m.mtype ∧
      transport .wsJson m.status = some m'.status := by
  refine ⟨{ m with size := sz }, (WsP.unpackJson_packJson reg limit m bs sz hw hl hp hlt).1, rfl, rfl, rfl, ?_⟩
  exact C04_transport_exact .wsJson m.status rfl hw.2.1

/-- pbSubProto, byte level (known finding c04:ws-subproto-drops-status:pb): for EVERY protobuf
    serializer whose decoder inverts its encoder and every message of `WFwp`, the REPLY document
    is delivered with seq and type intact and the ZERO status, whatever status the handler
    produced — exactly what `transport .wsPb` says; a failing handler is seen as OK. -/
theorem C04_wspb_status_dropped_witness (ser : WsP.PRec → Option Bytes) (de : Bytes → Except String WsP.PRec)
    (hsd : ∀ r t, ser r = some t → de t = .ok r)
    (reg : Registry) (limit : Nat) (m : Msg) (bs : Bytes) (sz : Nat)
    (hw : WsP.WFwp m) (hl : ∀ i ∈ m.pipe, ∃ f, reg i = some f ∧ Xfer.Lawful f)
    (hp : WsP.packPb ser reg limit m = .ok (bs, sz)) (hlt : bs.length < 4294967296) :
    ∃ m', WsP.unpackPb de reg limit bs = .ok m' ∧ m'.status = Status.zero ∧ m'.status.ok = true ∧
      m'.seq = m.seq ∧ m'.mtype = m.mtype ∧ transport .wsPb m.status = some m'.status :=
  ⟨{ m with status := Status.zero, size := sz }, (WsP.unpackPb_packPb ser de hsd reg limit m bs sz hw hl hp hlt).1,
    rfl, (by decide : Status.zero.ok = true), rfl, rfl, rfl⟩

/-- non-vacuity: a 404 REPLY meets `WFj` and `WFwp`, and jsonSubProto packs it. -/
def exReplyW : Msg :=
  { seq := 7, mtype := 2, method := [], status := stNotFound, md := [], codec := 0, body := [], pipe := [] }
example : JsonP.WFj exReplyW := by decide
example : WsP.WFwp exReplyW := by decide
example : (match WsP.packJson (fun _ => none) 65536 exReplyW with | .ok (bs, sz) => sz == bs.length && decide (sz > 90) | _ => false) = true := by
  decide +kernel
example : (match WsP.packPb (WsP.toySer (WsP.toPRec exReplyW [])) (fun _ => none) 65536 exReplyW with
    | .ok (bs, _) => (WsP.unpackPb (WsP.toyDe (WsP.toPRec exReplyW [])) (fun _ => none) 65536 bs).msg?.map (·.status) == some Status.zero
    | _ => false) = true := by
  decide +kernel
-- END websocket sub-protocols

end C04
end Teleport
