/-
Props/C20 — "Recycled messages, contexts, metadata and sockets behave like fresh ones."

Two kinds of theorems:
* tie A (`C20_fields_covered`, `C20_pool_discipline`): over the field lists and reset sets that
  `srcfacts` regenerates from the Go sources on every run (`Teleport.Gen.Fields`): every field of every
  pooled struct is re-initialised by its reset routine or is in the explicit exempt list below; the
  pool put/get functions call the reset routines in the right order.
* model theorems over `Model/Pool` (objects with explicit stale storage): a reset object is
  observationally equal to a new one, for every previous use and every later use.
-/
import Teleport.Gen.Fields
import Teleport.Lemmas.Pool
namespace Teleport
namespace C20
open Pool

/-! ## tie A: regenerated facts -/

/-- Fields that no reset routine has to re-initialise: (struct, field, why). Every entry names the
    model lemma that justifies it where the model carries the field. -/
def exempt : List (String × String × String) := [
  ("handlerCtx", "start",
    "written by binding() (and by Push) before every read (recordCost / run log): C20_ctx_start_written_before_read, hypothesis startSafe of C20_ctx_recycled_like_fresh"),
  ("Args", "buf",
    "scratch buffer: Parse and QueryString overwrite it from index 0 before they use it: C20_args_buf_scratch"),
  ("argsKV", "key",
    "a slot behind len(args) keeps its key buffer; allocArg's users (appendArg, argsScanner.next) overwrite it before anything reads it: C20_args_stale_slot_overwritten, Pool.scanNext_kv"),
  ("argsKV", "value",
    "as argsKV.key: C20_args_stale_slot_overwritten, Pool.scanNext_kv"),
  ("socket", "fromPool",
    "written once by socketPool.New, constant afterwards: Pool.sock_exec_fromPool"),
  ("socket", "idMutex", "sync.RWMutex: holds no data, unlocked whenever the socket is at rest"),
  ("socket", "swapMutex", "sync.RWMutex: holds no data, unlocked whenever the socket is at rest"),
  ("socket", "mu", "sync.RWMutex: holds no data; Close puts the socket into the pool while holding it, the deferred Unlock runs before Close returns")
]

def exemptOf (struct : String) : List String := (exempt.filter (·.1 == struct)).map (·.2.1)

/-- every field is in the reset set or exempt. -/
def covered (struct : String) (fields reset : List String) : Bool :=
  fields.all (fun f => reset.contains f || (exemptOf struct).contains f)

/-- `a` occurs in `l` and `b` occurs after it. -/
def before (a b : String) (l : List String) : Bool :=
  match l.dropWhile (· != a) with
  | [] => false
  | _ :: r => r.contains b

/-- **C20, "every observable field starts at its default"** at the level of the source text: for the
    struct definitions and reset routines as they are in `/repo` *now* (regenerated facts, none
    missing), every field of `message`, `handlerCtx`, `socket`, `Args`, `argsKV`, `XferPipe`,
    `ByteBuffer` is (re)initialised on every path of the routine that runs when the object is handed
    out — `message.Reset`, `handlerCtx.clean` followed by `reInit` (`C20_pool_discipline`), `socket.Reset`, `Args.Reset`, `XferPipe.Reset`,
    `ByteBuffer.Reset` — or is in `exempt`. In addition the model's `reInit` and `Close` pool branch
    write only fields that the code writes there too. Deleting a reset line in the Go source changes
    a generated list and this theorem no longer checks. -/
theorem C20_fields_covered :
    Gen.fields_missing = [] ∧
    covered "message" Gen.message_fields Gen.message_Reset = true ∧
    covered "handlerCtx" Gen.handlerCtx_fields (Gen.handlerCtx_clean ++ Gen.handlerCtx_reInit) = true ∧
    covered "socket" Gen.socket_fields Gen.socket_Reset = true ∧
    covered "Args" Gen.Args_fields Gen.Args_Reset = true ∧
    covered "argsKV" Gen.argsKV_fields [] = true ∧
    covered "XferPipe" Gen.XferPipe_fields Gen.XferPipe_Reset = true ∧
    covered "ByteBuffer" Gen.ByteBuffer_fields Gen.ByteBuffer_Reset = true ∧
    ["sess", "swap"].all Gen.handlerCtx_reInit.contains = true ∧
    ["Conn", "swap", "protocol"].all Gen.socket_Close_pool.contains = true := by
  decide

/-- the exempt list is not a blanket: no field that a reset routine is modelled to clear is exempt,
    and every exempt entry names an existing field. -/
theorem C20_exempt_tight :
    (exempt.all fun e =>
      (if e.1 == "handlerCtx" then Gen.handlerCtx_fields
       else if e.1 == "Args" then Gen.Args_fields
       else if e.1 == "argsKV" then Gen.argsKV_fields
       else if e.1 == "socket" then Gen.socket_fields else []).contains e.2.1) = true ∧
    (exemptOf "message") = [] ∧ (exemptOf "XferPipe") = [] ∧ (exemptOf "ByteBuffer") = [] := by
  decide

/-- **C20, hand-out discipline**: `PutMessage` and `ReleaseArgs` call `Reset` before `Put`;
    `getContext` calls `clean` and then `reInit` on what `ctxPool.Get` returned; `GetSocket` calls
    `Reset` on what `socketPool.Get` returned (regenerated call lists). -/
theorem C20_pool_discipline :
    before "$.Reset" "messagePool.Put" Gen.PutMessage_calls = true ∧
    Gen.GetMessage_calls.contains "messagePool.Get" = true ∧
    before "$.Reset" "argsPool.Put" Gen.ReleaseArgs_calls = true ∧
    before "ctxPool.Get" "$.clean" Gen.getContext_calls = true ∧
    before "$.clean" "$.reInit" Gen.getContext_calls = true ∧
    Gen.putContext_calls.contains "ctxPool.Put" = true ∧
    before "socketPool.Get" "$.Reset" Gen.GetSocket_calls = true := by
  decide

/-- **C20, there is no other way into or out of a pool**: the `Get`/`Put` calls on the four object
    pools (`messagePool`, `argsPool`, `ctxPool`, `socketPool`), wherever they occur in their packages
    (function bodies, deferred functions, closures), are exactly the eight sites inside the functions
    whose reset discipline `C20_pool_discipline` and `C20_fields_covered` establish, and the pool
    variables are used in no other way. A `Put` added on an error path (for instance a deferred
    `messagePool.Put(m)` in `GetMessage` for a setting that panics, which skips `Reset`) changes the
    regenerated list and this theorem no longer checks. -/
theorem C20_pool_sites_exact :
    Gen.fields_missing = [] ∧
    Gen.pool_sites = ["argsPool.Get@AcquireArgs", "argsPool.Put@ReleaseArgs", "ctxPool.Get@peer.getContext",
      "ctxPool.Put@peer.putContext", "messagePool.Get@GetMessage", "messagePool.Put@PutMessage",
      "socketPool.Get@GetSocket", "socketPool.Put@socket.Close"] := by
  decide

/-! ## messages -/

/-- **C20 for messages, first use**: whatever a message held (header fields, status, metadata pairs
    visible or stale, body, body constructor, transfer filters visible or stale, context, size),
    after `Reset()` every getter and the bytes `rawProto.Pack` would write equal those of
    `NewMessage()` — for every filter registry and size limit. -/
theorem C20_message_reset_fresh (reg : Registry) (limit : Nat) (m : PMsg) :
    (m.reset).obs reg limit = PMsg.fresh.obs reg limit :=
  (msg_reset_sim m).obs reg limit

/-- **C20 for messages, all histories**: for every operation sequence of the previous user, after
    `PutMessage`/`GetMessage` EVERY operation sequence of the next user returns the same results and
    leaves the same observations (all getters + packed bytes, after every single call) as on a new
    message. No proviso: `Meta().ParseBytes` has no panic point (256-entry `hex2intTable`), so no
    call of the next user can stop half-way through a stale slot. -/
theorem C20_message_recycled_like_fresh (reg : Registry) (limit : Nat) (prev next : List MOp) :
    ((PMsg.fresh.exec reg limit prev).reset).run reg limit next = PMsg.fresh.run reg limit next :=
  msg_run_sim reg limit next (msg_reset_sim _)

/-! ## metadata containers -/

/-- **C20 for `utils.Args`, all histories**: for EVERY previous-use operation sequence, then `Reset`
    (what `ReleaseArgs`, `message.Reset` and `CopyTo` do), then ANY operation sequence (`ParseBytes`
    / `Parse` of arbitrary bytes included), the result of every call and `Len`, the `VisitAll`
    sequence and `QueryString` after every call equal those of a new `Args` given the same second
    sequence: the stale slots (old key/value buffers behind the length) and the scratch buffer are
    never read before they are overwritten. Proof: simulation (visible slots equal, stale part
    arbitrary), induction over the operation list. -/
theorem C20_args_stale_unobservable (prev next : List AOp) :
    ((PArgs.fresh.exec prev).reset).run next = PArgs.fresh.run next :=
  args_run_sim next (a := (PArgs.fresh.exec prev).reset) (f := PArgs.fresh) rfl

/-- the same from *any* state of the stale storage, not only reachable ones. -/
theorem C20_args_any_stale (live stale stale' : List KV) (buf buf' : Bytes) (next : List AOp) :
    (PArgs.mk live stale buf).run next = (PArgs.mk live stale' buf').run next :=
  args_run_sim next (a := ⟨live, stale, buf⟩) (f := ⟨live, stale', buf'⟩) rfl

/-- the input that used to leave a stale slot visible (`%` followed within two bytes by `0xff`,
    formerly an index-out-of-range panic between `allocArg` and `releaseArg`): previous user
    `Add("k","v")`; `Reset`; next user `ParseBytes("%\xff\x00")` — the call returns and `VisitAll`
    shows the one pair decoded from the input (`%\xff\x00` is not a valid escape, the bytes are
    kept), exactly as on a new `Args`. -/
theorem C20_args_parse_ff_regression :
    ((PArgs.fresh.exec [.add [107] [118]]).reset).run [.parse [37, 255, 0]] =
      PArgs.fresh.run [.parse [37, 255, 0]] ∧
    (((PArgs.fresh.exec [.add [107] [118]]).reset).run [.parse [37, 255, 0]]).map (fun r => (r.1, r.2.pairs)) =
      [(Ret.unit, [([37, 255, 0], [])])] := by
  decide

/-- `ParseBytes` / `Parse` return on every input and every object state (no panic outcome). -/
theorem C20_args_parse_returns (a : PArgs) (b : Bytes) :
    (a.step (.parse b)).2 = .unit ∧ (a.step (.parseStr b)).2 = .unit := ⟨rfl, rfl⟩

/-- exempt `Args.buf`: what `QueryString` returns and what `Parse` leaves do not depend on the
    previous content of the scratch buffer. -/
theorem C20_args_buf_scratch (a : PArgs) (buf' : Bytes) (s : Bytes) :
    ({ a with buf := buf' }.queryString).2 = a.queryString.2 ∧
    ({ a with buf := buf' }.parseStr s).live = (a.parseStr s).live ∧
    ({ a with buf := buf' }.parseStr s).buf = s := ⟨rfl, rfl, rfl⟩

/-- exempt `argsKV.key/value`: the slot `allocArg` hands out is completely overwritten by
    `appendArg`, and by `argsScanner.next` (which always returns). -/
theorem C20_args_stale_slot_overwritten (a : PArgs) (k v : Bytes) (old old' : KV) (b : Bytes) :
    (a.appendArg k v).live = a.live ++ [(k, v)] ∧ (scanNext old b).kv = (scanNext old' b).kv :=
  ⟨rfl, scanNext_kv old old' b⟩

/-! ## transfer pipes and byte buffers -/

/-- **C20 for transfer pipes**: after `XferPipe.Reset` (called by `message.Reset`) any sequence of
    `Append` (as coded: cut back to the previous length on an unregistered id or beyond 255 — the
    ids stored meanwhile stay behind the length), `AppendFrom` (refused beyond 255), `Reset` gives the same results and the same `Len/IDs/Names/Range` as on a new pipe, for every
    previous use. -/
theorem C20_pipe_reset_fresh (reg : Registry) (prev next : List XOp) :
    ((PPipe.fresh.exec reg prev).reset).run reg next = PPipe.fresh.run reg next :=
  pipe_run_sim reg next (p := (PPipe.fresh.exec reg prev).reset) (q := PPipe.fresh) rfl

/-- **C20 for pooled byte buffers**: after `ByteBuffer.Reset` (called by the pool's `Put`) any sequence
    of `Write*`, `Set*`, `Reset` and `ChangeLen(n)`+full read shows the same bytes as a new buffer.
    (`ChangeLen` alone exposes stale bytes by design; every caller in the framework fills the buffer
    with `io.ReadFull` before reading it — `readFull_data`.) -/
theorem C20_bytebuffer_reset_fresh (prev next : List BOp) :
    ((PBuf.fresh.exec prev).reset).run next = PBuf.fresh.run next :=
  buf_run_sim next (b := (PBuf.fresh.exec prev).reset) (c := PBuf.fresh) rfl

/-! ## handler contexts -/

/-- **C20 for handler contexts, first use**: whatever a pooled context held (session, handler,
    argument, call command, swap entries, cost, plugin container, status, context value, both
    messages with their stale parts, `start`), after `getContext` (`clean()` + `reInit(s)`) every
    getter — including everything observable of `Input()` and `Output()` and their packed bytes —
    equals that of `newReadHandleCtx()` after the same `reInit(s)`. -/
theorem C20_ctx_clean_fresh (reg : Registry) (limit : Nat) (c : PCtx) (s : Nat) (sw : List (Nat × Nat)) :
    (c.acquire s sw).obs reg limit = (PCtx.fresh.acquire s sw).obs reg limit :=
  (ctx_acquire_sim c s sw).obs reg limit

/-- exempt `handlerCtx.start`: once `binding` has run, the cost recorded later does not depend on
    the stale `start`. -/
theorem C20_ctx_start_written_before_read (reg : Registry) (limit : Nat) (c : PCtx) (t t' : Int) (pc : Nat) :
    (((c.step reg limit (.binding t pc)).1).step reg limit (.recordCost t')).1.cost = t' - t := rfl

/-- **C20 for handler contexts, all histories**: for every previous use of the context, after
    `getContext` every operation sequence of the next user gives the same results and observations
    as on a new context, provided `start` is written (`binding` or `Push`) before `recordCost` reads
    it (`startSafe`; true for the read loop with the raw protocol: `handle()` runs only after
    `UnmarshalBody` called `binding`; without it: `C20_ctx_start_witness`). Metadata parses need no
    proviso any more. -/
theorem C20_ctx_recycled_like_fresh (reg : Registry) (limit : Nat) (prev next : List COp) (s s' : Nat)
    (sw sw' : List (Nat × Nat)) (hs : startSafe false next = true) :
    (((PCtx.fresh.acquire s' sw').exec reg limit prev).acquire s sw).run reg limit next =
      (PCtx.fresh.acquire s sw).run reg limit next :=
  ctx_run_sim reg limit next (ctx_acquire_sim _ s sw) hs

example : startSafe false [COp.binding 5 1, .outOp (.mdOp (.add [1] [2])), .inOp (.mdOp (.parse [37, 255, 0])),
    .swapStore 1 2, .recordCost 9] = true := by
  decide

/-- the empty filter registry. -/
def noReg : Registry := fun _ => none

/-- without the `startSafe` proviso the statement is false in the model: a `recordCost` before any
    `binding` reads the previous user's `start`. (Not reachable through the read loop.) -/
theorem C20_ctx_start_witness :
    ((((PCtx.fresh.acquire 1 []).exec noReg 0 [.binding 7 1]).acquire 1 []).run noReg 0 [.recordCost 9]).map (·.2.cost)
      ≠ ((PCtx.fresh.acquire 1 []).run noReg 0 [.recordCost 9]).map (·.2.cost) := by
  decide

/-! ## sockets -/

/-- **C20 for pooled sockets**: whatever a socket went through (id set, swap entries stored or
    replaced, unread bytes and a sticky error left in the buffered reader, closed through the pool
    branch or not), after `GetSocket(conn, proto)` = `Reset(conn, proto)` its whole modelled state —
    hence `ID()`, `SwapLen()`, the swap entries, the bytes a `Read` would deliver, protocol,
    connection and state — is that of the socket `socketPool.New` + `Reset` would give, and of
    `NewSocket(conn, proto)` up to the `fromPool` flag; so is every later observation. -/
theorem C20_socket_reset_fresh (prev next : List SOp) (conn : Option Nat) (proto : Nat) :
    ((PSock.poolNew.exec prev).acquire conn proto) = PSock.poolNew.acquire conn proto ∧
    ((PSock.poolNew.exec prev).acquire conn proto).run next = (PSock.poolNew.acquire conn proto).run next ∧
    ((PSock.poolNew.exec prev).acquire conn proto).obs = { (PSock.new conn proto).obs with pooled := true } := by
  have h : (PSock.poolNew.exec prev).acquire conn proto = PSock.poolNew.acquire conn proto := by
    simp only [PSock.acquire, sock_reset_eq, sock_exec_fromPool]
  refine ⟨h, by rw [h], ?_⟩
  rw [h]; rfl

/-- the pool branch of `Close` alone does not clear the id and the reader's buffer: `Reset` does
    (this is why `GetSocket` must call `Reset`, fact `C20_pool_discipline`). -/
theorem C20_socket_close_keeps_id :
    ((PSock.poolNew.exec [.setID [120], .buffered [1, 2] false, .close]).obs.id,
     (PSock.poolNew.exec [.setID [120], .buffered [1, 2] false, .close]).obs.buffered) = (some [120], [1, 2]) := by
  decide

end C20
end Teleport
