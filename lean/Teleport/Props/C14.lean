/-
Props/C14 — "Documented concurrent use of sessions and peers is free of data races".

STATUS: PARTIAL.  What is proved here, for traces of any length with any number of threads:
  (1) soundness of the synchronisation disciplines in the event model of `Model/Conc`
      (`C14_lockset_sound`, `C14_atomic_only_sound`, `C14_init_before_publish_sound`,
      `C14_atomic_after_init_sound`, `C14_init_then_guarded_sound`, `C14_fork_publishes`);
  (1b) that the exclusive hold demanded for writes is necessary: under a shared (read-mode) hold two writers
      race (`C14_shared_hold_write_races_witness`) — the shape of a lazy initialisation in a read-locked getter;
  (2) that the access sites of the watched shared fields (EVERY non-lock field of session, its grace counter
      type graceWaitGroup, callCmd, socket, SessionHub, peer and the protocol objects, plus plugin containers/counters), as REGENERATED from the Go source on every run
      (`Teleport.Gen.guards`), satisfy the discipline declared for their field in `Conc.guardOf`, except the
      sites listed in `Conc.knownRacy` (`C14_discipline_partial`), that those exceptions really violate it
      (`C14_known_racy_sites_violate`), and that the extraction was complete (`C14_extraction_complete`).
  (3) that the functions the guard map merely NAMES are used as named, on the call sites REGENERATED from the Go
      source (`Teleport.Gen.callers`, …): `heldIn` functions are only called with the lock held exclusively or from
      functions established to hold it (`C14_heldIn_callers_hold_lock`), `afterDone` accessors receive from the done
      channel before touching the command (`C14_afterDone_receives_first`), constructor-excused accesses are made
      to objects that are still local (`C14_ctor_sites`), and the extracted names are exactly the named ones
      (`C14_trusted_names_extracted`).  What stays trusted of the naming is listed explicitly, site by site:
      `Conc.calleeTrusted`, `Conc.cmdCallerOrdered`, `Conc.ctorTrusted` (each with a `_witness` theorem).
What is NOT proved (full statement kept visible):
      "for every interleaving of the documented-safe public operations on shared sessions and peers, the
       execution of the real Go code has no data race in the sense of the Go memory model."
  Missing between (1)+(2) and that statement: the step from a Go execution to a trace whose lock regions are the
  syntactic ones of the table (no callee inlining: the calling conventions of the functions named in
  `heldIn`/`afterDone`/`ctors` are checked on the regenerated call sites, see (3), and trusted only for the listed
  sites; lock identity is by (type, field), not by instance; aliasing is ignored), all fields
  outside the watch list, the Go runtime, `sync.WaitGroup`/`sync.Map`/`sync.Pool` internals, accesses through
  `unsafe` (router controller pools) and reflection.  The Go race detector run by the harness on stress
  scenarios is supporting evidence (a test) for exactly that gap, and is how a concrete schedule is found.
On the unchanged tree the property is genuinely VIOLATED: see `Conc.knownRacy` (each entry = one detector
signature or a site the table predicts to race).
-/
import Teleport.Lemmas.Conc
import Teleport.Gen.Guards
import Teleport.Gen.Callers
import Teleport.Model.ConcCallers
namespace Teleport
namespace C14
open Teleport.Conc

/-! ## (1) discipline ⇒ race freedom -/

/-- Lockset soundness (mutex and rw-mutex).  In any trace — any number of threads, any length — in which
every event that may write location `x` (plain write or atomic op) is performed while its thread holds guard
`l` exclusively, and every plain read of `x` while its thread holds `l` exclusively or shared (`Guarded`;
"holds" is defined by the lock semantics `lockRun`, so the prefix up to each access is lock-well-formed: one
writer at most, readers exclude writers, release only by a holder), any two conflicting accesses of `x`
(different threads, at least one write) are ordered by happens-before: there is no data race on `x`. -/
theorem C14_lockset_sound (tr : Trace) (x : Loc) (l : LockId) (hg : Guarded tr x l) : RaceFree tr x :=
  lockset_sound tr x l hg

/-- the same, with the lock-well-formedness of the whole trace as an explicit (redundant) hypothesis, in the
form the property record states it. -/
theorem C14_lockset_sound_wf (tr : Trace) (x : Loc) (l : LockId) (_hwf : LockWf l tr)
    (hg : Guarded tr x l) : RaceFree tr x :=
  lockset_sound tr x l hg

/-- non-vacuity: two threads, writer under the write lock, reader under the read lock; the trace is
lock-well-formed, guarded, and really contains a conflicting pair (events 1 and 4). -/
def exTrace : Trace :=
  [⟨1, .acq 0⟩, ⟨1, .wr 7⟩, ⟨1, .rel 0⟩, ⟨2, .racq 0⟩, ⟨2, .rd 7⟩, ⟨3, .racq 0⟩, ⟨3, .rd 7⟩, ⟨2, .rrel 0⟩,
   ⟨3, .rrel 0⟩, ⟨2, .acq 0⟩, ⟨2, .wr 7⟩, ⟨2, .rel 0⟩]

example : LockWf 0 exTrace := by decide
example : guardedb exTrace 7 0 = true := by decide
example : Conflict exTrace 7 1 4 := ⟨by decide, ⟨1, .wr 7⟩, ⟨2, .rd 7⟩, by decide⟩
/-- and without the lock the same accesses are NOT guarded (the hypothesis is not trivially true). -/
example : guardedb [⟨1, .wr 7⟩, ⟨2, .rd 7⟩] 7 0 = false := by decide

/-- the concrete trace above is race free on location 7, by the theorem. -/
example : RaceFree exTrace 7 := C14_lockset_sound exTrace 7 0 (guardedb_sound _ _ _ (by decide))

/-- The session's grace counter (`graceWaitGroup` in session.go: counter `n` = location 10, channel field
`zero` = location 11, mutex `mu` = lock 0, the channel itself = 5) used the way the library uses it, with `Add`
concurrent with `Wait`: the read loop (thread 1) does `Add(1)`; the closer (thread 2) enters `Wait`, sees
`n > 0`, creates the channel and blocks; the handler (thread 3) does `Done()`: `n` drops to zero, it closes the
channel and clears the field; a pusher (thread 4) does `Add(1)` while the closer is still waking up; the closer
receives from the closed channel, re-locks, sees `n > 0` again and goes back to waiting on a new channel; the
pusher's `Done()` closes that one; the closer wakes, sees zero and returns. -/
def exGrace : Trace :=
  [⟨1, .acq 0⟩, ⟨1, .wr 10⟩, ⟨1, .rd 10⟩, ⟨1, .rel 0⟩,
   ⟨2, .acq 0⟩, ⟨2, .rd 10⟩, ⟨2, .rd 11⟩, ⟨2, .wr 11⟩, ⟨2, .rd 11⟩, ⟨2, .rel 0⟩,
   ⟨3, .acq 0⟩, ⟨3, .wr 10⟩, ⟨3, .rd 10⟩, ⟨3, .rd 11⟩, ⟨3, .chClose 5⟩, ⟨3, .wr 11⟩, ⟨3, .rel 0⟩,
   ⟨4, .acq 0⟩, ⟨4, .wr 10⟩, ⟨4, .rd 10⟩, ⟨4, .rel 0⟩,
   ⟨2, .chRecv 5⟩, ⟨2, .acq 0⟩, ⟨2, .rd 10⟩, ⟨2, .rd 11⟩, ⟨2, .wr 11⟩, ⟨2, .rd 11⟩, ⟨2, .rel 0⟩,
   ⟨4, .acq 0⟩, ⟨4, .wr 10⟩, ⟨4, .rd 10⟩, ⟨4, .rd 11⟩, ⟨4, .chClose 6⟩, ⟨4, .wr 11⟩, ⟨4, .rel 0⟩,
   ⟨2, .chRecv 6⟩, ⟨2, .acq 0⟩, ⟨2, .rd 10⟩, ⟨2, .rel 0⟩]

/-- that execution is lock-well-formed, every access of the counter and of the channel field is made under the
counter's mutex, so (by `C14_lockset_sound`) neither location has a data race although `Add` ran concurrently
with `Wait`; it really contains conflicting accesses by different threads (the reader's `n += 1` and the
closer's `n > 0`). -/
example : LockWf 0 exGrace := by decide
example : guardedb exGrace 10 0 = true ∧ guardedb exGrace 11 0 = true := by decide
example : Conflict exGrace 10 1 5 := ⟨by decide, ⟨1, .wr 10⟩, ⟨2, .rd 10⟩, by decide⟩
example : RaceFree exGrace 10 ∧ RaceFree exGrace 11 :=
  ⟨C14_lockset_sound exGrace 10 0 (guardedb_sound _ _ _ (by decide)),
   C14_lockset_sound exGrace 11 0 (guardedb_sound _ _ _ (by decide))⟩

/-- A location that is accessed only through atomic operations has no data race: atomic accesses are not
plain accesses, and a data race needs at least one plain access. -/
theorem C14_atomic_only_sound (tr : Trace) (x : Loc) (h : NoPlain tr x) : RaceFree tr x := by
  intro i j hc
  obtain ⟨_, a, b, hi, hj, _, _, _, _, hpl⟩ := hc
  have ha := h a (List.mem_of_getElem? hi)
  have hb := h b (List.mem_of_getElem? hj)
  rcases hpl with h | h <;> simp_all

example : NoPlain [⟨1, .atomicOp 3⟩, ⟨2, .atomicOp 3⟩, ⟨2, .wr 4⟩] 3 := by unfold NoPlain; decide

/-- Initialise-before-publish: if every plain write of `x` is made by the creating thread `t0` before its
publication event `p`, every access by another thread is ordered after `p` (it learned of the object through
the publication: the `go` statement, an unlock after inserting it in a shared table, a channel close), and `x`
is never accessed atomically, then `x` has no data race (afterwards it is only read). -/
theorem C14_init_before_publish_sound (tr : Trace) (x : Loc) (t0 : Tid) (p : Nat)
    (hp : Published tr x t0 p) (hna : NoAtomic tr x) : RaceFree tr x :=
  publish_sound tr x t0 p hp (.inl hna)

/-- Atomic field with a plain constructor initialisation (`session.status`, set in the composite literal of
`newSession` and only through sync/atomic afterwards): all plain accesses are by the creator before the
publication, foreign accesses are ordered after it — no data race. -/
theorem C14_atomic_after_init_sound (tr : Trace) (x : Loc) (t0 : Tid) (p : Nat)
    (hp : Published tr x t0 p) (hi : PlainOnlyInit tr x t0 p) : RaceFree tr x :=
  publish_sound tr x t0 p hp (.inr hi)

/-- Constructor phase then lock discipline (`session.sessionAge`, `socket.protocol`, …): every access of `x`
is either made by the creator `t0` before the publication event `p`, or follows the lock discipline for `l`
and — if made by another thread — is ordered after `p`. Then `x` has no data race. -/
theorem C14_init_then_guarded_sound (tr : Trace) (x : Loc) (l : LockId) (t0 : Tid) (p : Nat)
    (hpub : ∃ e, tr[p]? = some e ∧ e.tid = t0)
    (hacc : ∀ i e, tr[i]? = some e → e.op.isAccess x = true →
      (e.tid = t0 ∧ i < p) ∨ (HoldsFor tr x l i e ∧ (e.tid ≠ t0 → HB tr p i))) :
    RaceFree tr x :=
  init_then_guarded_sound tr x l t0 p hpub hacc

/-- The `go` statement publishes: a thread started by `t0` at or after `p` only runs after `p`
(supplies the `foreign` hypothesis of `Published` for forked readers). -/
theorem C14_fork_publishes {tr : Trace} {t0 : Tid} {p q j : Nat} {ep eq ej : Ev}
    (hep : tr[p]? = some ep) (hept : ep.tid = t0) (hpq : p ≤ q)
    (heq : tr[q]? = some eq) (heqt : eq.tid = t0) (hfk : eq.op = .fork ej.tid)
    (hej : tr[j]? = some ej) (hfw : ForkWf tr) : HB tr p j :=
  forked_after hep hept hpq heq heqt hfk hej hfw

/-- non-vacuity of the publication theorems: creator 1 writes, forks 2, which reads. -/
def exPub : Trace := [⟨1, .wr 5⟩, ⟨1, .fork 2⟩, ⟨2, .rd 5⟩, ⟨1, .rd 5⟩]

example : Published exPub 5 1 1 where
  pub := ⟨⟨1, .fork 2⟩, rfl, rfl⟩
  writes := by
    intro i e he hw
    match i, he with
    | 0, he => simp [exPub] at he; subst he; exact ⟨rfl, by decide⟩
    | 1, he => simp [exPub] at he; subst he; cases hw
    | 2, he => simp [exPub] at he; subst he; cases hw
    | 3, he => simp [exPub] at he; subst he; cases hw
    | n + 4, he => simp [exPub] at he
  foreign := by
    intro j e he _ hne
    match j, he with
    | 0, he => simp [exPub] at he; subst he; exact absurd rfl hne
    | 1, he => simp [exPub] at he; subst he; exact absurd rfl hne
    | 2, he =>
      have h2 : e = ⟨2, .rd 5⟩ := by simp [exPub] at he; exact he.symm
      subst h2
      exact hb_sync (a := ⟨1, .fork 2⟩) (b := ⟨2, .rd 5⟩) (by decide) (by simp [exPub]) he (by decide)
    | 3, he => simp [exPub] at he; subst he; exact absurd rfl hne
    | n + 4, he => simp [exPub] at he

example : NoAtomic exPub 5 := by unfold NoAtomic; decide

/-- two threads both hold lock 0 in SHARED mode and both write location 7 (the shape of a lazy initialisation
performed in a read-locked getter). -/
def exSharedWrite : Trace :=
  [⟨1, .racq 0⟩, ⟨2, .racq 0⟩, ⟨1, .wr 7⟩, ⟨2, .wr 7⟩, ⟨1, .rrel 0⟩, ⟨2, .rrel 0⟩]

/-- Why the table check demands the EXCLUSIVE hold for writes (`siteOk`, `.rw`): a shared hold does not order
writers.  The trace is lock-well-formed, each write is made while its thread holds the lock in read mode, and
the two writes race. -/
theorem C14_shared_hold_write_races_witness :
    LockWf 0 exSharedWrite ∧ holdsRb 0 exSharedWrite 2 1 = true ∧ holdsRb 0 exSharedWrite 3 2 = true ∧
    Race exSharedWrite 7 := by
  refine ⟨by decide, by decide, by decide, 2, 3, ⟨by decide, ⟨1, .wr 7⟩, ⟨2, .wr 7⟩, by decide⟩, ?_⟩
  intro h
  have hedge : Edge exSharedWrite 2 3 := by
    cases h with
    | edge e => exact e
    | trans h1 h2 => have := h1.lt; have := h2.lt; omega
  obtain ⟨_, a, b, ha, hb, hab⟩ := hedge
  have ha' : a = ⟨1, .wr 7⟩ := by simp [exSharedWrite] at ha; exact ha.symm
  have hb' : b = ⟨2, .wr 7⟩ := by simp [exSharedWrite] at hb; exact hb.symm
  subst ha' hb'
  revert hab
  decide

/-! ## (2) the regenerated site table satisfies the declared guard map -/

/-- the regenerated access sites. -/
def sites : List Site := Teleport.Gen.guards.map Site.ofRow

/-- a site is listed as racy in the current code. -/
def isKnownRacy (s : Site) : Bool := knownRacy.any (·.matches s)

/-- Every access site of every watched field in the CURRENT Go source (regenerated table) has a declared
discipline, and satisfies it — except the sites listed in `knownRacy`, which are reported as violations of the
property by the harness.  Checked by evaluation over the regenerated table: a change of the code that drops a
lock around an access, accesses an atomic field plainly, writes an init-only field after construction, or
writes a callCmd field after `done()`, writes a field while holding its rw-guard only in shared mode
(`RLock`), or adds a field to one of the watched structs (session, graceWaitGroup, callCmd, socket, SessionHub,
peer, the protocol objects: ALL their non-lock fields are watched; a `sync.WaitGroup` field's Add/Wait are W rows) without declaring its discipline makes this theorem
fail to build.  PARTIAL: "satisfies" refers to the syntactic lock regions of the enclosing function. -/
theorem C14_discipline_partial :
    sites.all (fun s => match guardOf s.field with
      | none => false
      | some d => siteOk d s || isKnownRacy s) = true := by
  decide +kernel

/-- The table check distinguishes the lock MODE: a write of an rw-guarded field made while the guard is held
only shared (`RLock`) — e.g. a lazy initialisation moved into the read-locked getter path — or with no lock
violates the discipline, as does a read without the lock; the same sites under the exclusive hold are fine.
(Non-vacuity of `siteOk` for the `.rw` and `.mutex` disciplines on the shapes the extractor emits.) -/
example : siteOk (.rw "socket.swapMutex" [] []) ⟨"socket.swap", "W", false, [("socket.swapMutex", "R")], "socket.Swap", "socket/socket.go"⟩ = false := by decide
example : siteOk (.rw "socket.swapMutex" [] []) ⟨"socket.swap", "W", false, [], "socket.Swap", "socket/socket.go"⟩ = false := by decide
example : siteOk (.rw "socket.swapMutex" [] []) ⟨"socket.swap", "R", false, [("socket.mu", "W")], "socket.SwapLen", "socket/socket.go"⟩ = false := by decide
example : siteOk (.rw "socket.swapMutex" [] []) ⟨"socket.swap", "W", false, [("socket.swapMutex", "W")], "socket.Swap", "socket/socket.go"⟩ = true := by decide
example : siteOk (.rw "socket.swapMutex" [] []) ⟨"socket.swap", "R", false, [("socket.swapMutex", "R")], "socket.SwapLen", "socket/socket.go"⟩ = true := by decide
example : siteOk (.mutex "peer.mu" ["NewPeer"] []) ⟨"peer.listeners", "R", false, [("peer.mu", "R")], "peer.Close", "peer.go"⟩ = false := by decide
example : siteOk (.initOnly ["NewPeer"]) ⟨"peer.network", "W", false, [("peer.mu", "W")], "peer.Dial", "peer.go"⟩ = false := by decide
/-- the grace counters: a `sync.WaitGroup` in their place makes every `Add`/`Wait` a W row of the session field
(extractor rule `guardWaitGroupPatterns`), which violates the field's discipline — with or without a lock around
it; the rows of the current code (method calls on the in-place `graceWaitGroup` value = reads of the field; the
counter's own fields under its mutex) are fine, and an access of the counter outside its mutex is not. -/
example : (guardOf "session.graceCtxWaitGroup").map (siteOk · ⟨"session.graceCtxWaitGroup", "W", false, [], "session.startReadAndHandle", "session.go"⟩) = some false := by decide
example : (guardOf "session.graceCtxWaitGroup").map (siteOk · ⟨"session.graceCtxWaitGroup", "W", false, [("session.graceCtxMutex", "W")], "session.graceCtxWait", "session.go"⟩) = some false := by decide
example : (guardOf "session.graceCallCmdWaitGroup").map (siteOk · ⟨"session.graceCallCmdWaitGroup", "W", false, [], "session.AsyncCall", "session.go"⟩) = some false := by decide
example : (guardOf "session.graceCtxWaitGroup").map (siteOk · ⟨"session.graceCtxWaitGroup", "R", false, [], "peer.getContext", "peer.go"⟩) = some true := by decide
example : (guardOf "graceWaitGroup.n").map (siteOk · ⟨"graceWaitGroup.n", "W", false, [("graceWaitGroup.mu", "W")], "graceWaitGroup.Add", "session.go"⟩) = some true := by decide
example : (guardOf "graceWaitGroup.n").map (siteOk · ⟨"graceWaitGroup.n", "R", false, [], "graceWaitGroup.Wait", "session.go"⟩) = some false := by decide
example : (guardOf "graceWaitGroup.zero").map (siteOk · ⟨"graceWaitGroup.zero", "W", false, [], "graceWaitGroup.Add", "session.go"⟩) = some false := by decide

/-- The exceptions are real: every `knownRacy` entry that still has a site in the current table violates the
declared discipline there (so the list cannot silently hide sites that are fine, and an entry whose race was
repaired in the code simply matches nothing any more). -/
theorem C14_known_racy_sites_violate :
    sites.all (fun s => !isKnownRacy s || (match guardOf s.field with
      | none => false
      | some d => !siteOk d s)) = true := by
  decide +kernel

/-- the current tree really contains violating sites (this is the finding, stated on the regenerated table). -/
theorem C14_violated_sites_witness : (sites.filter isKnownRacy).length ≥ 1 := by decide +kernel

/-- Extraction was complete: no watched struct/field/call shape was missing, and no selector with a watched
field name had a base whose type the extractor could not infer (fails closed otherwise). -/
theorem C14_extraction_complete :
    Teleport.Gen.guards_missing = [] ∧ Teleport.Gen.guardUnresolved = [] ∧ sites.length ≥ 350 := by
  decide +kernel

/-- Every field the task watches is present in the table with at least one site, and the fields exempted
from the claim (documented as setup-time / not safe for concurrent use) are exactly these. -/
theorem C14_watched_fields_present :
    (["session.status", "session.seq", "session.didCloseNotify", "session.sessionAge", "session.contextAge",
      "session.socket", "session.protoFuncs", "session.redialForClientLocked", "session.callCmdMap",
      "session.closeNotifyCh", "session.graceCtxWaitGroup", "session.graceCallCmdWaitGroup",
      "graceWaitGroup.n", "graceWaitGroup.zero",
      "callCmd.stat", "callCmd.inputMeta", "callCmd.result", "callCmd.inputBodyCodec", "callCmd.cost",
      "socket.Conn", "socket.protocol", "socket.readerWithBuffer", "socket.id", "socket.swap", "socket.curState",
      "SessionHub.sessions", "peer.listeners", "peer.closeCh", "peer.tlsConfig",
      "tBinaryProto.writeCount", "tBinaryProto.readCount", "tBinaryProto.tProtocol",
      "tStructProto.writeCount", "tStructProto.readCount", "tStructProto.tProtocol",
      "pluginSingleContainer.plugins", "socket.fromPool"].all (fun f => sites.any (·.field == f))) = true ∧
    -- every field declared init-only is present too (the extractor watches ALL fields of the watched structs)
    (initOnlyFields.all (fun fc => sites.any (·.field == fc.1))) = true ∧
    ((sites.map (·.field)).eraseDups.filter (fun f => isExempt (guardOf f))) =
      ["PluginContainer.left", "PluginContainer.middle", "PluginContainer.refreshTree", "PluginContainer.right",
       "ReadCounter.count", "WriteCounter.count", "peer.tlsConfig", "pluginSingleContainer.plugins",
       "session.protoFuncs"] := by
  decide +kernel

-- BEGIN callers
/-! ## (3) the functions NAMED by the guard map: regenerated call sites instead of trusted naming

`Conc.guardOf` excuses sites by the NAME of their enclosing function: `heldIn` (only called with the lock held),
`afterDone` (accessor that blocks on `<-Done()` first), `ctors` (the object is not shared yet).  The group
`Teleport.Gen.Callers` (harness/cmd/srcfacts/facts_callers.go) regenerates, on every run, every use of each of
these functions in the module with the locks held there (same walk as the site table), the done-channel receive
of the accessors and the locality of the constructed objects.  All checks below are ONE kernel evaluation
(`C14_callers_checked`); the named theorems are its parts. -/

/-- the regenerated uses of the named functions. -/
def callSites : List CallSite := Teleport.Gen.callers.map CallSite.ofRow

/-- the fields of the regenerated site table, and their declared disciplines. -/
def tableFields : List String := dedupAdj (sites.map (·.field))
def entries : List (String × Discipline) := guardEntries tableFields

/-- names used by the guard map = names whose uses were extracted (as sets of (role, name)). -/
def namesEqual : Bool :=
  (declaredNames tableFields).all (Teleport.Gen.callerTargets.contains ·) &&
    Teleport.Gen.callerTargets.all ((declaredNames tableFields).contains ·)

/-- the extractor's constructor / afterDone targets (equal to the guard map's names by `namesEqual`). -/
def ctorTargets : List String := targetNames Teleport.Gen.callerTargets "ctor"
def afterDoneTargets : List String := targetNames Teleport.Gen.callerTargets "afterDone"

/-- no constructor is started with `go`, deferred, or used as a method value (a constructor literal occurs as
a value where it is created). -/
def ctorUsesOk : Bool :=
  callSites.all fun c => !ctorTargets.contains c.callee || c.kind == "call" ||
    (c.kind == "value" && c.via == "lit")

/-- All obligations about the named functions, in one kernel evaluation over the regenerated tables
(`Gen.callers`, `Gen.afterDoneFns`, `Gen.ctorAccess`, `Gen.guards`).  The theorems below name its parts. -/
theorem C14_callers_checked :
    Teleport.Gen.callers_missing = [] ∧ Teleport.Gen.callersUnresolved = [] ∧
    namesEqual = true ∧
    heldInOk callSites entries = true ∧
    noAsyncUse callSites (heldNamesAll entries) = true ∧
    trustedSitesFail callSites entries = true ∧
    afterDoneNamesOk Teleport.Gen.afterDoneFns entries = true ∧
    afterDoneSitesOk Teleport.Gen.afterDoneFns afterDoneTargets sites = true ∧
    callerOrderedFail Teleport.Gen.afterDoneFns = true ∧
    ctorSitesOk Teleport.Gen.ctorAccess ctorTargets sites = true ∧
    ctorUsesOk = true ∧
    ctorTrustedFail Teleport.Gen.ctorAccess = true := by
  decide +kernel

/-- The extractor covers exactly the names the guard map uses: the (role, name) pairs of every `ctors`, `heldIn`
and `afterDone` list of `guardOf` (over all fields of the regenerated site table) together with `Conc.calleeHeld`
are, as a set, EQUAL to `Gen.callerTargets`, the list for which facts_callers.go extracted the uses, and every one
of them was found in the source.  Naming a further function in `guardOf` without extracting its callers, or
keeping a stale name in the extractor, makes this fail to build. -/
theorem C14_trusted_names_extracted :
    Teleport.Gen.callers_missing = [] ∧ namesEqual = true :=
  ⟨C14_callers_checked.1, C14_callers_checked.2.2.1⟩

/-- `heldIn` is no longer trusted naming.  For every lock `l` of the guard map and every function `f` that some
entry guarded by `l` lists in `heldIn` (or that `Conc.calleeHeld` lists for `l`): every use of `f` in the module —
none could be left unresolved (`callersUnresolved = []`) — is an ordinary call that holds `l` EXCLUSIVELY in the
syntactic lock region of the caller, or lies in a function already established to run with `l` held (least fixed
point `heldClosure`, 4 rounds, starting from the constructors of the entries guarded by `l`; a deferred call or
deferred literal counts only inside such a function; the assignment of the redial literal to the field through
which it is called — no such literal on the current tree, see `Conc.calleeHeld` — is not a call), and no use is a `go` statement or a function value — except the site-level
list `Conc.calleeTrusted` (lock hand-over bindReply → handleReply; `RawLocked` inside a ProtoFunc literal).
A new call of `hasReply`/`cancel`/`initOptimize`/`handleReply` outside the lock, a lock region narrowed so
that such a call falls outside, a `go c.cancel(…)`, or a method value of one of them makes this fail to build.  PARTIAL: syntactic regions; lock identity by (type, field); the receiver of the call is not
compared with the locked object. -/
theorem C14_heldIn_callers_hold_lock :
    Teleport.Gen.callers_missing = [] ∧ Teleport.Gen.callersUnresolved = [] ∧
    heldInOk callSites entries = true ∧ noAsyncUse callSites (heldNamesAll entries) = true :=
  ⟨C14_callers_checked.1, C14_callers_checked.2.1, C14_callers_checked.2.2.2.1, C14_callers_checked.2.2.2.2.1⟩

/-- The trusted call sites are real and really not lexical: each `calleeTrusted` entry matches a use in the current
table at which NO lock is held and whose enclosing function is not itself a named one (so the list cannot hide a
site that is fine, and an entry whose site disappeared fails). -/
theorem C14_callee_trusted_sites_witness :
    Teleport.Gen.callers_missing = [] ∧ trustedSitesFail callSites entries = true :=
  ⟨C14_callers_checked.1, C14_callers_checked.2.2.2.2.2.1⟩

/-- `afterDone` is no longer trusted naming.  Every accessor that a `donePublished` entry lists in `afterDone`
either is one of `Conc.cmdCallerOrdered` (Status, StatusOK, RealIP: documented for use once the command is
complete — still trusted) or has a top-level receive from the command's done channel (`<-c.Done()` /
`<-c.doneChan`) before which it touches no field of the command; and every table site that only the
`afterDone` clause excuses (outside `cmdCallerOrdered`) is an access of a field that the accessor touches after
that receive.  Removing the receive from `Reply`/`InputMeta`/`InputBodyCodec`/`CostTime`, or reading a field
before it, makes this fail to build. -/
theorem C14_afterDone_receives_first :
    Teleport.Gen.callers_missing = [] ∧
    afterDoneNamesOk Teleport.Gen.afterDoneFns entries = true ∧
    afterDoneSitesOk Teleport.Gen.afterDoneFns afterDoneTargets sites = true :=
  ⟨C14_callers_checked.1, C14_callers_checked.2.2.2.2.2.2.1, C14_callers_checked.2.2.2.2.2.2.2.1⟩

/-- the accessors of `cmdCallerOrdered` really contain no receive from the done channel (they are trusted, not
checked: the list cannot hide an accessor that does receive). -/
theorem C14_callerOrdered_no_receive_witness :
    Teleport.Gen.callers_missing = [] ∧ callerOrderedFail Teleport.Gen.afterDoneFns = true :=
  ⟨C14_callers_checked.1, C14_callers_checked.2.2.2.2.2.2.2.2.1⟩

/-- `ctors`: what could be established.  Every site of the table that is excused by NOTHING but the constructor
clause of its discipline (it would violate the discipline otherwise) is — unless listed in `Conc.ctorTrusted` —
an access that the extractor finds in that constructor on an object the constructor itself creates: a key of a
composite literal, or a field of a local variable bound there to `&T{…}`/`T{…}`/`new(T)`/the result of another
constructor, at a point that no escape of that variable (argument of a call, store, send, capture by a literal,
`go`) lexically precedes (an assignment counts at its end: its right-hand side is evaluated first).  And no
constructor is started with `go`, deferred or used as a method value.  NOT established (trusted): that the
callers of a constructor publish the result only after the constructor returned is by construction (the result
is its return value); method calls on the new object are not counted as escapes. -/
theorem C14_ctor_sites :
    Teleport.Gen.callers_missing = [] ∧
    ctorSitesOk Teleport.Gen.ctorAccess ctorTargets sites = true ∧ ctorUsesOk = true :=
  ⟨C14_callers_checked.1, C14_callers_checked.2.2.2.2.2.2.2.2.2.1, C14_callers_checked.2.2.2.2.2.2.2.2.2.2.1⟩

/-- the trusted constructor accesses really are made after an escape (`socket.protocol` in newSocket,
`session.redialForClientLocked` in peer.Dial). -/
theorem C14_ctor_trusted_witness :
    Teleport.Gen.callers_missing = [] ∧ ctorTrustedFail Teleport.Gen.ctorAccess = true :=
  ⟨C14_callers_checked.1, C14_callers_checked.2.2.2.2.2.2.2.2.2.2.2⟩

/-! non-vacuity of the obligations on the shapes the extractor emits -/

/-- a call outside the lock, under a shared hold only, started with `go`, used as a value, or made from another
package does not satisfy the obligation; the same call under the exclusive hold does. -/
example : siteHolds "callCmd.mu" [] ⟨"callCmd.cancel", "call", "direct", "session.foo", "session.go", "", []⟩ = false := by decide +kernel
example : siteHolds "callCmd.mu" [] ⟨"callCmd.cancel", "call", "direct", "session.foo", "session.go", "", [("callCmd.mu", "R")]⟩ = false := by decide +kernel
example : siteHolds "callCmd.mu" [] ⟨"callCmd.cancel", "call", "direct", "session.foo", "session.go", "", [("session.lock", "W")]⟩ = false := by decide +kernel
example : siteHolds "callCmd.mu" [] ⟨"callCmd.cancel", "go", "direct", "session.foo", "session.go", "", [("callCmd.mu", "W")]⟩ = false := by decide +kernel
example : siteHolds "callCmd.mu" [] ⟨"callCmd.cancel", "value", "direct", "session.foo", "session.go", "", [("callCmd.mu", "W")]⟩ = false := by decide +kernel
example : siteHolds "callCmd.mu" [] ⟨"callCmd.cancel", "defer", "direct", "session.foo", "session.go", "", [("callCmd.mu", "W")]⟩ = false := by decide +kernel
example : siteHolds "socket.mu" [] ⟨"socket.RawLocked", "call", "ext", "Foo", "x/y.go", "", [("socket.mu", "W")]⟩ = false := by decide +kernel
example : siteHolds "callCmd.mu" [] ⟨"callCmd.cancel", "call", "direct", "session.readDisconnected$lit", "session.go", "", [("callCmd.mu", "W")]⟩ = true := by decide +kernel

/-- the closure is a least fixed point: two functions that only call each other are NOT established, a function
called under the lock is, and then so is the one it calls. -/
example : heldClosure [⟨"A", "call", "direct", "B", "f.go", "", []⟩, ⟨"B", "call", "direct", "A", "f.go", "", []⟩] "m" ["A", "B"] [] 4 = [] := by decide +kernel
example : heldClosure [⟨"A", "call", "direct", "C", "f.go", "", [("m", "W")]⟩, ⟨"B", "call", "direct", "A", "f.go", "", []⟩] "m" ["A", "B"] [] 4 = ["A", "B"] := by decide +kernel
example : heldClosure [⟨"A", "call", "direct", "C", "f.go", "", [("m", "W")]⟩, ⟨"A", "call", "direct", "D", "f.go", "", []⟩] "m" ["A"] [] 4 = [] := by decide +kernel

/-- an accessor without receive, or touching a field before it, fails; a site on a field not touched after the
receive fails. -/
example : afterDoneOk [("callCmd.Reply", "", ["result", "stat"], [])] "callCmd.Reply" = false := by decide +kernel
example : afterDoneOk [("callCmd.Reply", "Done()", ["stat"], ["result"])] "callCmd.Reply" = false := by decide +kernel
example : afterDoneOk [("callCmd.Reply", "Done()", [], ["result", "stat"])] "callCmd.Reply" = true := by decide +kernel
example : afterDoneSiteOk [("callCmd.Reply", "Done()", [], ["result"])] ⟨"callCmd.stat", "R", false, [], "callCmd.Reply", "context.go"⟩ = false := by decide +kernel

/-- a constructor write after the object escaped is not local; a literal key or a write before any escape is. -/
example : ctorSiteLocal [("newSocket", "socket.protocol", "W", "escaped:arg")] ⟨"socket.protocol", "W", false, [], "newSocket", "socket/socket.go"⟩ = false := by decide +kernel
example : ctorSiteLocal [] ⟨"socket.protocol", "W", false, [], "newSocket", "socket/socket.go"⟩ = false := by decide +kernel
example : ctorSiteLocal [("newSocket", "socket.Conn", "W", "lit")] ⟨"socket.Conn", "W", false, [], "newSocket", "socket/socket.go"⟩ = true := by decide +kernel
-- END callers

end C14
end Teleport
