/-
Props/C18 — Overload plugin never admits more than its connection and rate limits.
Property theorems only; the model is Model/Overload (plugin/overloader/*.go composed with the
accept and close paths of peer.go / session.go), helper lemmas live in Lemmas/Overload.

Two statements of the property do NOT hold for the code as it is; for each the full-strength
statement is kept in a comment, the part that holds is proved as `_partial`, and the violating
history is proved as `_witness` in the model of the composed system:
  * a connection refused by the limiter is closed through `Session.Close`, whose disconnect hook
    releases a slot that was never taken (`C18_conn_bound_witness`, `C18_reject_no_slot_witness`);
  * the ticker's refill is load / compute / store, not atomic with `take`
    (`C18_rate_bound_witness`).
-/
import Teleport.Lemmas.Overload
namespace Teleport
namespace C18
open Overload

/-! ## connection limit -/

/- Full-strength statement (FALSE for the code as it is, see `C18_conn_bound_witness`):
     theorem C18_conn_bound (lim : Int) (h : 0 ≤ lim) (s : St)
         (r : Reach CStep (St.init lim) s) (hc : s.hi = lim) : (s.admitted : Int) ≤ lim
   i.e. in the system as coded (accept path included), while the limit is constant, never more than
   `lim` entities are admitted at the same time. -/

/-- The limiter in isolation (release called only by an entity whose `take` returned true — what
    the plugin would get from an accept path that did not run the disconnect hook for refused
    connections): for every number of concurrent takers and releasers and every interleaving of
    their atomic operations, while the limit is constant, the number of concurrently admitted
    entities never exceeds the limit. -/
theorem C18_conn_bound_partial (lim : Int) (h : 0 ≤ lim) (s : St)
    (r : Reach Step (St.init lim) s) : s.lim = lim ∧ (s.admitted : Int) ≤ lim := by
  have hl := reach_step_lim_hi r
  have hi := linv_reach (linv_init lim h) (reach_mono (fun _ _ => UStep.base) r)
  have hb := linv_bound hi
  rw [hl.2] at hb
  exact ⟨hl.1, hb⟩

/-- non-vacuity: a state with two admitted entities under limit 2 is reachable. -/
example : ∃ s, Reach Step (St.init 2) s ∧ s.admitted = 2 := by
  have r0 : Reach Step (St.init 2) (St.init 2) := .refl
  have r1 := r0.step (Step.arrive _)
  have r2 := r1.step (Step.arrive _)
  have r3 := r2.step (Step.checkOk _ [] [⟨.gotX, 2⟩] 1 rfl (by decide))
  have r4 := r3.step (Step.checkOk _ [⟨.willInc, 1⟩] [] 2 rfl (by decide))
  exact ⟨_, r4, by decide⟩

/-- With `Update` at arbitrary moments: the admitted entities never exceed the largest limit that
    has been in force so far (`hi`; it is `max` of the initial limit and all updates), and every
    admission decision compared the captured count with the limit in force at that moment
    (constructor `Step.checkOk`). This is the sharpest bound the algorithm can give across a
    lowering of the limit, see `C18_conn_update_gap_witness`. -/
theorem C18_conn_bound_update (lim : Int) (h : 0 ≤ lim) (s : St)
    (r : Reach UStep (St.init lim) s) : (s.admitted : Int) ≤ s.hi ∧ s.lim ≤ s.hi := by
  have hi := linv_reach (linv_init lim h) r
  exact ⟨linv_bound hi, hi.lim_le⟩

/-- "admitted ≤ the current limit" cannot hold across a lowering of the limit, whatever the
    limiter does: two sessions admitted under limit 2 are still there after `Update(1)`. -/
theorem C18_conn_update_gap_witness :
    ∃ s, Reach UStep (St.init 2) s ∧ s.lim = 1 ∧ s.admitted = 2 := by
  have r0 : Reach UStep (St.init 2) (St.init 2) := .refl
  have r1 := r0.step (.base (Step.arrive _))
  have r2 := r1.step (.base (Step.arrive _))
  have r3 := r2.step (.base (Step.checkOk _ [] [⟨.gotX, 2⟩] 1 rfl (by decide)))
  have r4 := r3.step (.base (Step.checkOk _ [⟨.willInc, 1⟩] [] 2 rfl (by decide)))
  have r5 := r4.step (UStep.update _ 1 (by decide))
  exact ⟨_, r5, rfl, by decide⟩

/-- The system as coded violates the connection bound: limit 1, one session admitted, a second
    connection refused — its session is closed, the disconnect hook releases a slot — and a third
    connection is admitted while the first is still there: 2 admitted under a constant limit 1. -/
theorem C18_conn_bound_witness :
    ∃ s, Reach CStep (St.init 1) s ∧ s.lim = 1 ∧ s.hi = 1 ∧ s.admitted = 2 := by
  have r0 : Reach CStep (St.init 1) (St.init 1) := .refl
  -- first connection: tmp++ (x = 1), 1 ≤ lim, now++
  have r1 := r0.step (.base (.base (Step.arrive _)))
  have r2 := r1.step (.base (.base (Step.checkOk _ [] [] 1 rfl (by decide))))
  have r3 := r2.step (.base (.base (Step.inc _ [] [] 1 rfl)))
  -- second connection: tmp++ (x = 2), 2 > lim, tmp--; refused
  have r4 := r3.step (.base (.base (Step.arrive _)))
  have r5 := r4.step (.base (.base (Step.checkNo _ [⟨.holding, 1⟩] [] 2 rfl (by decide))))
  have r6 := r5.step (.base (.base (Step.dec _ [⟨.holding, 1⟩] [] 2 rfl)))
  -- the accept path closes the refused session: disconnect hook = release: now--, tmp--
  have r7 := r6.step (CStep.zrel1 _ 0 rfl)
  have r8 := r7.step (CStep.zrel2 _ 0 rfl)
  -- third connection: tmp++ gives x = 1 again, admitted
  have r9 := r8.step (.base (.base (Step.arrive _)))
  have r10 := r9.step (.base (.base (Step.checkOk _ [⟨.holding, 1⟩] [] 1 rfl (by decide))))
  have r11 := r10.step (.base (.base (Step.inc _ [⟨.holding, 1⟩] [] 1 rfl)))
  exact ⟨_, r11, rfl, rfl, by decide⟩

/-- The same history in the sequential model that the harness replays against the real peer:
    `MaxConn = 1`, three connects: admitted, refused, admitted — two live sessions. -/
theorem C18_conn_seq_witness :
    ∃ o, OV.new ⟨1, 0, 0, []⟩ = some o ∧
      let s1 := (Sys.connect ⟨o, []⟩)
      let s2 := s1.1.connect
      let s3 := s2.1.connect
      s1.2 = .admitted ∧ s2.2 = .rejected 1 1 ∧ s3.2 = .admitted ∧ s3.1.live = 2 := by
  refine ⟨_, rfl, ?_⟩
  decide

/-! ## a refused connection consumes no slot -/

/- Full-strength statement (FALSE for the code as it is, see `C18_reject_no_slot_witness`):
     theorem C18_reject_no_slot (s : Sys) (l n : Int) (h : s.connect.2 = .rejected l n) :
         s.connect.1.ov = s.ov -/

/-- The limiter itself: a `take` that returns false leaves all three counters as they were. -/
theorem C18_reject_no_slot_partial (c : CL) (h : c.take.2 = false) : c.take.1 = c := by
  simp only [CL.take] at h ⊢
  by_cases hx : c.tmp + 1 ≤ c.lim
  · simp [hx] at h
  · simp only [hx, if_false]
    cases c; simp only [CL.mk.injEq, true_and]; omega

example : (CL.mk 1 1 1).take.2 = false := by decide

/-- On the accept path as coded the refused connection does change the counters: the session is
    closed, `postDisconnect` calls `release`; `now` and `tmp` drop by one although nothing was
    taken. -/
theorem C18_reject_no_slot_witness :
    let s : Sys := ⟨⟨⟨1, 0, 0, []⟩, some ⟨1, 1, 1⟩, none, []⟩, [⟨true, true⟩]⟩
    s.connect.2 = .rejected 1 1 ∧ s.connect.1.ov.conn = some ⟨1, 0, 0⟩ ∧ s.ov.conn = some ⟨1, 1, 1⟩ := by
  decide

/-! ## an admitted session's slot is released exactly once -/

/-- Exact accounting in the limiter, for every interleaving and with updates: `now` is the number
    of entities holding a slot and `tmp` the number of entities between their `tmp++` and their
    `tmp--`; in particular when all have ended both counters are back to 0 — no slot is leaked and
    none is released twice. -/
theorem C18_release_once (lim : Int) (h : 0 ≤ lim) (s : St) (r : Reach UStep (St.init lim) s) :
    s.now = (s.ents.countP Ent.isHolding : Nat) ∧ s.tmp = s.ents.length ∧
    (s.ents = [] → s.now = 0 ∧ s.tmp = 0) := by
  have hi := linv_reach (linv_init lim h) r
  refine ⟨hi.now_eq, hi.tmp_eq, fun he => ?_⟩
  have h1 := hi.now_eq; have h2 := hi.tmp_eq
  rw [he] at h1 h2
  exact ⟨by simpa using h1, by simpa using h2⟩

/-- Sequentially: an admitted take followed by one release restores the limiter. -/
theorem C18_release_once_seq (c : CL) (h : c.take.2 = true) : c.take.1.release = c := by
  simp only [CL.take] at h ⊢
  by_cases hx : c.tmp + 1 ≤ c.lim
  · simp only [hx, if_true, CL.release]
    cases c; simp only [CL.mk.injEq, true_and]; omega
  · simp [hx] at h

example : (CL.mk 1 0 0).take.2 = true := by decide

/-- The close paths let exactly one close through per session (status CAS in `closeLocked`, status
    switch in `readDisconnected`): closing a session a second time changes nothing, so the
    disconnect hook — and with it `release` — runs once. -/
theorem C18_close_idempotent (s : Sys) (i : Nat) : (s.close i).close i = s.close i := by
  unfold Sys.close
  cases hs : s.sess[i]? with
  | none => simp [hs]
  | some x =>
    obtain ⟨a, o⟩ := x
    cases o
    · simp [hs]
    · have hi : i < s.sess.length := by
        rcases Nat.lt_or_ge i s.sess.length with h | h
        · exact h
        · rw [List.getElem?_eq_none h] at hs; cases hs
      simp [hi]

/-! ## rate limit -/

/- Full-strength statement (FALSE for the code as it is, see `C18_rate_bound_witness`): for every
   schedule `evs` (ticker load and store as separate steps),
     qrun limit once s evs = some t → s.tokens ≤ limit →
       (t.adm : Int) - s.adm ≤ limit + once * (t.ticks - s.ticks) + (t.ticks - s.ticks)   -/

/-- The schedule in which the ticker's refill is atomic with respect to `take` (takers still
    interleave freely with each other, any number of them): over ANY interval, starting in any
    state whose bucket is not over-full, the number of admitted calls and pushes is at most the
    bucket capacity plus the refill of the interval (`once` per tick) — no slack needed. -/
theorem C18_rate_bound_partial (limit once : Int) (h0 : 0 ≤ once) (h1 : once ≤ limit)
    (evs : List QEv) (hat : ∀ e ∈ evs, e.atomicTick = true) (s t : QSt)
    (hcap : s.tokens ≤ limit) (hr : qrun limit once s evs = some t) :
    (t.adm : Int) - s.adm ≤ limit + once * ((t.ticks : Int) - s.ticks) ∧ t.tokens ≤ limit := by
  suffices h : pot t ≤ pot s + once * ((t.ticks : Int) - s.ticks) ∧ t.tokens ≤ limit ∧ s.ticks ≤ t.ticks by
    refine ⟨?_, h.2.1⟩
    have := h.1; unfold pot at this; omega
  induction evs generalizing s with
  | nil => simp only [qrun, Option.some.injEq] at hr; subst hr; exact ⟨by simp, hcap, Nat.le_refl _⟩
  | cons e es ih =>
    simp only [qrun] at hr
    cases hq : qstep limit once s e with
    | none => simp [hq] at hr
    | some u =>
      simp only [hq, Option.bind_some] at hr
      have hs := pot_step limit once h0 h1 s u e hq
      rw [hat e (by simp)] at hs
      simp only [if_true] at hs
      have hi := ih (fun e he => hat e (by simp [he])) u (hs.2.1 hcap) hr
      refine ⟨?_, hi.2.1, Nat.le_trans hs.2.2 hi.2.2⟩
      have e1 := hs.1; have e2 := hi.1
      have : once * ((t.ticks : Int) - s.ticks) = once * ((t.ticks : Int) - u.ticks) + once * ((u.ticks : Int) - s.ticks) := by
        rw [← Int.mul_add]; congr 1; omega
      omega

/-- non-vacuity: a full bucket of 2, refill 1: two admitted, one refused, tick, one admitted. -/
example : ∃ t, qrun 2 1 (QSt.init 2)
    [.takeLoad, .takeLoad, .takeAdd, .takeAdd, .takeLoad, .tick, .takeLoad, .takeAdd] = some t
    ∧ t.adm = 3 ∧ t.rej = 1 ∧ t.ticks = 1 := ⟨_, rfl, by decide⟩

/-- What the code as it is guarantees under EVERY schedule (ticker racing with takers): each
    completed refill can bring back at most a full bucket, so over any interval the admissions are
    at most `limit * (ticks + 1)` — the configured refill `once` per tick is not respected. -/
theorem C18_rate_bound_racy (limit once : Int) (h0 : 0 ≤ once) (h1 : once ≤ limit)
    (evs : List QEv) (s t : QSt)
    (hcap : s.tokens ≤ limit) (hr : qrun limit once s evs = some t) :
    (t.adm : Int) - s.adm ≤ limit + limit * ((t.ticks : Int) - s.ticks) := by
  suffices h : pot t ≤ pot s + limit * ((t.ticks : Int) - s.ticks) ∧ s.ticks ≤ t.ticks by
    have := h.1; unfold pot at this; omega
  induction evs generalizing s with
  | nil => simp only [qrun, Option.some.injEq] at hr; subst hr; simp
  | cons e es ih =>
    simp only [qrun] at hr
    cases hq : qstep limit once s e with
    | none => simp [hq] at hr
    | some u =>
      simp only [hq, Option.bind_some] at hr
      have hs := pot_step limit once h0 h1 s u e hq
      have hi := ih u (hs.2.1 hcap) hr
      refine ⟨?_, Nat.le_trans hs.2.2 hi.2⟩
      have e2 := hi.1
      have hd : (0 : Int) ≤ (u.ticks : Int) - s.ticks := by have := hs.2.2; omega
      have e1 : pot u ≤ pot s + limit * ((u.ticks : Int) - s.ticks) := by
        have := hs.1
        split at this
        · have hm : once * ((u.ticks : Int) - s.ticks) ≤ limit * ((u.ticks : Int) - s.ticks) :=
            Int.mul_le_mul_of_nonneg_right h1 hd
          omega
        · exact this
      have : limit * ((t.ticks : Int) - s.ticks) = limit * ((t.ticks : Int) - u.ticks) + limit * ((u.ticks : Int) - s.ticks) := by
        rw [← Int.mul_add]; congr 1; omega
      omega

/-- The race: capacity 3, refill 1 per tick. The ticker loads 3; three takers are admitted; the
    ticker stores `min(3+1,3) = 3`, forgetting them; three more are admitted: 6 admissions in an
    interval with one tick, more than capacity 3 + refill 1 + one slack = 5. -/
theorem C18_rate_bound_witness :
    ∃ t, qrun 3 1 (QSt.init 3)
      [.tickLoad, .takeLoad, .takeAdd, .takeLoad, .takeAdd, .takeLoad, .takeAdd, .tickStore,
       .takeLoad, .takeAdd, .takeLoad, .takeAdd, .takeLoad, .takeAdd] = some t
      ∧ t.adm = 6 ∧ t.ticks = 1 ∧ ¬ ((t.adm : Int) - 0 ≤ 3 + 1 * (t.ticks : Int) + t.ticks) :=
  ⟨_, rfl, by decide⟩

/-! ## refused calls are answered with an error and not handled -/

/-- An empty total bucket refuses: `PostReadCallHeader` returns the "qps overload, total_limit"
    status and changes nothing. -/
theorem C18_empty_bucket_refuses (o : OV) (q : QL) (m : String)
    (hq : o.total = some q) (he : q.tokens ≤ 0) :
    o.readHeader m = (o, .totalOver q.limit) := by
  unfold OV.readHeader
  simp only [hq, QL.take, he, if_true]
  cases o; simp_all

example : (⟨⟨0, 1000000000, 1, []⟩, none, some ⟨1, 0, 1, 1000000000⟩, []⟩ : OV).total = some ⟨1, 0, 1, 1000000000⟩ ∧
    (⟨1, 0, 1, 1000000000⟩ : QL).tokens ≤ 0 := by decide

/-- Whatever the hook refuses (total or handler bucket): the handler is not run; a CALL gets a
    reply carrying exactly that error status, a PUSH gets nothing. -/
theorem C18_rejected_call_gets_error_reply (o : OV) (m : String) (found : Bool)
    (h : (o.readHeader m).2.isOK = false) :
    dispatch true found (o.readHeader m).2 = ⟨false, some (o.readHeader m).2⟩ ∧
    dispatch false found (o.readHeader m).2 = ⟨false, none⟩ := by
  simp [dispatch, h]

example : ((⟨⟨0, 1000000000, 1, []⟩, none, some ⟨1, 0, 1, 1000000000⟩, []⟩ : OV).readHeader "/x").2.isOK = false := by
  decide

/-- ... and an admitted call to an existing route is handled and answered OK. -/
theorem C18_admitted_call_is_handled (d : Decision) (h : d.isOK = true) :
    dispatch true true d = ⟨true, some .ok⟩ := by
  simp [dispatch, h]

/-- A token is taken for every admission: an admitted header strictly lowers the total bucket. -/
theorem C18_admission_takes_token (o : OV) (q : QL) (m : String) (hq : o.total = some q)
    (h : (o.readHeader m).2 = .ok) :
    ∃ q', (o.readHeader m).1.total = some q' ∧ q'.tokens = q.tokens - 1 ∧ 0 < q.tokens := by
  unfold OV.readHeader at h ⊢
  simp only [hq] at h ⊢
  by_cases ht : q.tokens ≤ 0
  · simp [QL.take, ht] at h
  · simp only [QL.take, ht, if_false] at h ⊢
    have hd : decide (0 ≤ q.tokens - 1) = true := by simp; omega
    simp only [hd] at h ⊢
    simp only [Bool.not_true, Bool.false_eq_true, if_false] at h ⊢
    split
    · exact ⟨_, rfl, rfl, by omega⟩
    · exact ⟨_, rfl, rfl, by omega⟩

example : ((⟨⟨0, 1000000000, 2, []⟩, none, some ⟨2, 2, 2, 1000000000⟩, []⟩ : OV).readHeader "/x").2 = .ok := by
  decide

end C18
end Teleport
