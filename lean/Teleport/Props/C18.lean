/-
Props/C18 — Overload plugin never admits more than its connection and rate limits.
Property theorems only; the model is Model/Overload (plugin/overloader/*.go composed with the
accept and close paths of peer.go / session.go), helper lemmas live in Lemmas/Overload.

Every statement is proved at full strength: all numbers of concurrent connections / takers, all
interleavings of their atomic operations (the ticker's load and compare-and-swap included), all
sequential histories.
-/
import Teleport.Lemmas.Overload
namespace Teleport
namespace C18
open Overload

/-! ## connection limit -/

/-- The composed system (plugin + accept path + close paths: `release` is run only for a session
    whose `take` returned true, once; a refused connection only undoes its own `tmp++`), for every
    number of concurrent connections and every interleaving of their atomic operations, `Update`s
    included: while the limit has never been switched off (`unl = false`) and no limit larger than
    the initial one has been in force (`hi = lim`; in particular while the limit is constant), the
    number of concurrently admitted sessions never exceeds the limit. -/
theorem C18_conn_bound (lim : Int) (h : 0 ≤ lim) (s : St)
    (r : Reach UStep (St.init lim) s) (hc : s.hi = lim) (hu : s.unl = false) :
    (s.admitted : Int) ≤ lim := by
  have hb := linv_bound (linv_reach (linv_init lim h) r) hu
  rw [hc] at hb
  exact hb

/-- non-vacuity: a state with two admitted sessions under the constant limit 2 is reachable. -/
example : ∃ s, Reach UStep (St.init 2) s ∧ s.hi = 2 ∧ s.unl = false ∧ s.admitted = 2 := by
  have r0 : Reach UStep (St.init 2) (St.init 2) := .refl
  have r1 := r0.step (.base (Step.arrive _))
  have r2 := r1.step (.base (Step.arrive _))
  have r3 := r2.step (.base (Step.checkOk _ [] [⟨.gotX, 2⟩] 1 rfl (by decide)))
  have r4 := r3.step (.base (Step.checkOk _ [⟨.willInc, 1⟩] [] 2 rfl (by decide)))
  exact ⟨_, r4, rfl, rfl, by decide⟩

/-- Without `Update` a positive limit stays what it was and bounds the admitted sessions. -/
theorem C18_conn_bound_const (lim : Int) (h : 0 < lim) (s : St)
    (r : Reach Step (St.init lim) s) : s.lim = lim ∧ (s.admitted : Int) ≤ lim := by
  have hl := reach_step_lim_hi r
  refine ⟨hl.1, C18_conn_bound lim (by omega) s (reach_mono (fun _ _ => UStep.base) r) hl.2.1 ?_⟩
  rw [hl.2.2]; simp [St.init]; omega

/-- The same bound for the sequential composition that the harness replays against the real peer
    (`Sys`: `ServeConn` = `postAccept` + on refusal `sess.Close()`; `Close` = `postDisconnect`):
    after ANY history of connects and closes (first, second, of refused or admitted sessions) under
    `MaxConn = lim > 0`, the live sessions number at most `lim`, and the limiter's counters equal
    that number. -/
theorem C18_conn_bound_seq (c : Conf) (o : OV) (hc : 0 < c.maxConn) (ho : OV.new c = some o)
    (ops : List SOp) (hn : ∀ op ∈ ops, op.isUpdate = false) :
    let s := Sys.run ⟨o, []⟩ ops
    (s.live : Int) ≤ c.maxConn ∧ s.ov.conn = some ⟨c.maxConn, (s.live : Nat), (s.live : Nat)⟩ := by
  have h0 : SInv c.maxConn ⟨o, []⟩ := by
    refine ⟨?_, hc, ?_⟩
    · simpa [CInv, Sys.live] using new_conn ho
    · simp only [Sys.live, List.countP_nil]; omega
  have h := sinv_run ops hn h0
  exact ⟨h.2.2, h.1⟩

/-- non-vacuity: `MaxConn = 1`; connect, connect (refused), connect (refused again: the refusal
    before released nothing), close, connect: one live session throughout. -/
example : ∃ o, OV.new ⟨1, 0, 0, []⟩ = some o ∧
    let s1 := (Sys.connect ⟨o, []⟩)
    let s2 := s1.1.connect
    let s3 := s2.1.connect
    s1.2 = .admitted ∧ s2.2 = .rejected 1 1 ∧ s3.2 = .rejected 1 1 ∧ s3.1.live = 1 ∧
    (Sys.run ⟨o, []⟩ [.connect, .connect, .connect, .close 0, .connect]).live = 1 ∧
    (∀ op ∈ [SOp.connect, .connect, .connect, .close 0, .connect], op.isUpdate = false) := by
  refine ⟨_, rfl, ?_⟩
  decide

/-- Switching the limit off and on again does not forget the open sessions: after ANY history of
    connects, closes and `Update`s of `MaxConn` to any value (`<= 0` = no limit), from any initial
    configuration, both counters of the limiter equal the number of live sessions, and a connect
    that is admitted while a positive limit `lim` is in force leaves at most `lim` live sessions. -/
theorem C18_reenable_keeps_count (c : Conf) (o : OV) (ho : OV.new c = some o) (ops : List SOp) :
    let s := Sys.run ⟨o, []⟩ ops
    ∃ lim, s.ov.conn = some ⟨lim, (s.live : Nat), (s.live : Nat)⟩ ∧
      (0 < lim → s.connect.2 = .admitted → (s.connect.1.live : Int) ≤ lim) := by
  have h0 : CInv c.maxConn ⟨o, []⟩ := by
    simpa [CInv, Sys.live] using new_conn ho
  obtain ⟨lim, h⟩ := cinv_run ops h0
  refine ⟨lim, h, fun hp ha => ?_⟩
  rcases (cinv_connect h).2 with ⟨_, hl, hb⟩ | ⟨hr, _, _, _⟩
  · rw [hl]; push_cast; omega
  · rw [hr] at ha; cases ha

/-- non-vacuity, the history that used to admit a second session: `MaxConn = 1`, connect,
    `Update(0)`, `Update(1)`, connect — refused, the first session is still counted; with the limit
    off a second session is admitted and counted, and lowering the limit to 1 afterwards admits
    no third one. -/
example : ∃ o, OV.new ⟨1, 0, 0, []⟩ = some o ∧
    (Sys.run ⟨o, []⟩ [.connect, .update 0, .update 1]).connect.2 = .rejected 1 1 ∧
    (Sys.run ⟨o, []⟩ [.connect, .update 0, .connect]).live = 2 ∧
    (Sys.run ⟨o, []⟩ [.connect, .update 0, .connect, .update 1]).connect.2 = .rejected 1 2 := by
  refine ⟨_, rfl, ?_⟩
  decide

/-- With `Update` at arbitrary moments, while the limit has never been switched off: the admitted
    entities never exceed the largest limit that has been in force so far (`hi`; it is `max` of the
    initial limit and all updates), and every admission decision compared the captured count with
    the limit in force at that moment (constructor `Step.checkOk`). This is the sharpest bound the
    algorithm can give across a lowering of the limit, see `C18_conn_update_gap_witness`. -/
theorem C18_conn_bound_update (lim : Int) (h : 0 ≤ lim) (s : St)
    (r : Reach UStep (St.init lim) s) (hu : s.unl = false) :
    (s.admitted : Int) ≤ s.hi ∧ s.lim ≤ s.hi := by
  have hi := linv_reach (linv_init lim h) r
  exact ⟨linv_bound hi hu, hi.lim_le⟩

/-- non-vacuity: raising the limit from 1 to 2 keeps `unl = false`. -/
example : ∃ s, Reach UStep (St.init 1) s ∧ s.unl = false ∧ s.hi = 2 :=
  ⟨_, Reach.refl.step (UStep.update _ 2), rfl, rfl⟩

/-- "admitted ≤ the current limit" cannot hold across a lowering of the limit, whatever the
    limiter does: two sessions admitted under limit 2 are still there after `Update(1)`. -/
theorem C18_conn_update_gap_witness :
    ∃ s, Reach UStep (St.init 2) s ∧ s.lim = 1 ∧ s.admitted = 2 := by
  have r0 : Reach UStep (St.init 2) (St.init 2) := .refl
  have r1 := r0.step (.base (Step.arrive _))
  have r2 := r1.step (.base (Step.arrive _))
  have r3 := r2.step (.base (Step.checkOk _ [] [⟨.gotX, 2⟩] 1 rfl (by decide)))
  have r4 := r3.step (.base (Step.checkOk _ [⟨.willInc, 1⟩] [] 2 rfl (by decide)))
  have r5 := r4.step (UStep.update _ 1)
  exact ⟨_, r5, rfl, by decide⟩

/-! ## a refused connection consumes no slot -/

/-- A connection refused by the limiter consumes no slot: the whole plugin state (all three
    counters of the limiter included) is what it was before the connect, although the accept path
    closes the refused session and its disconnect hook runs; the refused session is closed and is
    not in the peer's index. -/
theorem C18_reject_no_slot (s : Sys) (l n : Int) (h : s.connect.2 = .rejected l n) :
    s.connect.1.ov = s.ov ∧ s.connect.1.sess = s.sess ++ [⟨false, false⟩] ∧
    s.connect.1.live = s.live := by
  unfold Sys.connect OV.takeConn at h ⊢
  cases hc : s.ov.conn with
  | none => simp [hc] at h
  | some c =>
    simp only [hc] at h ⊢
    cases ht : c.take.2 with
    | true => simp [ht] at h
    | false =>
      have hu := take_false_unchanged c ht
      simp only [Bool.false_eq_true, if_false, hu, true_and]
      refine ⟨?_, ?_⟩
      · cases hs : s.ov; simp_all
      · simp [Sys.live, List.countP_append]

/-- non-vacuity: a full limiter refuses. -/
example : (Sys.connect ⟨⟨⟨1, 0, 0, []⟩, some ⟨1, 1, 1⟩, none, []⟩, [⟨true, true⟩]⟩).2 = .rejected 1 1 := by
  decide

/-! ## an admitted session's slot is released exactly once -/

/-- Exact accounting in the limiter, for every interleaving and with updates to any value (the
    limit switched off and on again included): `now` is the number
    of entities holding a slot and `tmp` the number of entities between their `tmp++` and their
    `tmp--`; in particular when all have ended both counters are back to 0 — no slot is leaked and
    none is released twice. -/
theorem C18_release_once (lim : Int) (h : 0 ≤ lim) (s : St) (r : Reach UStep (St.init lim) s) :
    s.now = (s.ents.countP Ent.isHolding : Nat) ∧ s.tmp = s.ents.length ∧
    (s.ents = [] → s.now = 0 ∧ s.tmp = 0) := by
  have hi := linv_reach (linv_init lim h) r
  refine ⟨hi.now_eq, hi.tmp_eq, fun he => ?_⟩
  have h1 := hi.now_eq; have h2 := hi.tmp_eq
  rw [he] at h1 h2
  exact ⟨by simpa using h1, by simpa using h2⟩

/-- Sequentially: an admitted take followed by one release restores the limiter. -/
theorem C18_release_once_seq (c : CL) (h : c.take.2 = true) : c.take.1.release = c := by
  simp only [CL.take] at h ⊢
  by_cases hx : c.lim ≤ 0 ∨ c.tmp + 1 ≤ c.lim
  · simp only [hx, if_true, CL.release]
    cases c; simp only [CL.mk.injEq, true_and]; omega
  · simp [hx] at h

example : (CL.mk 1 0 0).take.2 = true := by decide

/-- The close paths let exactly one close through per session (status CAS in `closeLocked`, status
    switch in `readDisconnected`): closing a session a second time changes nothing, so the
    disconnect hook — and with it `release` — runs once. -/
theorem C18_close_idempotent (s : Sys) (i : Nat) : (s.close i).close i = s.close i := by
  unfold Sys.close
  cases hs : s.sess[i]? with
  | none => simp [hs]
  | some x =>
    obtain ⟨a, o⟩ := x
    cases o
    · simp [hs]
    · have hi : i < s.sess.length := by
        rcases Nat.lt_or_ge i s.sess.length with h | h
        · exact h
        · rw [List.getElem?_eq_none h] at hs; cases hs
      simp [hi]

/-! ## rate limit -/

/-- Under EVERY schedule — any number of takers interleaving freely with each other and with the
    ticker, whose load and compare-and-swap are separate steps (a failed compare-and-swap loads
    again) — over ANY interval, starting in any state whose bucket is not over-full, the number of
    admitted calls and pushes is at most the bucket capacity plus the refill of the interval
    (`once` per completed refill); the bucket never holds more than its capacity. No slack is
    needed. -/
theorem C18_rate_bound_exact (limit once : Int) (h0 : 0 ≤ once) (h1 : once ≤ limit)
    (evs : List QEv) (s t : QSt)
    (hcap : s.tokens ≤ limit) (hr : qrun limit once s evs = some t) :
    (t.adm : Int) - s.adm ≤ limit + once * ((t.ticks : Int) - s.ticks) ∧ t.tokens ≤ limit := by
  have h := pot_run limit once h0 h1 evs s t hcap hr
  refine ⟨?_, h.2.1⟩
  have := h.1; unfold pot at this; omega

/-- The property as worded: admissions in any interval never exceed the bucket capacity plus the
    refill of that interval, allowing one admission of slack per refill tick. -/
theorem C18_rate_bound (limit once : Int) (h0 : 0 ≤ once) (h1 : once ≤ limit)
    (evs : List QEv) (s t : QSt)
    (hcap : s.tokens ≤ limit) (hr : qrun limit once s evs = some t) :
    (t.adm : Int) - s.adm ≤ limit + once * ((t.ticks : Int) - s.ticks) + ((t.ticks : Int) - s.ticks) := by
  have h := pot_run limit once h0 h1 evs s t hcap hr
  have := (C18_rate_bound_exact limit once h0 h1 evs s t hcap hr).1
  have := h.2.2
  omega

/-- non-vacuity: a full bucket of 2, refill 1: two admitted, one refused, tick, one admitted. -/
example : ∃ t, qrun 2 1 (QSt.init 2)
    [.takeLoad, .takeLoad, .takeAdd, .takeAdd, .takeLoad, .tick, .takeLoad, .takeAdd] = some t
    ∧ t.adm = 3 ∧ t.rej = 1 ∧ t.ticks = 1 := ⟨_, rfl, by decide⟩

/-- non-vacuity, the schedule that used to lose admissions: capacity 3, refill 1. The ticker loads
    3; three takers are admitted; the ticker's compare-and-swap finds 0, fails, loads again and
    refills 0 to 1; of three more takers one is admitted: 4 = capacity 3 + refill 1. -/
example : ∃ t, qrun 3 1 (QSt.init 3)
    [.tickLoad, .takeLoad, .takeAdd, .takeLoad, .takeAdd, .takeLoad, .takeAdd, .tickCas,
     .tickLoad, .tickCas, .takeLoad, .takeAdd, .takeLoad, .takeLoad] = some t
    ∧ t.adm = 4 ∧ t.rej = 2 ∧ t.ticks = 1 ∧ t.retries = 1 := ⟨_, rfl, by decide⟩

/-! ## refused calls are answered with an error and not handled -/

/-- An empty total bucket refuses: `PostReadCallHeader` returns the "qps overload, total_limit"
    status and changes nothing. -/
theorem C18_empty_bucket_refuses (o : OV) (q : QL) (m : String)
    (hq : o.total = some q) (he : q.tokens ≤ 0) :
    o.readHeader m = (o, .totalOver q.limit) := by
  unfold OV.readHeader
  simp only [hq, QL.take, he, if_true]
  cases o; simp_all

example : (⟨⟨0, 1000000000, 1, []⟩, none, some ⟨1, 0, 1, 1000000000⟩, []⟩ : OV).total = some ⟨1, 0, 1, 1000000000⟩ ∧
    (⟨1, 0, 1, 1000000000⟩ : QL).tokens ≤ 0 := by decide

/-- Whatever the hook refuses (total or handler bucket): the handler is not run; a CALL gets a
    reply carrying exactly that error status, a PUSH gets nothing. -/
theorem C18_rejected_call_gets_error_reply (o : OV) (m : String) (found : Bool)
    (h : (o.readHeader m).2.isOK = false) :
    dispatch true found (o.readHeader m).2 = ⟨false, some (o.readHeader m).2⟩ ∧
    dispatch false found (o.readHeader m).2 = ⟨false, none⟩ := by
  simp [dispatch, h]

example : ((⟨⟨0, 1000000000, 1, []⟩, none, some ⟨1, 0, 1, 1000000000⟩, []⟩ : OV).readHeader "/x").2.isOK = false := by
  decide

/-- ... and an admitted call to an existing route is handled and answered OK. -/
theorem C18_admitted_call_is_handled (d : Decision) (h : d.isOK = true) :
    dispatch true true d = ⟨true, some .ok⟩ := by
  simp [dispatch, h]

/-- A token is taken for every admission: an admitted header strictly lowers the total bucket. -/
theorem C18_admission_takes_token (o : OV) (q : QL) (m : String) (hq : o.total = some q)
    (h : (o.readHeader m).2 = .ok) :
    ∃ q', (o.readHeader m).1.total = some q' ∧ q'.tokens = q.tokens - 1 ∧ 0 < q.tokens := by
  unfold OV.readHeader at h ⊢
  simp only [hq] at h ⊢
  by_cases ht : q.tokens ≤ 0
  · simp [QL.take, ht] at h
  · simp only [QL.take, ht, if_false] at h ⊢
    have hd : decide (0 ≤ q.tokens - 1) = true := by simp; omega
    simp only [hd] at h ⊢
    simp only [Bool.not_true, Bool.false_eq_true, if_false] at h ⊢
    split
    · exact ⟨_, rfl, rfl, by omega⟩
    · exact ⟨_, rfl, rfl, by omega⟩

example : ((⟨⟨0, 1000000000, 2, []⟩, none, some ⟨2, 2, 2, 1000000000⟩, []⟩ : OV).readHeader "/x").2 = .ok := by
  decide

end C18
end Teleport
