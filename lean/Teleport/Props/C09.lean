/-
Props/C09 — Plugin hooks fire once, in stage and registration order, and can veto.
Property theorems only; helper lemmas live in Lemmas/Plugin.

`build ops = some P` ranges over every configuration reachable through the public API: any
sequence of SubRoute / RouteCallFunc / RoutePushFunc / SetUnknownCall / SetUnknownPush /
AppendLeft / AppendRight / Remove, any plugins (any name, any subset of stage interfaces);
`V` ranges over all verdict assignments; `id` over all routes (registered or not).
-/
import Teleport.Lemmas.Plugin
import Teleport.Lemmas.SrcPaths
import Teleport.Gen.Stages
namespace Teleport
namespace C09
open Plug

/-! ### C09_refresh — the containers after any operation history -/

/-- After ANY sequence of registration operations (as coded): (1) no list that a stage iterates
    contains two plugins of the same name (the unique-name check of `refresh`); (2) container 0 is
    the global one, with empty middle, and its list is `left ++ right` of the *current* global
    plugins; (3) every container's `middle` slice holds exactly the plugins registered along its
    route — groups, then handler — whatever was registered on sibling groups afterwards
    (`cloneAndAppendMiddle` copies); (4) EVERY container — at any nesting depth — is up to date:
    its list is `left ++ chain ++ right` with the current global plugins (`refreshTree` walks the
    whole tree). By induction over the operation list. -/
theorem C09_refresh (ops : List Op) (P : Peer) (h : build ops = some P) : SInv P :=
  sinv_run ops sinv_new h

/-- (4) of `C09_refresh`, spelled out — the statement the property text relies on ("each
    registered plugin's hooks fire", "only plugins on the global container or on the matched
    route's chain see the message"): after ANY operation history, in any order (global plugins
    appended or removed before, between or after routing; groups nested to any depth), EVERY
    container's list is the current global-left plugins, then the plugins registered along the
    route (groups, then handler), then the current global-right plugins. -/
theorem C09_refresh_fresh (ops : List Op) (P : Peer) (h : build ops = some P) : Fresh P :=
  (C09_refresh ops P h).fresh

/-- (3) of `C09_refresh`, spelled out: in every reachable configuration every container's
    `middle` is its route's chain. -/
theorem C09_refresh_chain (ops : List Op) (P : Peer) (h : build ops = some P) (i : Nat) (c : Cont)
    (hc : P.conts[i]? = some c) : c.middle = c.chain :=
  (C09_refresh ops P h).clean i c hc

/-- `cloneAndAppendMiddle` in any reachable configuration: the new group / handler container
    gets the parent's chain followed by its own plugins, and the list its stages iterate is that
    chain between the current global-left and global-right plugins: `left ++ groups ++ handler ++
    right`. -/
theorem C09_refresh_clone (ops : List Op) (P P' : Peer) (h0 : build ops = some P) (i k : Nat)
    (ps : List Plugin) (h : clone P i ps = some (P', k)) :
    (contAt P' k).chain = (contAt P i).chain ++ ps ∧
    (contAt P' k).middle = (contAt P' k).chain ∧
    allOf P' k = P.left ++ (contAt P' k).chain ++ P.right := by
  have hP := C09_refresh ops P h0
  obtain ⟨c, e, hk, hm, hc, ha, _⟩ := clone_spec h
  subst e; subst hk
  have : (P.conts ++ [c])[P.conts.length]? = some c := by simp
  simp only [allOf, contAt, List.getD, this, Option.getD_some]
  have hcl := hP.contAt_clean i
  unfold contAt at hcl hm hc ha
  simp only [List.getD] at hcl hm hc ha
  exact ⟨hc, by rw [hm, hc, hcl], by rw [ha, hc, hcl]⟩

/-- three nested groups g1 ⊃ g2 ⊃ g3 with plugins [p1,p2], [p3], [p4]; a sibling g4 of g3 with
    [p5]; then a handler registered in g3 (the shape on which sibling groups used to overwrite
    each other's plugins, sig `c09:sibling-group-plugin-aliasing`). -/
def aliasOps : List Op :=
  [.subRoute 0 [⟨1, 65535⟩, ⟨2, 65535⟩], .subRoute 1 [⟨3, 65535⟩], .subRoute 2 [⟨4, 65535⟩],
   .subRoute 2 [⟨5, 65535⟩], .routeCall 3 0 []]

/-- non-vacuity of `C09_refresh_clone`, on the former aliasing shape: the handler registered in
    g3 after its sibling g4 gets `[p1,p2,p3,p4]`, and `p4` — not `p5` — sees its messages. -/
example : ∃ P P', build aliasOps.dropLast = some P ∧ clone P (groupCont P 3) [] = some (P', 5) ∧
    allOf P' 5 = [⟨1, 65535⟩, ⟨2, 65535⟩, ⟨3, 65535⟩, ⟨4, 65535⟩] := ⟨_, _, rfl, rfl, rfl⟩

example : ∃ P, build aliasOps = some P ∧ getCall P 0 = some 5 ∧
    (4, Stage.postReadCallBody) ∈ calleeHooks (callee P (fun _ _ => 0) 0 0) ∧
    (5, Stage.postReadCallBody) ∉ calleeHooks (callee P (fun _ _ => 0) 0 0) := by
  refine ⟨_, rfl, rfl, ?_, ?_⟩ <;> decide

/-- a group, a handler inside it, a handler on the root router, then a global plugin (the shape of
    the former finding `c09:late-global-plugin-not-propagated`). -/
def lateOps : List Op :=
  [.subRoute 0 [], .routeCall 1 0 [], .routeCall 0 1 [], .appendRight [⟨5, 65535⟩]]

/-- on `lateOps` both handlers — the one on the root router and the one inside the group — see
    the late global plugin `p5`; its body-stage hook fires for the handler inside the group and its
    veto there stops the handler. -/
example : ∃ P, build lateOps = some P ∧ P.right = [⟨5, 65535⟩] ∧
    allOf P 3 = [⟨5, 65535⟩] ∧ allOf P 2 = [⟨5, 65535⟩] ∧
    (5, Stage.postReadCallBody) ∈ (callee P (fun _ _ => 0) 0 0).pre ∧
    (callee P (fun n s => if n = 5 ∧ s = .postReadCallBody then 1509 else 0) 0 0).invoked = false ∧
    (callee P (fun n s => if n = 5 ∧ s = .postReadCallBody then 1509 else 0) 0 0).reply = some 1509 := by
  refine ⟨_, rfl, rfl, rfl, rfl, ?_, ?_, ?_⟩ <;> decide

/-! ### C09_sorted / C09_nodup — order and at-most-once -/

/-- For every configuration, every verdict assignment and every route: the hooks that fire on
    the receiving peer for one CALL (header, body, reply-writing stages) are sorted by
    (documented stage order, position in the list the stage iterates) — strictly, so nothing
    fires twice. `C09_refresh` says what that list is: `left ++ groups ++ handler ++ right`. -/
theorem C09_sorted (ops : List Op) (P : Peer) (h : build ops = some P) (V : Verd) (id : Nat) (hs : Int) :
    (calleeHooks (callee P V id hs)).Pairwise (Before (calleeList P V id)) := by
  have hP := C09_refresh ops P h
  have hpre := runSteps_before V (calleeList P V id) (calleeSteps P id) (calleeSteps_ok P hP V id)
  have hpost := runAll_before V (calleeList P V id) _ (replySteps_ok P hP V id)
  have cross : ∀ a ∈ (runSteps V (calleeSteps P id)).1, ∀ b ∈ runAll V (replySteps (replyList P V id)), a.2.rank < b.2.rank := by
    intro a ha b hb
    obtain ⟨C, h1, _⟩ := mem_runSteps V _ a ha
    have ra := calleeSteps_rank P id _ h1
    obtain ⟨C', h2, _⟩ := mem_runAll V _ b hb
    simp [replySteps] at h2
    have rb : 6 ≤ b.2.rank := by rcases h2 with h2 | h2 <;> rw [h2.1] <;> decide
    simp at ra; omega
  unfold calleeHooks callee
  simp only
  split
  · simpa using hpre
  · split
    · exact before_append _ _ _ hpre hpost cross
    · split <;> exact before_append _ _ _ hpre hpost cross

/-- No (plugin, stage) pair fires twice for one received CALL (uses the unique-name check). -/
theorem C09_nodup (ops : List Op) (P : Peer) (h : build ops = some P) (V : Verd) (id : Nat) (hs : Int) :
    (calleeHooks (callee P V id hs)).Nodup :=
  nodup_of_before _ _ (C09_sorted ops P h V id hs)

/-- The same for a received PUSH. -/
theorem C09_sorted_push (ops : List Op) (P : Peer) (h : build ops = some P) (V : Verd) (id : Nat) :
    (pushee P V id).pre.Pairwise (Before (pusheeList P id)) ∧ (pushee P V id).pre.Nodup := by
  have hP := C09_refresh ops P h
  have := runSteps_before V (pusheeList P id) (pusheeSteps P id) (pusheeSteps_ok P hP id)
  exact ⟨this, nodup_of_before _ _ this⟩

/-- Calling side (CALL written, PUSH written): `pre…` before `post…`, each in the order of the
    global list `left ++ right`, nothing twice. -/
theorem C09_sorted_writer (ops : List Op) (P : Peer) (h : build ops = some P) (V : Verd) :
    (callerWrite P V).fired.Pairwise (Before (fun _ => globalAll P)) ∧
    (pusher P V).fired.Pairwise (Before (fun _ => globalAll P)) := by
  have hP := C09_refresh ops P h
  have hn := hP.allOf_nodup 0
  have key : ∀ (s1 s2 : Stage), s1.rank < s2.rank →
      (writeSide V s1 s2 (globalAll P)).fired.Pairwise (Before (fun _ => globalAll P)) := by
    intro s1 s2 hr
    unfold writeSide
    simp only
    split
    · exact runStage_before V _ s1 _ rfl hn
    · refine before_append _ _ _ (runStage_before V _ s1 _ rfl hn) (runStage_before V _ s2 _ rfl hn) ?_
      intro a ha b hb
      rw [runStage_stage V s1 _ a ha, runStage_stage V s2 _ b hb]; exact hr
  exact ⟨key _ _ (by decide), key _ _ (by decide)⟩

/-- Calling side, reading the REPLY: preReadHeader, postReadReplyHeader, preReadReplyBody,
    postReadReplyBody in that order, each in the order of the global list, nothing twice. -/
theorem C09_sorted_reader (ops : List Op) (P : Peer) (h : build ops = some P) (V : Verd) (rs : Int) :
    ((callerRead P V rs).hdr ++ (callerRead P V rs).fired).Pairwise (Before (fun _ => globalAll P)) := by
  have hP := C09_refresh ops P h
  have hn := hP.allOf_nodup 0
  have h0 := runStage_before V (fun _ => globalAll P) .preReadHeader _ rfl hn
  have hok : StepsOK (fun _ => globalAll P) (replyReadSteps (globalAll P) rs) := by
    unfold replyReadSteps
    split
    · refine ⟨by simp [Stage.rank], ?_⟩
      intro sc hsc; simp at hsc
      rcases hsc with h | h | h <;> subst h <;> exact ⟨rfl, hn⟩
    · refine ⟨by simp [Stage.rank], ?_⟩
      intro sc hsc; simp at hsc
      rcases hsc with h | h <;> subst h <;> exact ⟨rfl, hn⟩
  have h1 := runSteps_before V _ _ hok
  unfold callerRead
  simp only
  split
  · simpa using h0
  · refine before_append _ _ _ h0 h1 ?_
    intro a ha b hb
    rw [runStage_stage V _ _ a ha]
    obtain ⟨C, hm, _⟩ := mem_runSteps V _ b hb
    unfold replyReadSteps at hm
    split at hm <;> simp at hm
    · rcases hm with h | h | h <;> rw [h.1] <;> decide
    · rcases hm with h | h <;> rw [h.1] <;> decide

/-! ### C09_scope — who sees the message -/

/-- For every peer state: a hook that fires for a received CALL belongs to a plugin in the
    global container's list or in the list of the matched route's handler container (the
    unknown-call handler's if that matched; only the global list if nothing did). -/
theorem C09_scope_lists (P : Peer) (V : Verd) (id : Nat) (hs : Int) :
    ∀ f ∈ calleeHooks (callee P V id hs),
      f.1 ∈ names (globalAll P) ∨ f.1 ∈ names (allOf P (callCont P id)) := by
  have hpre : ∀ f ∈ (runSteps V (calleeSteps P id)).1,
      f.1 ∈ names (globalAll P) ∨ f.1 ∈ names (allOf P (callCont P id)) := by
    intro f hf
    obtain ⟨C, h1, h2⟩ := mem_runSteps V _ f hf
    have hm := runStage_name_mem V _ C f h2
    unfold calleeSteps at h1
    cases hg : getCall P id with
    | none => rw [hg] at h1; simp at h1; rcases h1 with h | h <;> (rw [h.2] at hm; exact Or.inl hm)
    | some k =>
      rw [hg] at h1; simp at h1
      rcases h1 with h | h | h | h
      · rw [h.2] at hm; exact Or.inl hm
      · rw [h.2] at hm; exact Or.inl hm
      · rw [h.2] at hm; right; simpa [callCont, hg] using hm
      · rw [h.2] at hm; right; simpa [callCont, hg] using hm
  have hpost : ∀ f ∈ runAll V (replySteps (replyList P V id)),
      f.1 ∈ names (globalAll P) ∨ f.1 ∈ names (allOf P (callCont P id)) := by
    intro f hf
    obtain ⟨C, h1, h2⟩ := mem_runAll V _ f hf
    have hm := runStage_name_mem V _ C f h2
    simp [replySteps] at h1
    have hC : C = replyList P V id := by rcases h1 with h | h <;> exact h.2
    rw [hC] at hm
    unfold replyList at hm
    split at hm
    · exact Or.inl hm
    · exact Or.inr hm
  intro f hf
  unfold calleeHooks callee at hf
  simp only at hf
  split at hf
  · simp at hf; exact hpre f hf
  · split at hf
    · simp only [List.mem_append] at hf; exact hf.elim (hpre f) (hpost f)
    · split at hf <;> (simp only [List.mem_append] at hf; exact hf.elim (hpre f) (hpost f))

/-- "Only plugins on the global container or on the matched route's chain see the message", with
    the global container as it is NOW: for every reachable configuration, every verdict
    assignment and every route, a hook that fires for a received CALL belongs to a current
    global-left plugin, a plugin registered along the matched route (groups, then handler; the
    unknown-call handler's plugins if that matched; none if nothing did), or a current
    global-right plugin. In particular a plugin that was `Remove`d, and a plugin of a sibling
    group, never sees the message. -/
theorem C09_scope (ops : List Op) (P : Peer) (h : build ops = some P) (V : Verd) (id : Nat) (hs : Int) :
    ∀ f ∈ calleeHooks (callee P V id hs),
      f.1 ∈ names (P.left ++ (contAt P (callCont P id)).chain ++ P.right) := by
  have hP := C09_refresh ops P h
  intro f hf
  have hall : allOf P (callCont P id) = P.left ++ (contAt P (callCont P id)).chain ++ P.right ∨
      allOf P (callCont P id) = [] := by
    unfold allOf contAt
    cases hc : P.conts[callCont P id]? with
    | none => right; simp [List.getD, hc]
    | some c => left; have := hP.fresh _ c hc; simp [List.getD, hc, this]
  rcases C09_scope_lists P V id hs f hf with h1 | h1
  · rw [hP.globalAll_eq] at h1
    simp [names] at h1 ⊢
    rcases h1 with ⟨p, hp, e⟩ | ⟨p, hp, e⟩
    · exact Or.inl ⟨p, hp, e⟩
    · exact Or.inr (Or.inr ⟨p, hp, e⟩)
  · rcases hall with e | e
    · rw [e] at h1; exact h1
    · rw [e] at h1; simp [names] at h1

/-- a global plugin, a handler inside a group, then `Remove` of the global plugin (the shape of
    the former finding `c09:removed-global-plugin-still-fires`). -/
def removeOps : List Op :=
  [.appendLeft [⟨1, 65535⟩], .subRoute 0 [], .routeCall 1 0 [], .remove 1]

/-- non-vacuity of `C09_scope` on that shape: after the `Remove`, `p1` is on no container, fires
    for no stage of a CALL to the handler inside the group, and its scripted veto changes nothing. -/
example : ∃ P, build removeOps = some P ∧ P.left = [] ∧ P.right = [] ∧ getCall P 0 = some 2 ∧
    (contAt P (callCont P 0)).chain = [] ∧
    calleeHooks (callee P (fun _ _ => 0) 0 0) = [] ∧
    (callee P (fun n s => if n = 1 ∧ s = .postReadCallBody then 1109 else 0) 0 0).reply = some 0 := by
  refine ⟨_, rfl, rfl, rfl, rfl, rfl, ?_, ?_⟩ <;> decide

example : ∃ P, build ([Op.appendLeft [⟨1, 65535⟩]] ++ [Op.subRoute 0 [⟨2, 768⟩], Op.routeCall 1 0 [⟨3, 512⟩]]) = some P ∧
    getCall P 0 = some 2 ∧ (callee P (fun _ _ => 0) 0 0).pre =
      [(1, .preReadHeader), (1, .postReadCallHeader), (1, .preReadCallBody), (2, .preReadCallBody),
       (1, .postReadCallBody), (2, .postReadCallBody), (3, .postReadCallBody)] := by
  refine ⟨_, rfl, rfl, ?_⟩; decide

/-! ### completeness: "each registered plugin's hooks fire" -/

/-- "Each registered plugin's hooks fire": for every reachable configuration and every route
    bound to a handler, when nobody vetoes, every plugin of `left ++ groups ++ handler ++ right` —
    the CURRENT global plugins, however late they were appended, and the plugins registered along
    the route, however deeply nested — that implements a body stage fires at it, and the handler
    is invoked. -/
theorem C09_complete (ops : List Op) (P : Peer) (h : build ops = some P)
    (V : Verd) (hV : ∀ n s, V n s = 0) (id k : Nat) (hs : Int) (hk : getCall P id = some k)
    (p : Plugin) (hp : p ∈ P.left ++ (contAt P k).chain ++ P.right)
    (s : Stage) (hs' : s = .preReadCallBody ∨ s = .postReadCallBody) (hi : p.impl s = true) :
    (p.name, s) ∈ (callee P V id hs).pre ∧ (callee P V id hs).invoked = true := by
  have hP := C09_refresh ops P h
  have hT : TInv P := tinv_run ops tinv_new h
  have ok : ∀ s C, runStage V s C = ((C.filter (·.impl s)).map (fun p => (p.name, s)), 0) :=
    fun s C => runStage_ok_all V s C (fun q _ => hV q.name s)
  have hall : allOf P k = P.left ++ (contAt P k).chain ++ P.right := hP.allOf_eq (hT.getCall_lt hk)
  have hmem : (p.name, s) ∈ (runStage V s (allOf P k)).1 := by
    rw [ok]
    exact List.mem_map.2 ⟨p, List.mem_filter.2 ⟨by rw [hall]; exact hp, by simpa using hi⟩, rfl⟩
  unfold callee calleeSteps
  simp only [hk, runSteps, ok, ne_eq, not_true_eq_false, ↓reduceIte, List.append_nil, List.cons_append, List.nil_append]
  rw [ok] at hmem
  refine ⟨?_, by first | rfl | trivial⟩
  simp only [List.mem_append]
  rcases hs' with e | e <;> subst e
  · exact Or.inr (Or.inr (Or.inl hmem))
  · exact Or.inr (Or.inr (Or.inr hmem))

/-- non-vacuity of `C09_complete`, on `lateOps`: the global plugin `p5`, appended after the
    handler inside the group was registered, is in the hypothesis' list for that handler. -/
example : ∃ P, build lateOps = some P ∧ getCall P 0 = some 2 ∧
    (⟨5, 65535⟩ : Plugin) ∈ P.left ++ (contAt P 2).chain ++ P.right ∧
    (⟨5, 65535⟩ : Plugin).impl .postReadCallBody = true := by
  refine ⟨_, rfl, rfl, ?_, ?_⟩ <;> decide

/-! ### C09_veto -/

/-- A non-OK verdict of any hook that precedes the handler (preReadHeader, postReadCallHeader,
    preReadCallBody, postReadCallBody) ⇒ the handler is not invoked and the REPLY carries exactly
    that status; for preReadHeader (which returns an `error`, not a status) the read loop ends
    and no reply is written at all (the caller's call is cancelled with "connection closed").
    All configurations, all verdicts, all routes. -/
theorem C09_veto (P : Peer) (V : Verd) (id : Nat) (hs : Int) (n : Nat) (s : Stage)
    (hf : (n, s) ∈ (callee P V id hs).pre) (hv : V n s ≠ 0) :
    (callee P V id hs).invoked = false ∧
    (callee P V id hs).reply = if s = .preReadHeader then none else some (V n s) := by
  have hpre : (callee P V id hs).pre = (runSteps V (calleeSteps P id)).1 := by
    unfold callee; simp only; split
    · rfl
    · split
      · rfl
      · split <;> rfl
  rw [hpre] at hf
  have hr := runSteps_mem_veto V _ n s hf hv
  have hr0 : (runSteps V (calleeSteps P id)).2 ≠ 0 := by rw [hr]; exact hv
  by_cases h6 : (runStage V .preReadHeader (globalAll P)).2 ≠ 0
  · -- the read loop ended at preReadHeader: everything fired is a preReadHeader hook
    have hs6 : s = .preReadHeader := by
      have : (runSteps V (calleeSteps P id)).1 = (runStage V .preReadHeader (globalAll P)).1 := by
        unfold calleeSteps; simp only [List.cons_append, runSteps]; rw [if_pos h6]
      rw [this] at hf
      exact runStage_stage V _ _ _ hf
    unfold callee; dsimp only; rw [if_pos h6, if_pos hs6]; exact ⟨rfl, rfl⟩
  · have hs6 : s ≠ .preReadHeader := by
      intro e; subst e
      obtain ⟨C, h1, h2⟩ := mem_runSteps V _ _ hf
      have hC : C = globalAll P := by
        unfold calleeSteps at h1
        cases hg : getCall P id with
        | none => rw [hg] at h1; simp at h1; exact h1
        | some k => rw [hg] at h1; simp at h1; exact h1
      subst hC
      exact h6 (by rw [runStage_mem_veto V _ _ n _ h2 hv]; exact hv)
    unfold callee; dsimp only; rw [if_neg h6, if_pos hr0, if_neg hs6, hr]; exact ⟨rfl, rfl⟩

example : ∃ P, build [Op.appendLeft [⟨1, 65535⟩], Op.routeCall 0 0 [⟨2, 65535⟩]] = some P ∧
    (2, Stage.preReadCallBody) ∈ (callee P (fun n s => if n = 2 ∧ s = .preReadCallBody then 1208 else 0) 0 0).pre ∧
    (callee P (fun n s => if n = 2 ∧ s = .preReadCallBody then 1208 else 0) 0 0).reply = some 1208 := by
  refine ⟨_, rfl, ?_, ?_⟩ <;> decide

/-- The same for a PUSH: a non-OK verdict at any stage before the handler ⇒ not invoked. -/
theorem C09_veto_push (P : Peer) (V : Verd) (id : Nat) (n : Nat) (s : Stage)
    (hf : (n, s) ∈ (pushee P V id).pre) (hv : V n s ≠ 0) : (pushee P V id).invoked = false := by
  unfold pushee at hf ⊢
  simp only at hf ⊢
  have hr := runSteps_mem_veto V _ n s hf hv
  simp [hr, hv]

/-- Calling side: a vetoing pre-write hook means nothing is written, the call (push) completes
    with exactly that status, the callee's handler is not invoked and the callee fires nothing
    beyond the `preReadHeader` of its idle read loop. -/
theorem C09_veto_prewrite (A B : Peer) (VA VB : Verd) (id : Nat) (hs : Int) (n : Nat)
    (hf : (n, Stage.preWriteCall) ∈ (callerWrite A VA).fired) (hv : VA n .preWriteCall ≠ 0) :
    (call A B VA VB id hs).written = false ∧ (call A B VA VB id hs).status = some (VA n .preWriteCall) ∧
    (call A B VA VB id hs).invoked = false ∧ (call A B VA VB id hs).bpost = [] ∧
    (call A B VA VB id hs).ar = [] ∧ ∀ f ∈ (call A B VA VB id hs).bpre, f.2 = .preReadHeader := by
  have hw : (runStage VA .preWriteCall (globalAll A)).2 = VA n .preWriteCall := by
    unfold callerWrite writeSide at hf
    simp only at hf
    split at hf
    · exact runStage_mem_veto VA _ _ n _ hf hv
    · rename_i h0
      simp only [List.mem_append] at hf
      rcases hf with h | h
      · exact runStage_mem_veto VA _ _ n _ h hv
      · have := runStage_stage VA _ _ _ h; simp at this
  have hne : (runStage VA .preWriteCall (globalAll A)).2 ≠ 0 := by rw [hw]; exact hv
  have hcw : callerWrite A VA =
      { fired := (runStage VA .preWriteCall (globalAll A)).1, written := false, veto := VA n .preWriteCall } := by
    unfold callerWrite writeSide; dsimp only; rw [if_pos hne, hw]
  unfold call; dsimp only; rw [hcw]; dsimp only; rw [if_pos hv]
  exact ⟨rfl, rfl, rfl, rfl, rfl, fun f hf => runStage_stage VB _ _ f hf⟩

example : ∃ A, build [Op.appendLeft [⟨1, 3⟩, ⟨2, 3⟩]] = some A ∧
    (2, Stage.preWriteCall) ∈ (callerWrite A (fun n s => if n = 2 ∧ s = .preWriteCall then 1200 else 0)).fired := by
  refine ⟨_, rfl, ?_⟩; decide

theorem C09_veto_prewrite_push (A B : Peer) (VA VB : Verd) (id : Nat) (n : Nat)
    (hf : (n, Stage.preWritePush) ∈ (pusher A VA).fired) (hv : VA n .preWritePush ≠ 0) :
    (push A B VA VB id).written = false ∧ (push A B VA VB id).status = VA n .preWritePush ∧
    (push A B VA VB id).invoked = false := by
  have hw : (runStage VA .preWritePush (globalAll A)).2 = VA n .preWritePush := by
    unfold pusher writeSide at hf
    simp only at hf
    split at hf
    · exact runStage_mem_veto VA _ _ n _ hf hv
    · simp only [List.mem_append] at hf
      rcases hf with h | h
      · exact runStage_mem_veto VA _ _ n _ h hv
      · have := runStage_stage VA _ _ _ h; simp at this
  have hne : (runStage VA .preWritePush (globalAll A)).2 ≠ 0 := by rw [hw]; exact hv
  have hcw : pusher A VA =
      { fired := (runStage VA .preWritePush (globalAll A)).1, written := false, veto := VA n .preWritePush } := by
    unfold pusher writeSide; dsimp only; rw [if_pos hne, hw]
  unfold push; dsimp only; rw [hcw]; dsimp only; rw [if_pos hv]
  exact ⟨rfl, rfl, rfl⟩

/-- End to end: if a hook on the callee vetoes before the handler (other than preReadHeader) and
    none of the caller's own hooks vetoes, the caller's call completes with exactly the vetoing
    hook's status. (A caller-side veto on the reply path is itself a veto and wins: `callerRead`.) -/
theorem C09_veto_caller (A B : Peer) (VA VB : Verd) (hA : ∀ n s, VA n s = 0) (id : Nat) (hs : Int)
    (n : Nat) (s : Stage) (hf : (n, s) ∈ (callee B VB id hs).pre) (hv : VB n s ≠ 0)
    (hs6 : s ≠ .preReadHeader) :
    (call A B VA VB id hs).status = some (VB n s) ∧ (call A B VA VB id hs).invoked = false := by
  obtain ⟨hi, hr⟩ := C09_veto B VB id hs n s hf hv
  simp only [hs6, ↓reduceIte] at hr
  have ok : ∀ s C, runStage VA s C = ((C.filter (·.impl s)).map (fun p => (p.name, s)), 0) :=
    fun s C => runStage_ok_all VA s C (fun q _ => hA q.name s)
  have oks : ∀ steps, (runSteps VA steps).2 = 0 := by
    intro steps
    induction steps with
    | nil => rfl
    | cons sc rest ih => obtain ⟨s', C⟩ := sc; simp [runSteps, ok, ih]
  unfold call callerWrite writeSide
  simp only [ok, ne_eq, not_true_eq_false, ↓reduceIte, hr, hi, callerRead, oks]
  simp

/-! ## tie A — the call sites and the stage functions as they are in the source NOW (`Gen/Stages`)

`srcfacts` regenerates, from plugin.go / session.go / context.go / peer.go, the ordered stage calls
of every function that runs hooks (container expression, how the verdict is used, enclosing
conditions, the switches of the context's container) and the loop shape of every stage function.
The theorems below compare them — by evaluation — with what `Model/Plugin` does: the model is RUN
on two probe configurations and its hook firings are read off, nothing is restated by hand except
the Go spelling of the sixteen stage names. -/

section TieA
open SrcPaths
open SrcFlow (dedup)

/-- Go name of the stage function (`func (p *pluginSingleContainer) <name>`). -/
def goName : Stage → String
  | .preWriteCall => "preWriteCall" | .postWriteCall => "postWriteCall"
  | .preWriteReply => "preWriteReply" | .postWriteReply => "postWriteReply"
  | .preWritePush => "preWritePush" | .postWritePush => "postWritePush"
  | .preReadHeader => "preReadHeader" | .postReadCallHeader => "postReadCallHeader"
  | .preReadCallBody => "preReadCallBody" | .postReadCallBody => "postReadCallBody"
  | .postReadPushHeader => "postReadPushHeader" | .preReadPushBody => "preReadPushBody"
  | .postReadPushBody => "postReadPushBody" | .postReadReplyHeader => "postReadReplyHeader"
  | .preReadReplyBody => "preReadReplyBody" | .postReadReplyBody => "postReadReplyBody"

/-- the plugin method the stage function invokes (`<Method>Plugin` is the asserted interface). -/
def goMethod : Stage → String
  | .preWriteCall => "PreWriteCall" | .postWriteCall => "PostWriteCall"
  | .preWriteReply => "PreWriteReply" | .postWriteReply => "PostWriteReply"
  | .preWritePush => "PreWritePush" | .postWritePush => "PostWritePush"
  | .preReadHeader => "PreReadHeader" | .postReadCallHeader => "PostReadCallHeader"
  | .preReadCallBody => "PreReadCallBody" | .postReadCallBody => "PostReadCallBody"
  | .postReadPushHeader => "PostReadPushHeader" | .preReadPushBody => "PreReadPushBody"
  | .postReadPushBody => "PostReadPushBody" | .postReadReplyHeader => "PostReadReplyHeader"
  | .preReadReplyBody => "PreReadReplyBody" | .postReadReplyBody => "PostReadReplyBody"

def stageOfName (n : String) : Option Stage := Stage.all.find? fun s => goName s == n

/-- stage functions of plugin.go that are not per-message stages: connection level (modelled by
    C16 / C07 / C13) and registration time (`Fatalf` on error). -/
def connStages : List String := ["postAccept", "postDial", "postDisconnect"]
def setupStages : List String := ["postListen", "postNewPeer", "postReg", "preNewPeer"]

/-- one per-message stage call of the code: the stage, the container it EFFECTIVELY runs on
    (a call on the context's current container resolves to the last container switch before it) and
    whether the call site lets the verdict veto (some path of the function tests it). -/
abbrev Site := Stage × String × Option Bool

/-- read a composed sequence of annotated spine events: `setcont` events switch the context's
    container, stage calls on `ctx` use the current one, stage calls on the peer's container are `global`. -/
def sitesFrom (cur : String) : List (PEv × Bool) → List Site
  | [] => []
  | (e, v) :: r =>
    if e.kind == "setcont" then sitesFrom e.name r
    else if e.kind == "stage" then
      match stageOfName e.name with
      | some s => (s, (if e.detail == "ctx" then cur else e.detail), some v) :: sitesFrom cur r
      | none => sitesFrom cur r
    else sitesFrom cur r

def sites (f : List (PEv × Bool)) : List Site := sitesFrom "unset" f

/-- the container switches of `binding` (it runs synchronously inside `ReadMessage`, before `bind*`). -/
def bindingSwitches : List (PEv × Bool) := (annot Gen.spaths_handlerCtx_binding).filter fun e => e.1.kind == "setcont"

/-- the code paths of one message, composed as the code composes them: the read loop, `binding`,
    the `bind*` function of the message type, the `handle*` function of the message type — of each
    function its spine (the longest stage sequence; every path runs a sub-sequence of it). -/
def codeCallee : List (PEv × Bool) :=
  annot Gen.spaths_session_startReadAndHandle ++ bindingSwitches ++ annot Gen.spaths_handlerCtx_bindCall ++ annot Gen.spaths_handlerCtx_handleCall
def codePushee : List (PEv × Bool) :=
  annot Gen.spaths_session_startReadAndHandle ++ bindingSwitches ++ annot Gen.spaths_handlerCtx_bindPush ++ annot Gen.spaths_handlerCtx_handlePush
def codeCallerRead : List (PEv × Bool) :=
  annot Gen.spaths_session_startReadAndHandle ++ bindingSwitches ++ annot Gen.spaths_handlerCtx_bindReply ++ annot Gen.spaths_handlerCtx_handleReply

/-- probe 1: one global plugin that implements every stage, one CALL route and one PUSH route
    without plugins of their own: a verdict at a stage changes the outcome of the exchange iff the
    model lets that stage veto. -/
def probe1 : Peer := (build [.appendLeft [⟨1, 65535⟩], .routeCall 0 0 [], .routePush 0 0 []]).getD Peer.new
/-- probe 2: the same with a plugin `2` on each handler: plugin 2 fires at a stage iff the model
    runs that stage on the handler's container. -/
def probe2 : Peer :=
  (build [.appendLeft [⟨1, 65535⟩], .routeCall 0 0 [⟨2, 65535⟩], .routePush 0 0 [⟨2, 65535⟩]]).getD Peer.new

def okV : Verd := fun _ _ => 0
def vetoAt (s : Stage) : Verd := fun _ t => if t = s then 7 else 0

/-- the model's stage sequence of a flow (from the hooks that fire on probe 2 when nobody vetoes),
    each with the container the model runs it on and whether the model lets it veto (`vetoes`). -/
def modelSites (hooks : List Firing) (vetoes : Stage → Bool) : List Site :=
  (dedup (hooks.map (·.2))).map fun s =>
    (s, (if hooks.contains (2, s) then "handler" else "global"), some (vetoes s))

def modelCallee : List Site :=
  modelSites (calleeHooks (callee probe2 okV 0 0)) fun s => decide (callee probe1 (vetoAt s) 0 0 ≠ callee probe1 okV 0 0)
def modelPushee : List Site :=
  modelSites (pushee probe2 okV 0).pre fun s => decide (pushee probe1 (vetoAt s) 0 ≠ pushee probe1 okV 0)
def modelCallerWrite : List Site :=
  modelSites (callerWrite probe2 okV).fired fun s => decide (callerWrite probe1 (vetoAt s) ≠ callerWrite probe1 okV)
def modelPusher : List Site :=
  modelSites (pusher probe2 okV).fired fun s => decide (pusher probe1 (vetoAt s) ≠ pusher probe1 okV)
def modelCallerRead : List Site :=
  modelSites ((callerRead probe2 okV 0).hdr ++ (callerRead probe2 okV 0).fired)
    fun s => decide (callerRead probe1 (vetoAt s) 0 ≠ callerRead probe1 okV 0)

def stageContOf (l : List Site) : List (Stage × String) := l.map fun s => (s.1, s.2.1)
def stageVetoOf (l : List Site) : List (Stage × Option Bool) := l.map fun s => (s.1, s.2.2)

/-- every stage call of a path names a stage the model knows (per-message or connection level). -/
def knownStages (ps : List Path) : Bool :=
  ps.all fun p => p.all fun e => e.kind != "stage" || (stageOfName e.name).isSome || connStages.contains e.name

def watchedPaths : List (List Path) :=
  [Gen.spaths_session_AsyncCall, Gen.spaths_session_Push, Gen.spaths_session_startReadAndHandle,
   Gen.spaths_handlerCtx_binding, Gen.spaths_handlerCtx_bindCall, Gen.spaths_handlerCtx_bindPush,
   Gen.spaths_handlerCtx_bindReply, Gen.spaths_handlerCtx_handleCall, Gen.spaths_handlerCtx_handlePush,
   Gen.spaths_handlerCtx_handleReply, Gen.spaths_peer_ServeConn, Gen.spaths_peer_serveListener_accept,
   Gen.spaths_peer_Dial, Gen.spaths_peer_Dial_redial, Gen.spaths_session_closeLocked,
   Gen.spaths_session_readDisconnected]

def watchedMissing : List (List String) :=
  [Gen.spaths_session_AsyncCall_missing, Gen.spaths_session_Push_missing, Gen.spaths_session_startReadAndHandle_missing,
   Gen.spaths_handlerCtx_binding_missing, Gen.spaths_handlerCtx_bindCall_missing, Gen.spaths_handlerCtx_bindPush_missing,
   Gen.spaths_handlerCtx_bindReply_missing, Gen.spaths_handlerCtx_handleCall_missing, Gen.spaths_handlerCtx_handlePush_missing,
   Gen.spaths_handlerCtx_handleReply_missing]

def connMissing : List (List String) :=
  [Gen.spaths_peer_ServeConn_missing, Gen.spaths_peer_serveListener_accept_missing,
   Gen.spaths_peer_Dial_missing, Gen.spaths_peer_Dial_redial_missing, Gen.spaths_session_closeLocked_missing,
   Gen.spaths_session_readDisconnected_missing]

/-- the stage calls of a function: (stage function, container class, verdict tested on some path). -/
def stageRows (ps : List Path) : List (String × String × Bool) :=
  ((annot ps).filter fun e => e.1.kind == "stage").map fun e => (e.1.name, e.1.detail, e.2)

def isHandler (e : PEv) : Bool := e.is "call" "handleFunc" || e.is "call" "unknownHandleFunc"

/-- keys of a path with the two handler entry points identified. -/
def hkeys (p : Path) : List String := (body p).map fun e => if isHandler e then "call:handler" else e.key

/-- after a stage verdict that the path found NOT OK, nothing but `allowed` events follow. -/
def afterFailOnly (allowed : PEv → Bool) (ps : List Path) : Bool :=
  ps.all fun p => (rest isStageFail p).all allowed

def isReturn (e : PEv) : Bool := e.kind == "return"

/-- **Stage order and containers at the call sites = the model's (tie A).** For the sources as they
    are now (nothing of the ten per-message functions unplaced): along each of the five per-message
    paths — received CALL (`startReadAndHandle` → `binding` → `bindCall` → `handleCall`), received PUSH,
    received REPLY, `AsyncCall`, `Push` — the per-message stage functions are called in exactly the order
    in which `Model/Plugin` (`calleeSteps`/`callee`, `pusheeSteps`/`pushee`, `replyReadSteps`/`callerRead`,
    `callerWrite`, `pusher`) fires them, and each on the container the model uses: the peer's global
    container up to and including the header stage, the handler's container from the "reset plugin
    container" assignment of `bindCall`/`bindPush` on (the reply-writing stages included), the global
    one everywhere on the calling side. "Order" is a statement about ALL control-flow paths: every
    path of each function runs a sub-sequence of the function's longest stage sequence
    (`spineCovers`), and the composed longest sequences are the model's. In addition: `binding`
    sets the global container first on every path; on every path of the read loop `ReadMessage` comes
    after an OK `preReadHeader`; the path sets of `AsyncCall` and `Push` are exactly: pre-write stage
    refused → (`done`,) return; OK, write failed → (`done`,) return, or back to the write after a
    redial; OK, write OK → post-write stage; in `handleCall` every path runs a sub-sequence of
    `postReadCallBody`, handler, `preWriteReply`, `writeReply`, `writeReply`, flag, `postWriteReply`, the
    handler only after an OK `postReadCallBody` (in `handlePush`: `postReadPushBody`); no per-message or
    connection-level stage function is called anywhere outside the watched functions; every stage
    function of plugin.go is one the model knows. Swapping two stage calls, calling one on the other
    container, moving the container switch or adding a stage call elsewhere changes a regenerated
    path set and this theorem no longer checks. -/
theorem C09_callsite_order :
    watchedMissing.all (· == []) = true ∧
    (watchedPaths.take 10).all spineCovers = true ∧
    stageContOf (sites codeCallee) = stageContOf modelCallee ∧
    stageContOf (sites codePushee) = stageContOf modelPushee ∧
    stageContOf (sites codeCallerRead) = stageContOf modelCallerRead ∧
    stageContOf (sites (annot Gen.spaths_session_AsyncCall)) = stageContOf modelCallerWrite ∧
    stageContOf (sites (annot Gen.spaths_session_Push)) = stageContOf modelPusher ∧
    Gen.spaths_handlerCtx_binding.all (fun p => (keys p).head? == some "setcont:global") = true ∧
    Gen.spaths_session_startReadAndHandle.all
      (precededBy (fun (e : PEv) => e.is "stage" "preReadHeader" && e.out == "ok") (fun (e : PEv) => e.is "call" "ReadMessage")) = true ∧
    SrcFlow.sameSet ((live Gen.spaths_session_AsyncCall).map tags)
      [["stage:preWriteCall=fail", "call:done"], ["stage:preWriteCall=ok", "call:write=fail", "call:done"],
       ["stage:preWriteCall=ok", "call:write=fail", "loop:back"],
       ["stage:preWriteCall=ok", "call:write=ok", "stage:postWriteCall"]] = true ∧
    SrcFlow.sameSet ((live Gen.spaths_session_Push).map fun p => (tags p).filter (· != "setcont:nil"))
      [["stage:preWritePush=fail"], ["stage:preWritePush=ok", "call:write=fail"],
       ["stage:preWritePush=ok", "call:write=fail", "loop:back"],
       ["stage:preWritePush=ok", "call:write=ok", "stage:postWritePush"]] = true ∧
    Gen.spaths_handlerCtx_handleCall.all (fun p => isSubseq (hkeys p)
      ["stage:postReadCallBody", "call:handler", "stage:preWriteReply", "call:writeReply",
       "call:writeReply", "flag:set", "stage:postWriteReply"]) = true ∧
    Gen.spaths_handlerCtx_handleCall.any (fun p => hkeys p ==
      ["stage:postReadCallBody", "call:handler", "stage:preWriteReply", "call:writeReply", "flag:set", "stage:postWriteReply"]) = true ∧
    Gen.spaths_handlerCtx_handleCall.all (fun p => (p.filter fun (e : PEv) => e.is "stage" "preWriteReply").length == 1) = true ∧
    Gen.spaths_handlerCtx_handleCall.all
      (precededBy (fun (e : PEv) => e.is "stage" "postReadCallBody" && e.out == "ok") isHandler) = true ∧
    Gen.spaths_handlerCtx_handlePush.all
      (precededBy (fun (e : PEv) => e.is "stage" "postReadPushBody" && e.out == "ok") isHandler) = true ∧
    Gen.spaths_handlerCtx_handleCall.any (fun p => p.any isHandler) = true ∧
    Gen.spaths_handlerCtx_handlePush.any (fun p => p.any isHandler) = true ∧
    (watchedPaths.take 10).all knownStages = true ∧
    Gen.stages_missing = [] ∧
    Gen.stage_unwatched_sites.all (fun p => setupStages.contains p.2) = true ∧
    SrcFlow.sameSet Gen.stage_funcs (Stage.all.map goName ++ connStages ++ setupStages) = true := by
  decide

/-- non-vacuity: what the two sides of the first conjunct are. -/
example : stageContOf modelCallee =
    [(.preReadHeader, "global"), (.postReadCallHeader, "global"), (.preReadCallBody, "handler"),
     (.postReadCallBody, "handler"), (.preWriteReply, "handler"), (.postWriteReply, "handler")] := by decide

/-- **The vetoing stages are exactly those whose verdict the call site uses (tie A).** Along the
    five per-message paths, the verdict of a stage call is tested on some control-flow path of the
    function exactly for the stages at which a non-OK verdict changes the outcome of the exchange
    in `Model/Plugin` (everything before the handler on the receiving side, `preWriteCall` /
    `preWritePush`, and the three reply-reading stages) — and for those every path that runs the stage
    tests it; no path ever tests the verdict of the stages the model runs through `runAll` / ignores
    (`preWriteReply`, `postWriteReply`, `postWriteCall`, `postWritePush`). What a refusal does: in
    `bindCall`, `bindPush`, `bindReply` and in the read loop nothing but `return` follows a stage verdict
    that is not OK; in `handleCall` no handler and no further reading stage follows, only the reply
    (`preWriteReply`, `writeReply`, flag, `postWriteReply`); in `handlePush` nothing follows. The connection
    hooks: `postAccept` and `postDial` are tested at all four call sites, `postDisconnect` at neither. -/
theorem C09_veto_sites :
    watchedMissing.all (· == []) = true ∧
    stageVetoOf (sites codeCallee) = stageVetoOf modelCallee ∧
    stageVetoOf (sites codePushee) = stageVetoOf modelPushee ∧
    stageVetoOf (sites codeCallerRead) = stageVetoOf modelCallerRead ∧
    stageVetoOf (sites (annot Gen.spaths_session_AsyncCall)) = stageVetoOf modelCallerWrite ∧
    stageVetoOf (sites (annot Gen.spaths_session_Push)) = stageVetoOf modelPusher ∧
    (watchedPaths.take 10).all (fun ps => (stageRows ps).all fun r => !r.2.2 || alwaysDecided ps r.1) = true ∧
    [Gen.spaths_handlerCtx_bindCall, Gen.spaths_handlerCtx_bindPush, Gen.spaths_handlerCtx_bindReply,
     Gen.spaths_session_startReadAndHandle, Gen.spaths_handlerCtx_handlePush].all (afterFailOnly isReturn) = true ∧
    afterFailOnly (fun (e : PEv) => isReturn e || e.is "stage" "preWriteReply" || e.is "call" "writeReply" || e.is "flag" "set" ||
      e.is "stage" "postWriteReply") Gen.spaths_handlerCtx_handleCall = true ∧
    connMissing.all (· == []) = true ∧
    [Gen.spaths_peer_ServeConn, Gen.spaths_peer_serveListener_accept, Gen.spaths_peer_Dial, Gen.spaths_peer_Dial_redial].map stageRows =
      [[("postAccept", "global", true)], [("postAccept", "global", true)],
       [("postDial", "global", true)], [("postDial", "global", true)]] ∧
    [Gen.spaths_session_closeLocked, Gen.spaths_session_readDisconnected].map stageRows =
      [[("postDisconnect", "global", false)], [("postDisconnect", "global", false)]] := by
  decide

example : stageVetoOf modelCallee =
    [(.preReadHeader, some true), (.postReadCallHeader, some true), (.preReadCallBody, some true),
     (.postReadCallBody, some true), (.preWriteReply, some false), (.postWriteReply, some false)] := by decide
example : stageVetoOf modelCallerRead =
    [(.preReadHeader, some true), (.postReadReplyHeader, some true), (.preReadReplyBody, some true),
     (.postReadReplyBody, some true)] := by decide

/-- the paths of a stage function (`Gen.stage_loop_paths`), each as `kind:name=outcome` tags, a
    `return` with what it returns. -/
def loopPaths (fn : String) : Option (List (List String)) :=
  (Gen.stage_loop_paths.find? fun r => r.1 == fn).map fun r => r.2.map rtags

/-- every type assertion of the function is on the loop variable. -/
def assertsOnLoopVar (fn : String) : Bool :=
  match Gen.stage_loop_paths.find? fun r => r.1 == fn with
  | some r => r.2.all fun p => p.all fun (e : PEv) => e.kind != "assert" || e.detail == "rangeval"
  | none => false

/-- the path set `runStage` assumes, the loop run for zero or one plugin: no plugin → the tail;
    a plugin that does not implement the stage interface → next plugin; one that does and says OK →
    next plugin; one that does and says not OK → the function is left at once, with that very
    verdict where the function has a result (`stop` = "return:<Method>()", `tail` = "return:nil"), or
    by a bare return where it has none (`stop` = `tail` = "return:"). -/
def earlyStop (method stop tail : String) : List (List String) :=
  [[tail],
   ["range:$.plugins", "assert:" ++ method ++ "Plugin=fail", "loop:next", tail],
   ["range:$.plugins", "assert:" ++ method ++ "Plugin=ok", "invoke:" ++ method ++ "=ok", "loop:next", tail],
   ["range:$.plugins", "assert:" ++ method ++ "Plugin=ok", "invoke:" ++ method ++ "=fail", stop]]

/-- the two stage functions without a result. -/
def isVoid : Stage → Bool
  | .preWriteReply | .postWriteReply => true
  | _ => false

/-- the expected path set of the stage function of `s`. -/
def expectedLoop (s : Stage) : List (List String) :=
  if isVoid s then earlyStop (goMethod s) "return:" "return:"
  else earlyStop (goMethod s) ("return:" ++ goMethod s ++ "()") "return:nil"

def loopOk (fn : String) (expected : List (List String)) : Bool :=
  match loopPaths fn with
  | some ps => SrcFlow.sameSet ps expected && assertsOnLoopVar fn
  | none => false

/-- **Every stage function has the loop `runStage` models (tie A).** For each of the sixteen
    per-message stages `s`, the control-flow paths of the function `goName s` of plugin.go (the loop
    run for no plugin or for one) are exactly: iterate `p.plugins` in order, type-assert
    `<goMethod s>Plugin` on the loop variable, call `<goMethod s>` on the plugins that implement it, go
    on to the next plugin after an OK verdict, and leave the function at the first non-OK verdict
    (returning that verdict where the function has a result) — the shape of `runStage`: in order,
    only the implementers, stop at the first non-OK. The same holds for the connection-level
    `postAccept`, `postDial` (both with a deferred `recover`) and `postDisconnect`. A loop that continues
    after a non-OK verdict, breaks after an OK one, iterates another list, or swallows the verdict
    changes the regenerated paths and this theorem no longer checks; a loop flattened with
    `continue`, an inverted test or a renamed variable does not. -/
theorem C09_stage_loops :
    Gen.stages_missing = [] ∧
    Stage.all.all (fun s => loopOk (goName s) (expectedLoop s)) = true ∧
    [("postAccept", "PostAccept", "recover"), ("postDial", "PostDial", "recover"), ("postDisconnect", "PostDisconnect", "none")].all
      (fun c => loopOk c.1 (earlyStop c.2.1 ("return:" ++ c.2.1 ++ "()") "return:nil") &&
        Gen.stage_recover.contains (c.1, c.2.2)) = true ∧
    Gen.stage_loop_paths.length = Gen.stage_funcs.length := by
  decide

/-- non-vacuity: the model's `runStage` stops at the first non-OK verdict and returns it. -/
example : runStage (fun n _ => if n = 2 then 7 else 0) .preReadCallBody [⟨1, 65535⟩, ⟨2, 65535⟩, ⟨3, 65535⟩] =
    ([(1, .preReadCallBody), (2, .preReadCallBody)], 7) := by decide

end TieA

end C09
end Teleport
