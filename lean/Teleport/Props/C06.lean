/-
Props/C06 — No received byte sequence crashes, wedges or over-allocates a peer (raw protocol
reader `rawProto.Unpack`/`readMessage`, modelled in Model/RawProto).  `Raw.unpack` is a total
function on every byte string: a Go panic is the explicit outcome `reject` (the read loop recovers
it and disconnects), so "never crashes" is totality + the session-level theorems of C02/C07.
-/
import Teleport.Lemmas.RawRead
import Teleport.Gen.Frames
namespace Teleport
namespace C06
open Raw

/-- The largest buffer length requested while reading one frame never exceeds the configured read
    limit (or the 4 bytes of the length prefix), whatever the input. -/
theorem C06_alloc_bound (reg : Registry) (limit : Nat) (inp : Bytes) :
    (unpack reg limit inp).alloc ≤ max limit 4 := by
  rcases long_or_short inp with h | ⟨a, b, c, d, r1, rfl⟩
  · rw [unpack_short _ _ _ h]; show 4 ≤ max limit 4; omega
  · rw [unpack_cons4]
    by_cases h1 : Bytes.rdBe32 a b c d > limit
    · simp only [h1, if_true]; show 4 ≤ max limit 4; omega
    · simp only [h1, if_false]
      by_cases h2 : Bytes.rdBe32 a b c d < 4
      · simp only [h2, if_true]; show 4 ≤ max limit 4; omega
      · simp only [h2, if_false]
        by_cases h3 : Bytes.rdBe32 a b c d - 4 < 1
        · simp only [h3, if_true]; show max 4 (Bytes.rdBe32 a b c d - 4) ≤ max limit 4; omega
        · simp only [h3, if_false]; rw [(xfer_spec ..).1]; omega

/-- **Every read request stays inside the announced frame, for ALL inputs**: the largest length one
    `io.ReadFull` asks the connection to fill while reading one message is at most the configured read
    limit (or the 4 bytes of the length prefix) — "make the receiver buffer more than the configured
    per-message read limit for a single message" is impossible —, and, once the four size bytes
    `a b c d` are there, at most what they announce beyond the prefix (`size - 4`): the reader never
    asks for bytes that lie beyond the frame it was told about. (Before fix C06c the filter ids were
    read before `minus` checked that they fit: a frame `00000027 ff …` with limit 64 asked for 255 bytes.) -/
theorem C06_read_request_bounded (reg : Registry) (limit : Nat) (inp : Bytes) :
    (unpack reg limit inp).maxReq ≤ max limit 4 ∧
    ∀ a b c d r1, inp = a :: b :: c :: d :: r1 →
      (unpack reg limit inp).maxReq ≤ max 4 (Bytes.rdBe32 a b c d - 4) := by
  have key : ∀ a b c d r1, (unpack reg limit (a :: b :: c :: d :: r1)).maxReq ≤ max limit 4 ∧
      (unpack reg limit (a :: b :: c :: d :: r1)).maxReq ≤ max 4 (Bytes.rdBe32 a b c d - 4) := by
    intro a b c d r1
    rw [unpack_cons4]
    by_cases h1 : Bytes.rdBe32 a b c d > limit
    · simp only [h1, if_true]; exact ⟨by show 4 ≤ max limit 4; omega, by show 4 ≤ max 4 _; omega⟩
    · simp only [h1, if_false]
      by_cases h2 : Bytes.rdBe32 a b c d < 4
      · simp only [h2, if_true]; exact ⟨by show 4 ≤ max limit 4; omega, by show 4 ≤ max 4 _; omega⟩
      · simp only [h2, if_false]
        by_cases h3 : Bytes.rdBe32 a b c d - 4 < 1
        · simp only [h3, if_true]; exact ⟨by show 4 ≤ max limit 4; omega, by show 4 ≤ max 4 _; omega⟩
        · simp only [h3, if_false]
          have hx := (xfer_spec reg (Bytes.rdBe32 a b c d) (Bytes.rdBe32 a b c d - 4)
            (max 4 (Bytes.rdBe32 a b c d - 4)) (a :: b :: c :: d :: r1).length r1).2.2.2.1 (by omega)
          exact ⟨by omega, hx⟩
  rcases long_or_short inp with h | ⟨a, b, c, d, r1, rfl⟩
  · rw [unpack_short _ _ _ h]
    refine ⟨by show 4 ≤ max limit 4; omega, ?_⟩
    intro a b c d r1 he; rw [he] at h; simp only [List.length_cons] at h; omega
  · refine ⟨(key a b c d r1).1, ?_⟩
    intro a' b' c' d' r1' he
    simp only [List.cons.injEq] at he
    obtain ⟨rfl, rfl, rfl, rfl, rfl⟩ := he
    exact (key _ _ _ _ _).2

/-- A frame announcing more than the limit is refused after exactly the 4 length bytes: its
    payload is never consumed, nothing beyond the prefix buffer is allocated and nothing beyond the
    prefix is requested from the connection. -/
theorem C06_oversize_early (reg : Registry) (limit : Nat) (a b c d : UInt8) (r : Bytes)
    (h : Bytes.rdBe32 a b c d > limit) :
    isSize (unpack reg limit (a :: b :: c :: d :: r)).out = true
    ∧ (unpack reg limit (a :: b :: c :: d :: r)).consumed = 4
    ∧ (unpack reg limit (a :: b :: c :: d :: r)).alloc = 4
    ∧ (unpack reg limit (a :: b :: c :: d :: r)).maxReq = 4 := by
  rw [unpack_cons4]
  simp only [h, if_true]
  refine ⟨by first | rfl | trivial, by first | rfl | trivial, by first | rfl | trivial, by first | rfl | trivial⟩

/-- The reader never claims to have consumed more than it was given. -/
theorem C06_consumed_le (reg : Registry) (limit : Nat) (inp : Bytes) :
    (unpack reg limit inp).consumed ≤ inp.length := by
  rcases long_or_short inp with h | ⟨a, b, c, d, r1, rfl⟩
  · rw [unpack_short _ _ _ h]; exact Nat.le_refl _
  · rw [unpack_cons4]
    have hl : 4 ≤ (a :: b :: c :: d :: r1).length := by simp only [List.length_cons]; omega
    by_cases h1 : Bytes.rdBe32 a b c d > limit
    · simp only [h1, if_true]; exact hl
    · simp only [h1, if_false]
      by_cases h2 : Bytes.rdBe32 a b c d < 4
      · simp only [h2, if_true]; exact hl
      · simp only [h2, if_false]
        by_cases h3 : Bytes.rdBe32 a b c d - 4 < 1
        · simp only [h3, if_true]; exact hl
        · simp only [h3, if_false]; apply (xfer_spec ..).2.1; simp only [List.length_cons]; omega

/-- **Nothing beyond the announced frame is consumed**: once the four size bytes `a b c d` are there,
    whatever the outcome (message, rejection, size refusal, or the input ending inside the frame), the
    reader has taken at most the announced `size` bytes from the connection (at least the 4 of the
    prefix) — the bytes after the frame are left for the next message. In particular
    `consumed ≤ 4 + size`. (Before fix C06c a frame announcing fewer bytes than its filter-id count had
    up to 255 bytes beyond its end consumed, and a frame of size 4 one byte.) -/
theorem C06_consumed_within_frame (reg : Registry) (limit : Nat) (a b c d : UInt8) (r1 : Bytes) :
    (unpack reg limit (a :: b :: c :: d :: r1)).consumed ≤ max 4 (Bytes.rdBe32 a b c d) ∧
    (unpack reg limit (a :: b :: c :: d :: r1)).consumed ≤ 4 + Bytes.rdBe32 a b c d := by
  suffices hs : (unpack reg limit (a :: b :: c :: d :: r1)).consumed ≤ max 4 (Bytes.rdBe32 a b c d) by
    exact ⟨hs, by omega⟩
  rw [unpack_cons4]
  by_cases h1 : Bytes.rdBe32 a b c d > limit
  · simp only [h1, if_true]; show 4 ≤ max 4 _; omega
  · simp only [h1, if_false]
    by_cases h2 : Bytes.rdBe32 a b c d < 4
    · simp only [h2, if_true]; show 4 ≤ max 4 _; omega
    · simp only [h2, if_false]
      by_cases h3 : Bytes.rdBe32 a b c d - 4 < 1
      · simp only [h3, if_true]; show 4 ≤ max 4 _; omega
      · simp only [h3, if_false]
        have hx := (xfer_spec reg (Bytes.rdBe32 a b c d) (Bytes.rdBe32 a b c d - 4)
          (max 4 (Bytes.rdBe32 a b c d - 4)) (a :: b :: c :: d :: r1).length r1).2.2.2.2 (by omega)
          (by simp only [List.length_cons]; omega)
        omega

/-- The reader waits for more input only while the input is not exhausted: an `eof` outcome
    means every available byte was consumed (a peer that stops sending cannot leave the reader
    blocked on bytes it already has); every other outcome is decided on bytes already present. -/
theorem C06_eof_consumes_all (reg : Registry) (limit : Nat) (inp : Bytes) :
    isEof (unpack reg limit inp).out = true → (unpack reg limit inp).consumed = inp.length := by
  rcases long_or_short inp with hs | ⟨a, b, c, d, r1, rfl⟩
  · rw [unpack_short _ _ _ hs]; intro _; rfl
  · rw [unpack_cons4]
    by_cases h1 : Bytes.rdBe32 a b c d > limit
    · simp only [h1, if_true]; intro h; cases h
    · simp only [h1, if_false]
      by_cases h2 : Bytes.rdBe32 a b c d < 4
      · simp only [h2, if_true]; intro h; cases h
      · simp only [h2, if_false]
        by_cases h3 : Bytes.rdBe32 a b c d - 4 < 1
        · simp only [h3, if_true]; intro h; cases h
        · simp only [h3, if_false]
          apply (xfer_spec ..).2.2.1
          simp only [List.length_cons]; omega

/-- `Raw.unpack` is total: every byte string yields exactly one of the four outcomes (a Go panic
    is `reject`), so no input can "crash" the reader in the model. Stated as an explicit
    classification so that a model change introducing a fifth outcome breaks it. -/
theorem C06_outcome_classified (reg : Registry) (limit : Nat) (inp : Bytes) :
    (∃ m rest, (unpack reg limit inp).out = .ok m rest) ∨ (unpack reg limit inp).out = .eof
    ∨ (unpack reg limit inp).out = .size ∨ (∃ why, (unpack reg limit inp).out = .reject why) := by
  cases (unpack reg limit inp).out with
  | ok m rest => exact Or.inl ⟨m, rest, rfl⟩
  | eof => exact Or.inr (Or.inl rfl)
  | size => exact Or.inr (Or.inr (Or.inl rfl))
  | reject w => exact Or.inr (Or.inr (Or.inr ⟨w, rfl⟩))

/-! Non-vacuity: a concrete oversize announcement. -/
example : Bytes.rdBe32 0x7f 0xff 0xff 0xff > 1024 := by decide

/-! The input that exposed defect C06c (`00000027 ff 02 01 02 …`, limit 64: size 39 announces 35 bytes,
the pipe-length byte asks for 255 filter ids): rejected after 5 bytes, nothing above 4 requested; and
the frames of size 4 (no room for the pipe-length byte) and 5 with `xferLen = 1`. -/
example :
    let r := unpack (fun _ => none) 64 ([0, 0, 0, 0x27, 0xff, 2, 1, 2] ++ List.replicate 300 7)
    (match r.out with | .reject _ => true | _ => false) = true ∧ r.consumed = 5 ∧ r.maxReq = 4 := by
  decide
example :
    let r := unpack (fun _ => none) 64 [0, 0, 0, 4, 9, 9]
    (match r.out with | .reject _ => true | _ => false) = true ∧ r.consumed = 4 ∧ r.maxReq = 4 := by
  decide
example :
    let r := unpack (fun _ => none) 64 [0, 0, 0, 5, 1, 9, 9]
    (match r.out with | .reject _ => true | _ => false) = true ∧ r.consumed = 5 ∧ r.maxReq = 4 := by
  decide

/-! ## tie A: how each protocol sizes its read buffers (`Teleport.Gen.Frames`, regenerated from the
protocol packages and `session.go` on every run by `srcfacts`). -/

/-- the size checks that count: `m.SetSize(v)` whose error is returned (it compares with the read limit),
    or an explicit comparison with the limit whose branch returns an error — in the same function, or in
    the caller before the call of a helper. -/
def sizeChecks : List String := ["SetSize", "limit-compare", "SetSize@caller", "limit-compare@caller"]

/-- **Size check before allocation, for every protocol.** `Raw.unpack` compares the announced size with
    the limit BEFORE the buffer is grown (`if size > limit then ⟨.size, 4, 4⟩`), which is what
    `C06_alloc_bound` and `C06_oversize_early` are about; the oracles of the other protocols assume the
    same. Justified iff in `Unpack` and the same-receiver helpers it calls, EVERY `ChangeLen(x)` /
    `make([]T, x)` whose `x` is not a literal constant is lexically dominated, in the same function, by a
    size check on a value `x` is derived from (or on `m.Size()`), and no such call sits in a loop. The
    protocols that size a buffer from received data in this repository are exactly raw, json, pb and
    http (after fix 80ca4d0); thrift reads through the library's THeader transport and the websocket
    sub-protocols through `ReadAll` (`C06_unbounded_growth_known`). -/
theorem C06_size_check_dominates_alloc :
    Gen.frames_missing = [] ∧
    Gen.frames_protocols = ["raw", "json", "pb", "http", "thrift-binary", "thrift-struct", "ws-json", "ws-pb"] ∧
    Gen.frames_unpack_allocs.all (fun r =>
      r.2.2.2.1 == "const" || (r.2.2.2.1 == "data" && sizeChecks.contains r.2.2.2.2)) = true ∧
    ((Gen.frames_unpack_allocs.filter (fun r => r.2.2.2.1 == "data")).map (·.1)).eraseDups = ["raw", "json", "pb", "http"] := by
  decide

/-- **`readMessage` has the shape of `Raw.unpack`, every check BEFORE the read it guards**: a constant
    4-byte buffer for the length prefix and the read that fills it (↔ the `a :: b :: c :: d ::` pattern);
    `SetSize` (↔ `if size > limit`); `minus(lastSize, 4)` with its error returned (↔ `if size < 4 then
    reject`); the first data-sized buffer (↔ `alloc = max 4 last`); `minus(lastSize, 1)` returned (↔ `if
    last < 1 then reject` in `unpack`) and only then the read of the pipe-length byte into `bb.B[:1]`;
    `minus(lastSize, xferLen)` returned (↔ `if last - 1 < xl then reject` in `unpackXfer`) and only then
    the (conditional: `xferLen > 0`) read of the filter ids into `bb.B[:xferLen]`; the second data-sized
    buffer and the read that fills it (↔ `unpackTail`) — all but the ids read unconditional; and `minus`
    refuses exactly a negative difference or a negative subtrahend. `C06_read_request_bounded` and
    `C06_consumed_within_frame` rest on this order: moving a `minus` back behind its read (the code
    before fix C06c had `read:buf[:1]`, `?read:buf[:data]`, `minus(data)`) changes the list. -/
theorem C06_raw_read_shape :
    Gen.frames_missing = [] ∧
    Gen.frames_raw_read_landmarks =
      ["alloc:const", "read:buf", "SetSize:returned", "minus(4):returned", "alloc:data",
       "minus(1):returned", "read:buf[:1]", "minus(data):returned", "?read:buf[:data]",
       "alloc:data", "read:buf"] ∧
    Gen.frames_raw_minus_guard = ["$d < 0 || $1 < 0"] := by
  decide

/-- **What is NOT bounded by a size check, by name** (so that a new unbounded read cannot appear
    silently): `httproto.readLine` appends byte by byte until a newline (a header line has no length
    limit; DESIGN §5 C06), `httproto.unpack` accumulates the header lines when the debug option
    `printMessage` is on, and the two websocket sub-protocols `ReadAll` one websocket frame (bounded by
    the websocket layer's `MaxPayloadBytes`, outside this repository's protocol code). -/
theorem C06_unbounded_growth_known :
    Gen.frames_missing = [] ∧
    Gen.frames_unbounded_growth = [
      ("http", "readLine", "loop:Write"),
      ("http", "unpack", "loop:append"),
      ("ws-json", "Unpack", "ReadAll"),
      ("ws-pb", "Unpack", "ReadAll")] := by
  decide

/-- **A Go panic while reading is the outcome `reject`, not a crash** (`Raw.Out.reject`; file header):
    `session.startReadAndHandle` registers, before its read loop, a deferred function that itself calls
    `recover()`; the loop that calls `socket.ReadMessage` comes after it. -/
theorem C06_read_loop_recovers :
    Gen.frames_missing = [] ∧
    Gen.frames_readloop_landmarks = ["defer:recover", "loop:ReadMessage"] := by
  decide

end C06
end Teleport
