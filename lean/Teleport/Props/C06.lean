/-
Props/C06 — No received byte sequence crashes, wedges or over-allocates a peer (raw protocol
reader `rawProto.Unpack`/`readMessage`, modelled in Model/RawProto).  `Raw.unpack` is a total
function on every byte string: a Go panic is the explicit outcome `reject` (the read loop recovers
it and disconnects), so "never crashes" is totality + the session-level theorems of C02/C07.
-/
import Teleport.Lemmas.RawRead
namespace Teleport
namespace C06
open Raw

/-- The largest buffer length requested while reading one frame never exceeds the configured read
    limit (or the 4 bytes of the length prefix), whatever the input and the pooled capacity. -/
theorem C06_alloc_bound (reg : Registry) (limit cap0 : Nat) (inp : Bytes) :
    (unpack reg limit cap0 inp).alloc ≤ max limit 4 := by
  rcases long_or_short inp with h | ⟨a, b, c, d, r1, rfl⟩
  · rw [unpack_short _ _ _ _ h]; show 4 ≤ max limit 4; omega
  · rw [unpack_cons4]
    by_cases h1 : Bytes.rdBe32 a b c d > limit
    · simp only [h1, if_true]; show 4 ≤ max limit 4; omega
    · simp only [h1, if_false]
      by_cases h2 : Bytes.rdBe32 a b c d < 4
      · simp only [h2, if_true]; show 4 ≤ max limit 4; omega
      · simp only [h2, if_false]
        generalize (if cap0 < Bytes.rdBe32 a b c d - 4 then Bytes.rdBe32 a b c d - 4 else cap0) = cap
        by_cases h3 : cap < 1
        · simp only [h3, if_true]; show max 4 (Bytes.rdBe32 a b c d - 4) ≤ max limit 4; omega
        · simp only [h3, if_false]; rw [(xfer_spec ..).1]; omega

/-- A frame announcing more than the limit is refused after exactly the 4 length bytes: its
    payload is never consumed and nothing beyond the prefix buffer is allocated. -/
theorem C06_oversize_early (reg : Registry) (limit cap0 : Nat) (a b c d : UInt8) (r : Bytes)
    (h : Bytes.rdBe32 a b c d > limit) :
    isSize (unpack reg limit cap0 (a :: b :: c :: d :: r)).out = true
    ∧ (unpack reg limit cap0 (a :: b :: c :: d :: r)).consumed = 4
    ∧ (unpack reg limit cap0 (a :: b :: c :: d :: r)).alloc = 4 := by
  rw [unpack_cons4]
  simp only [h, if_true]
  refine ⟨by first | rfl | trivial, by first | rfl | trivial, by first | rfl | trivial⟩

/-- The reader never claims to have consumed more than it was given. -/
theorem C06_consumed_le (reg : Registry) (limit cap0 : Nat) (inp : Bytes) :
    (unpack reg limit cap0 inp).consumed ≤ inp.length := by
  rcases long_or_short inp with h | ⟨a, b, c, d, r1, rfl⟩
  · rw [unpack_short _ _ _ _ h]; exact Nat.le_refl _
  · rw [unpack_cons4]
    have hl : 4 ≤ (a :: b :: c :: d :: r1).length := by simp only [List.length_cons]; omega
    by_cases h1 : Bytes.rdBe32 a b c d > limit
    · simp only [h1, if_true]; exact hl
    · simp only [h1, if_false]
      by_cases h2 : Bytes.rdBe32 a b c d < 4
      · simp only [h2, if_true]; exact hl
      · simp only [h2, if_false]
        generalize (if cap0 < Bytes.rdBe32 a b c d - 4 then Bytes.rdBe32 a b c d - 4 else cap0) = cap
        by_cases h3 : cap < 1
        · simp only [h3, if_true]; exact hl
        · simp only [h3, if_false]; apply (xfer_spec ..).2.1; simp only [List.length_cons]; omega

/-- The reader waits for more input only while the input is not exhausted: an `eof` outcome
    means every available byte was consumed (a peer that stops sending cannot leave the reader
    blocked on bytes it already has); every other outcome is decided on bytes already present. -/
theorem C06_eof_consumes_all (reg : Registry) (limit cap0 : Nat) (inp : Bytes) :
    isEof (unpack reg limit cap0 inp).out = true → (unpack reg limit cap0 inp).consumed = inp.length := by
  rcases long_or_short inp with hs | ⟨a, b, c, d, r1, rfl⟩
  · rw [unpack_short _ _ _ _ hs]; intro _; rfl
  · rw [unpack_cons4]
    by_cases h1 : Bytes.rdBe32 a b c d > limit
    · simp only [h1, if_true]; intro h; cases h
    · simp only [h1, if_false]
      by_cases h2 : Bytes.rdBe32 a b c d < 4
      · simp only [h2, if_true]; intro h; cases h
      · simp only [h2, if_false]
        generalize (if cap0 < Bytes.rdBe32 a b c d - 4 then Bytes.rdBe32 a b c d - 4 else cap0) = cap
        by_cases h3 : cap < 1
        · simp only [h3, if_true]; intro h; cases h
        · simp only [h3, if_false]
          apply (xfer_spec ..).2.2
          simp only [List.length_cons]; omega

/-- `Raw.unpack` is total: every byte string yields exactly one of the four outcomes (a Go panic
    is `reject`), so no input can "crash" the reader in the model. Stated as an explicit
    classification so that a model change introducing a fifth outcome breaks it. -/
theorem C06_outcome_classified (reg : Registry) (limit cap0 : Nat) (inp : Bytes) :
    (∃ m rest, (unpack reg limit cap0 inp).out = .ok m rest) ∨ (unpack reg limit cap0 inp).out = .eof
    ∨ (unpack reg limit cap0 inp).out = .size ∨ (∃ why, (unpack reg limit cap0 inp).out = .reject why) := by
  cases (unpack reg limit cap0 inp).out with
  | ok m rest => exact Or.inl ⟨m, rest, rfl⟩
  | eof => exact Or.inr (Or.inl rfl)
  | size => exact Or.inr (Or.inr (Or.inl rfl))
  | reject w => exact Or.inr (Or.inr (Or.inr ⟨w, rfl⟩))

/-! Non-vacuity: a concrete oversize announcement. -/
example : Bytes.rdBe32 0x7f 0xff 0xff 0xff > 1024 := by decide

end C06
end Teleport
