/-
Props/C06 — No received byte sequence crashes, wedges or over-allocates a peer (raw protocol
reader `rawProto.Unpack`/`readMessage`, modelled in Model/RawProto).  `Raw.unpack` is a total
function on every byte string: a Go panic is the explicit outcome `reject` (the read loop recovers
it and disconnects), so "never crashes" is totality + the session-level theorems of C02/C07.
-/
import Teleport.Model.RawProto
namespace Teleport
namespace C06
open Raw

theorem take?_len {n : Nat} {l a b : Bytes} (h : take? n l = some (a, b)) :
    n ≤ l.length ∧ b.length = l.length - n := by
  unfold take? at h
  split at h
  · simp only [Option.some.injEq, Prod.mk.injEq] at h
    refine ⟨by assumption, ?_⟩
    rw [← h.2]; simp
  · simp at h

/-! ### stage lemmas -/

theorem tail_alloc (reg : Registry) (size last alloc xferLen inpLen : Nat) (pipe : List UInt8) (r3 : Bytes) :
    (unpackTail reg size last alloc xferLen inpLen pipe r3).alloc = alloc := by
  unfold unpackTail
  split
  · rfl
  · split
    · rfl
    · split
      · rfl
      · split <;> rfl

theorem xfer_alloc (reg : Registry) (size last cap alloc inpLen : Nat) (r1 : Bytes) :
    (unpackXfer reg size last cap alloc inpLen r1).alloc = alloc := by
  unfold unpackXfer
  split
  · rfl
  · split
    · rfl
    · split
      · rfl
      · split
        · rfl
        · exact tail_alloc ..

/-- consumed bound for the last stage, given what precedes `r3` in the input. -/
theorem tail_consumed (reg : Registry) (size last alloc xferLen inpLen : Nat) (pipe : List UInt8) (r3 : Bytes)
    (h : inpLen = 5 + xferLen + r3.length) :
    (unpackTail reg size last alloc xferLen inpLen pipe r3).consumed ≤ inpLen := by
  unfold unpackTail
  split
  · simp; omega
  · split
    · simp
    · rename_i raw rest ht
      have := take?_len ht
      have hc : 4 + last ≤ inpLen := by omega
      split
      · exact hc
      · split <;> exact hc

theorem xfer_consumed (reg : Registry) (size last cap alloc inpLen : Nat) (r1 : Bytes)
    (h : inpLen = 4 + r1.length) :
    (unpackXfer reg size last cap alloc inpLen r1).consumed ≤ inpLen := by
  unfold unpackXfer
  split
  · simp; omega
  · rename_i xl r2
    simp only [List.length_cons] at h
    split
    · simp; omega
    · split
      · simp
      · rename_i ids r3 ht
        have := take?_len ht
        split
        · simp; omega
        · apply tail_consumed; omega

/-- outcome is "input exhausted inside a frame". -/
def isEof : Out → Bool
  | .eof => true
  | _ => false

theorem tail_eof (reg : Registry) (size last alloc xferLen inpLen : Nat) (pipe : List UInt8) (r3 : Bytes)
    (h : isEof (unpackTail reg size last alloc xferLen inpLen pipe r3).out = true) :
    (unpackTail reg size last alloc xferLen inpLen pipe r3).consumed = inpLen := by
  unfold unpackTail at h ⊢
  split
  · rename_i h1; simp [h1, isEof] at h
  · rename_i h1
    simp only [h1, if_false] at h
    split
    · rfl
    · rename_i raw rest ht
      simp only [ht] at h
      split
      · rename_i hu; simp [hu, isEof] at h
      · rename_i data hu
        simp only [hu] at h
        split
        · rename_i e hp; simp [hp, isEof] at h
        · rename_i m hp; simp [hp, isEof] at h

theorem xfer_eof (reg : Registry) (size last cap alloc inpLen : Nat) (r1 : Bytes)
    (hlen : inpLen = 4 + r1.length)
    (h : isEof (unpackXfer reg size last cap alloc inpLen r1).out = true) :
    (unpackXfer reg size last cap alloc inpLen r1).consumed = inpLen := by
  cases r1 with
  | nil =>
    unfold unpackXfer
    simp only [List.length_nil] at hlen
    omega
  | cons xl r2 =>
    unfold unpackXfer at h ⊢
    split
    · rename_i h1; simp [h1, isEof] at h
    · rename_i h1
      simp only [h1, if_false] at h
      split
      · rfl
      · rename_i ids r3 ht
        simp only [ht] at h
        split
        · rename_i ha; simp [ha, isEof] at h
        · rename_i pipe ha
          simp only [ha] at h
          exact tail_eof _ _ _ _ _ _ _ _ h

/-! ### property theorems -/

/-- The largest buffer length requested while reading one frame never exceeds the configured read
    limit (or the 4 bytes of the length prefix), whatever the input and the pooled capacity. -/
theorem C06_alloc_bound (reg : Registry) (limit cap0 : Nat) (inp : Bytes) :
    (unpack reg limit cap0 inp).alloc ≤ max limit 4 := by
  unfold unpack
  split
  · rename_i a b c d r1
    dsimp only
    split
    · simp; omega
    · split
      · simp; omega
      · split
        · simp; omega
        · rw [xfer_alloc]; omega
  · simp; omega

/-- A frame announcing more than the limit is refused after exactly the 4 length bytes: its
    payload is never consumed and nothing beyond the prefix buffer is allocated. -/
theorem C06_oversize_early (reg : Registry) (limit cap0 : Nat) (a b c d : UInt8) (r : Bytes)
    (h : Bytes.rdBe32 a b c d > limit) :
    (unpack reg limit cap0 (a :: b :: c :: d :: r)).out matches .size
    ∧ (unpack reg limit cap0 (a :: b :: c :: d :: r)).consumed = 4
    ∧ (unpack reg limit cap0 (a :: b :: c :: d :: r)).alloc = 4 := by
  unfold unpack
  simp [h]

/-- The reader never claims to have consumed more than it was given. -/
theorem C06_consumed_le (reg : Registry) (limit cap0 : Nat) (inp : Bytes) :
    (unpack reg limit cap0 inp).consumed ≤ inp.length := by
  unfold unpack
  split
  · rename_i a b c d r1
    dsimp only
    split
    · simp
    · split
      · simp
      · split
        · simp
        · apply xfer_consumed; simp; omega
  · simp

/-- The reader waits for more input only while the input is not exhausted: an `eof` outcome
    means every available byte was consumed (a peer that stops sending cannot leave the reader
    blocked on bytes it already has), and conversely every non-`eof` outcome is decided on the
    bytes already present. -/
theorem C06_eof_consumes_all (reg : Registry) (limit cap0 : Nat) (inp : Bytes)
    (h : isEof (unpack reg limit cap0 inp).out = true) :
    (unpack reg limit cap0 inp).consumed = inp.length := by
  unfold unpack at h ⊢
  split
  · rename_i a b c d r1
    dsimp only at h ⊢
    split
    · rename_i h1; simp [h1, isEof] at h
    · rename_i h1
      simp only [h1, if_false] at h
      split
      · rename_i h2; simp [h2, isEof] at h
      · rename_i h2
        simp only [h2, if_false] at h
        split
        · rename_i h3; simp [h3, isEof] at h
        · rename_i h3
          simp only [h3, if_false] at h
          apply xfer_eof _ _ _ _ _ _ _ _ h
          simp only [List.length_cons]; omega
  · rfl

/-! Non-vacuity: a concrete oversize announcement. -/
example : Bytes.rdBe32 0x7f 0xff 0xff 0xff > 1024 := by decide

end C06
end Teleport
