/-
Props/C06 — No received byte sequence crashes, wedges or over-allocates a peer (raw protocol
reader `rawProto.Unpack`/`readMessage`, modelled in Model/RawProto).  `Raw.unpack` is a total
function on every byte string: a Go panic is the explicit outcome `reject` (the read loop recovers
it and disconnects), so "never crashes" is totality + the session-level theorems of C02/C07.
-/
import Teleport.Lemmas.RawRead
import Teleport.Lemmas.HttpRead
import Teleport.Gen.Frames
namespace Teleport
namespace C06
open Raw

/-- The largest buffer length requested while reading one frame never exceeds the configured read
    limit (or the 4 bytes of the length prefix), whatever the input. -/
theorem C06_alloc_bound (reg : Registry) (limit : Nat) (inp : Bytes) :
    (unpack reg limit inp).alloc ≤ max limit 4 := by
  rcases long_or_short inp with h | ⟨a, b, c, d, r1, rfl⟩
  · rw [unpack_short _ _ _ h]; show 4 ≤ max limit 4; omega
  · rw [unpack_cons4]
    by_cases h1 : Bytes.rdBe32 a b c d > limit
    · simp only [h1, if_true]; show 4 ≤ max limit 4; omega
    · simp only [h1, if_false]
      by_cases h2 : Bytes.rdBe32 a b c d < 4
      · simp only [h2, if_true]; show 4 ≤ max limit 4; omega
      · simp only [h2, if_false]
        by_cases h3 : Bytes.rdBe32 a b c d - 4 < 1
        · simp only [h3, if_true]; show max 4 (Bytes.rdBe32 a b c d - 4) ≤ max limit 4; omega
        · simp only [h3, if_false]; rw [(xfer_spec ..).1]; omega

/-- **Every read request stays inside the announced frame, for ALL inputs**: the largest length one
    `io.ReadFull` asks the connection to fill while reading one message is at most the configured read
    limit (or the 4 bytes of the length prefix) — "make the receiver buffer more than the configured
    per-message read limit for a single message" is impossible —, and, once the four size bytes
    `a b c d` are there, at most what they announce beyond the prefix (`size - 4`): the reader never
    asks for bytes that lie beyond the frame it was told about. (Before fix C06c the filter ids were
    read before `minus` checked that they fit: a frame `00000027 ff …` with limit 64 asked for 255 bytes.) -/
theorem C06_read_request_bounded (reg : Registry) (limit : Nat) (inp : Bytes) :
    (unpack reg limit inp).maxReq ≤ max limit 4 ∧
    ∀ a b c d r1, inp = a :: b :: c :: d :: r1 →
      (unpack reg limit inp).maxReq ≤ max 4 (Bytes.rdBe32 a b c d - 4) := by
  have key : ∀ a b c d r1, (unpack reg limit (a :: b :: c :: d :: r1)).maxReq ≤ max limit 4 ∧
      (unpack reg limit (a :: b :: c :: d :: r1)).maxReq ≤ max 4 (Bytes.rdBe32 a b c d - 4) := by
    intro a b c d r1
    rw [unpack_cons4]
    by_cases h1 : Bytes.rdBe32 a b c d > limit
    · simp only [h1, if_true]; exact ⟨by show 4 ≤ max limit 4; omega, by show 4 ≤ max 4 _; omega⟩
    · simp only [h1, if_false]
      by_cases h2 : Bytes.rdBe32 a b c d < 4
      · simp only [h2, if_true]; exact ⟨by show 4 ≤ max limit 4; omega, by show 4 ≤ max 4 _; omega⟩
      · simp only [h2, if_false]
        by_cases h3 : Bytes.rdBe32 a b c d - 4 < 1
        · simp only [h3, if_true]; exact ⟨by show 4 ≤ max limit 4; omega, by show 4 ≤ max 4 _; omega⟩
        · simp only [h3, if_false]
          have hx := (xfer_spec reg (Bytes.rdBe32 a b c d) (Bytes.rdBe32 a b c d - 4)
            (max 4 (Bytes.rdBe32 a b c d - 4)) (a :: b :: c :: d :: r1).length r1).2.2.2.1 (by omega)
          exact ⟨by omega, hx⟩
  rcases long_or_short inp with h | ⟨a, b, c, d, r1, rfl⟩
  · rw [unpack_short _ _ _ h]
    refine ⟨by show 4 ≤ max limit 4; omega, ?_⟩
    intro a b c d r1 he; rw [he] at h; simp only [List.length_cons] at h; omega
  · refine ⟨(key a b c d r1).1, ?_⟩
    intro a' b' c' d' r1' he
    simp only [List.cons.injEq] at he
    obtain ⟨rfl, rfl, rfl, rfl, rfl⟩ := he
    exact (key _ _ _ _ _).2

/-- A frame announcing more than the limit is refused after exactly the 4 length bytes: its
    payload is never consumed, nothing beyond the prefix buffer is allocated and nothing beyond the
    prefix is requested from the connection. -/
theorem C06_oversize_early (reg : Registry) (limit : Nat) (a b c d : UInt8) (r : Bytes)
    (h : Bytes.rdBe32 a b c d > limit) :
    isSize (unpack reg limit (a :: b :: c :: d :: r)).out = true
    ∧ (unpack reg limit (a :: b :: c :: d :: r)).consumed = 4
    ∧ (unpack reg limit (a :: b :: c :: d :: r)).alloc = 4
    ∧ (unpack reg limit (a :: b :: c :: d :: r)).maxReq = 4 := by
  rw [unpack_cons4]
  simp only [h, if_true]
  refine ⟨by first | rfl | trivial, by first | rfl | trivial, by first | rfl | trivial, by first | rfl | trivial⟩

/-- The reader never claims to have consumed more than it was given. -/
theorem C06_consumed_le (reg : Registry) (limit : Nat) (inp : Bytes) :
    (unpack reg limit inp).consumed ≤ inp.length := by
  rcases long_or_short inp with h | ⟨a, b, c, d, r1, rfl⟩
  · rw [unpack_short _ _ _ h]; exact Nat.le_refl _
  · rw [unpack_cons4]
    have hl : 4 ≤ (a :: b :: c :: d :: r1).length := by simp only [List.length_cons]; omega
    by_cases h1 : Bytes.rdBe32 a b c d > limit
    · simp only [h1, if_true]; exact hl
    · simp only [h1, if_false]
      by_cases h2 : Bytes.rdBe32 a b c d < 4
      · simp only [h2, if_true]; exact hl
      · simp only [h2, if_false]
        by_cases h3 : Bytes.rdBe32 a b c d - 4 < 1
        · simp only [h3, if_true]; exact hl
        · simp only [h3, if_false]; apply (xfer_spec ..).2.1; simp only [List.length_cons]; omega

/-- **Nothing beyond the announced frame is consumed**: once the four size bytes `a b c d` are there,
    whatever the outcome (message, rejection, size refusal, or the input ending inside the frame), the
    reader has taken at most the announced `size` bytes from the connection (at least the 4 of the
    prefix) — the bytes after the frame are left for the next message. In particular
    `consumed ≤ 4 + size`. (Before fix C06c a frame announcing fewer bytes than its filter-id count had
    up to 255 bytes beyond its end consumed, and a frame of size 4 one byte.) -/
theorem C06_consumed_within_frame (reg : Registry) (limit : Nat) (a b c d : UInt8) (r1 : Bytes) :
    (unpack reg limit (a :: b :: c :: d :: r1)).consumed ≤ max 4 (Bytes.rdBe32 a b c d) ∧
    (unpack reg limit (a :: b :: c :: d :: r1)).consumed ≤ 4 + Bytes.rdBe32 a b c d := by
  suffices hs : (unpack reg limit (a :: b :: c :: d :: r1)).consumed ≤ max 4 (Bytes.rdBe32 a b c d) by
    exact ⟨hs, by omega⟩
  rw [unpack_cons4]
  by_cases h1 : Bytes.rdBe32 a b c d > limit
  · simp only [h1, if_true]; show 4 ≤ max 4 _; omega
  · simp only [h1, if_false]
    by_cases h2 : Bytes.rdBe32 a b c d < 4
    · simp only [h2, if_true]; show 4 ≤ max 4 _; omega
    · simp only [h2, if_false]
      by_cases h3 : Bytes.rdBe32 a b c d - 4 < 1
      · simp only [h3, if_true]; show 4 ≤ max 4 _; omega
      · simp only [h3, if_false]
        have hx := (xfer_spec reg (Bytes.rdBe32 a b c d) (Bytes.rdBe32 a b c d - 4)
          (max 4 (Bytes.rdBe32 a b c d - 4)) (a :: b :: c :: d :: r1).length r1).2.2.2.2 (by omega)
          (by simp only [List.length_cons]; omega)
        omega

/-- The reader waits for more input only while the input is not exhausted: an `eof` outcome
    means every available byte was consumed (a peer that stops sending cannot leave the reader
    blocked on bytes it already has); every other outcome is decided on bytes already present. -/
theorem C06_eof_consumes_all (reg : Registry) (limit : Nat) (inp : Bytes) :
    isEof (unpack reg limit inp).out = true → (unpack reg limit inp).consumed = inp.length := by
  rcases long_or_short inp with hs | ⟨a, b, c, d, r1, rfl⟩
  · rw [unpack_short _ _ _ hs]; intro _; rfl
  · rw [unpack_cons4]
    by_cases h1 : Bytes.rdBe32 a b c d > limit
    · simp only [h1, if_true]; intro h; cases h
    · simp only [h1, if_false]
      by_cases h2 : Bytes.rdBe32 a b c d < 4
      · simp only [h2, if_true]; intro h; cases h
      · simp only [h2, if_false]
        by_cases h3 : Bytes.rdBe32 a b c d - 4 < 1
        · simp only [h3, if_true]; intro h; cases h
        · simp only [h3, if_false]
          apply (xfer_spec ..).2.2.1
          simp only [List.length_cons]; omega

/-- `Raw.unpack` is total: every byte string yields exactly one of the four outcomes (a Go panic
    is `reject`), so no input can "crash" the reader in the model. Stated as an explicit
    classification so that a model change introducing a fifth outcome breaks it. -/
theorem C06_outcome_classified (reg : Registry) (limit : Nat) (inp : Bytes) :
    (∃ m rest, (unpack reg limit inp).out = .ok m rest) ∨ (unpack reg limit inp).out = .eof
    ∨ (unpack reg limit inp).out = .size ∨ (∃ why, (unpack reg limit inp).out = .reject why) := by
  cases (unpack reg limit inp).out with
  | ok m rest => exact Or.inl ⟨m, rest, rfl⟩
  | eof => exact Or.inr (Or.inl rfl)
  | size => exact Or.inr (Or.inr (Or.inl rfl))
  | reject w => exact Or.inr (Or.inr (Or.inr ⟨w, rfl⟩))

/-! Non-vacuity: a concrete oversize announcement. -/
example : Bytes.rdBe32 0x7f 0xff 0xff 0xff > 1024 := by decide

/-! The input that exposed defect C06c (`00000027 ff 02 01 02 …`, limit 64: size 39 announces 35 bytes,
the pipe-length byte asks for 255 filter ids): rejected after 5 bytes, nothing above 4 requested; and
the frames of size 4 (no room for the pipe-length byte) and 5 with `xferLen = 1`. -/
example :
    let r := unpack (fun _ => none) 64 ([0, 0, 0, 0x27, 0xff, 2, 1, 2] ++ List.replicate 300 7)
    (match r.out with | .reject _ => true | _ => false) = true ∧ r.consumed = 5 ∧ r.maxReq = 4 := by
  decide
example :
    let r := unpack (fun _ => none) 64 [0, 0, 0, 4, 9, 9]
    (match r.out with | .reject _ => true | _ => false) = true ∧ r.consumed = 4 ∧ r.maxReq = 4 := by
  decide
example :
    let r := unpack (fun _ => none) 64 [0, 0, 0, 5, 1, 9, 9]
    (match r.out with | .reject _ => true | _ => false) = true ∧ r.consumed = 5 ∧ r.maxReq = 4 := by
  decide

/-! ## tie A: how each protocol sizes its read buffers (`Teleport.Gen.Frames`, regenerated from the
protocol packages and `session.go` on every run by `srcfacts`). -/

/-- the size checks that count: `m.SetSize(v)` whose error is returned (it compares with the read limit),
    or an explicit comparison with the limit whose branch returns an error — in the same function, or in
    the caller before the call of a helper. -/
def sizeChecks : List String := ["SetSize", "limit-compare", "SetSize@caller", "limit-compare@caller"]

/-- **Size check before allocation, for every protocol.** `Raw.unpack` compares the announced size with
    the limit BEFORE the buffer is grown (`if size > limit then ⟨.size, 4, 4⟩`), which is what
    `C06_alloc_bound` and `C06_oversize_early` are about; the oracles of the other protocols assume the
    same. Justified iff in `Unpack` and the same-receiver helpers it calls, EVERY `ChangeLen(x)` /
    `make([]T, x)` whose `x` is not a literal constant is lexically dominated, in the same function, by a
    size check on a value `x` is derived from (or on `m.Size()`), and no such call sits in a loop. The
    protocols that size a buffer from received data in this repository are exactly raw, json, pb and
    http (after fix 80ca4d0); thrift reads through the library's THeader transport and the websocket
    sub-protocols through `ReadAll` (`C06_unbounded_growth_known`). -/
theorem C06_size_check_dominates_alloc :
    Gen.frames_missing = [] ∧
    Gen.frames_protocols = ["raw", "json", "pb", "http", "thrift-binary", "thrift-struct", "ws-json", "ws-pb"] ∧
    Gen.frames_unpack_allocs.all (fun r =>
      r.2.2.2.1 == "const" || (r.2.2.2.1 == "data" && sizeChecks.contains r.2.2.2.2)) = true ∧
    ((Gen.frames_unpack_allocs.filter (fun r => r.2.2.2.1 == "data")).map (·.1)).eraseDups = ["raw", "json", "pb", "http"] := by
  decide

/-- **`readMessage` has the shape of `Raw.unpack`, every check BEFORE the read it guards**: a constant
    4-byte buffer for the length prefix and the read that fills it (↔ the `a :: b :: c :: d ::` pattern);
    `SetSize` (↔ `if size > limit`); `minus(lastSize, 4)` with its error returned (↔ `if size < 4 then
    reject`); the first data-sized buffer (↔ `alloc = max 4 last`); `minus(lastSize, 1)` returned (↔ `if
    last < 1 then reject` in `unpack`) and only then the read of the pipe-length byte into `bb.B[:1]`;
    `minus(lastSize, xferLen)` returned (↔ `if last - 1 < xl then reject` in `unpackXfer`) and only then
    the (conditional: `xferLen > 0`) read of the filter ids into `bb.B[:xferLen]`; the second data-sized
    buffer and the read that fills it (↔ `unpackTail`) — all but the ids read unconditional; and `minus`
    refuses exactly a negative difference or a negative subtrahend. `C06_read_request_bounded` and
    `C06_consumed_within_frame` rest on this order: moving a `minus` back behind its read (the code
    before fix C06c had `read:buf[:1]`, `?read:buf[:data]`, `minus(data)`) changes the list. -/
theorem C06_raw_read_shape :
    Gen.frames_missing = [] ∧
    Gen.frames_raw_read_landmarks =
      ["alloc:const", "read:buf", "SetSize:returned", "minus(4):returned", "alloc:data",
       "minus(1):returned", "read:buf[:1]", "minus(data):returned", "?read:buf[:data]",
       "alloc:data", "read:buf"] ∧
    -- `minus` EXECUTED on 35 argument pairs: it refuses exactly when a - b < 0 or b < 0, and hands
    -- back a - b when it accepts (however the test is spelled)
    Gen.frames_raw_minus_table.length = 35 ∧
    Gen.frames_raw_minus_table.all (fun r =>
      r.2.2.1 == (decide (r.1 - r.2.1 < 0) || decide (r.2.1 < 0)) && (r.2.2.1 || r.2.2.2 == r.1 - r.2.1)) = true := by
  decide

/-- **What is NOT sized by an announced length, by name** (so that a new unbounded read cannot appear
    silently): `httproto.readLine` appends byte by byte until a newline, and since the head-limit
    repair that write is dominated, inside the loop, by a comparison with the read limit whose branch
    returns an error (the row carries `limit-compare`; the model is `HttpP.readLine`, the bound
    `C06_http_buffer_bound` below; before the repair the row was plain `loop:Write` and a line had no
    length limit: `C06_http_readline_old_unbounded_witness`); `httproto.unpack` accumulates the header
    lines — each of them already charged by `readLine` — when the debug option `printMessage` is on;
    the two websocket sub-protocols `ReadAll` one websocket frame (bounded by the websocket layer's
    `MaxPayloadBytes`, outside this repository's protocol code). -/
theorem C06_unbounded_growth_known :
    Gen.frames_missing = [] ∧
    Gen.frames_unbounded_growth = [
      ("http", "readLine", "loop:Write:limit-compare"),
      ("http", "unpack", "loop:append"),
      ("ws-json", "Unpack", "ReadAll"),
      ("ws-pb", "Unpack", "ReadAll")] := by
  decide

/-- **A Go panic while reading is the outcome `reject`, not a crash** (`Raw.Out.reject`; file header):
    `session.startReadAndHandle` registers, before its read loop, a deferred function that itself calls
    `recover()`; the loop that calls `socket.ReadMessage` comes after it. -/
theorem C06_read_loop_recovers :
    Gen.frames_missing = [] ∧
    Gen.frames_readloop_landmarks = ["defer:recover", "loop:ReadMessage"] := by
  decide

-- BEGIN http read
/-! ## httproto (`proto/httproto/httproto.go`, modelled in Model/HttpProto as repaired by the head-limit
fix: `readLine` and `unpack` charge first line + header lines + body against the read limit).
`HttpP.unpack` is a total function of (environment, read limit, input): the environment holds the
registered transfer filters, the gzip filter and `encoding/json` as arbitrary functions, so every
statement below holds whatever those libraries do. `Read.hi` is the largest number of bytes buffered
for the message at any moment (head bytes already charged + the line or body buffer being filled),
`Read.ask` the largest single read request, `Read.left` the input not consumed on return. -/

/-- **Buffer bound, all inputs.** For every byte string, read limit and environment, `Unpack` never
    holds more than `max limit 5` bytes of one message (5 = the fixed prefix read before any check):
    first line + header lines + the line being read + the body together stay within the read limit.
    No line-length assumption: an endless line or endless header lines are refused. -/
theorem C06_http_buffer_bound (env : HttpP.Env) (limit : Nat) (inp : Bytes) :
    (HttpP.unpack env limit inp).hi ≤ max limit 5 :=
  (HttpP.unpack_ok env limit inp).hi_le

/-- **Size check before allocation.** The largest read request (the 5-byte prefix, single bytes,
    the `ChangeLen(bodySize)` body buffer) never exceeds `max limit 5`: a `Content-Length` larger than
    what the head left of the limit is never turned into a buffer. -/
theorem C06_http_read_request_bound (env : HttpP.Env) (limit : Nat) (inp : Bytes) :
    (HttpP.unpack env limit inp).ask ≤ max limit 5 :=
  (HttpP.unpack_ok env limit inp).ask_le

/-- **Consumed ≤ input.** What is left unread on return is a suffix of the input: `Unpack` consumes a
    prefix, never more than it was given (and `consumed + left = input length`). -/
theorem C06_http_consumed_prefix (env : HttpP.Env) (limit : Nat) (inp : Bytes) :
    (∃ pre, inp = pre ++ (HttpP.unpack env limit inp).left) ∧
    (HttpP.unpack env limit inp).consumed inp + (HttpP.unpack env limit inp).left.length = inp.length := by
  obtain ⟨pre, hp⟩ := (HttpP.unpack_ok env limit inp).suffix
  refine ⟨⟨pre, hp⟩, ?_⟩
  have : (HttpP.unpack env limit inp).left.length ≤ inp.length := by
    conv => rhs; rw [hp]
    simp
  unfold HttpP.Read.consumed; omega

/-- **No wedge.** An `eof` outcome means every available byte was consumed — the reader waits only
    while the input is not exhausted — unless the transfer pipe itself reported an EOF error
    (compress/gzip on a truncated stream inside a complete message: `Unpack` hands that error on). -/
theorem C06_http_eof_exhausts (env : HttpP.Env) (limit : Nat) (inp : Bytes)
    (h : (HttpP.unpack env limit inp).out = .eof) :
    (HttpP.unpack env limit inp).left = [] ∨ ∃ p b, env.xeof p b = true :=
  (HttpP.unpack_ok env limit inp).eof_all h

/-- with a transfer pipe that never reports EOF errors, `eof` = input exhausted. -/
theorem C06_http_eof_exhausts_plain (env : HttpP.Env) (limit : Nat) (inp : Bytes)
    (hx : ∀ p b, env.xeof p b = false) (h : (HttpP.unpack env limit inp).out = .eof) :
    (HttpP.unpack env limit inp).left = [] := by
  rcases C06_http_eof_exhausts env limit inp h with h | ⟨p, b, hb⟩
  · exact h
  · rw [hx] at hb; cases hb

/-- **Every input is classified**: message, EOF, size error, or another error (a Go panic — the gzip
    filter's nil reader, the nil filter of an unknown name — is `reject`); the model has no fifth
    outcome and no fuel to run out of. -/
theorem C06_http_outcome_classified (env : HttpP.Env) (limit : Nat) (inp : Bytes) :
    (∃ m rest, (HttpP.unpack env limit inp).out = .ok m rest) ∨ (HttpP.unpack env limit inp).out = .eof
    ∨ (HttpP.unpack env limit inp).out = .size ∨ (∃ why, (HttpP.unpack env limit inp).out = .reject why) := by
  cases (HttpP.unpack env limit inp).out with
  | ok m rest => exact Or.inl ⟨m, rest, rfl⟩
  | eof => exact Or.inr (Or.inl rfl)
  | size => exact Or.inr (Or.inr (Or.inl rfl))
  | reject w => exact Or.inr (Or.inr (Or.inr ⟨w, rfl⟩))

/-- **Oversize Content-Length refused before allocation**: when the announced body does not fit into
    what the head left of the limit, the blank line is the last byte consumed, nothing is requested
    from the reader and nothing is buffered for the body. -/
theorem C06_http_oversize_body_refused (env : HttpP.Env) (limit : Nat) (kind : HttpP.Kind) (st : HttpP.HSt)
    (used hi : Nat) (r : Bytes) (h0 : 0 < st.bodySize) (h : st.bodySize + (used : Int) > (limit : Int)) :
    isSize (HttpP.finishBody env limit kind st used hi r).out = true ∧
    (HttpP.finishBody env limit kind st used hi r).left = r ∧
    (HttpP.finishBody env limit kind st used hi r).ask = 5 ∧
    (HttpP.finishBody env limit kind st used hi r).hi = hi := by
  unfold HttpP.finishBody
  have h1 : ¬ st.bodySize ≤ 0 := by omega
  simp only [h1, if_false, h, if_true]
  refine ⟨by first | rfl | trivial, by first | rfl | trivial, by first | rfl | trivial, by first | rfl | trivial⟩

/-- **A head that never ends is refused after `limit + 1` bytes**: on an input without any line feed
    the outcome is EOF (input shorter than the limit) or the size error, and at most `max limit 5 + 1`
    bytes are consumed — the byte that would take the message to the limit is read and refused. -/
theorem C06_http_endless_line_refused (env : HttpP.Env) (limit : Nat) (inp : Bytes) (h : ∀ c ∈ inp, c ≠ 10) :
    ((HttpP.unpack env limit inp).out = .eof ∨ (HttpP.unpack env limit inp).out = .size) ∧
    (HttpP.unpack env limit inp).consumed inp ≤ max limit 5 + 1 :=
  HttpP.unpack_nolf env limit inp h

/-- **Before the repair** `readLine` had no bound: for every `n`, a line of `n` bytes without a line
    feed was buffered entirely (`n` bytes, whatever the read limit), which is the defect
    `c06:http:head-exceeds-read-limit`; the repaired `readLine` refuses the same input after buffering
    at most `limit - used` bytes. -/
theorem C06_http_readline_old_unbounded_witness (n limit used : Nat) :
    HttpP.readLineOld (List.replicate n 97) [] = .eof n ∧
    (match HttpP.readLine limit used (List.replicate n 97) [] with
     | .line _ _ _ => False
     | .eof k => used + k ≤ max limit used
     | .over k _ => used + k ≤ max limit used) := by
  refine ⟨by simpa using HttpP.readLineOld_replicate n 97 (by decide) [], ?_⟩
  have hs := HttpP.readLine_spec limit used (List.replicate n 97) [] (by simp only [List.length_nil]; omega)
  have hn := HttpP.readLine_nolf limit used (List.replicate n 97) [] (by
    intro c hc; rw [List.mem_replicate] at hc; rw [hc.2]; decide)
  revert hs hn
  cases HttpP.readLine limit used (List.replicate n 97) [] with
  | line ln k rest => intro _ hn; exact hn
  | eof k => intro hs _; exact hs
  | over k rest => intro hs _; exact hs.1

/-! Non-vacuity (concrete evaluations, limit 24): `POST /a HTTP/1.1` + `Content-Length: 99` is
refused on the size check with the 3 body bytes unread; 30 bytes without a line feed are refused
after 25 of them; the old reader buffers all 30. -/
example : (HttpP.unpack HttpP.envNone 48
    ([80, 79, 83, 84, 32, 47, 97, 32, 72, 84, 84, 80, 47, 49, 46, 49, 13, 10] ++
     [67, 111, 110, 116, 101, 110, 116, 45, 76, 101, 110, 103, 116, 104, 58, 32, 57, 57, 13, 10, 13, 10, 1, 2, 3])).left = [1, 2, 3] := by
  decide
example : (HttpP.unpack HttpP.envNone 48
    ([80, 79, 83, 84, 32, 47, 97, 32, 72, 84, 84, 80, 47, 49, 46, 49, 13, 10] ++
     [67, 111, 110, 116, 101, 110, 116, 45, 76, 101, 110, 103, 116, 104, 58, 32, 57, 57, 13, 10, 13, 10, 1, 2, 3])).hi = 35 := by
  decide
example : (HttpP.unpack HttpP.envNone 24 (List.replicate 30 97)).consumed (List.replicate 30 97) = 25 := by decide
example : (HttpP.unpack HttpP.envNone 24 (List.replicate 30 97)).hi = 24 := by decide
example : HttpP.readLineOld (List.replicate 30 97) [] = .eof 30 := (C06_http_readline_old_unbounded_witness 30 24 5).1
example : (0 : Int) < 99 ∧ (99 : Int) + (34 : Nat) > (48 : Nat) := by decide
-- END http read

end C06
end Teleport
