/-
Props/C13 — a redial-enabled client session survives connection loss.

Model: Teleport/Model/Redial.lean (statuses, connection identity, budget, availability stream,
pending calls, reader and writer threads, the lock of redialForClient, notification, index, hook log).
The theorems quantify over all states / all reachable states / all availability streams; the
`_witness` theorems are concrete schedules of the same machine on which the property text fails
(confirmed on the real code by the harness, sigs `c13:stale-disconnect-cancels-new-calls`,
`c13:exhausted-writer-path-no-notify`). The stale final STORE of `readDisconnected` (sigs
`c13:stale-final-store-hangs-call`, `c13:stale-final-store-ends-reconnected-session`) was repaired
(fixes/C13FINAL): the last step of the disconnect path is the compare-and-swap
PassiveClosed ← {PassiveClosing, RedialFailed} (`Redial.finalFrom`), model pcs `dFinal`, steps
`TS.dFinalWon` / `TS.dFinalLost`; see `C13_stale_final_is_noop`, `C13_stale_final_schedule_completes`.
-/
import Teleport.Lemmas.Redial
import Teleport.Lemmas.RedialLock
import Teleport.Lemmas.RedialTie
import Teleport.Gen.Transitions
import Teleport.Lemmas.SrcPaths
import Teleport.Gen.Redial
import Teleport.Lemmas.RedialProgress
import Teleport.Lemmas.RedialStorm
import Teleport.Drv.C13G
namespace Teleport
namespace C13
open Teleport.Redial

/-- `redialCounter.Next`: 0 stops, a positive counter is decremented, a negative one (unlimited)
    is left alone and never stops. -/
theorem C13_counter_next (n : Int) :
    counterNext 0 = (false, 0) ∧ (0 < n → counterNext n = (true, n - 1)) ∧ (n < 0 → counterNext n = (true, n)) := by
  refine ⟨by simp [counterNext], fun h => ?_, counterNext_neg n⟩
  have h0 : n ≠ 0 := by omega
  simp [counterNext, h0, h]

/-- one round of `dialWithRetry` with budget ≥ 0 makes at most budget+1 dial attempts and returns,
    whatever the server's availability; and in every reachable state of the session machine every
    redial round that was ever run made at most budget+1 attempts. -/
theorem C13_bounded (b : Int) (hb : 0 ≤ b) :
    (∀ env : Env, (dialRound b env).tried.length ≤ b.toNat + 1 ∧ (dialRound b env).fin ≠ .hang) ∧
    (∀ eof t, Reachable b eof t → ∀ n ∈ t.rounds, n ≤ b.toNat + 1) := by
  refine ⟨fun env => ⟨dialRound_len b env hb, dialRound_no_hang b env hb⟩, fun eof t h => ?_⟩
  exact (reachable_cinv b eof t h).2.1 hb

example : (dialRound 3 ⟨[.down, .hookFail, .down, .down, .down], .down⟩).tried.length = 4 := by decide

/-- with an unlimited budget and a server that never comes back the round never returns: the
    property's "exhausted" case does not apply to budget < 0 (calls block in the retry loop). -/
theorem C13_unlimited_never_exhausts : (dialRound (-1) ⟨[.down, .down], .down⟩).fin = .hang := by decide

/-- the cancel loop of `readDisconnected` completes every call that is in flight (in the table,
    no reply bound) with the connection error 102 and leaves the status alone: it runs strictly
    before the reader's `redialForClient` (pc order dCancel → dClose → dRedial → xLock → xLocked,
    where the CAS to Redialing is). -/
theorem C13_inflight_cancelled (s t : State) (i : Nat) (role : Role) (st : Status)
    (h : s.threads[i]? = some ⟨role, .dCancel st⟩) (hs : threadStep s i = some t) :
    (∀ (j : Nat) (c : Call), s.calls[j]? = some c → c.hasReply = false → c.res = none →
        t.calls[j]? = some { c with res := some 102 }) ∧
    t.status = s.status ∧ t.threads[i]? = some ⟨role, .dClose st⟩ := by
  unfold threadStep at hs
  rw [h] at hs
  simp only at hs
  split at hs
  · simp at hs
  · simp only [Option.some.injEq] at hs
    subst hs
    have hi : i < s.threads.length := by
      rcases Nat.lt_or_ge i s.threads.length with hlt | hge
      · exact hlt
      · simp [List.getElem?_eq_none hge] at h
    refine ⟨fun j c hc hr hn => ?_, rfl, by simp [State.setPc, hi]⟩
    simp [State.setPc, List.getElem?_map, hc, cancelCall, hr, hn]

/-- the reader path after the cancel loop: socket close, then `redialForClient(oldConn)`. -/
theorem C13_reader_path_order (s : State) (i k : Nat) :
    (∀ st, st ≠ .activeClosing → s.threads[i]? = some ⟨.reader k, .dClose st⟩ →
        ∃ t, threadStep s i = some t ∧ t.threads[i]? = some ⟨.reader k, .dRedial⟩ ∧ t.status = s.status ∧ t.calls = s.calls) ∧
    (s.redial = true → s.threads[i]? = some ⟨.reader k, .dRedial⟩ →
        ∃ t, threadStep s i = some t ∧ t.threads[i]? = some ⟨.reader k, .xLock k⟩ ∧ t.status = s.status ∧ t.calls = s.calls) := by
  refine ⟨fun st hst h => ?_, fun hr h => ?_⟩
  · have hi : i < s.threads.length := by
      rcases Nat.lt_or_ge i s.threads.length with hlt | hge
      · exact hlt
      · simp [List.getElem?_eq_none hge] at h
    unfold threadStep
    rw [h]
    by_cases hc : s.sockClosed = true <;> simp [hst, hc, State.setPc, hi]
  · have hi : i < s.threads.length := by
      rcases Nat.lt_or_ge i s.threads.length with hlt | hge
      · exact hlt
      · simp [List.getElem?_eq_none hge] at h
    unfold threadStep
    rw [h]
    simp [hr, State.setPc, hi]

/-- writer path: a writer that sees status ≠ Ok goes to `redialForClient` at once — no cancel
    loop precedes it, calls issued on the lost connection may still be pending when the status
    becomes Redialing (they are completed by that connection's reader when it gets there). -/
theorem C13_writer_path_no_cancel_witness :
    ∃ t, run (State.init 3 false)
        [.call, .th 1, .th 1, .lose 0, .th 0, .th 0, .th 0, .push, .th 2, .th 2, .th 2] = some t ∧
      t.threads[2]? = some ⟨.pusher, .xLocked 0⟩ ∧ t.calls[0]? = some ⟨0, false, none⟩ := by decide

/-- the locked body of `redialForClient` when the server is reached within the budget: it
    returns true on the same session with status Ok, a newer connection, the id kept iff it was
    user-assigned (`oldIP == oldID` rule), the session in the index under its id, every dial hook
    of the round run with isRedial = true (at least one), a reader started on the new connection;
    notification state and pending calls untouched. -/
theorem C13_same_session_reconnects (s : State) (h1 : casFrom s.status = true)
    (h2 : (dialRound s.budget s.env).fin = .success) :
    ∃ t, redialLocked s s.conn = (t, some true) ∧ t.status = .ok ∧ s.conn < t.conn ∧
      t.id = (if s.id = .addr s.conn then .addr t.conn else s.id) ∧ t.id ∈ t.hub ∧
      (∃ n, t.dialLog = s.dialLog ++ List.replicate (n + 1) true) ∧
      t.threads = s.threads ++ [⟨.reader t.conn, .rRead⟩] ∧
      t.notified = s.notified ∧ t.calls = s.calls := by
  refine ⟨_, redialLocked_success_eq s h1 h2, ?_⟩
  obtain ⟨_, hlt, hid, hlog⟩ := roundFold_success s h2
  obtain ⟨f1, _, _, _, _, _, f7, _, f9, _, _, _⟩ := roundFold_frame s
  refine ⟨rfl, hlt, hid, mem_hubSet _ _, hlog, ?_, ?_, ?_⟩
  · simp [finishOk, f1, roundStart]
  · simpa [finishOk, roundStart] using f7
  · simpa [finishOk, roundStart] using f9

/-- "reachable within the budget": the server answers the (n+1)-th attempt with n ≤ budget
    (any n when the budget is unlimited) ⇒ the round succeeds. -/
theorem C13_reachable_within_budget (b : Int) (pre rest : List Avail) (st : Avail)
    (hpre : ∀ a ∈ pre, a ≠ .up) (hb : b < 0 ∨ (pre.length : Int) ≤ b) :
    (dialRound b ⟨pre ++ .up :: rest, st⟩).fin = .success := by
  have key : ∀ (p : List Avail) (c : Int), (∀ a ∈ p, a ≠ .up) → (c < 0 ∨ (p.length : Int) < c) →
      (loopQ st c (p ++ .up :: rest)).2.1 = .success := by
    intro p
    induction p with
    | nil =>
      intro c _ hc
      have hn : (counterNext c).1 = true := by
        rcases hc with hc | hc
        · simp [counterNext_neg c hc]
        · have h0 : c ≠ 0 := by simp at hc; omega
          have hp : c > 0 := by simp at hc; omega
          simp [counterNext, h0, hp]
      simp [loopQ, hn]
    | cons a p ih =>
      intro c hall hc
      have ha : a ≠ .up := hall a (by simp)
      have hn : (counterNext c).1 = true ∧ ((counterNext c).2 < 0 ∨ (p.length : Int) < (counterNext c).2) := by
        rcases hc with hc | hc
        · simp [counterNext_neg c hc, hc]
        · have h0 : c ≠ 0 := by simp at hc; omega
          have hp : c > 0 := by simp at hc; omega
          simp only [List.length_cons] at hc
          simp [counterNext, h0, hp]
          right; omega
      simp only [List.cons_append, loopQ, hn.1, if_true, ha, if_false]
      exact ih _ (fun x hx => hall x (by simp [hx])) hn.2
  cases pre with
  | nil => simp [dialRound, Env.pop]
  | cons a p =>
    have ha : a ≠ .up := hpre a (by simp)
    simp only [dialRound, Env.pop, List.cons_append, ha, if_false]
    apply key p b (fun x hx => hpre x (by simp [hx]))
    rcases hb with hb | hb
    · exact Or.inl hb
    · right; simp only [List.length_cons] at hb; omega

example : casFrom (State.init 3 false).status = true ∧
    (dialRound 3 ⟨[.down, .hookFail, .up], .down⟩).fin = .success := by decide

/-- reader- and writer-triggered redials for the same lost connection produce at most one
    successful redial: in every reachable state the connections that were successfully redialed
    away from are pairwise distinct (and older than the current one); the second caller of
    `redialForClient(k)` finds `oldConn != getConn()` under the lock and returns true without
    dialing or touching anything. -/
theorem C13_single_redial (b : Int) (eof : Bool) (t : State) (h : Reachable b eof t) :
    t.redials.Nodup ∧ (∀ k ∈ t.redials, k < t.conn) ∧
    (∀ old, old ≠ t.conn → redialLocked t old = (t, some true)) :=
  ⟨(reachable_cinv b eof t h).2.2.1, (reachable_cinv b eof t h).2.2.2, fun old ho => redialLocked_other t old ho⟩

/-- mutual exclusion of the body of `redialForClient` (`s.lock`): in every reachable state the
    number of threads inside the locked body is 1 when the lock is taken and 0 otherwise, and a
    thread that stands at `s.lock.Lock()` while the lock is taken cannot move — it has evaluated
    nothing of the body yet (the "connection already replaced" check and the status CAS come
    after the lock), so what it decides later is decided on the state the lock holder left. -/
theorem C13_lock_mutex (b : Int) (eof : Bool) (t : State) (h : Reachable b eof t) :
    holders t = (if t.lock then 1 else 0) ∧
    (∀ i role old, t.threads[i]? = some ⟨role, .xLock old⟩ → t.lock = true → threadStep t i = none) := by
  refine ⟨reachable_linv b eof t h, fun i role old hi hl => ?_⟩
  simp [threadStep, hi, hl]

/-- the lock queue — loss detected by the reader and by a writer at once, one of them (`i`) inside
    the locked body of `redialForClient`, the other (`j`) blocked on `s.lock` for the same lost
    connection: when the holder's round reaches the server (status Ok, newer connection, one round
    recorded, lock released) the queued thread's two steps (take the lock; run the body) change
    nothing but its own program counter: no second round, no dial hook, no status change, nothing
    closed, pending calls untouched; a queued reader is done, a queued writer retries its write on
    the new connection. One loss ⇒ one redial, whichever of the two came first. -/
theorem C13_lock_queue (s : State) (i j : Nat) (ri rj : Role) (hij : j ≠ i)
    (hi : s.threads[i]? = some ⟨ri, .xLocked s.conn⟩) (hj : s.threads[j]? = some ⟨rj, .xLock s.conn⟩)
    (h1 : casFrom s.status = true) (h2 : (dialRound s.budget s.env).fin = .success) :
    ∃ t m, threadStep s i = some t ∧ t.status = .ok ∧ s.conn < t.conn ∧ t.lock = false ∧
      t.rounds = s.rounds ++ [(dialRound s.budget s.env).tried.length] ∧
      t.redials = s.redials ++ [s.conn] ∧
      threadStep t j = some m ∧ threadStep m j = some (t.setPc j rj (afterTruePc rj)) := by
  obtain ⟨t, ht, hst, hlt, hl, hro, hre, hth⟩ := holder_success s i ri hi h1 h2
  obtain ⟨m, hm1, hm2⟩ := queued_noop t j s.conn rj (hth j _ hij hj) hl (by omega)
  exact ⟨t, m, ht, hst, hlt, hl, hro, hre, hm1, hm2⟩

/-- non-vacuity: the schedule the harness forces with `lockq:r` — the reader of the lost
    connection holds the lock (thread 0 at `xLocked 0`), a call saw status PassiveClosing and
    waits for the lock (thread 1 at `xLock 0`), the server is up. -/
example : ∃ s : State, run (State.init 3 false)
      [.lose 0, .th 0, .th 0, .th 0, .th 0, .th 0, .th 0, .th 0, .th 0, .call, .th 1, .th 1] = some s ∧
    s.threads[0]? = some ⟨.reader 0, .xLocked s.conn⟩ ∧ s.threads[1]? = some ⟨.caller 0, .xLock s.conn⟩ ∧
    s.lock = true ∧ threadStep s 1 = none ∧
    casFrom s.status = true ∧ (dialRound s.budget s.env).fin = .success := by decide

/-- the mirrored schedule (`lockq:w`): the call holds the lock, the reader waits for it. -/
example : ∃ s : State, run (State.init 3 false)
      [.lose 0, .th 0, .th 0, .th 0, .th 0, .th 0, .th 0, .call, .th 1, .th 1, .th 1, .th 0] = some s ∧
    s.threads[1]? = some ⟨.caller 0, .xLocked s.conn⟩ ∧ s.threads[0]? = some ⟨.reader 0, .xLock s.conn⟩ ∧
    s.lock = true ∧ threadStep s 0 = none ∧
    casFrom s.status = true ∧ (dialRound s.budget s.env).fin = .success := by decide

/-- budget exhausted, as coded: the round makes at most budget+1 attempts, `closeLocked` is a
    no-op (status Redialing), the status becomes RedialFailed, `redialForClient` returns false;
    index and notification state are not touched by the closure itself. -/
theorem C13_exhausted_round (s : State) (h1 : casFrom s.status = true)
    (h2 : (dialRound s.budget s.env).fin = .failed) :
    ∃ t, redialLocked s s.conn = (t, some false) ∧ t.status = .redialFailed ∧ t.hub = s.hub ∧
      t.threads = s.threads ∧ t.notified = s.notified ∧ t.discHook = s.discHook ∧ t.calls = s.calls ∧
      t.rounds = s.rounds ++ [(dialRound s.budget s.env).tried.length] ∧
      (0 ≤ s.budget → (dialRound s.budget s.env).tried.length ≤ s.budget.toNat + 1) := by
  have hne : (dialRound s.budget s.env).fin ≠ .success := by simp [h2]
  refine ⟨_, redialLocked_failed_eq s h1 h2, ?_⟩
  rw [closeLocked_noop s hne]
  have hst := roundFold_failed s hne
  obtain ⟨f1, f2, f3, _, _, _, f7, f8, f9, _, _, _⟩ := roundFold_frame s
  have hcr : casRedialFailed (roundFold s) = { roundFold s with status := .redialFailed } := by
    simp [casRedialFailed, hst]
  rw [hcr]
  refine ⟨by simp, ?_, ?_, ?_, ?_, ?_, ?_, fun hb => dialRound_len _ _ hb⟩
  · simpa [roundStart] using f2
  · simpa [roundStart] using f1
  · simpa [roundStart] using f7
  · simpa [roundStart] using f8
  · simpa [roundStart] using f9
  · simpa [roundStart] using f3

/-- full statement (not provable for the code as it is, see the witness): whenever the budget is
    exhausted the session ends with its close notification fired, out of the index, and pending
    and later calls fail with 102 after at most one further bounded round.
    Proved part: on the READER path (`readDisconnected` got `false` from `redialForClient`) the
    next step — the compare-and-swap PassiveClosed ← {PassiveClosing, RedialFailed}, taken in the
    status the refused redial leaves (RedialFailed after an exhausted round, `C13_exhausted_round`;
    PassiveClosing, this reader's own, without a redial function) — stores PassiveClosed, fires the
    notification and runs the disconnect hook; the
    index entry was deleted before (`dStored`) and is not re-added by a failed round
    (`C13_exhausted_round`); a later call on the ended session (status PassiveClosed or
    RedialFailed) runs exactly one more bounded round and, if that fails too, completes with 102.
    Missing: the writer path (no notification there). -/
theorem C13_exhausted_ends_partial (s : State) (i : Nat) :
    (∀ role, s.threads[i]? = some ⟨role, .dFinal⟩ → (s.status = .redialFailed ∨ s.status = .passiveClosing) →
      ∃ t, threadStep s i = some t ∧ t.status = .passiveClosed ∧ t.notified = true ∧
        t.discHook = s.discHook + 1 ∧ t.hub = s.hub) ∧
    (∀ role, (∀ k, role ≠ .reader k) → s.threads[i]? = some ⟨role, .xLocked s.conn⟩ →
      (s.status = .passiveClosed ∨ s.status = .redialFailed) →
      (dialRound s.budget s.env).fin = .failed →
      ∃ t, redialLocked s s.conn = (t, some false) ∧
        t.rounds = s.rounds ++ [(dialRound s.budget s.env).tried.length] ∧
        threadStep s i = some ((finishCall { t with lock := false } role 102).setPc i role (.wDone 102))) := by
  refine ⟨fun role h hst => ?_, fun role hr h hst hf => ?_⟩
  · have hw : finalFrom s.status = true := by rcases hst with h' | h' <;> simp [finalFrom, h']
    unfold threadStep
    rw [h]
    simp only [hw, if_true]
    exact ⟨_, rfl, rfl, rfl, rfl, rfl⟩
  · have hc : casFrom s.status = true := by rcases hst with h' | h' <;> simp [casFrom, h']
    obtain ⟨t, ht, _, _, _, _, _, _, hro, _⟩ := C13_exhausted_round s hc hf
    refine ⟨t, ht, hro, ?_⟩
    unfold threadStep
    rw [h]
    simp only [ht]
    cases role with
    | reader k => exact absurd rfl (hr k)
    | caller j => simp [afterRedial]
    | pusher => simp [afterRedial]

/-- non-vacuity: budget 1, server down: the reader of the lost connection 0 exhausts the budget and
    stands at the final compare-and-swap in status RedialFailed; and a session without redial function
    gets there in status PassiveClosing (its own). -/
example : (∃ s, run (State.init 1 false) [.setEnv ⟨[], .down⟩, .lose 0, .th 0, .th 0, .th 0, .th 0, .th 0, .th 0, .th 0, .th 0, .th 0] = some s ∧
      s.threads[0]? = some ⟨.reader 0, .dFinal⟩ ∧ s.status = .redialFailed) ∧
    (∃ s, run (State.init 0 false) [.lose 0, .th 0, .th 0, .th 0, .th 0, .th 0, .th 0, .th 0] = some s ∧
      s.threads[0]? = some ⟨.reader 0, .dFinal⟩ ∧ s.status = .passiveClosing) := by
  constructor <;> decide

/-- the writer path ends the session without notification (budget 1; the reader is about to
    call `redialForClient`, a call sees status PassiveClosing, takes the lock first and runs the
    round: two connections are established and lost during their dial hooks; the reader then finds
    `oldConn != getConn()` and returns as if someone had redialed): final status RedialFailed, no
    close notification, no disconnect hook, every thread finished. -/
theorem C13_exhausted_ends_witness :
    ∃ t, run (State.init 1 false)
        [.setEnv ⟨[.hookFail, .hookFail], .up⟩, .lose 0, .th 0, .th 0, .th 0, .th 0, .th 0, .th 0,
         .call, .th 1, .th 1, .th 1, .th 1, .th 0, .th 0, .th 0] = some t ∧
      t.status = .redialFailed ∧ t.notified = false ∧ t.discHook = 0 ∧ t.rounds = [2] ∧
      t.calls = [⟨0, false, some 102⟩] ∧ firstEnabled t [] 0 t.threads.length = none := by decide

/-- full statement (not provable for the code as it is, see the witness): once the session has
    reconnected and the server stays reachable, later calls succeed.
    Proved part: a call whose status check saw Ok writes its frame on the connection the socket
    holds when that connection is alive — no redial, no failure — and the reply, when the reader
    of that connection handles it, completes the call with OK. Missing: absence of a stale reader
    of an older connection (it cancels the call and closes the new connection). -/
theorem C13_later_calls_succeed_partial (s : State) (i j used : Nat) (c : Call)
    (h : s.threads[i]? = some ⟨.caller j, .wWrite used .ok⟩) (hc : s.calls[j]? = some c)
    (hl : s.conn ∉ s.dead) :
    threadStep s i = some ({ s with calls := s.calls.set j { c with conn := s.conn } }.setPc i (.caller j) .wAwait) := by
  unfold threadStep
  rw [h]
  simp [hl, hc]

example : ∃ s : State, run (State.init 3 false) [.call, .th 1] = some s ∧
    s.threads[1]? = some ⟨.caller 0, .wWrite 0 .ok⟩ ∧ s.conn ∉ s.dead := by decide

/-- item 17: the old reader is parked before its cancel loop; a call detects the loss by its
    status check, redials (connection 1) and succeeds; a second call is issued on connection 1,
    which is never lost, the server stays up; the old reader resumes, its cancel loop completes
    the new call with 102 and its `socket.Close()` closes connection 1. -/
theorem C13_later_calls_succeed_witness :
    ∃ t, run (State.init 3 false)
        [.lose 0, .th 0, .th 0, .th 0, .th 0,
         .call, .th 1, .th 1, .th 1, .th 1, .th 1, .th 1, .reply 0,
         .call, .th 3, .th 3,
         .th 0, .th 0, .th 0, .th 0, .th 0] = some t ∧
      t.calls[0]? = some ⟨1, true, some 0⟩ ∧ t.calls[1]? = some ⟨1, false, some 102⟩ ∧
      t.env = ⟨[], .up⟩ ∧ 1 ∈ t.dead ∧ t.redials = [0] := by decide

/-! ## Tie A: `Model/Redial` against the regenerated facts of the redial code

`Gen/Transitions.lean` and `Gen/Redial.lean` are regenerated from the Go sources on every run. Each
theorem below starts with the `…_missing = []` conjuncts and compares an extracted flow / behaviour
table with what RUNNING the model gives (vocabulary: `Lemmas/RedialTie.lean`, `Lemmas/SrcFlow.lean`). -/
section TieA
open SrcFlow RedialTie

/-- the statuses from which `redialForClient` starts a redial according to the model, in iota order. -/
def entryFrom : List Status := allStatus.filter casFrom

/-- the status constants sorted by name: the order in which a `cas:` trace entry lists its from-statuses. -/
def statusByName : List Status :=
  [.activeClosed, .activeClosing, .ok, .passiveClosed, .passiveClosing, .preparing, .redialFailed, .redialing]

def entryCas (won : Bool) : String :=
  "cas:" ++ casName .redialing (statusByName.filter casFrom) ++ (if won then ":won" else ":lost")

/-- one row of the behaviour table of `redialForClient`, from the model: a session without redial
    function never reaches the lock; otherwise lock, connection check, and what `redialLocked` does
    (`entryModel`); the closure starts in the status `roundStart` leaves. -/
def entryRow (enabled : Bool) (st : Status) (same verdict : Bool) : String × List Bool × List String × Bool :=
  if !enabled then (goName st, [enabled, same, verdict], [], false)
  else if entryModel st same == "true" then (goName st, [enabled, same, verdict], ["lock", "getConn", "unlock"], true)
  else if entryModel st same == "closure" then
    (goName st, [enabled, same, verdict],
      ["lock", "getConn", entryCas true, "closure@" ++ goName (roundStart (entryProbe st same)).status, "unlock"], verdict)
  else if entryModel st same == "false" then (goName st, [enabled, same, verdict], ["lock", "getConn", entryCas false, "unlock"], false)
  else (goName st, [enabled, same, verdict], ["?"], false)

def pcOf (s : State) (i : Nat) : Option Pc := (s.threads[i]?).map Thread.pc

/-- a session WITHOUT redial function whose pusher's write hit the closed socket. -/
def noRedialProbe : State := { writeProbe .ok false true false with budget := 0 }

/-- the regenerated control-flow paths of `session.redialForClient`, as tags (`return` with its operand). -/
def entryPaths : List (List String) := Gen.tpaths_session_redialForClient.map SrcPaths.rtags

/-- a pusher that found connection 0 dead (EOF) and stands before the lock of `redialForClient`. -/
def lockProbe : Option State := run (State.init 1 true) [.lose 0, .push, .th 1, .th 1]

/-- **`redialForClient` is the model's `xLock` / `xLocked` (tie A).** `srcfacts` EXECUTES
    `session.redialForClient` (small interpreter, fail closed) for a session without redial function
    and, with one, for every status × (the caller's connection is still the session's / was already
    replaced): the regenerated table of (trace, result) is what the model gives, row by row — no lock
    and `false` without redial function (the model's writer and reader do not enter `xLock` then);
    otherwise `s.lock` first, THEN the connection check; `true` with nothing touched when the
    connection was already replaced (the early return before the compare-and-swap: the single-redial
    argument of `C13_single_redial`); the compare-and-swap to Redialing, won exactly from the
    statuses of `Redial.casFrom`; the closure called only after a won compare-and-swap, in status
    Redialing, its verdict returned; `false` after a lost one; the unlock last on every path
    (`C13_lock_mutex`). The regenerated control-flow paths of the function are exactly four: `return
    false` before anything else; lock, `return true`, unlock; lock, compare-and-swap won, the closure,
    its verdict returned, unlock; lock, compare-and-swap lost, `return false`, unlock — the unlock
    last on every path that locked, as the model's thread is blocked while `lock` is set, sets it,
    runs the whole body in one step and clears it. The
    closure is called nowhere else and only with the lock held. -/
theorem C13_redial_entry_tie :
    Gen.transitions_missing = [] ∧
    Gen.tpaths_session_redialForClient_missing = [] ∧
    SrcFlow.sameSet entryPaths
      [["return:false"],
       ["lock:lock.Lock", "return:true", "lock:lock.Unlock"],
       ["lock:lock.Lock", "cas:" ++ casName .redialing entryFrom ++ "=ok", "call:redialForClientLocked",
        "return:redialForClientLocked()", "lock:lock.Unlock"],
       ["lock:lock.Lock", "cas:" ++ casName .redialing entryFrom ++ "=fail", "return:false", "lock:lock.Unlock"]] = true ∧
    (lockProbe.bind fun s => threadStep { s with lock := true } 1) = none ∧
    ((lockProbe.bind fun s => threadStep s 1).map fun t => (t.lock, pcOf t 1)) = some (true, some (.xLocked 0)) ∧
    ((lockProbe.bind fun s => (threadStep s 1).bind fun t => threadStep t 1).map fun t => (t.lock, t.redials)) = some (false, [0]) ∧
    Gen.redial_missing = [] ∧
    Gen.redial_entry_table = [entryRow false .ok true true] ++
      (allStatus.flatMap fun st => [true, false].map fun same => entryRow true st same true) ++ [entryRow true .ok true false] ∧
    pcAfter noRedialProbe 1 = some (.wDone 102) ∧
    (allStatus.map fun st => entryModel st true) = allStatus.map (fun st => if casFrom st then "closure" else "false") ∧
    (allStatus.all fun st => entryModel st false == "true") = true ∧
    (Gen.lock_held_calls.filter fun r => r.1 == "redialForClientLocked") =
      [("redialForClientLocked", "session.redialForClient", "lock-held")] := by
  repeat' apply And.intro
  all_goals decide

/-- non-vacuity: the model's from-list, spelled out. -/
example : entryFrom = [.ok, .passiveClosing, .passiveClosed, .redialFailed] := by decide

/-- **The model's redial step is a sequence of primitive effects** — for every state whose status the
    compare-and-swap accepts, `redialLocked` equals: per dial attempt the effects `attemptOps`
    (nothing when the dial fails; reset, id, Preparing, dial hook when it succeeds; then close and
    Redialing when the hook fails), then `successOps` (close the old connection, Ok, reader, index) or
    `failedOps` (`closeLocked`, compare-and-swap to RedialFailed), in THIS order. `C13_redial_effect_order`
    compares exactly these sequences with the statements of the function literal in peer.go. -/
theorem C13_redial_effects_are_model (s : State) (h1 : casFrom s.status = true) :
    redialLocked s s.conn =
      match (dialRound s.budget s.env).fin with
      | .success => ({ runOps (ctxOf s) (roundOps s) successOps with redials := (roundOps s).redials ++ [s.conn] }, some true)
      | .failed => (runOps (ctxOf s) (roundOps s) failedOps, some false)
      | .hang => (roundOps s, none) :=
  redialLocked_as_ops s h1

example : casFrom (State.init 2 false).status = true ∧
    (dialRound 2 ⟨[.hookFail, .up], .down⟩).tried = [.hookFail, .up] ∧ (dialRound 2 ⟨[.hookFail, .up], .down⟩).fin = .success := by decide

/-- the regenerated flow of the function literal that `peer.Dial` stores in `redialForClientLocked`. -/
def closureFlow : List SrcFlow.Ev := Gen.redial_flow_closure
/-- its inner literal: the callback handed to `dialWithRetry`. -/
def cbFlow : List SrcFlow.Ev := closureFlow.filter fun e => e.guards.contains "fn:dialWithRetry"
def cbFail : String := "!postDial().OK()"
def dialFail : String := "% != nil"
def idSame : String := "was(sess.LocalAddr().String()) == was(sess.ID())"

/-- a session that lost connection 0; the first new connection dies in the dial hook, the second holds. -/
def effProbe : State := { State.init 2 false with env := ⟨[.hookFail, .up], .down⟩, dead := [0] }
/-- the same with a server that stays down: the budget is used up. -/
def effProbeDown : State := { State.init 1 false with env := ⟨[], .down⟩, dead := [0] }

/-- **The redial closure performs the model's effects in the model's order (tie A).** The regenerated
    flow of the literal (walked with `socket.Reset`, `socket.SetID`, `getConn` as named calls):
    the callback's statements are `attemptOps .hookFail` — Reset, SetID, store Preparing, `postDial`,
    then under the failing hook `conn.Close()`, store Redialing — and the ones NOT under the failing
    hook are `attemptOps .up`; the id rule is the model's (`SetID` of the NEW local address when the
    old id was the old address, else the id captured before the dial); the callback fails iff the
    hook fails. Around it: the old connection is captured before `dialWithRetry`; under a failed
    round `closeLocked`, compare-and-swap RedialFailed←Redialing, `return false` = `failedOps`;
    otherwise close the captured connection, store Ok, spawn the reader, `sessHub.set`,
    `return true` = `successOps`. Two concrete runs of `redialLocked` (hook failure then success;
    budget used up) are these sequences executed. Reordering two statements, dropping one, storing
    another status or moving one across the failure test changes the regenerated flow and this
    theorem no longer checks. -/
theorem C13_redial_effect_order :
    Gen.redial_missing = [] ∧
    dedup (keys cbFlow) = (attemptOps .hookFail).map opKey ∧
    keys (cbFlow.filter fun e => e.guards.contains cbFail) = ((attemptOps .hookFail).drop (attemptOps .up).length).map opKey ∧
    dedup (keys (cbFlow.filter fun e => !e.guards.contains cbFail)) = (attemptOps .up).map opKey ∧
    attemptOps .down = [] ∧
    SrcFlow.sameSet ((cbFlow.filter fun e => e.is "call" "socket.SetID").map fun e => (e.x, e.guards.drop 2))
      [("sess.LocalAddr().String()", [idSame]), ("was(sess.ID())", ["!(" ++ idSame ++ ")"])] = true ∧
    (runOps ⟨true, .addr 0, 0⟩ (State.init 1 false) (attemptOps .up)).id = .addr 1 ∧
    (runOps ⟨false, .user, 0⟩ (State.init 1 false) (attemptOps .up)).id = .user ∧
    ((cbFlow.filter fun e => e.kind == "return").map fun e => (e.x, e.guards.contains cbFail)) =
      [("postDial().Cause()", true), ("nil", false)] ∧
    ((cbFlow.filter fun e => e.is "stage" "postDial").map fun e => e.use) = ["fail-return"] ∧
    keys (mainFlow closureFlow) = ["load:getConn", "call:dialWithRetry"] ++ failedOps.map opKey ++ successOps.map opKey ∧
    keys ((mainFlow closureFlow).filter fun e => e.guards == [dialFail]) = failedOps.map opKey ∧
    (((mainFlow closureFlow).filter fun e => e.kind == "return").map fun e => (e.x, e.guards)) = [("false", [dialFail]), ("true", [])] ∧
    ((after (fun e => e.kind == "return") (mainFlow closureFlow)).map fun l => l.map fun e => (e.key, e.guards)) =
      some ((successOps.map fun o => (opKey o, if o = .oldClose then ["was(sess.getConn()) != nil"] else [])) ++ [("return:", [])]) ∧
    ((mainFlow closureFlow).filter fun e => e.is "call" "%.Close").map (fun e => e.x) = ["was(sess.getConn())"] ∧
    redialLocked effProbe 0 =
      ({ runOps (ctxOf effProbe) (runOps (ctxOf effProbe) (roundStart effProbe) (attemptOps .hookFail ++ attemptOps .up)) successOps with redials := [0] }, some true) ∧
    redialLocked effProbeDown 0 =
      (runOps (ctxOf effProbeDown) (roundStart effProbeDown) (attemptOps .down ++ attemptOps .down ++ failedOps), some false) := by
  decide

/-- non-vacuity: the three sequences, as source statements. -/
example : (attemptOps .hookFail).map opKey = ["call:socket.Reset", "call:socket.SetID", "store:statusPreparing", "stage:postDial",
    "call:%.Close", "store:statusRedialing"] ∧
    successOps.map opKey = ["call:%.Close", "store:statusOk", "spawn:startReadAndHandle", "call:sessHub.set"] ∧
    failedOps.map opKey = ["call:closeLocked", "cas:statusRedialFailed<-statusRedialing"] := by decide

def availCode : Avail → Nat
  | .up => 0 | .down => 1 | .hookFail => 2
def endCode : RoundEnd → Nat
  | .success => 0 | .failed => 1 | .hang => 2
def allAvail : List Avail := [.up, .down, .hookFail]
/-- every availability queue of length ≤ 2, shortest first. -/
def tieQueues : List (List Avail) :=
  [[]] ++ allAvail.map (fun a => [a]) ++ allAvail.flatMap fun a => allAvail.map fun b => [a, b]
def tieBudgets : List Int := [0, 1, 2, -1]
/-- one row of the behaviour table of `dialWithRetry`, computed by the model's `dialRound`. -/
def roundRow (b : Int) (q : List Avail) (st : Avail) : Int × List Nat × Nat × List Nat × Nat × Nat :=
  ((b, q.map availCode, availCode st, (dialRound b ⟨q, st⟩).tried.map availCode,
    endCode (dialRound b ⟨q, st⟩).fin, (dialRound b ⟨q, st⟩).rest.q.length))

/-- **`redialCounter.Next` and `dialWithRetry` behave like `counterNext` and `dialRound` (tie A).**
    `srcfacts` EXECUTES the two Go functions (small interpreter, fail closed): `Next` for the counters
    −2…3, and `dialWithRetry` — with `dialOne` and the callback scripted — for every budget in
    {0, 1, 2, unlimited}, every availability queue of length ≤ 2 over {up, dial refused, hook
    fails} and every availability afterwards. Row by row the regenerated tables are what the
    model computes: the same attempts in the same order (first attempt outside the budget, then one
    per `Next`), the callback run exactly for the attempts whose dial succeeded, the same ending
    (newest connection / error / never returns), the same rest of the queue. On the executed code
    itself: with a budget b ≥ 0 never more than b+1 attempts and never a hang (`C13_bounded`), the
    bound is reached, and the unlimited budget with a dead server does not return
    (`C13_unlimited_never_exhausts`). An off-by-one in `Next`, a lost first attempt, a counter that is
    not fresh per round, a retry after success or a callback on a failed dial changes a row. -/
theorem C13_retry_budget_tie :
    Gen.redial_missing = [] ∧
    Gen.redial_next_table = ([-2, -1, 0, 1, 2, 3] : List Int).map (fun t => (t, (counterNext t).1, (counterNext t).2)) ∧
    Gen.redial_round_table = (tieBudgets.flatMap fun b => tieQueues.flatMap fun q => allAvail.map fun st => roundRow b q st) ∧
    (Gen.redial_round_table.all fun r => decide (r.1 < 0) || (decide (r.2.2.2.1.length ≤ r.1.toNat + 1) && r.2.2.2.2.1 != 2)) = true ∧
    (Gen.redial_round_table.any fun r => r.1 == 2 && r.2.2.2.1.length == 3 && r.2.2.2.2.1 == 1) = true ∧
    (Gen.redial_round_table.any fun r => r.1 == -1 && r.2.2.2.2.1 == 2) = true ∧
    Gen.redial_round_table.length = 156 := by
  decide +kernel

/-- a scripted situation of one writer: the session it starts in and the environment events that
    happen just before each of its reads of (connection, status). -/
structure RetryCase where
  name : String
  start : State
  pre : List (List Redial.Ev)

/-- the reader already handled the loss of connection 0 (socket closed, PassiveClosed, redial pending). -/
def lostClosed : State := { State.init 3 false with status := .passiveClosed, dead := [0], sockClosed := true }

def retryCases : List RetryCase := [
  ⟨"sent", State.init 3 false, [[]]⟩,
  ⟨"write-failed", State.init 3 false, [[.lose 0]]⟩,
  ⟨"closed-redial-refused", State.init 3 true, [[.lose 0, .setEnv ⟨[], .down⟩]]⟩,
  ⟨"closed-redial-ok", State.init 3 true, [[.lose 0], []]⟩,
  ⟨"closed-twice", State.init 3 true, [[.lose 0], [.lose 1], []]⟩,
  ⟨"closed-then-failed", lostClosed, [[], [.lose 1]]⟩]

/-- the model's writer (entered by `.call` / `.push`) run alone through the situation. -/
def retryTrace (enter : Redial.Ev) (post : String) (c : RetryCase) : List String :=
  match step c.start enter with
  | some s => wtrace 1 post 40 s c.pre 0 0
  | none => ["?"]

def isRedial (e : String) : Bool := e == "redial:1" || e == "redial:2" || e == "redial:?" || e == "redial:0"
/-- every redial attempt directly follows a write. -/
def redialsFollowWrites : List String → Bool
  | a :: b :: r => (!isRedial b || a == "write") && redialsFollowWrites (b :: r)
  | _ => true

/-- **The write-retry of `AsyncCall` / `Push` is the model's writer (tie A).** (1) Error classes:
    the statements of `session.write` after the socket write, executed by `srcfacts` for each class
    of write error, return what the model's `wWrite` step assumes — nothing wrong: sent;
    `io.EOF` (the model's `werrEOF`) and `socket.ErrProactivelyCloseSocket` (its `sockClosed`): the
    connection-closed status, the only one that leads to a redial; any other error: write-failed
    (code 104), no redial — and `write`'s refusal table (Gen/Transitions) for CALL and PUSH messages
    is connection-closed exactly in the statuses where the model's writer goes to the redial. (2)
    The retry: `AsyncCall` and `Push` executed from the statement that calls `s.write` to the end,
    on six scripted situations, give the traces of the model's writer thread in the corresponding
    situations: a redial attempt only after a write that returned connection-closed, exactly one
    per such write, handed the connection that very write used, a new write after a successful
    redial, `cmd.done()` / return without the post-write stage on every failure. -/
theorem C13_write_retry_tie :
    Gen.transitions_missing = [] ∧ Gen.redial_missing = [] ∧
    Gen.redial_write_err_table =
      [("nil", writeModel .ok true false false), ("io.EOF", writeModel .ok false false true),
       ("socket.ErrProactivelyCloseSocket", writeModel .ok false true false), ("other", writeModel .ok false false false)] ∧
    Gen.redial_write_err_table.map (·.2) = ["nil", "statConnClosed", "statConnClosed", "statWriteFailed.Copy()"] ∧
    ((Gen.write_table.filter fun r => r.2.1 == "TypeCall" || r.2.1 == "TypePush").map fun r => (r.1, r.2.2)) =
      (allStatus.flatMap fun st => [(goName st, writeModel st true false false == "statConnClosed"),
                                   (goName st, writeModel st true false false == "statConnClosed")]) ∧
    (allStatus.all fun st => st == .ok || writeModel st true false false == "statConnClosed") = true ∧
    Gen.redial_retry_table =
      ([("AsyncCall", Redial.Ev.call, "stage:postWriteCall"), ("Push", Redial.Ev.push, "stage:postWritePush")].flatMap fun f =>
        retryCases.map fun c => (f.1, c.name, retryTrace f.2.1 f.2.2 c)) ∧
    (Gen.redial_retry_table.all fun r => redialsFollowWrites r.2.2 && !(r.2.2.head?.any isRedial)) = true ∧
    (Gen.redial_retry_table.any fun r => r.2.2.contains "redial:2") = true := by
  decide

/-- non-vacuity: two of the model's writer traces, spelled out. -/
example : retryTrace .call "stage:postWriteCall" ⟨"closed-twice", State.init 3 true, [[.lose 0], [.lose 1], []]⟩ =
    ["write", "redial:1", "write", "redial:2", "write", "stage:postWriteCall", "return"] ∧
    retryTrace .push "stage:postWritePush" ⟨"write-failed", State.init 3 false, [[.lose 0]]⟩ = ["write", "return"] := by decide

end TieA

-- BEGIN liveness
/-! ## liveness inside the model ("no hang")

Internal events are the steps of the session's own goroutines (`Ev.th i`); the environment chooses
everything else: an operation is issued (`call`, `push`), a connection is cut (`lose`), the server's
reply is delivered (`reply`), the outcomes of the coming dial attempts (`setEnv`: the availability
stream a redial round consumes), `setUser`. Invariant chain: Lemmas/RedialStep, RedialInv,
RedialLive, RedialMeasure, RedialProgress.

Three kinds of steps of a STALE reader — the reader goroutine of a connection older than the one
the socket holds now, the actor of the recorded findings `c13:stale-disconnect-cancels-new-calls`
and `c13:writer-first-leaves-passive-closing` — are what the full statements fail on:
`staleCas` (it wins the status CAS of `readDisconnected` on the redialed session), `staleClose`
(its `s.socket.Close()` closes the live new connection), `staleFinal` (told `false` by
`redialForClient`, it WINS the final compare-and-swap PassiveClosed ← {PassiveClosing, RedialFailed}
although the connection has changed since). The `_partial` theorems
exclude exactly these steps, the `_witness` theorems show each exclusion is needed.
Since the repair of the stale final store (fixes/C13FINAL) the third exclusion is much narrower than
it was: a stale reader's final step that LOSES the compare-and-swap — in particular every one taken
while the session a Call / Push re-established is Ok — is an ordinary covered step that changes
nothing (`C13_stale_final_is_noop`); the schedule of the repaired finding now ends with the call
completed (`C13_stale_final_schedule_completes`). What is still excluded is a stale reader that
wins: the re-established session was lost AGAIN and a second round was refused on the writer path
before the first reader took its final step (`C13_no_stuck_aba_witness`).
`c13:exhausted-writer-path-no-notify` does not touch liveness (its schedule is covered). -/

/-- (1) classification: an event is internal iff it is a step of one of the session's threads. -/
theorem C13_internal_iff (e : Ev) : e.internal = true ↔ ∃ i, e = .th i := by
  cases e <;> simp [Ev.internal]

/-- (2) full statement (fails, see `C13_measure_witness`): every internal step strictly decreases
    `measure`. Proved: in every reachable state, every internal step that is neither a stale CAS
    nor a stale close strictly decreases the natural number `Redial.measure` — the potential
    (status ≠ Ok, current connection dead, connections lost before they are established, per
    reader/writer the rounds and status changes it can still cause; the remaining retry budget of
    a round does not enter because a round is one step whose length `C13_bounded` bounds) and per
    thread its program counter's distance to blocking, scaled by the potential. -/
theorem C13_measure_partial (b : Int) (eof : Bool) (s t : State) (i : Nat) (r : Reachable b eof s)
    (h : step s (.th i) = some t) (hc : staleCas s i = false) (hk : staleClose s i = false) :
    Redial.measure t < Redial.measure s :=
  measure_step (ainv_reach r) h hc hk

/-- non-vacuity: the step in which the reader of the lost connection 0 wins the status CAS
    (connection 0 is still the current one) is covered; the measure falls from 397 to 313. -/
example : ∃ s, run (State.init 3 false) [.lose 0, .th 0, .th 0] = some s ∧
    staleCas s 0 = false ∧ staleClose s 0 = false ∧
    ∃ t, step s (.th 0) = some t ∧ t.status = .passiveClosing ∧ Redial.measure t < Redial.measure s := by decide

/-- the two exclusions of `C13_measure_partial` are needed: after a Push has redialed to
    connection 1 (`evs`), the step of the old reader — its `socket.Close()` (first schedule: the
    reader had won the CAS before the redial) resp. its status CAS (second schedule) — is enabled,
    stale, and RAISES the measure: it creates the trouble that lets the writer redial once more,
    and that round starts a reader which the next stale step turns against connection 2, and so on
    (the redial storm of `C13_measure_storm_witness`). -/
theorem C13_measure_witness :
    (∃ s, run (State.init 3 true) [.lose 0, .th 0, .th 0, .th 0, .th 0, .th 0, .push, .th 1, .th 1, .th 1, .th 1] = some s ∧
      staleClose s 0 = true ∧ s.conn = 1 ∧ 1 ∉ s.dead ∧
      ∃ t, step s (.th 0) = some t ∧ 1 ∈ t.dead ∧ Redial.measure s < Redial.measure t) ∧
    (∃ s, run (State.init 3 true) [.lose 0, .th 0, .th 0, .push, .th 1, .th 1, .th 1, .th 1] = some s ∧
      staleCas s 0 = true ∧ s.status = .ok ∧
      ∃ t, step s (.th 0) = some t ∧ t.status = .passiveClosing ∧ Redial.measure s < Redial.measure t) := by
  constructor <;> decide

/-- the redial storm: a Push is issued and connection 0 is lost (budget 3, write reports EOF,
    server up). From there internal steps alone go on for ever — 13 per turn: the Push checks,
    fails, locks and redials (4); the reader that is one connection behind notices its loss, wins
    the status CAS on the redialed session, deletes the index entry, runs the cancel loop, closes the
    NEW connection, calls `redialForClient`, locks and returns (9) — so NO natural-number function
    of the state decreases with every internal step. Every turn contains a `staleCas` and a
    `staleClose` step, the two exclusions of `C13_measure_partial`. -/
theorem C13_measure_storm_witness :
    (∀ n, ∃ (s : State) (is : List Nat), run (State.init 3 true) [.push, .lose 0] = some s ∧ is.length = 13 * n ∧
      ∃ t, run s (is.map Ev.th) = some t) ∧
    ¬ ∃ μ : State → Nat, ∀ s t i, Reachable 3 true s → step s (.th i) = some t → μ t < μ s := by
  refine ⟨fun n => ?_, no_measure⟩
  obtain ⟨s0, hr, hs⟩ := storm_init
  obtain ⟨is, hl, t, ht⟩ := storm_unbounded n s0 0 hs
  exact ⟨s0, is, hr, hl, t, ht⟩

/-- (3a) NO DEADLOCK, full strength: for every interleaving of any number of Call / Push
    goroutines, the readers, every loss pattern and availability stream: in every reachable state in
    which no internal step is enabled and no thread sits in a retry loop that never ends (automatic
    for a budget ≥ 0, see `C13_bounded_never_parks`), `s.lock` is free and no thread is parked inside
    `readDisconnected` / `redialForClient` or waiting for the lock: every reader is blocked in
    `ReadMessage` on a connection that has not been lost or has returned, every Call / Push has
    left the write path. -/
theorem C13_no_deadlock (b : Int) (eof : Bool) (s : State) (r : Reachable b eof s)
    (hq : ∀ i, step s (.th i) = none) (hns : ∀ th ∈ s.threads, th.pc ≠ .stuck) :
    s.lock = false ∧ ∀ th ∈ s.threads, atRest s th :=
  quiescent_rest (ainv_reach r) (reachable_linv b eof s r) hq hns

/-- a bounded budget never parks a thread inside the retry loop: the hypothesis `hns` of the
    liveness theorems holds in every reachable state when the budget is ≥ 0. (With an unlimited
    budget and a server that never comes back the loop does not end, `C13_unlimited_never_exhausts`.) -/
theorem C13_bounded_never_parks (b : Int) (hb : 0 ≤ b) (eof : Bool) (s : State) (r : Reachable b eof s) :
    ∀ th ∈ s.threads, th.pc ≠ .stuck :=
  ns_reach hb r

/-- (3b) full statement (fails, see `C13_no_stuck_aba_witness`): … and every issued operation has
    returned — a Push with OK or a connection status (102 / 104), a Call with its reply (0) or a
    connection status — or still waits for its reply on a connection that has not been lost.
    Proved for every state reached by a schedule in which no stale reader WINS the final
    compare-and-swap (`ReachableNF`; a stale reader may take its final step and lose it — that is
    the repaired case, no longer excluded). -/
theorem C13_no_stuck_partial (b : Int) (eof : Bool) (s : State) (r : ReachableNF b eof s)
    (hq : ∀ i, step s (.th i) = none) (hns : ∀ th ∈ s.threads, th.pc ≠ .stuck) :
    s.lock = false ∧ (∀ th ∈ s.threads, atRest s th) ∧ ∀ th ∈ s.threads, opReturned s th := by
  obtain ⟨a, bi⟩ := binv_reachNF r
  have l := reachable_linv b eof s (reachableNF_reachable r)
  obtain ⟨h1, h2⟩ := quiescent_rest a l hq hns
  exact ⟨h1, h2, quiescent_returned a bi l hq hns⟩

/-- **the repaired final step.** A reader at the last step of `readDisconnected` (`redialForClient`
    said false) whose compare-and-swap PassiveClosed ← {PassiveClosing, RedialFailed} is lost — the
    status is anything else; in particular Ok: a Call / Push re-established the session since the
    redial was refused — changes NOTHING but its own program counter: status, notification,
    disconnect-hook count, index, connection, pending calls, lock and every other thread are as
    before. (Before the repair the step stored PassiveClosed over Ok, notified and ran the hook.) -/
theorem C13_stale_final_is_noop (s : State) (i : Nat) (role : Role)
    (h : s.threads[i]? = some ⟨role, .dFinal⟩)
    (hst : s.status ≠ .passiveClosing ∧ s.status ≠ .redialFailed) :
    threadStep s i = some (s.setPc i role .exit) ∧
    (∀ t, threadStep s i = some t → t.status = s.status ∧ t.notified = s.notified ∧ t.discHook = s.discHook ∧
      t.hub = s.hub ∧ t.conn = s.conn ∧ t.calls = s.calls ∧ t.dead = s.dead ∧ t.lock = s.lock ∧
      ∀ j, j ≠ i → t.threads[j]? = s.threads[j]?) := by
  have hw : finalFrom s.status = false := by
    cases hs : s.status <;> simp [finalFrom, hs] at hst ⊢
  have e : threadStep s i = some (s.setPc i role .exit) := by
    unfold threadStep
    rw [h]
    simp [hw]
  refine ⟨e, fun t ht => ?_⟩
  rw [e] at ht
  injection ht with ht
  subst ht
  refine ⟨rfl, rfl, rfl, rfl, rfl, rfl, rfl, rfl, fun j hj => ?_⟩
  simp [State.setPc, List.getElem?_set_ne (Ne.symm hj)]

/-- non-vacuity: the state of the repaired finding right before the stale reader's final step —
    reader 0 at `dFinal`, the session Ok again on connection 1 with a call written on it. -/
example : ∃ s, run (State.init 1 false)
      [.setEnv ⟨[.down, .down], .up⟩, .lose 0, .th 0, .th 0, .th 0, .th 0, .th 0, .th 0, .th 0, .th 0, .th 0,
       .call, .th 1, .th 1, .th 1, .th 1, .th 1, .th 1] = some s ∧
    s.threads[0]? = some ⟨.reader 0, .dFinal⟩ ∧ s.status = .ok ∧ s.conn = 1 ∧
    s.calls = [⟨1, false, none⟩] := by decide

/-- the schedule of the repaired finding `c13:stale-final-store-hangs-call` (it was
    `C13_no_stuck_witness`; harness: `c13stale b=1 werr=pipe steps=sfin:b:dd:u`; budget 1): the reader
    of connection 0 exhausts the budget and stands before its final step; a Call sees RedialFailed,
    redials successfully (connection 1) and is written; the old reader's final compare-and-swap is
    LOST (status Ok): no notification, no hook, the session stays Ok; connection 1 is lost; its
    reader runs the whole disconnect path: the call completes with the connection error 102, the
    session is redialed once more (connection 2, Ok, listed); nothing is enabled, nothing hangs. -/
theorem C13_stale_final_schedule_completes :
    ∃ m, run (State.init 1 false)
        [.setEnv ⟨[.down, .down], .up⟩, .lose 0, .th 0, .th 0, .th 0, .th 0, .th 0, .th 0, .th 0, .th 0, .th 0,
         .call, .th 1, .th 1, .th 1, .th 1, .th 1, .th 1, .th 0] = some m ∧
      m.status = .ok ∧ m.notified = false ∧ m.discHook = 0 ∧ m.threads[0]? = some ⟨.reader 0, .exit⟩ ∧
      ∃ t, run m [.lose 1, .th 2, .th 2, .th 2, .th 2, .th 2, .th 2, .th 2, .th 2, .th 2] = some t ∧
      firstEnabled t [] 0 t.threads.length = none ∧ t.lock = false ∧
      t.threads[1]? = some ⟨.caller 0, .wAwait⟩ ∧ t.calls[0]? = some ⟨1, false, some 102⟩ ∧
      t.status = .ok ∧ t.conn = 2 ∧ t.hub = [.addr 2] ∧ t.notified = false := by decide

/-- the exclusion that remains is needed (model-level; write errors reported as io.EOF, budget 1):
    as above the reader of connection 0 stands before its final step and a Call re-establishes the
    session (connection 1, written, pending). Connection 1 is lost; BEFORE its reader notices, a Push
    that had checked the status fails with EOF, runs its own redial round, the server is down: the
    status is RedialFailed again. Now the old reader's final compare-and-swap WINS (a stale win,
    `staleFinal`): PassiveClosed, notification, hook. The reader of connection 1 then loads
    PassiveClosed and returns without the cancel loop: nothing is enabled and the call hangs. The
    compare-and-swap cannot tell the second RedialFailed from the one its own round left. -/
theorem C13_no_stuck_aba_witness :
    ∃ m, run (State.init 1 true)
        [.setEnv ⟨[.down, .down], .up⟩, .lose 0, .th 0, .th 0, .th 0, .th 0, .th 0, .th 0, .th 0, .th 0, .th 0,
         .call, .th 1, .th 1, .th 1, .th 1, .th 1, .th 1,
         .push, .th 3, .lose 1, .setEnv ⟨[], .down⟩, .th 3, .th 3, .th 3] = some m ∧
      m.status = .redialFailed ∧ staleFinal m 0 = true ∧
      ∃ t, run m [.th 0, .th 2, .th 2, .th 2] = some t ∧
      firstEnabled t [] 0 t.threads.length = none ∧ t.lock = false ∧
      t.threads[1]? = some ⟨.caller 0, .wAwait⟩ ∧ t.calls[0]? = some ⟨1, false, none⟩ ∧ 1 ∈ t.dead ∧
      t.status = .passiveClosed := by decide

/-- (4) full statement (fails by the witnesses above): every run of internal steps from a
    reachable state is at most `measure s` long and ends in a state as in (3b).
    Proved: from a state reached without a stale won final compare-and-swap, every run `is` of internal
    steps (thread indices) none of which is a stale CAS / stale close / stale WON final
    compare-and-swap (`runIC`; lost ones are allowed) has at most
    `measure s` steps, each redial round in it makes at most budget+1 dial attempts (budget ≥ 0);
    and when it reaches a state `t` in which NO internal step at all is enabled
    (and no thread is inside an endless retry loop), the lock is free, nobody is parked and every
    operation has returned. -/
theorem C13_completion_follows_partial (b : Int) (eof : Bool) (s t : State) (is : List Nat)
    (r : ReachableNF b eof s) (hrun : runIC s is = some t) :
    is.length ≤ Redial.measure s ∧ run s (is.map Ev.th) = some t ∧
    (0 ≤ b → ∀ n ∈ t.rounds, n ≤ b.toNat + 1) ∧
    ((∀ i, step t (.th i) = none) → (∀ th ∈ t.threads, th.pc ≠ .stuck) →
      t.lock = false ∧ (∀ th ∈ t.threads, atRest t th) ∧ ∀ th ∈ t.threads, opReturned t th) := by
  have hb := runIC_bound is s t (binv_reachNF r).1 hrun
  have rt := runIC_reachNF r hrun
  exact ⟨by omega, runIC_run is s t hrun,
    fun h0 => (reachable_cinv b eof t (reachableNF_reachable rt)).2.1 h0,
    fun hq hns => C13_no_stuck_partial b eof t rt hq hns⟩

/-- non-vacuity of (3b), a loss, a redial and returned calls: a call is in flight on connection 0
    when it is lost; the reader cancels it (102) and redials (connection 1); a second call is issued,
    written and answered. The end state is reachable without a stale won final compare-and-swap,
    nothing is enabled, no thread is stuck: both calls have returned. -/
example : ∃ s, ReachableNF 3 false s ∧ (∀ i, step s (.th i) = none) ∧ (∀ th ∈ s.threads, th.pc ≠ .stuck) ∧
    s.redials = [0] ∧ s.status = .ok ∧ s.calls = [⟨0, false, some 102⟩, ⟨1, true, some 0⟩] := by
  have h : runNF (State.init 3 false)
      [.call, .th 1, .th 1, .lose 0, .th 0, .th 0, .th 0, .th 0, .th 0, .th 0, .th 0, .th 0, .th 0,
       .call, .th 3, .th 3, .reply 1] = some ((runNF (State.init 3 false)
      [.call, .th 1, .th 1, .lose 0, .th 0, .th 0, .th 0, .th 0, .th 0, .th 0, .th 0, .th 0, .th 0,
       .call, .th 3, .th 3, .reply 1]).getD (State.init 3 false)) := by decide
  refine ⟨_, ⟨_, h⟩, quiescent_of_firstEnabled (by decide), by decide, by decide, by decide, by decide⟩

/-- non-vacuity of (3b), an exhausted budget (budget 1, server down for good): the call in flight is
    cancelled with 102, the reader's round makes 2 attempts and fails, the session ends (PassiveClosed,
    notified); a later Push runs one more bounded round (2 attempts) and fails with 102. -/
example : ∃ s, ReachableNF 1 false s ∧ (∀ i, step s (.th i) = none) ∧ (∀ th ∈ s.threads, th.pc ≠ .stuck) ∧
    s.rounds = [2, 2] ∧ s.notified = true ∧ s.calls = [⟨0, false, some 102⟩] ∧
    s.threads[2]? = some ⟨.pusher, .wDone 102⟩ := by
  have h : runNF (State.init 1 false)
      [.setEnv ⟨[], .down⟩, .call, .th 1, .th 1, .lose 0, .th 0, .th 0, .th 0, .th 0, .th 0, .th 0, .th 0, .th 0,
       .th 0, .th 0, .push, .th 2, .th 2, .th 2, .th 2] = some ((runNF (State.init 1 false)
      [.setEnv ⟨[], .down⟩, .call, .th 1, .th 1, .lose 0, .th 0, .th 0, .th 0, .th 0, .th 0, .th 0, .th 0, .th 0,
       .th 0, .th 0, .push, .th 2, .th 2, .th 2, .th 2]).getD (State.init 1 false)) := by decide
  refine ⟨_, ⟨_, h⟩, quiescent_of_firstEnabled (by decide), by decide, by decide, by decide, by decide, by decide⟩

/-- non-vacuity of (3b), the repaired case: the whole schedule of `C13_stale_final_schedule_completes`
    — with the STALE reader's final step in it, which loses the compare-and-swap — is a schedule of
    `ReachableNF`: its end state is covered by `C13_no_stuck_partial`, and the call has returned (102). -/
example : ∃ s, ReachableNF 1 false s ∧ (∀ i, step s (.th i) = none) ∧ (∀ th ∈ s.threads, th.pc ≠ .stuck) ∧
    s.status = .ok ∧ s.calls = [⟨1, false, some 102⟩] ∧ s.threads[0]? = some ⟨.reader 0, .exit⟩ := by
  have h : runNF (State.init 1 false)
      [.setEnv ⟨[.down, .down], .up⟩, .lose 0, .th 0, .th 0, .th 0, .th 0, .th 0, .th 0, .th 0, .th 0, .th 0,
       .call, .th 1, .th 1, .th 1, .th 1, .th 1, .th 1, .th 0,
       .lose 1, .th 2, .th 2, .th 2, .th 2, .th 2, .th 2, .th 2, .th 2, .th 2] = some ((runNF (State.init 1 false)
      [.setEnv ⟨[.down, .down], .up⟩, .lose 0, .th 0, .th 0, .th 0, .th 0, .th 0, .th 0, .th 0, .th 0, .th 0,
       .call, .th 1, .th 1, .th 1, .th 1, .th 1, .th 1, .th 0,
       .lose 1, .th 2, .th 2, .th 2, .th 2, .th 2, .th 2, .th 2, .th 2, .th 2]).getD (State.init 1 false)) := by decide
  refine ⟨_, ⟨_, h⟩, quiescent_of_firstEnabled (by decide), by decide, by decide, by decide, by decide⟩

/-- non-vacuity of (4): from the state right after the loss (a call in flight) the nine steps of
    the reader — error, load, CAS, index delete, cancel loop, close, `redialForClient`, lock, round —
    are a run of non-stale internal steps that ends with nothing enabled. -/
example : ∃ s t, ReachableNF 3 false s ∧ runIC s [0, 0, 0, 0, 0, 0, 0, 0, 0] = some t ∧
    (∀ i, step t (.th i) = none) ∧ t.calls = [⟨0, false, some 102⟩] ∧ t.conn = 1 := by
  have h : runNF (State.init 3 false) [.call, .th 1, .th 1, .lose 0] = some ((runNF (State.init 3 false)
      [.call, .th 1, .th 1, .lose 0]).getD (State.init 3 false)) := by decide
  have h2 : runIC ((runNF (State.init 3 false) [.call, .th 1, .th 1, .lose 0]).getD (State.init 3 false))
      [0, 0, 0, 0, 0, 0, 0, 0, 0] = some ((runIC ((runNF (State.init 3 false)
      [.call, .th 1, .th 1, .lose 0]).getD (State.init 3 false)) [0, 0, 0, 0, 0, 0, 0, 0, 0]).getD (State.init 3 false)) := by
    decide
  exact ⟨_, _, ⟨_, h⟩, h2, quiescent_of_firstEnabled (by decide), by decide, by decide⟩
/-! ## the forced stale-reader schedules (`c13stale`, Drv/C13G, harness c13g.go) -/

/-- the schedules that the correspondence harness forces on the real code for
    `C13_stale_final_schedule_completes` (step `sfin`, gate `final.store`) and `C13_measure_storm_witness` (step `storm`) respect one wait
    of the real code that `Model/Redial` leaves out — `readDisconnected` stands in `graceCtxWait`,
    between the index delete and the cancel loop, while a Push is in flight on the session
    (`D13G.stepG`: a reader at `dCancel` does not move while a pusher is inside `Push`). Every step so
    scheduled is a step of the model: what the harness forces and the driver predicts is a run of the
    machine that all theorems of this file quantify over. -/
theorem C13_ctxwait_schedule_is_model_run (s t : State) (i : Nat)
    (h : Drv.D13G.stepG s i = some t) : step s (.th i) = some t := by
  unfold Drv.D13G.stepG at h
  simp only [step]
  split at h
  · split at h
    · simp at h
    · exact h
  · exact h

/-- non-vacuity: the reader of the lost connection 0 takes its first step under `stepG`. -/
example : (Drv.D13G.stepG { State.init 3 false with dead := [0] } 0).isSome = true := by decide

/-- … and the converse fails: the model lets the reader of the lost connection run its cancel loop
    (and then `socket.Close()`, `redialForClient`) while a Push stands at its status check; the real
    code holds that reader in `graceCtxWait` until the Push has returned (observed: `c13stale …
    steps=storm:2:u` shows ONE redial round on the real code). The storm of
    `C13_measure_storm_witness` uses exactly such steps (a Push that never leaves `Push`), so it is a
    run of the model that the real code cannot take with a single Push: the model over-approximates
    here (sound for every invariant above; the "no measure" statement is about the model). -/
theorem C13_ctxwait_not_in_model_witness :
    ∃ s, run (State.init 3 true) [.push, .th 1, .lose 0, .th 0, .th 0, .th 0, .th 0] = some s ∧
      s.threads[0]? = some ⟨.reader 0, .dCancel .ok⟩ ∧ s.threads[1]? = some ⟨.pusher, .wWrite 0 .ok⟩ ∧
      Drv.D13G.stepG s 0 = none ∧ (threadStep s 0).isSome = true := by decide
-- END liveness

end C13
end Teleport
