/-
Props/C13 — a redial-enabled client session survives connection loss.

Model: Teleport/Model/Redial.lean (statuses, connection identity, budget, availability stream,
pending calls, reader and writer threads, the lock of redialForClient, notification, index, hook log).
The theorems quantify over all states / all reachable states / all availability streams; the
`_witness` theorems are concrete schedules of the same machine on which the property text fails
(confirmed on the real code by the harness, sigs `c13:stale-disconnect-cancels-new-calls`,
`c13:exhausted-writer-path-no-notify`).
-/
import Teleport.Lemmas.Redial
import Teleport.Lemmas.RedialLock
namespace Teleport
namespace C13
open Teleport.Redial

/-- `redialCounter.Next`: 0 stops, a positive counter is decremented, a negative one (unlimited)
    is left alone and never stops. -/
theorem C13_counter_next (n : Int) :
    counterNext 0 = (false, 0) ∧ (0 < n → counterNext n = (true, n - 1)) ∧ (n < 0 → counterNext n = (true, n)) := by
  refine ⟨by simp [counterNext], fun h => ?_, counterNext_neg n⟩
  have h0 : n ≠ 0 := by omega
  simp [counterNext, h0, h]

/-- one round of `dialWithRetry` with budget ≥ 0 makes at most budget+1 dial attempts and returns,
    whatever the server's availability; and in every reachable state of the session machine every
    redial round that was ever run made at most budget+1 attempts. -/
theorem C13_bounded (b : Int) (hb : 0 ≤ b) :
    (∀ env : Env, (dialRound b env).tried.length ≤ b.toNat + 1 ∧ (dialRound b env).fin ≠ .hang) ∧
    (∀ eof t, Reachable b eof t → ∀ n ∈ t.rounds, n ≤ b.toNat + 1) := by
  refine ⟨fun env => ⟨dialRound_len b env hb, dialRound_no_hang b env hb⟩, fun eof t h => ?_⟩
  exact (reachable_cinv b eof t h).2.1 hb

example : (dialRound 3 ⟨[.down, .hookFail, .down, .down, .down], .down⟩).tried.length = 4 := by decide

/-- with an unlimited budget and a server that never comes back the round never returns: the
    property's "exhausted" case does not apply to budget < 0 (calls block in the retry loop). -/
theorem C13_unlimited_never_exhausts : (dialRound (-1) ⟨[.down, .down], .down⟩).fin = .hang := by decide

/-- the cancel loop of `readDisconnected` completes every call that is in flight (in the table,
    no reply bound) with the connection error 102 and leaves the status alone: it runs strictly
    before the reader's `redialForClient` (pc order dCancel → dClose → dRedial → xLock → xLocked,
    where the CAS to Redialing is). -/
theorem C13_inflight_cancelled (s t : State) (i : Nat) (role : Role) (st : Status)
    (h : s.threads[i]? = some ⟨role, .dCancel st⟩) (hs : threadStep s i = some t) :
    (∀ (j : Nat) (c : Call), s.calls[j]? = some c → c.hasReply = false → c.res = none →
        t.calls[j]? = some { c with res := some 102 }) ∧
    t.status = s.status ∧ t.threads[i]? = some ⟨role, .dClose st⟩ := by
  unfold threadStep at hs
  rw [h] at hs
  simp only at hs
  split at hs
  · simp at hs
  · simp only [Option.some.injEq] at hs
    subst hs
    have hi : i < s.threads.length := by
      rcases Nat.lt_or_ge i s.threads.length with hlt | hge
      · exact hlt
      · simp [List.getElem?_eq_none hge] at h
    refine ⟨fun j c hc hr hn => ?_, rfl, by simp [State.setPc, hi]⟩
    simp [State.setPc, List.getElem?_map, hc, cancelCall, hr, hn]

/-- the reader path after the cancel loop: socket close, then `redialForClient(oldConn)`. -/
theorem C13_reader_path_order (s : State) (i k : Nat) :
    (∀ st, st ≠ .activeClosing → s.threads[i]? = some ⟨.reader k, .dClose st⟩ →
        ∃ t, threadStep s i = some t ∧ t.threads[i]? = some ⟨.reader k, .dRedial⟩ ∧ t.status = s.status ∧ t.calls = s.calls) ∧
    (s.redial = true → s.threads[i]? = some ⟨.reader k, .dRedial⟩ →
        ∃ t, threadStep s i = some t ∧ t.threads[i]? = some ⟨.reader k, .xLock k⟩ ∧ t.status = s.status ∧ t.calls = s.calls) := by
  refine ⟨fun st hst h => ?_, fun hr h => ?_⟩
  · have hi : i < s.threads.length := by
      rcases Nat.lt_or_ge i s.threads.length with hlt | hge
      · exact hlt
      · simp [List.getElem?_eq_none hge] at h
    unfold threadStep
    rw [h]
    by_cases hc : s.sockClosed = true <;> simp [hst, hc, State.setPc, hi]
  · have hi : i < s.threads.length := by
      rcases Nat.lt_or_ge i s.threads.length with hlt | hge
      · exact hlt
      · simp [List.getElem?_eq_none hge] at h
    unfold threadStep
    rw [h]
    simp [hr, State.setPc, hi]

/-- writer path: a writer that sees status ≠ Ok goes to `redialForClient` at once — no cancel
    loop precedes it, calls issued on the lost connection may still be pending when the status
    becomes Redialing (they are completed by that connection's reader when it gets there). -/
theorem C13_writer_path_no_cancel_witness :
    ∃ t, run (State.init 3 false)
        [.call, .th 1, .th 1, .lose 0, .th 0, .th 0, .th 0, .push, .th 2, .th 2, .th 2] = some t ∧
      t.threads[2]? = some ⟨.pusher, .xLocked 0⟩ ∧ t.calls[0]? = some ⟨0, false, none⟩ := by decide

/-- the locked body of `redialForClient` when the server is reached within the budget: it
    returns true on the same session with status Ok, a newer connection, the id kept iff it was
    user-assigned (`oldIP == oldID` rule), the session in the index under its id, every dial hook
    of the round run with isRedial = true (at least one), a reader started on the new connection;
    notification state and pending calls untouched. -/
theorem C13_same_session_reconnects (s : State) (h1 : casFrom s.status = true)
    (h2 : (dialRound s.budget s.env).fin = .success) :
    ∃ t, redialLocked s s.conn = (t, some true) ∧ t.status = .ok ∧ s.conn < t.conn ∧
      t.id = (if s.id = .addr s.conn then .addr t.conn else s.id) ∧ t.id ∈ t.hub ∧
      (∃ n, t.dialLog = s.dialLog ++ List.replicate (n + 1) true) ∧
      t.threads = s.threads ++ [⟨.reader t.conn, .rRead⟩] ∧
      t.notified = s.notified ∧ t.calls = s.calls := by
  refine ⟨_, redialLocked_success_eq s h1 h2, ?_⟩
  obtain ⟨_, hlt, hid, hlog⟩ := roundFold_success s h2
  obtain ⟨f1, _, _, _, _, _, f7, _, f9, _, _, _⟩ := roundFold_frame s
  refine ⟨rfl, hlt, hid, mem_hubSet _ _, hlog, ?_, ?_, ?_⟩
  · simp [finishOk, f1, roundStart]
  · simpa [finishOk, roundStart] using f7
  · simpa [finishOk, roundStart] using f9

/-- "reachable within the budget": the server answers the (n+1)-th attempt with n ≤ budget
    (any n when the budget is unlimited) ⇒ the round succeeds. -/
theorem C13_reachable_within_budget (b : Int) (pre rest : List Avail) (st : Avail)
    (hpre : ∀ a ∈ pre, a ≠ .up) (hb : b < 0 ∨ (pre.length : Int) ≤ b) :
    (dialRound b ⟨pre ++ .up :: rest, st⟩).fin = .success := by
  have key : ∀ (p : List Avail) (c : Int), (∀ a ∈ p, a ≠ .up) → (c < 0 ∨ (p.length : Int) < c) →
      (loopQ st c (p ++ .up :: rest)).2.1 = .success := by
    intro p
    induction p with
    | nil =>
      intro c _ hc
      have hn : (counterNext c).1 = true := by
        rcases hc with hc | hc
        · simp [counterNext_neg c hc]
        · have h0 : c ≠ 0 := by simp at hc; omega
          have hp : c > 0 := by simp at hc; omega
          simp [counterNext, h0, hp]
      simp [loopQ, hn]
    | cons a p ih =>
      intro c hall hc
      have ha : a ≠ .up := hall a (by simp)
      have hn : (counterNext c).1 = true ∧ ((counterNext c).2 < 0 ∨ (p.length : Int) < (counterNext c).2) := by
        rcases hc with hc | hc
        · simp [counterNext_neg c hc, hc]
        · have h0 : c ≠ 0 := by simp at hc; omega
          have hp : c > 0 := by simp at hc; omega
          simp only [List.length_cons] at hc
          simp [counterNext, h0, hp]
          right; omega
      simp only [List.cons_append, loopQ, hn.1, if_true, ha, if_false]
      exact ih _ (fun x hx => hall x (by simp [hx])) hn.2
  cases pre with
  | nil => simp [dialRound, Env.pop]
  | cons a p =>
    have ha : a ≠ .up := hpre a (by simp)
    simp only [dialRound, Env.pop, List.cons_append, ha, if_false]
    apply key p b (fun x hx => hpre x (by simp [hx]))
    rcases hb with hb | hb
    · exact Or.inl hb
    · right; simp only [List.length_cons] at hb; omega

example : casFrom (State.init 3 false).status = true ∧
    (dialRound 3 ⟨[.down, .hookFail, .up], .down⟩).fin = .success := by decide

/-- reader- and writer-triggered redials for the same lost connection produce at most one
    successful redial: in every reachable state the connections that were successfully redialed
    away from are pairwise distinct (and older than the current one); the second caller of
    `redialForClient(k)` finds `oldConn != getConn()` under the lock and returns true without
    dialing or touching anything. -/
theorem C13_single_redial (b : Int) (eof : Bool) (t : State) (h : Reachable b eof t) :
    t.redials.Nodup ∧ (∀ k ∈ t.redials, k < t.conn) ∧
    (∀ old, old ≠ t.conn → redialLocked t old = (t, some true)) :=
  ⟨(reachable_cinv b eof t h).2.2.1, (reachable_cinv b eof t h).2.2.2, fun old ho => redialLocked_other t old ho⟩

/-- mutual exclusion of the body of `redialForClient` (`s.lock`): in every reachable state the
    number of threads inside the locked body is 1 when the lock is taken and 0 otherwise, and a
    thread that stands at `s.lock.Lock()` while the lock is taken cannot move — it has evaluated
    nothing of the body yet (the "connection already replaced" check and the status CAS come
    after the lock), so what it decides later is decided on the state the lock holder left. -/
theorem C13_lock_mutex (b : Int) (eof : Bool) (t : State) (h : Reachable b eof t) :
    holders t = (if t.lock then 1 else 0) ∧
    (∀ i role old, t.threads[i]? = some ⟨role, .xLock old⟩ → t.lock = true → threadStep t i = none) := by
  refine ⟨reachable_linv b eof t h, fun i role old hi hl => ?_⟩
  simp [threadStep, hi, hl]

/-- the lock queue — loss detected by the reader and by a writer at once, one of them (`i`) inside
    the locked body of `redialForClient`, the other (`j`) blocked on `s.lock` for the same lost
    connection: when the holder's round reaches the server (status Ok, newer connection, one round
    recorded, lock released) the queued thread's two steps (take the lock; run the body) change
    nothing but its own program counter: no second round, no dial hook, no status change, nothing
    closed, pending calls untouched; a queued reader is done, a queued writer retries its write on
    the new connection. One loss ⇒ one redial, whichever of the two came first. -/
theorem C13_lock_queue (s : State) (i j : Nat) (ri rj : Role) (hij : j ≠ i)
    (hi : s.threads[i]? = some ⟨ri, .xLocked s.conn⟩) (hj : s.threads[j]? = some ⟨rj, .xLock s.conn⟩)
    (h1 : casFrom s.status = true) (h2 : (dialRound s.budget s.env).fin = .success) :
    ∃ t m, threadStep s i = some t ∧ t.status = .ok ∧ s.conn < t.conn ∧ t.lock = false ∧
      t.rounds = s.rounds ++ [(dialRound s.budget s.env).tried.length] ∧
      t.redials = s.redials ++ [s.conn] ∧
      threadStep t j = some m ∧ threadStep m j = some (t.setPc j rj (afterTruePc rj)) := by
  obtain ⟨t, ht, hst, hlt, hl, hro, hre, hth⟩ := holder_success s i ri hi h1 h2
  obtain ⟨m, hm1, hm2⟩ := queued_noop t j s.conn rj (hth j _ hij hj) hl (by omega)
  exact ⟨t, m, ht, hst, hlt, hl, hro, hre, hm1, hm2⟩

/-- non-vacuity: the schedule the harness forces with `lockq:r` — the reader of the lost
    connection holds the lock (thread 0 at `xLocked 0`), a call saw status PassiveClosing and
    waits for the lock (thread 1 at `xLock 0`), the server is up. -/
example : ∃ s : State, run (State.init 3 false)
      [.lose 0, .th 0, .th 0, .th 0, .th 0, .th 0, .th 0, .th 0, .th 0, .call, .th 1, .th 1] = some s ∧
    s.threads[0]? = some ⟨.reader 0, .xLocked s.conn⟩ ∧ s.threads[1]? = some ⟨.caller 0, .xLock s.conn⟩ ∧
    s.lock = true ∧ threadStep s 1 = none ∧
    casFrom s.status = true ∧ (dialRound s.budget s.env).fin = .success := by decide

/-- the mirrored schedule (`lockq:w`): the call holds the lock, the reader waits for it. -/
example : ∃ s : State, run (State.init 3 false)
      [.lose 0, .th 0, .th 0, .th 0, .th 0, .th 0, .th 0, .call, .th 1, .th 1, .th 1, .th 0] = some s ∧
    s.threads[1]? = some ⟨.caller 0, .xLocked s.conn⟩ ∧ s.threads[0]? = some ⟨.reader 0, .xLock s.conn⟩ ∧
    s.lock = true ∧ threadStep s 0 = none ∧
    casFrom s.status = true ∧ (dialRound s.budget s.env).fin = .success := by decide

/-- budget exhausted, as coded: the round makes at most budget+1 attempts, `closeLocked` is a
    no-op (status Redialing), the status becomes RedialFailed, `redialForClient` returns false;
    index and notification state are not touched by the closure itself. -/
theorem C13_exhausted_round (s : State) (h1 : casFrom s.status = true)
    (h2 : (dialRound s.budget s.env).fin = .failed) :
    ∃ t, redialLocked s s.conn = (t, some false) ∧ t.status = .redialFailed ∧ t.hub = s.hub ∧
      t.threads = s.threads ∧ t.notified = s.notified ∧ t.discHook = s.discHook ∧ t.calls = s.calls ∧
      t.rounds = s.rounds ++ [(dialRound s.budget s.env).tried.length] ∧
      (0 ≤ s.budget → (dialRound s.budget s.env).tried.length ≤ s.budget.toNat + 1) := by
  have hne : (dialRound s.budget s.env).fin ≠ .success := by simp [h2]
  refine ⟨_, redialLocked_failed_eq s h1 h2, ?_⟩
  rw [closeLocked_noop s hne]
  have hst := roundFold_failed s hne
  obtain ⟨f1, f2, f3, _, _, _, f7, f8, f9, _, _, _⟩ := roundFold_frame s
  have hcr : casRedialFailed (roundFold s) = { roundFold s with status := .redialFailed } := by
    simp [casRedialFailed, hst]
  rw [hcr]
  refine ⟨by simp, ?_, ?_, ?_, ?_, ?_, ?_, fun hb => dialRound_len _ _ hb⟩
  · simpa [roundStart] using f2
  · simpa [roundStart] using f1
  · simpa [roundStart] using f7
  · simpa [roundStart] using f8
  · simpa [roundStart] using f9
  · simpa [roundStart] using f3

/-- full statement (not provable for the code as it is, see the witness): whenever the budget is
    exhausted the session ends with its close notification fired, out of the index, and pending
    and later calls fail with 102 after at most one further bounded round.
    Proved part: on the READER path (`readDisconnected` got `false` from `redialForClient`) the
    next step stores PassiveClosed, fires the notification and runs the disconnect hook; the
    index entry was deleted before (`dStored`) and is not re-added by a failed round
    (`C13_exhausted_round`); a later call on the ended session (status PassiveClosed or
    RedialFailed) runs exactly one more bounded round and, if that fails too, completes with 102.
    Missing: the writer path (no notification there). -/
theorem C13_exhausted_ends_partial (s : State) (i : Nat) :
    (∀ role, s.threads[i]? = some ⟨role, .dFinal⟩ →
      ∃ t, threadStep s i = some t ∧ t.status = .passiveClosed ∧ t.notified = true ∧
        t.discHook = s.discHook + 1 ∧ t.hub = s.hub) ∧
    (∀ role, (∀ k, role ≠ .reader k) → s.threads[i]? = some ⟨role, .xLocked s.conn⟩ →
      (s.status = .passiveClosed ∨ s.status = .redialFailed) →
      (dialRound s.budget s.env).fin = .failed →
      ∃ t, redialLocked s s.conn = (t, some false) ∧
        t.rounds = s.rounds ++ [(dialRound s.budget s.env).tried.length] ∧
        threadStep s i = some ((finishCall { t with lock := false } role 102).setPc i role (.wDone 102))) := by
  refine ⟨fun role h => ?_, fun role hr h hst hf => ?_⟩
  · unfold threadStep
    rw [h]
    exact ⟨_, rfl, rfl, rfl, rfl, rfl⟩
  · have hc : casFrom s.status = true := by rcases hst with h' | h' <;> simp [casFrom, h']
    obtain ⟨t, ht, _, _, _, _, _, _, hro, _⟩ := C13_exhausted_round s hc hf
    refine ⟨t, ht, hro, ?_⟩
    unfold threadStep
    rw [h]
    simp only [ht]
    cases role with
    | reader k => exact absurd rfl (hr k)
    | caller j => simp [afterRedial]
    | pusher => simp [afterRedial]

/-- the writer path ends the session without notification (budget 1; the reader is about to
    call `redialForClient`, a call sees status PassiveClosing, takes the lock first and runs the
    round: two connections are established and lost during their dial hooks; the reader then finds
    `oldConn != getConn()` and returns as if someone had redialed): final status RedialFailed, no
    close notification, no disconnect hook, every thread finished. -/
theorem C13_exhausted_ends_witness :
    ∃ t, run (State.init 1 false)
        [.setEnv ⟨[.hookFail, .hookFail], .up⟩, .lose 0, .th 0, .th 0, .th 0, .th 0, .th 0, .th 0,
         .call, .th 1, .th 1, .th 1, .th 1, .th 0, .th 0, .th 0] = some t ∧
      t.status = .redialFailed ∧ t.notified = false ∧ t.discHook = 0 ∧ t.rounds = [2] ∧
      t.calls = [⟨0, false, some 102⟩] ∧ firstEnabled t [] 0 t.threads.length = none := by decide

/-- full statement (not provable for the code as it is, see the witness): once the session has
    reconnected and the server stays reachable, later calls succeed.
    Proved part: a call whose status check saw Ok writes its frame on the connection the socket
    holds when that connection is alive — no redial, no failure — and the reply, when the reader
    of that connection handles it, completes the call with OK. Missing: absence of a stale reader
    of an older connection (it cancels the call and closes the new connection). -/
theorem C13_later_calls_succeed_partial (s : State) (i j used : Nat) (c : Call)
    (h : s.threads[i]? = some ⟨.caller j, .wWrite used .ok⟩) (hc : s.calls[j]? = some c)
    (hl : s.conn ∉ s.dead) :
    threadStep s i = some ({ s with calls := s.calls.set j { c with conn := s.conn } }.setPc i (.caller j) .wAwait) := by
  unfold threadStep
  rw [h]
  simp [hl, hc]

example : ∃ s : State, run (State.init 3 false) [.call, .th 1] = some s ∧
    s.threads[1]? = some ⟨.caller 0, .wWrite 0 .ok⟩ ∧ s.conn ∉ s.dead := by decide

/-- item 17: the old reader is parked before its cancel loop; a call detects the loss by its
    status check, redials (connection 1) and succeeds; a second call is issued on connection 1,
    which is never lost, the server stays up; the old reader resumes, its cancel loop completes
    the new call with 102 and its `socket.Close()` closes connection 1. -/
theorem C13_later_calls_succeed_witness :
    ∃ t, run (State.init 3 false)
        [.lose 0, .th 0, .th 0, .th 0, .th 0,
         .call, .th 1, .th 1, .th 1, .th 1, .th 1, .th 1, .reply 0,
         .call, .th 3, .th 3,
         .th 0, .th 0, .th 0, .th 0, .th 0] = some t ∧
      t.calls[0]? = some ⟨1, true, some 0⟩ ∧ t.calls[1]? = some ⟨1, false, some 102⟩ ∧
      t.env = ⟨[], .up⟩ ∧ 1 ∈ t.dead ∧ t.redials = [0] := by decide

end C13
end Teleport
