/-
Props/C10 — Registered routes dispatch to exactly their handler; unknown names do not.
Property theorems only (model: Model/Router, helper lemmas: Lemmas/Router).

Vocabulary: `mapper` = `globalServiceMethodMapper` (HTTP or RPC flavour), `step`/`run` = the
registration-time API (`SubRoute`, `RouteCall`/`RoutePush`, `RouteCallFunc`/`RoutePushFunc`,
`SetUnknownCall`/`SetUnknownPush`) with the names each call returns, `Err.conflict` = the
`Fatalf` exit of `reg`, `dispatch` = `bindCall`/`bindPush` (`getCall`/`getPush` lookup).
-/
import Teleport.Lemmas.Router
import Teleport.Gen.Consts
import Teleport.Gen.RouterFacts
namespace Teleport
namespace C10
open Router

/-! ### the name mapping -/

/-- The HTTP mapper reproduces the documented table (doc comment of `HTTPServiceMethodMapper`, the
    router doc block and README.md), row by row, for the empty prefix ... -/
theorem C10_http_table :
    httpMapper [] (asc "AaBb") = some (asc "/aa_bb") ∧
    httpMapper [] (asc "ABcXYz") = some (asc "/abc_xyz") ∧
    httpMapper [] (asc "Aa__Bb") = some (asc "/aa_bb") ∧
    httpMapper [] (asc "aa__bb") = some (asc "/aa_bb") ∧
    httpMapper [] (asc "ABC__XYZ") = some (asc "/abc_xyz") ∧
    httpMapper [] (asc "Aa_Bb") = some (asc "/aa/bb") ∧
    httpMapper [] (asc "aa_bb") = some (asc "/aa/bb") ∧
    httpMapper [] (asc "ABC_XYZ") = some (asc "/abc/xyz") := by decide

/-- ... and for the root router's prefix `mapper("", "") = "/"`, under which handlers are registered. -/
theorem C10_http_table_root :
    httpMapper [] [] = some (asc "/") ∧
    httpMapper (asc "/") (asc "AaBb") = some (asc "/aa_bb") ∧
    httpMapper (asc "/") (asc "ABcXYz") = some (asc "/abc_xyz") ∧
    httpMapper (asc "/") (asc "Aa__Bb") = some (asc "/aa_bb") ∧
    httpMapper (asc "/") (asc "aa__bb") = some (asc "/aa_bb") ∧
    httpMapper (asc "/") (asc "ABC__XYZ") = some (asc "/abc_xyz") ∧
    httpMapper (asc "/") (asc "Aa_Bb") = some (asc "/aa/bb") ∧
    httpMapper (asc "/") (asc "aa_bb") = some (asc "/aa/bb") ∧
    httpMapper (asc "/") (asc "ABC_XYZ") = some (asc "/abc/xyz") := by decide

/-- The RPC mapper reproduces its documented table row by row (root prefix is `""`). -/
theorem C10_rpc_table :
    rpcMapper [] [] = some [] ∧
    rpcMapper [] (asc "AaBb") = some (asc "AaBb") ∧
    rpcMapper [] (asc "ABcXYz") = some (asc "ABcXYz") ∧
    rpcMapper [] (asc "Aa__Bb") = some (asc "Aa_Bb") ∧
    rpcMapper [] (asc "aa__bb") = some (asc "aa_bb") ∧
    rpcMapper [] (asc "ABC__XYZ") = some (asc "ABC_XYZ") ∧
    rpcMapper [] (asc "Aa_Bb") = some (asc "Aa.Bb") ∧
    rpcMapper [] (asc "aa_bb") = some (asc "aa.bb") ∧
    rpcMapper [] (asc "ABC_XYZ") = some (asc "ABC.XYZ") := by decide

/-- The documented struct/method composition: controller `Aaa` with method `XxZz` is `/aaa/xx_zz`,
    and the same under a group `SubRoute("v1")`. -/
theorem C10_struct_method_example :
    structNames .http (asc "/") (asc "Aaa") [(asc "XxZz", 1)] = some [(asc "/aaa/xx_zz", 1)] ∧
    (httpMapper (asc "/") (asc "v1")).bind (fun g => structNames .http g (asc "Aaa") [(asc "XxZz", 1)])
      = some [(asc "/v1/aaa/xx_zz", 1)] := by decide

/-- Totality: for every prefix and every name (any byte strings, so in particular every Go
    identifier) both mappers return a name; the slice-index panic in `toServiceMethods` is
    unreachable. -/
theorem C10_mapper_total (mk : MapperKind) (pfx name : Name) : ∃ r, mapper mk pfx name = some r :=
  mapper_isSome mk pfx name

/-- Determinism: the result depends on (mapper kind, prefix, name) only — two evaluations agree. -/
theorem C10_mapper_deterministic (mk : MapperKind) (pfx name : Name) (r1 r2 : Name)
    (h1 : mapper mk pfx name = some r1) (h2 : mapper mk pfx name = some r2) : r1 = r2 := by
  rw [h1] at h2; exact Option.some.inj h2

/-! ### one registration -/

/-- `reg` returns exactly the names it inserts: when it succeeds the returned list is the list of
    handler names in handler order, the table of that namespace is the old table plus exactly those
    bindings, every returned name was absent before and occurs once, and the i-th returned name is
    bound to the i-th handler. -/
theorem C10_reg_returns_inserted (s s' : State) (k : Kind) (hs : List (Name × Hid)) (names : List Name)
    (inv : SInv s) (h : reg s k hs = .ok (s', names)) :
    names = keys hs ∧ names.Nodup ∧ (∀ n ∈ names, n ∉ keys (s.tbl k)) ∧
    s'.tbl k = hs.reverse ++ s.tbl k ∧
    (∀ n x, (n, x) ∈ hs → find n (s'.tbl k) = some x) ∧
    (∀ n, n ∉ names → find n (s'.tbl k) = find n (s.tbl k)) := by
  obtain ⟨nd, fresh, rfl, rfl⟩ := (reg_ok_iff s k hs s' names).mp h
  have inv' := reg_SInv inv h
  refine ⟨rfl, nd, fresh, by simp, ?_, ?_⟩
  · intro n x m
    exact mem_find_of_nodup (inv'.tbl k) (by simp [m])
  · intro n nn
    rw [tbl_setTbl_same]
    exact find_append_of_not_mem _ (by rw [keys_reverse]; simpa using nn)

/-- A name already present in the same table (or repeated inside one registration) is refused: the
    registration ends in the conflict exit and nothing is returned — never a silent overwrite. -/
theorem C10_reg_conflict_refused (s : State) (k : Kind) (hs : List (Name × Hid))
    (h : (∃ n ∈ keys hs, n ∈ keys (s.tbl k)) ∨ ¬ (keys hs).Nodup) :
    ∃ n, n ∈ keys hs ∧ reg s k hs = .error (.conflict n) := by
  cases hr : reg s k hs with
  | error e =>
    obtain ⟨n, rfl, hn⟩ := reg_error s k hs e hr
    exact ⟨n, hn, rfl⟩
  | ok r =>
    obtain ⟨s', names⟩ := r
    obtain ⟨nd, fresh, _, _⟩ := (reg_ok_iff s k hs s' names).mp hr
    rcases h with ⟨n, hn, hin⟩ | h
    · exact absurd hin (fresh n hn)
    · exact absurd nd h

/-- The same at the API level, in any state of any history: a `Route*` call one of whose mapped names
    is already in the table of its namespace (e.g. `AaBb` after `Aa__Bb`, or a group/struct
    combination that maps onto an existing route) ends in the conflict exit. -/
theorem C10_route_conflict_refused (s : State) (op : Op) (k : Kind) (hs : List (Name × Hid))
    (ho : opHandlers s op = some (k, hs))
    (h : (∃ n ∈ keys hs, n ∈ keys (s.tbl k)) ∨ ¬ (keys hs).Nodup) :
    ∃ n, n ∈ keys hs ∧ step s op = .error (.conflict n) := by
  rw [step_eq_reg ho]; exact C10_reg_conflict_refused s k hs h

/-- Conversely a registration whose names are new and distinct always succeeds (the conflict exit is
    taken only for a real conflict). -/
theorem C10_reg_succeeds_when_fresh (s : State) (k : Kind) (hs : List (Name × Hid))
    (nd : (keys hs).Nodup) (fresh : ∀ n ∈ keys hs, n ∉ keys (s.tbl k)) :
    reg s k hs = .ok (s.setTbl k (hs.reverse ++ s.tbl k), keys hs) :=
  (reg_ok_iff s k hs _ _).mpr ⟨nd, fresh, rfl, rfl⟩

/-- The names a route operation returns are the mapper's: `mapper(prefix, func)` for a handler
    function, `mapper(mapper(prefix, struct), method)` per method (in method order) for a controller. -/
theorem C10_returned_names_are_mapped (s s' : State) (op : Op) (names : List Name)
    (h : step s op = .ok (s', names)) :
    (∀ k g f x, op = .routeFunc k g f x →
      ∃ pfx, s.groups[g]? = some pfx ∧ (mapper s.mkind pfx f).map (fun n => [n]) = some names) ∧
    (∀ k g sn ms, op = .routeStruct k g sn ms →
      ∃ pfx hs, s.groups[g]? = some pfx ∧ structNames s.mkind pfx sn ms = some hs ∧ names = keys hs ∧
        hs.map (·.2) = ms.map (·.2)) := by
  constructor
  · rintro k g f x rfl
    rcases step_cases h with ⟨k0, hs, ho, hr⟩ | ⟨ho, _⟩
    · simp only [opHandlers] at ho
      cases hg : s.groups[g]? with
      | none => simp [hg] at ho
      | some pfx =>
        simp only [hg, Option.bind_some] at ho
        cases hn : mapper s.mkind pfx f with
        | none => simp [hn] at ho
        | some n =>
          simp only [hn, Option.map_some, Option.some.injEq, Prod.mk.injEq] at ho
          obtain ⟨rfl, rfl⟩ := ho
          obtain ⟨_, _, _, rfl⟩ := (reg_ok_iff _ _ _ _ _).mp hr
          exact ⟨pfx, rfl, by simp [keys, hn]⟩
    · simp only [step] at h
      cases hg : s.groups[g]? with
      | none => simp [hg] at h
      | some pfx =>
        cases hn : mapper s.mkind pfx f with
        | none => simp [hg, hn] at h
        | some n => simp [opHandlers, hg, hn] at ho
  · rintro k g sn ms rfl
    rcases step_cases h with ⟨k0, hs, ho, hr⟩ | ⟨ho, _⟩
    · simp only [opHandlers] at ho
      cases hg : s.groups[g]? with
      | none => simp [hg] at ho
      | some pfx =>
        simp only [hg, Option.bind_some] at ho
        cases hn : structNames s.mkind pfx sn ms with
        | none => simp [hn] at ho
        | some hs' =>
          simp only [hn, Option.map_some, Option.some.injEq, Prod.mk.injEq] at ho
          obtain ⟨rfl, rfl⟩ := ho
          obtain ⟨_, _, _, rfl⟩ := (reg_ok_iff _ _ _ _ _).mp hr
          exact ⟨pfx, hs', rfl, hn, rfl, structNames_snd _ _ _ _ _ hn⟩
    · simp only [step] at h
      cases hg : s.groups[g]? with
      | none => simp [hg] at h
      | some pfx =>
        cases hn : structNames s.mkind pfx sn ms with
        | none => simp [hg, hn] at h
        | some n => simp [opHandlers, hg, hn] at ho

/-! ### any registration history -/

/-- Invariant over ANY sequence of registration operations on a fresh router: both route tables
    are functions name ↦ handler — no name is ever bound twice (no silent sharing). -/
theorem C10_tables_functional (mk : MapperKind) (s0 s : State) (ops : List Op) (rets : List (List Name))
    (h0 : init mk = .ok s0) (h : run s0 ops = .ok (s, rets)) (k : Kind) :
    (keys (s.tbl k)).Nodup ∧ ∀ n x y, (n, x) ∈ s.tbl k → (n, y) ∈ s.tbl k → x = y := by
  have inv := run_SInv ops (init_SInv h0) h
  refine ⟨inv.tbl k, ?_⟩
  intro n x y hx hy
  have a := mem_find_of_nodup (inv.tbl k) hx
  have b := mem_find_of_nodup (inv.tbl k) hy
  rw [a] at b; exact Option.some.inj b

/-- Registered stays registered: no later operation of any history removes or re-binds a name. -/
theorem C10_binding_stable (s s' : State) (ops : List Op) (rets : List (List Name)) (inv : SInv s)
    (h : run s ops = .ok (s', rets)) (k : Kind) (n : Name) (x : Hid)
    (hb : find n (s.tbl k) = some x) : find n (s'.tbl k) = some x := by
  have inv' := run_SInv ops inv h
  exact mem_find_of_nodup (inv'.tbl k) ((run_tbl_mem ops h k (n, x)).mpr (Or.inr (find_some_mem hb)))

/-- `dispatch_exact`, per state: with the invariant, a non-empty requested name `n` reaches handler `x`
    iff `(n ↦ x)` is in the table of that namespace; otherwise the unknown handler if one is set in
    the slot the router reads, otherwise Not Found. -/
theorem C10_dispatch_exact (s : State) (inv : SInv s) (k : Kind) (n : Name) (hn : n ≠ []) :
    (∀ x, dispatch s k n = .handler x ↔ (n, x) ∈ s.tbl k) ∧
    (∀ u, dispatch s k n = .unknown u ↔ n ∉ keys (s.tbl k) ∧ s.unk k = some u) ∧
    (dispatch s k n = .notFound ↔ n ∉ keys (s.tbl k) ∧ s.unk k = none) ∧
    dispatch s k n ≠ .badMessage := by
  have he : n.isEmpty = false := by cases n <;> simp_all
  unfold dispatch getRoute
  simp only [he, Bool.false_eq_true, if_false]
  cases hf : find n (s.tbl k) with
  | some y =>
    have hin : n ∈ keys (s.tbl k) := mem_keys_of_mem (find_some_mem hf)
    refine ⟨?_, ?_, ?_, by simp⟩
    · intro x
      rw [← find_iff_mem (inv.tbl k), hf]; simp
    · intro u; simp [hin]
    · simp [hin]
  | none =>
    have hnin : n ∉ keys (s.tbl k) := (find_none_iff n _).mp hf
    have nomem : ∀ x, (n, x) ∉ s.tbl k := fun x m => hnin (mem_keys_of_mem m)
    cases hu : s.unk k with
    | some u => simp [hnin, nomem]
    | none => simp [hnin, nomem]

/-- `dispatch_exact`, per history: after ANY successful registration history on a fresh router, a
    requested name reaches handler `x` iff some registration of that namespace returned this name
    for `x` — the returned names are the names under which, and only under which, the handler runs.
    Every other non-empty name goes to the last unknown handler of that namespace set through any
    router of the peer (root or `SubRouter.ToRouter()` of any group), or — if none was ever set —
    is Not Found. -/
theorem C10_history_exact (mk : MapperKind) (s0 s : State) (ops : List Op) (rets : List (List Name))
    (h0 : init mk = .ok s0) (h : run s0 ops = .ok (s, rets)) (k : Kind) (n : Name) (hn : n ≠ []) :
    (∀ x, dispatch s k n = .handler x ↔ (n, x) ∈ regPairs k ops rets) ∧
    ((∀ x, (n, x) ∉ regPairs k ops rets) →
      dispatch s k n = match ops.foldl (unkStep k) none with
        | some u => .unknown u
        | none => .notFound) := by
  have inv := run_SInv ops (init_SInv h0) h
  have hs0 : ∀ k, s0.tbl k = [] ∧ s0.unk k = none := by
    unfold init at h0
    cases hm : mapper mk [] [] with
    | none => simp [hm] at h0
    | some p =>
      simp only [hm, Except.ok.injEq] at h0
      subst h0; intro k; cases k <;> exact ⟨rfl, rfl⟩
  have mem : ∀ p, p ∈ s.tbl k ↔ p ∈ regPairs k ops rets := by
    intro p; rw [run_tbl_mem ops h k p, (hs0 k).1]; simp
  have hu : s.unk k = ops.foldl (unkStep k) none := by rw [run_unk ops h k, (hs0 k).2]
  obtain ⟨d1, d2, d3, _⟩ := C10_dispatch_exact s inv k n hn
  refine ⟨fun x => by rw [d1 x, mem], ?_⟩
  intro none_reg
  have hnin : n ∉ keys (s.tbl k) := by
    intro hin
    obtain ⟨⟨n', x⟩, hm, e⟩ := List.mem_map.mp hin
    cases e
    exact none_reg x ((mem _).mp hm)
  rw [← hu]
  cases hk : s.unk k with
  | some u => exact (d2 u).mpr ⟨hnin, hk⟩
  | none => exact d3.mpr ⟨hnin, hk⟩

/-- CALL and PUSH are separate namespaces: an operation that registers (or sets the unknown handler)
    in one namespace changes no lookup in the other; `SubRoute` changes no lookup at all. -/
theorem C10_namespaces_independent (s s' : State) (op : Op) (names : List Name)
    (h : step s op = .ok (s', names)) (k : Kind) (hk : op.kind? ≠ some k) (n : Name) :
    dispatch s' k n = dispatch s k n := by
  have ht : s'.tbl k = s.tbl k ∧ s'.unk k = s.unk k := by
    rcases step_cases h with ⟨k0, hs, ho, hr⟩ | ⟨_, _, hc, hp, hu⟩
    · obtain ⟨_, _, rfl, _⟩ := (reg_ok_iff s k0 hs s' names).mp hr
      have : k0 ≠ k := by
        intro e; subst e
        exact hk (opHandlers_kind ho)
      rcases kind_eq_or_other k0 k with e | e
      · exact absurd e.symm this
      · subst e; simp
    · refine ⟨by cases k <;> simp [State.tbl, hc, hp], ?_⟩
      rcases hu k with e | ⟨_, u, e, _⟩
      · exact e
      · subst e; simp [Op.kind?] at hk
  unfold dispatch getRoute
  rw [ht.1, ht.2]

/-- Not Found ⇒ zero handler invocations (and the caller of a CALL sees code 404); and in general a
    name that is not registered never runs a registered handler: whatever runs is the handler in
    the unknown slot of that namespace. -/
theorem C10_notfound_no_invocation (s : State) (k : Kind) (n : Name) :
    (dispatch s k n = .notFound → (dispatch s k n).invoked = [] ∧ (dispatch s k n).code = 404) ∧
    (n ∉ keys (s.tbl k) → ∀ x ∈ (dispatch s k n).invoked, s.unk k = some x ∧ dispatch s k n = .unknown x) := by
  constructor
  · intro h; rw [h]; exact ⟨rfl, rfl⟩
  · intro hnin x hx
    have hf := (find_none_iff n _).mpr hnin
    unfold dispatch getRoute at hx ⊢
    rw [hf] at hx ⊢
    cases he : n.isEmpty with
    | true => simp [he, Disp.invoked] at hx
    | false =>
      simp only [he, Bool.false_eq_true, if_false] at hx ⊢
      cases hu : s.unk k with
      | none => simp [hu, Disp.invoked] at hx
      | some u =>
        simp only [hu, Disp.invoked, List.mem_singleton] at hx
        subst hx; exact ⟨rfl, by simp⟩

/-- An empty service method is answered 400 Bad Message before any lookup: no handler runs, not
    even the unknown handler (`bindCall`/`bindPush` test `len(ServiceMethod) == 0` first). -/
theorem C10_empty_name (s : State) (k : Kind) :
    dispatch s k [] = .badMessage ∧ (dispatch s k []).invoked = [] ∧ (dispatch s k []).code = 400 := by
  refine ⟨rfl, rfl, rfl⟩

/-- `SetUnknownCall`/`SetUnknownPush` is accepted through every router of the peer: the root or the
    `ToRouter()` of any existing group. -/
theorem C10_set_unknown_accepted (s : State) (k : Kind) (g : Nat) (u : Hid) (p : Name)
    (hg : s.groups[g]? = some p) : step s (.setUnknown k g u) = .ok (s.setUnk k u, []) := by
  simp [step, hg]

/-- An unknown handler set through ANY router of the peer — the root (`g = 0`) or
    `groups[g].ToRouter()` of any group `g` — is reached by every unregistered non-empty name. -/
theorem C10_unknown_reached (s s' : State) (k : Kind) (g : Nat) (u : Hid) (names : List Name)
    (h : step s (.setUnknown k g u) = .ok (s', names)) (n : Name) (hn : n ≠ [])
    (hnin : n ∉ keys (s.tbl k)) : dispatch s' k n = .unknown u := by
  have hu := step_unk h k
  have ht : s'.tbl k = s.tbl k := by
    rcases step_cases h with ⟨k0, hs, ho, _⟩ | ⟨_, _, hc, hp, _⟩
    · simp [opHandlers] at ho
    · cases k <;> simp [State.tbl, hc, hp]
  have he : n.isEmpty = false := by cases n <;> simp_all
  simp only [unkStep, if_true] at hu
  unfold dispatch getRoute
  rw [ht, (find_none_iff n _).mpr hnin, hu]
  simp [he]

/-- operations that are not a `SetUnknown*` of namespace `k` leave the slot of `k` alone. -/
private theorem foldl_unkStep_keep (k : Kind) : ∀ (ops : List Op) (cur : Option Hid),
    (∀ op ∈ ops, ∀ g u, op ≠ .setUnknown k g u) → ops.foldl (unkStep k) cur = cur
  | [], _, _ => rfl
  | op :: ops, cur, hno => by
    have h1 : unkStep k cur op = cur := by
      cases op with
      | setUnknown k' g u =>
        have : k' ≠ k := fun e => hno _ List.mem_cons_self g u (by rw [e])
        simp [unkStep, this]
      | subRoute _ _ => rfl
      | routeStruct _ _ _ _ => rfl
      | routeFunc _ _ _ _ => rfl
    rw [List.foldl_cons, h1]
    exact foldl_unkStep_keep k ops cur (fun op m => hno op (List.mem_cons_of_mem _ m))

/-- "An unregistered name reaches the unknown handler if one is set", for whole histories (this
    replaces the former finding `C10_unknown_via_subrouter_witness`, which the corrected
    `SetUnknownCall`/`SetUnknownPush` make false): after ANY successful registration history on a
    fresh router that contains a `SetUnknown*` of namespace `k` through ANY router of the peer
    (group index `g` arbitrary: the root or any `SubRoute(..)...ToRouter()`), with `u` the last
    one set, every non-empty name that no registration of `k` returned reaches `u` — it is never
    Not Found and never another handler. -/
theorem C10_unknown_via_any_router_reached (mk : MapperKind) (s0 s : State) (ops1 ops2 : List Op)
    (rets : List (List Name)) (k : Kind) (g : Nat) (u : Hid)
    (h0 : init mk = .ok s0) (h : run s0 (ops1 ++ .setUnknown k g u :: ops2) = .ok (s, rets))
    (hlast : ∀ op ∈ ops2, ∀ g' u', op ≠ .setUnknown k g' u')
    (n : Name) (hn : n ≠ [])
    (hnr : ∀ x, (n, x) ∉ regPairs k (ops1 ++ .setUnknown k g u :: ops2) rets) :
    dispatch s k n = .unknown u := by
  have hd := (C10_history_exact mk s0 s _ rets h0 h k n hn).2 hnr
  rw [List.foldl_append, List.foldl_cons, foldl_unkStep_keep k ops2 _ hlast] at hd
  simpa [unkStep] using hd

/-- the former minimal failing input (`SubRoute("x").ToRouter().SetUnknownCall(h7)`, then a call of
    the unregistered `/nope`) now reaches the handler. -/
example : ∃ s0 s rets, init .http = .ok s0 ∧
    run s0 [.subRoute 0 (asc "x"), .setUnknown .call 1 7] = .ok (s, rets) ∧
    dispatch s .call (asc "/nope") = .unknown 7 ∧ dispatch s .push (asc "/nope") = .notFound :=
  ⟨{ mkind := .http, groups := [asc "/"], call := [], push := [], unkCall := none, unkPush := none },
   { mkind := .http, groups := [asc "/", asc "/x"], call := [], push := [], unkCall := some 7, unkPush := none },
   [[], []], by decide, by decide, by decide, by decide⟩

/-! ### non-vacuity: concrete values satisfying the hypotheses above -/

/-- a concrete non-trivial history: a group, a controller with two methods in it, a handler function
    and a push controller at the root, the unknown call handler set through the group's `ToRouter()`. -/
def demoOps : List Op :=
  [.subRoute 0 (asc "v1"),
   .routeStruct .call 1 (asc "Aa") [(asc "Bb", 10), (asc "Cc_Dd", 11)],
   .routeFunc .call 0 (asc "Home") 20,
   .routeStruct .push 0 (asc "AA") [(asc "Bb", 30)],
   .setUnknown .call 1 99]

def demoState : State :=
  { mkind := .http, groups := [asc "/", asc "/v1"],
    call := [(asc "/home", 20), (asc "/v1/aa/cc/dd", 11), (asc "/v1/aa/bb", 10)],
    push := [(asc "/aa/bb", 30)], unkCall := some 99, unkPush := none }

/-- the history succeeds from a fresh router, returns the documented names and reaches `demoState`
    (hypotheses of `C10_tables_functional`, `C10_history_exact`, `C10_binding_stable`). -/
example : ∃ s0, init .http = .ok s0 ∧
    run s0 demoOps = .ok (demoState,
      [[], [asc "/v1/aa/bb", asc "/v1/aa/cc/dd"], [asc "/home"], [asc "/aa/bb"], []]) :=
  ⟨_, rfl, by decide⟩

/-- hypotheses of `C10_unknown_via_any_router_reached` on it: the history is `ops1 ++ setUnknown .. :: []`
    with the unknown handler set through group 1, and `/nope` was returned by no registration. -/
example : demoOps = demoOps.take 4 ++ .setUnknown .call 1 99 :: [] ∧
    (∀ x, (asc "/nope", x) ∉ regPairs .call demoOps
      [[], [asc "/v1/aa/bb", asc "/v1/aa/cc/dd"], [asc "/home"], [asc "/aa/bb"], []]) := by
  refine ⟨by decide, ?_⟩
  intro x hx
  simp only [demoOps, regPairs, Op.hids] at hx
  revert hx; simp [asc]

/-- dispatch on it: registered, cross-namespace, near miss, unknown, push Not Found. -/
example : dispatch demoState .call (asc "/v1/aa/bb") = .handler 10 ∧
    dispatch demoState .push (asc "/aa/bb") = .handler 30 ∧
    dispatch demoState .call (asc "/aa/bb") = .unknown 99 ∧
    dispatch demoState .call (asc "/v1/aa/bb/") = .unknown 99 ∧
    dispatch demoState .push (asc "/v1/aa/bb") = .notFound := by decide

/-- `SInv` holds of it (hypothesis of `C10_dispatch_exact`, `C10_reg_returns_inserted`). -/
example : SInv demoState := by
  unfold SInv; constructor <;> decide

/-- a successful `reg` (hypothesis of `C10_reg_returns_inserted`) ... -/
example : reg demoState .push [(asc "/pp/qq", 40)] =
    .ok (demoState.setTbl .push [(asc "/pp/qq", 40), (asc "/aa/bb", 30)], [asc "/pp/qq"]) := by decide

/-- ... and refused ones (hypotheses of `C10_reg_conflict_refused`): a struct `AaBb` against the
    existing `/aa_bb`-style name, here `Home` registered twice, and two methods of one controller
    that map to the same name (`AaBb`, `Aa__Bb`). -/
example : step demoState (.routeFunc .call 0 (asc "Home") 21) = .error (.conflict (asc "/home")) := by decide
example : step demoState (.routeStruct .call 0 (asc "Dup") [(asc "AaBb", 1), (asc "Aa__Bb", 2)])
    = .error (.conflict (asc "/dup/aa_bb")) := by decide

/-- hypotheses of `C10_route_conflict_refused` on that state: the operation's handler list and a name
    of it that is already registered. -/
example : opHandlers demoState (.routeFunc .call 0 (asc "Home") 21) = some (.call, [(asc "/home", 21)]) ∧
    asc "/home" ∈ keys (demoState.tbl .call) := by decide

/-- the same name in the other namespace is not a conflict (hypothesis `op.kind? ≠ some k` of
    `C10_namespaces_independent` with `k = .call`). -/
example : ∃ s', step demoState (.routeFunc .push 0 (asc "Home") 41) = .ok (s', [asc "/home"]) ∧
    dispatch s' .call (asc "/home") = .handler 20 ∧ dispatch s' .push (asc "/home") = .handler 41 :=
  ⟨demoState.setTbl .push [(asc "/home", 41), (asc "/aa/bb", 30)], by decide, by decide, by decide⟩


/-! ## tie A — router.go (fact groups `RouterFacts`, `Consts`) -/

/-- an empty router with the HTTP mapper's root prefix. -/
def kState : State := { mkind := .http, groups := [asc "/"], call := [], push := [], unkCall := none, unkPush := none }

/-- **C10 tie A, status codes of the lookup**: the codes `Disp.code` gives for a missing route and for an
    empty service method are `CodeNotFound` / `CodeBadMessage` of status.go (running `dispatch`). -/
theorem C10_consts_dispatch_codes :
    Gen.consts_missing = [] ∧
    some ((dispatch kState .call (asc "/zz")).code : Int) = Gen.consts_codes.lookup "CodeNotFound" ∧
    some ((dispatch kState .push (asc "/zz")).code : Int) = Gen.consts_codes.lookup "CodeNotFound" ∧
    some ((dispatch kState .call []).code : Int) = Gen.consts_codes.lookup "CodeBadMessage" ∧
    some ((dispatch (kState.setUnk .call 3) .call (asc "/zz")).code : Int) = Gen.consts_codes.lookup "CodeOK" := by
  decide

def mapperProbes : List (Bytes × Bytes) :=
  [(asc "/p", asc "Aa_BbCc"), (asc "", asc "AaBb"), (asc "/v1", asc "Aa__Bb"), (asc "x.y", asc "ABC_XYZ"), (asc "/", asc "")]

/-- **C10 tie A, the two mappers and where they are applied**: `HTTPServiceMethodMapper` is
    `path.Join("/", prefix, toServiceMethods(name, '/', true))` and `RPCServiceMethodMapper` is
    `strings.Trim(prefix + "." + toServiceMethods(name, '.', false), ".")` (locals inlined), the model's
    `httpMapper` / `rpcMapper` are these compositions with the REGENERATED separator and snake flag on a set
    of probe names, the default mapper is the HTTP one, and the mapper is applied where the model applies it
    — `mapper("", "")` for the root, `mapper(parent.prefix, prefix)` in `SubRoute`, `mapper(prefix, func
    name)` for function handlers and `mapper(mapper(prefix, struct name), method name)` for controller
    structs — the model side obtained by running `init` / `step` on probes. -/
theorem C10_router_mappers :
    Gen.routerFacts_missing = [] ∧
    Gen.router_mappers =
      [("HTTPServiceMethodMapper", "path.Join(\"/\",$1,toServiceMethods($2,'/',true))"),
       ("RPCServiceMethodMapper", "strings.Trim($1+\".\"+toServiceMethods($2,'.',false),\".\")")] ∧
    (mapperProbes.all fun p =>
      (Gen.router_tsm_args.lookup "HTTPServiceMethodMapper").map
        (fun a => (toServiceMethods p.2 a.1.toUInt8 a.2).map (pathJoinRoot p.1)) == some (httpMapper p.1 p.2) &&
      (Gen.router_tsm_args.lookup "RPCServiceMethodMapper").map
        (fun a => (toServiceMethods p.2 a.1.toUInt8 a.2).map (fun s => trimDots (p.1 ++ [46] ++ s))) == some (rpcMapper p.1 p.2)) = true ∧
    httpMapper (asc "/p") (asc "Aa_BbCc") = some (asc "/p/aa/bb_cc") ∧
    rpcMapper (asc "p") (asc "Aa_BbCc") = some (asc "p.Aa.BbCc") ∧
    Gen.router_default_mapper = "HTTPServiceMethodMapper" ∧
    Gen.router_mapper_calls =
      [("SubRouter.SubRoute", "M($.prefix,p0)"),
       ("makeCallHandlersFromFunc", "M(p0,call:handlerFuncName)"),
       ("makeCallHandlersFromStruct", "M(M(p0,call:ctrlStructName),.Name)"),
       ("makePushHandlersFromFunc", "M(p0,call:handlerFuncName)"),
       ("makePushHandlersFromStruct", "M(M(p0,call:ctrlStructName),.Name)"),
       ("newRouter", "M(\"\",\"\")")] ∧
    (match Router.init .http with | .ok s => some s.groups | _ => none) = (mapper .http [] []).map ([·]) ∧
    (match step kState (.subRoute 0 (asc "v1")) with | .ok (s, _) => s.groups[1]? | _ => none) = mapper .http (asc "/") (asc "v1") ∧
    (match step kState (.routeFunc .call 0 (asc "AaBb") 5) with | .ok (_, ns) => some ns | _ => none) =
      (mapper .http (asc "/") (asc "AaBb")).map ([·]) ∧
    (match step kState (.routeStruct .push 0 (asc "Ctl") [(asc "Aa_Bb", 5)]) with | .ok (_, ns) => some ns | _ => none) =
      ((mapper .http (asc "/") (asc "Ctl")).bind fun q => mapper .http q (asc "Aa_Bb")).map ([·]) := by
  decide +kernel

def tblName : Kind → String
  | .call => "callHandlers"
  | .push => "pushHandlers"

def oneName : List Kind → String
  | [k] => tblName k
  | _ => "?"

/-- what `Model/Router.reg` does for handler kind `k`, by probing: the table whose content makes a
    registration conflict, the table the new handler lands in, and whether two handlers of ONE
    registration that map to the same name conflict (check and insert alternate per name, in one loop). -/
def regProbe (k : Kind) : String × String × String :=
  let n := asc "/x"
  let guards := [Kind.call, Kind.push].filter fun k' =>
    match reg (kState.setTbl k' [(n, 9)]) k [(n, 1)] with
    | .error (.conflict m) => m == n
    | _ => false
  let written := [Kind.call, Kind.push].filter fun k' =>
    match reg kState k [(n, 1)] with
    | .ok (s, ns) => find n (s.tbl k') == some 1 && ns == [n]
    | _ => false
  let perName := match reg kState k [(n, 1), (n, 2)] with
    | .error (.conflict m) => m == n
    | _ => false
  (oneName guards, oneName written, if perName then "loops:1;read,fatal-if:present,write" else "?")

/-- **C10 tie A, registration**: each of `RouteCall`, `RouteCallFunc`, `RoutePush`, `RoutePushFunc` passes the
    handler-type constant (`"CALL"` / `"PUSH"`, evaluated) and its own maker to `reg`; `reg`'s map selection
    EXECUTED on that constant reads and writes `callHandlers` for CALL and `pushHandlers` for PUSH (the two
    namespaces are separate); inside ONE loop over the new handlers the name is looked up, a present name is
    fatal, and only then the handler is inserted — which is what `Model/Router.reg` does, probed by
    `regProbe` (conflict with the same-kind table only, insert into the same-kind table, two equal names
    within one registration conflict). Inserting before the check, checking in a separate pre-pass, or
    checking the other table breaks this. -/
theorem C10_router_reg :
    Gen.routerFacts_missing = [] ∧
    Gen.router_reg_table.map (fun r => (r.1, r.2.1, r.2.2.1)) =
      [("RouteCall", "CALL", "makeCallHandlersFromStruct"), ("RouteCallFunc", "CALL", "makeCallHandlersFromFunc"),
       ("RoutePush", "PUSH", "makePushHandlersFromStruct"), ("RoutePushFunc", "PUSH", "makePushHandlersFromFunc")] ∧
    Gen.router_reg_table.map (fun r => (r.2.1, r.2.2.2)) =
      [("CALL", regProbe .call), ("CALL", regProbe .call), ("PUSH", regProbe .push), ("PUSH", regProbe .push)] ∧
    regProbe .call = ("callHandlers", "callHandlers", "loops:1;read,fatal-if:present,write") := by
  decide +kernel

/-- how a group created by `SubRoute` is related to its parent in the MODEL, by probing: a route
    registered / an unknown handler set through the group is seen by the root lookup. -/
def shareProbe (field : String) : String :=
  let viaGroup (ops : List Op) : Option State :=
    match run kState (.subRoute 0 (asc "g") :: ops) with
    | .ok (s, _) => some s
    | _ => none
  match field with
  | "callHandlers" =>
    (match viaGroup [.routeFunc .call 1 (asc "F") 5] with
     | some s => if (getRoute s .call (asc "/g/f")).map (·.1) == some 5 && getRoute s .push (asc "/g/f") == none then "share:callHandlers" else "fresh"
     | none => "?")
  | "pushHandlers" =>
    (match viaGroup [.routeFunc .push 1 (asc "F") 5] with
     | some s => if (getRoute s .push (asc "/g/f")).map (·.1) == some 5 && getRoute s .call (asc "/g/f") == none then "share:pushHandlers" else "fresh"
     | none => "?")
  | "unknownCall" =>
    (match viaGroup [.setUnknown .call 1 7] with
     | some s => if getRoute s .call (asc "/zz") == some (7, true) && getRoute s .push (asc "/zz") == none then "share:unknownCall" else "fresh"
     | none => "?")
  | "unknownPush" =>
    (match viaGroup [.setUnknown .push 1 7] with
     | some s => if getRoute s .push (asc "/zz") == some (7, true) && getRoute s .call (asc "/zz") == none then "share:unknownPush" else "fresh"
     | none => "?")
  | _ => "?"

/-- **C10 tie A, shared tables and unknown-handler slots; lookup with fallback**: the unknown slots are
    `**Handler`, allocated once in `newRouter`, COPIED (the pointer, not the pointee) by `SubRoute` together
    with both handler maps, and written THROUGH by `SetUnknownCall` / `SetUnknownPush` — so a handler set or
    a route registered through any group is seen by the peer's lookup, each kind in its own slot / table,
    which is what the model does (`shareProbe`, running `run` and `getRoute`). `getCall` / `getPush` look the
    name up in their own table, return a hit, else dereference their own unknown slot, return it if set,
    else report a miss — `getRoute`. Letting `SubRoute` copy the slot's content, or wiring a group's push
    slot to the call slot, breaks this. -/
theorem C10_router_slots :
    Gen.routerFacts_missing = [] ∧
    Gen.router_slots =
      [("Router.SetUnknownCall", "unknownCall", "unknownCall=write-through"),
       ("Router.SetUnknownPush", "unknownPush", "unknownPush=write-through"),
       ("SubRouter.SubRoute", "callHandlers", shareProbe "callHandlers"),
       ("SubRouter.SubRoute", "pushHandlers", shareProbe "pushHandlers"),
       ("SubRouter.SubRoute", "unknownCall", shareProbe "unknownCall"),
       ("SubRouter.SubRoute", "unknownPush", shareProbe "unknownPush"),
       ("SubRouter.type", "callHandlers", "map[string]*Handler"),
       ("SubRouter.type", "pushHandlers", "map[string]*Handler"),
       ("SubRouter.type", "unknownCall", "**Handler"),
       ("SubRouter.type", "unknownPush", "**Handler"),
       ("newRouter", "callHandlers", "fresh"), ("newRouter", "pushHandlers", "fresh"),
       ("newRouter", "unknownCall", "fresh"), ("newRouter", "unknownPush", "fresh")] ∧
    Gen.router_get =
      [("getCall", "lookup:callHandlers;return:h,true;deref:unknownCall;return:h,true|nil,false"),
       ("getPush", "lookup:pushHandlers;return:h,true;deref:unknownPush;return:h,true|nil,false")] ∧
    getRoute ((kState.setTbl .call [(asc "/a", 1)]).setUnk .call 9) .call (asc "/a") = some (1, false) ∧
    getRoute ((kState.setTbl .call [(asc "/a", 1)]).setUnk .call 9) .call (asc "/b") = some (9, true) ∧
    getRoute ((kState.setTbl .call [(asc "/a", 1)]).setUnk .call 9) .push (asc "/a") = none ∧
    (match Router.init .http with | .ok s => s.unkCall == none && s.unkPush == none && s.call == [] && s.push == [] | _ => false) = true := by
  decide +kernel


end C10
end Teleport
