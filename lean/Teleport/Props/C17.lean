/-
Props/C17 — Secure plugin: bodies are encrypted on the wire and restored end to end.

Model: `Model/Secure` (`secureExchange`, `securePush` = `plugin/secure/secure.go` composed with the
stage call sites of `context.go` / `session.go`).  The cipher, the key-version function and the
body codec of the envelope are parameters; the only laws used are
`Cipher.Lawful` (`dec k (enc k x) = ok x`) and `EnvCodec.Lawful` (the `Encrypt` object round-trips
through the body codec) — exactly where a theorem needs them, as hypotheses.
Bodies are marshalled byte strings: "the handler receives `a`" = `UnmarshalBody(a)` runs on the
handler's argument object with the message's own codec, as it would without the plugin.
-/
import Teleport.Lemmas.Secure
namespace Teleport
namespace C17
open Secure

/-! ### restored end to end -/

/-- **Same key ⇒ restored**, for every argument, every handler, every combination of markers on
    the request and on the reply (marked or not): the handler is invoked with exactly the bytes the
    caller marshalled, and when the handler answers OK the caller's status is OK and it receives
    exactly the bytes the handler's result marshalled to.
    `hv`: the key version is not the empty string (`goutil.Md5` gives 32 hex digits); with an empty
    version the receiving side skips decryption (`C17_ascoded_empty_version`). -/
theorem C17_restores (cfg : Cfg) (req : Req)
    (hC : cfg.C.Lawful) (hE : cfg.E.Lawful) (hk : cfg.kc = cfg.ks) (hv : cfg.C.ver cfg.kc ≠ []) :
    let o := secureExchange cfg req
    o.invoked = true ∧ o.handlerArg = some req.body ∧
    ((req.h req.body).ok = true → o.callerSt = .ok ∧ o.callerRes = some (req.h req.body).body) := by
  have hvs : cfg.C.ver cfg.ks ≠ [] := hk ▸ hv
  -- the server reads the argument back
  have hread : readBody cfg.C cfg.E cfg.ks (callFrame cfg req.mks req.body) = .deliver req.body := by
    cases hs : isSecure req.mks.sec
    · rw [callFrame_clear cfg _ _ hs, readBody_clear _ _ _ _ (by simp [isSecure_none])]
    · rw [callFrame_enc cfg _ _ hs,
        readBody_env cfg.C cfg.E hE cfg.ks _ _ _ hv (by simp [isSecure_true]) rfl, hk]
      exact postRead_same cfg.C hC cfg.ks req.body hvs
  simp only [secureExchange, serveCall_deliver cfg _ req.h req.body hread]
  cases hok : (req.h req.body).ok
  · simp
  · simp only [if_true, true_and, forall_const]
    -- the caller reads the result back
    generalize hsw : storesAccept (callFrame cfg req.mks req.body).mks = sw
    by_cases henc : isSecure (req.h req.body).mks.sec = true ∨ sw = true
    · rw [preWrite_enc _ _ _ _ _ _ henc,
        readReply_env cfg hE _ _ _ hvs rfl (by simp [isSecure_true]) rfl, ← hk,
        postRead_same cfg.C hC cfg.kc _ hv]
      simp [replyOf]
    · have h1 : isSecure (req.h req.body).mks.sec = false := by
        cases h : isSecure (req.h req.body).mks.sec <;> simp_all
      have h2 : sw = false := by cases sw <;> simp_all
      rw [h2, preWrite_clear _ _ _ _ _ h1, readReply_clear cfg _ rfl (by simp [isSecure_none])]
      simp

example : W.C.Lawful ∧ W.E.Lawful ∧ W.C.ver [1, 2] ≠ [] := ⟨W.C_lawful, W.E_lawful, W.ver_ne _⟩

/-- the same for a PUSH: the receiving handler is invoked with the pushed bytes. -/
theorem C17_push_restores (cfg : Cfg) (mks : Marks) (body : Bytes)
    (hC : cfg.C.Lawful) (hE : cfg.E.Lawful) (hk : cfg.kc = cfg.ks) (hv : cfg.C.ver cfg.kc ≠ []) :
    (securePush cfg mks body).invoked = true ∧ (securePush cfg mks body).handlerArg = some body := by
  have hread : readBody cfg.C cfg.E cfg.ks (callFrame cfg mks body) = .deliver body := by
    cases hs : isSecure mks.sec
    · rw [callFrame_clear cfg _ _ hs, readBody_clear _ _ _ _ (by simp [isSecure_none])]
    · rw [callFrame_enc cfg _ _ hs,
        readBody_env cfg.C cfg.E hE cfg.ks _ _ _ hv (by simp [isSecure_true]) rfl, hk]
      exact postRead_same cfg.C hC cfg.ks body (hk ▸ hv)
  simp [securePush, hread]

/-! ### what is on the wire -/

/-- **A marked CALL is an envelope on the wire**: with `X-Secure: true` the request frame's body is
    `envelope (ver k) (enc k body)` and nothing else — the clear bytes can only show up on the wire
    if they show up inside the AES ciphertext or the key version. No hypothesis: any cipher, any
    codec, any keys, any other marker. -/
theorem C17_wire_is_envelope (cfg : Cfg) (req : Req) (hs : req.mks.sec = some trueB) :
    (secureExchange cfg req).reqWire.isEnvelopeOf cfg.C cfg.E cfg.kc req.body := by
  have : (secureExchange cfg req).reqWire = callFrame cfg req.mks req.body := rfl
  rw [this, callFrame_enc cfg _ _ ((isSecure_iff _).2 hs)]
  exact ⟨rfl, rfl⟩

/-- ... and so is a marked PUSH. -/
theorem C17_wire_is_envelope_push (cfg : Cfg) (mks : Marks) (body : Bytes) (hs : mks.sec = some trueB) :
    (securePush cfg mks body).wire.isEnvelopeOf cfg.C cfg.E cfg.kc body := by
  have : (securePush cfg mks body).wire = callFrame cfg mks body := by
    cases h : readBody cfg.C cfg.E cfg.ks (callFrame cfg mks body) <;> simp [securePush, h]
  rw [this, callFrame_enc cfg _ _ ((isSecure_iff _).2 hs)]
  exact ⟨rfl, rfl⟩

/-- the reply frame produced by the serving peer for a request frame `q` it could read as `a`. -/
theorem C17_wire_is_envelope_reply (cfg : Cfg) (q : Frame) (h : Bytes → HRes) (a : Bytes)
    (hr : readBody cfg.C cfg.E cfg.ks q = .deliver a) (hok : (h a).ok = true)
    (hm : (h a).mks.sec = some trueB ∨ storesAccept q.mks = true) :
    (serveCall cfg q h).2.2.isEnvelopeOf cfg.C cfg.E cfg.ks (h a).body := by
  rw [serveCall_deliver cfg q h a hr]
  simp only [hok, if_true]
  rw [preWrite_enc _ _ _ _ _ _ (hm.imp (isSecure_iff _).2 id)]
  exact ⟨rfl, rfl⟩

/-- **Unmarked messages pass unchanged**: without `X-Secure: true`, without `X-Accept-Secure: true`
    and with a handler that does not mark its reply, the request body on the wire is the clear
    body (any stray non-"true" `X-Secure` value is removed), the handler receives it, an OK reply
    carries the clear result and the caller gets it — for any two keys, equal or not, and any
    cipher/codec (no law needed: the plugin does nothing). -/
theorem C17_unmarked_unchanged (cfg : Cfg) (req : Req)
    (hs : req.mks.sec ≠ some trueB) (ha : req.mks.acc ≠ some trueB)
    (hh : (req.h req.body).mks.sec ≠ some trueB) :
    let o := secureExchange cfg req
    o.reqWire.isClear req.body ∧ o.invoked = true ∧ o.handlerArg = some req.body ∧
    ((req.h req.body).ok = true →
      o.replyWire.isClear (req.h req.body).body ∧ o.callerSt = .ok ∧
      o.callerRes = some (req.h req.body).body) := by
  have hs' := (isSecure_false_iff _).2 hs
  have hh' := (isSecure_false_iff _).2 hh
  have hread : readBody cfg.C cfg.E cfg.ks (callFrame cfg req.mks req.body) = .deliver req.body := by
    rw [callFrame_clear cfg _ _ hs', readBody_clear _ _ _ _ (by simp [isSecure_none])]
  have hsw : storesAccept (callFrame cfg req.mks req.body).mks = false := by
    rw [callFrame_clear cfg _ _ hs']
    cases hacc : req.mks.acc with
    | none => simp [storesAccept, isSecure_none, trueB]
    | some a =>
      have : a ≠ trueB := fun e => ha (by rw [hacc, e])
      simp [storesAccept, isSecure_none, this]
  simp only [secureExchange, serveCall_deliver cfg _ req.h req.body hread]
  refine ⟨?_, ?_⟩
  · rw [callFrame_clear cfg _ _ hs']; exact ⟨rfl, rfl⟩
  · cases hok : (req.h req.body).ok
    · simp
    · simp only [if_true, true_and, forall_const, hsw]
      rw [preWrite_clear _ _ _ _ _ hh', readReply_clear cfg _ rfl (by simp [isSecure_none])]
      exact ⟨⟨rfl, rfl⟩, rfl, rfl⟩

/-! ### when is the reply encrypted -/

/-
The property text: "a reply is encrypted whenever the request was encrypted or asked for an
encrypted reply".  At full strength:

  theorem C17_reply_encrypted_when (cfg) (req) (lawful, same key, handler OK) :
      req.mks.sec = some trueB ∨ req.mks.acc = some trueB →
      (secureExchange cfg req).replyWire.isEnvelopeOf cfg.C cfg.E cfg.ks (req.h req.body).body

This is FALSE for the code as written: `PreReadCallBody` stores the "encrypt the reply" decision
for an encrypted request only `if accept != "false"`, so a request marked with
`WithSecureMeta()` + `WithAcceptSecureMeta(false)` (both public API) is encrypted and answered in
clear.  `C17_reply_encrypted_when_witness` proves the negation on a concrete exchange,
`C17_reply_encrypted_when_partial` proves the statement for every other marker combination, and
`C17_reply_table` gives the exact as-coded rule.
-/

/-- proved part: the reply to an encrypted or accept-marked request is an envelope, for every
    marker combination except (request encrypted ∧ `X-Accept-Secure` is exactly `"false"`). -/
theorem C17_reply_encrypted_when_partial (cfg : Cfg) (req : Req)
    (hC : cfg.C.Lawful) (hE : cfg.E.Lawful) (hk : cfg.kc = cfg.ks) (hv : cfg.C.ver cfg.kc ≠ [])
    (hok : (req.h req.body).ok = true)
    (hm : req.mks.sec = some trueB ∨ req.mks.acc = some trueB)
    (hopt : ¬ (req.mks.sec = some trueB ∧ req.mks.acc = some falseB)) :
    (secureExchange cfg req).replyWire.isEnvelopeOf cfg.C cfg.E cfg.ks (req.h req.body).body := by
  have hread : readBody cfg.C cfg.E cfg.ks (callFrame cfg req.mks req.body) = .deliver req.body := by
    cases hs : isSecure req.mks.sec
    · rw [callFrame_clear cfg _ _ hs, readBody_clear _ _ _ _ (by simp [isSecure_none])]
    · rw [callFrame_enc cfg _ _ hs,
        readBody_env cfg.C cfg.E hE cfg.ks _ _ _ hv (by simp [isSecure_true]) rfl, hk]
      exact postRead_same cfg.C hC cfg.ks req.body (hk ▸ hv)
  have : (secureExchange cfg req).replyWire = (serveCall cfg (callFrame cfg req.mks req.body) req.h).2.2 := rfl
  rw [this]
  apply C17_wire_is_envelope_reply cfg _ req.h req.body hread hok
  right
  cases hs : isSecure req.mks.sec
  · have hacc : req.mks.acc = some trueB := by
      rcases hm with h | h
      · rw [(isSecure_iff _).2 h] at hs; cases hs
      · exact h
    rw [callFrame_clear cfg _ _ hs]
    simp [storesAccept, isSecure_none, hacc]
  · have hsec := (isSecure_iff _).1 hs
    rw [callFrame_enc cfg _ _ hs]
    cases hacc : req.mks.acc with
    | none => simp [storesAccept, isSecure_true, falseB]
    | some a =>
      have : a ≠ falseB := fun e => hopt ⟨hsec, by rw [hacc, e]⟩
      simp [storesAccept, isSecure_true, this]

/-- a concrete exchange: lawful cipher and codec, same 16-byte key on both sides, request marked
    `X-Secure: true` + `X-Accept-Secure: false`, handler answers OK without marking. -/
def optOutCfg : Cfg := ⟨W.C, W.E, List.replicate 16 7, List.replicate 16 7⟩
def optOutReq : Req := ⟨⟨some trueB, some falseB⟩, [1, 2, 3], fun _ => ⟨true, [4, 5], ⟨none, none⟩⟩⟩

/-- **Witness against the full statement** (finding `c17:reply-not-encrypted-accept-false`): the
    request of `optOutReq` travels as an envelope, the handler gets the argument, and the reply
    frame carries the result `[4, 5]` in clear, unmarked. -/
theorem C17_reply_encrypted_when_witness :
    optOutCfg.C.Lawful ∧ optOutCfg.E.Lawful ∧ optOutCfg.kc = optOutCfg.ks ∧
    optOutReq.mks.sec = some trueB ∧
    (secureExchange optOutCfg optOutReq).reqWire.isEnvelopeOf W.C W.E optOutCfg.kc [1, 2, 3] ∧
    (secureExchange optOutCfg optOutReq).handlerArg = some [1, 2, 3] ∧
    (secureExchange optOutCfg optOutReq).replyWire = ⟨⟨none, none⟩, [4, 5], .ok⟩ ∧
    ¬ (secureExchange optOutCfg optOutReq).replyWire.isEnvelopeOf W.C W.E optOutCfg.ks [4, 5] := by
  refine ⟨W.C_lawful, W.E_lawful, rfl, rfl, ⟨by decide, by decide⟩, by decide, by decide, ?_⟩
  intro h
  have := h.1
  revert this
  decide

/-- **The exact as-coded rule** for every marker combination (arbitrary byte strings as marker
    values, arbitrary bodies/keys): the request is an envelope iff its `X-Secure` class is `true`;
    an OK reply is an envelope iff `planReply` of the three marker classes says so, otherwise it is
    the clear result with the `X-Secure` key absent. -/
theorem C17_reply_table (cfg : Cfg) (req : Req)
    (hC : cfg.C.Lawful) (hE : cfg.E.Lawful) (hk : cfg.kc = cfg.ks) (hv : cfg.C.ver cfg.kc ≠ [])
    (hok : (req.h req.body).ok = true) :
    let o := secureExchange cfg req
    let r := req.h req.body
    (if planReq (secClass req.mks.sec) then o.reqWire.isEnvelopeOf cfg.C cfg.E cfg.kc req.body
     else o.reqWire.isClear req.body) ∧
    (if planReply (secClass req.mks.sec) (accClass req.mks.acc) (secClass r.mks.sec)
     then o.replyWire.isEnvelopeOf cfg.C cfg.E cfg.ks r.body
     else o.replyWire.isClear r.body) := by
  have hread : readBody cfg.C cfg.E cfg.ks (callFrame cfg req.mks req.body) = .deliver req.body := by
    cases hs : isSecure req.mks.sec
    · rw [callFrame_clear cfg _ _ hs, readBody_clear _ _ _ _ (by simp [isSecure_none])]
    · rw [callFrame_enc cfg _ _ hs,
        readBody_env cfg.C cfg.E hE cfg.ks _ _ _ hv (by simp [isSecure_true]) rfl, hk]
      exact postRead_same cfg.C hC cfg.ks req.body (hk ▸ hv)
  have hsw : storesAccept (callFrame cfg req.mks req.body).mks
      = planAccept (secClass req.mks.sec) (accClass req.mks.acc) := by
    rw [storesAccept_plan, callFrame_acc]
    have hn : secClass (none : Option Bytes) = .absent := rfl
    have ht : secClass (some trueB) = .tru := by simp [secClass]
    cases hs : isSecure req.mks.sec
    · rw [callFrame_clear cfg _ _ hs]
      have : secClass req.mks.sec ≠ .tru := by
        have := isSecure_class req.mks.sec; rw [hs] at this; simpa [planReq] using this.symm
      simp [planAccept, hn, this]
    · rw [callFrame_enc cfg _ _ hs]
      have : secClass req.mks.sec = .tru := by
        have := isSecure_class req.mks.sec; rw [hs] at this; simpa [planReq] using this.symm
      simp [planAccept, ht, this]
  refine ⟨?_, ?_⟩
  · have : (secureExchange cfg req).reqWire = callFrame cfg req.mks req.body := rfl
    rw [this, ← isSecure_class]
    cases hs : isSecure req.mks.sec
    · rw [callFrame_clear cfg _ _ hs]; exact ⟨rfl, rfl⟩
    · rw [callFrame_enc cfg _ _ hs]; exact ⟨rfl, rfl⟩
  · have e : (secureExchange cfg req).replyWire
        = (serveCall cfg (callFrame cfg req.mks req.body) req.h).2.2 := rfl
    have hdec : planReply (secClass req.mks.sec) (accClass req.mks.acc)
          (secClass (req.h req.body).mks.sec)
        = (isSecure (req.h req.body).mks.sec || storesAccept (callFrame cfg req.mks req.body).mks) := by
      rw [hsw, isSecure_class]; rfl
    rw [e, serveCall_deliver cfg _ req.h req.body hread, hdec]
    simp only [hok, if_true]
    cases h1 : isSecure (req.h req.body).mks.sec
    · cases h2 : storesAccept (callFrame cfg req.mks req.body).mks
      · rw [preWrite_clear _ _ _ _ _ h1]; simp [Frame.isClear]
      · rw [preWrite_enc _ _ _ _ _ _ (Or.inr rfl)]; simp [Frame.isEnvelopeOf]
    · rw [preWrite_enc _ _ _ _ _ _ (Or.inl h1)]; simp [Frame.isEnvelopeOf]

/-- the decision table itself, all 3 × 4 × 3 marker classes enumerated: the reply is encrypted iff
    the handler marked it, or the request was encrypted and did not say `X-Accept-Secure: false`,
    or the request was not encrypted and said `X-Accept-Secure: true`. -/
theorem C17_plan_table (qs : SecC) (qa : AccC) (rs : SecC) :
    planReply qs qa rs = true ↔
      (rs = .tru ∨ (qs = .tru ∧ qa ≠ .fls) ∨ (qs ≠ .tru ∧ qa = .tru)) := by
  cases qs <;> cases qa <;> cases rs <;> decide

/-- the opt-out row judged against the property text: request encrypted, explicit
    `X-Accept-Secure: false` ⇒ the reply is encrypted only if the handler enforces it. -/
theorem C17_accept_false_row (rs : SecC) : planReply .tru .fls rs = decide (rs = .tru) := by
  cases rs <;> decide

/-- every other row agrees with the property text: (request encrypted ∨ accept = true) → reply
    encrypted. -/
theorem C17_other_rows (qs : SecC) (qa : AccC) (rs : SecC) (h : ¬ (qs = .tru ∧ qa = .fls))
    (hm : qs = .tru ∨ qa = .tru) : planReply qs qa rs = true := by
  cases qs <;> cases qa <;> cases rs <;> simp_all [planReply, planAccept]

/-! ### different key -/

/-- **Different key on the serving side, marked request**: if the key versions differ (or the
    versions collide but decryption reports an error), the handler is not invoked, no argument is
    bound, the caller's status is the plugin's non-OK status and no result is delivered. -/
theorem C17_wrong_key (cfg : Cfg) (req : Req) (hE : cfg.E.Lawful) (hv : cfg.C.ver cfg.kc ≠ [])
    (hs : req.mks.sec = some trueB)
    (hd : cfg.C.ver cfg.kc ≠ cfg.C.ver cfg.ks ∨
          cfg.C.dec cfg.ks (cfg.C.enc cfg.kc req.body) = .err) :
    let o := secureExchange cfg req
    o.invoked = false ∧ o.handlerArg = none ∧ o.callerSt = .secure ∧ o.callerRes = none ∧
    o.replyWire.body = [] := by
  have hs' := (isSecure_iff _).2 hs
  have hread : readBody cfg.C cfg.E cfg.ks (callFrame cfg req.mks req.body) = .fail .secure := by
    rw [callFrame_enc cfg _ _ hs',
      readBody_env cfg.C cfg.E hE cfg.ks _ _ _ hv (by simp [isSecure_true]) rfl]
    exact postRead_wrong cfg.C cfg.ks _ _ hv hd
  simp only [secureExchange, serveCall_fail cfg _ req.h .secure hread]
  rw [readReply_notok cfg _ (by simp)]
  simp

example : W.C.ver [1] ≠ W.C.ver [2] := W.ver_inj _ _ (by decide)

/-- **Different key on the calling side, encrypted reply** (request in clear, reply encrypted
    because it was asked for or the handler enforced it): the handler ran, but the result is not
    delivered and the caller's status is the plugin's non-OK status. -/
theorem C17_wrong_key_reply (cfg : Cfg) (req : Req) (hE : cfg.E.Lawful) (hv : cfg.C.ver cfg.ks ≠ [])
    (hs : req.mks.sec ≠ some trueB) (hok : (req.h req.body).ok = true)
    (hm : (req.h req.body).mks.sec = some trueB ∨ req.mks.acc = some trueB)
    (hd : cfg.C.ver cfg.ks ≠ cfg.C.ver cfg.kc ∨
          cfg.C.dec cfg.kc (cfg.C.enc cfg.ks (req.h req.body).body) = .err) :
    let o := secureExchange cfg req
    o.invoked = true ∧ o.callerSt = .secure ∧ o.callerRes = none := by
  have hs' := (isSecure_false_iff _).2 hs
  have hread : readBody cfg.C cfg.E cfg.ks (callFrame cfg req.mks req.body) = .deliver req.body := by
    rw [callFrame_clear cfg _ _ hs', readBody_clear _ _ _ _ (by simp [isSecure_none])]
  have henc : isSecure (req.h req.body).mks.sec = true ∨
      storesAccept (callFrame cfg req.mks req.body).mks = true := by
    rcases hm with h | h
    · exact Or.inl ((isSecure_iff _).2 h)
    · right; rw [callFrame_clear cfg _ _ hs']; simp [storesAccept, isSecure_none, h]
  simp only [secureExchange, serveCall_deliver cfg _ req.h req.body hread, hok, if_true]
  rw [preWrite_enc _ _ _ _ _ _ henc,
    readReply_env cfg hE _ _ _ hv rfl (by simp [isSecure_true]) rfl,
    postRead_wrong cfg.C cfg.kc _ _ hv hd]
  simp [replyOf]

/-- **Different key, marked PUSH**: the handler is not invoked. (A PUSH has no reply: the sender's
    own status stays OK, the receiving peer only logs the plugin's status — as coded.) -/
theorem C17_wrong_key_push (cfg : Cfg) (mks : Marks) (body : Bytes) (hE : cfg.E.Lawful)
    (hv : cfg.C.ver cfg.kc ≠ []) (hs : mks.sec = some trueB)
    (hd : cfg.C.ver cfg.kc ≠ cfg.C.ver cfg.ks ∨ cfg.C.dec cfg.ks (cfg.C.enc cfg.kc body) = .err) :
    (securePush cfg mks body).invoked = false ∧ (securePush cfg mks body).handlerArg = none ∧
    (securePush cfg mks body).senderSt = .ok := by
  have hread : readBody cfg.C cfg.E cfg.ks (callFrame cfg mks body) = .fail .secure := by
    rw [callFrame_enc cfg _ _ ((isSecure_iff _).2 hs),
      readBody_env cfg.C cfg.E hE cfg.ks _ _ _ hv (by simp [isSecure_true]) rfl]
    exact postRead_wrong cfg.C cfg.ks _ _ hv hd
  simp [securePush, hread]

/-! ### error replies, and two as-coded facts outside the property's quantifier -/

/-- **Error replies** (as coded): when the handler returns a non-OK status, `PreWriteReply` returns
    at once (`ctx.Status() != nil`) and `writeReply` drops body and codec — the reply frame has an
    empty body, is never an envelope, keeps the handler's metadata untouched, and the caller gets the
    handler's status and no result; whatever the markers and keys. -/
theorem C17_error_reply (cfg : Cfg) (q : Frame) (h : Bytes → HRes) (a : Bytes)
    (hr : readBody cfg.C cfg.E cfg.ks q = .deliver a) (hok : (h a).ok = false) :
    (serveCall cfg q h).2.2 = ⟨(h a).mks, [], .handler⟩ ∧
    readReply cfg (serveCall cfg q h).2.2 = (.handler, none, false) := by
  rw [serveCall_deliver cfg q h a hr]
  simp [hok, readReply_notok]

/-- as coded: a frame marked `X-Secure: true` whose envelope has an EMPTY version is not decrypted
    at all (`if len(version) > 0`): the handler runs on the zero argument whatever the keys are.
    Only a peer that does not run the plugin can send such a frame (`goutil.Md5` is never empty). -/
theorem C17_ascoded_empty_version (cfg : Cfg) (acc : Option Bytes) (c : Bytes) (h : Bytes → HRes)
    (hE : cfg.E.unmar (cfg.E.mar [] c) = some ([], c)) :
    (serveCall cfg ⟨⟨some trueB, acc⟩, cfg.E.mar [] c, .ok⟩ h).1 = true ∧
    (serveCall cfg ⟨⟨some trueB, acc⟩, cfg.E.mar [] c, .ok⟩ h).2.1 = some [] := by
  have hread : readBody cfg.C cfg.E cfg.ks ⟨⟨some trueB, acc⟩, cfg.E.mar [] c, .ok⟩ = .deliver [] := by
    have hre : readEnv cfg.E (cfg.E.mar [] c) = some ([], c) ∨ readEnv cfg.E (cfg.E.mar [] c) = some ([], []) := by
      unfold readEnv; split
      · exact Or.inr rfl
      · exact Or.inl hE
    rcases hre with hre | hre <;> simp [readBody, useDecrypt, isSecure_true, hre, postRead_empty]
  rw [serveCall_deliver cfg _ h [] hread]
  split <;> simp

/-- as coded: a REPLY envelope naming the caller's own key version whose ciphertext makes
    `AESDecrypt` panic (hex of a partial block) is recovered in `handleReply` with the call's status
    still OK: the caller sees OK and no result. Needs a forged frame (the key version travels in
    clear in every envelope); outside the property's quantifier, reported as an observation. -/
theorem C17_ascoded_reply_panic (cfg : Cfg) (hE : cfg.E.Lawful) (acc : Option Bytes) (c : Bytes)
    (hv : cfg.C.ver cfg.kc ≠ []) (hp : cfg.C.dec cfg.kc c = .panic) :
    readReply cfg ⟨⟨some trueB, acc⟩, cfg.E.mar (cfg.C.ver cfg.kc) c, .ok⟩ = (.ok, none, false) := by
  rw [readReply_env cfg hE _ _ _ hv rfl (by simp [isSecure_true]) rfl]
  simp [postRead, hv, hp, replyOf]

end C17
end Teleport
