/-
Props/C02 — every call completes exactly once; none hangs, none completes twice.
Property theorems only. Model: Model/CallLife (one session, any number of calls, caller goroutines,
the reader, handler goroutines, the disconnect path, the closer, the environment); invariants in
Lemmas/CallLife.

Both defects that blocked the full-strength statements are repaired:
  * fix C02b: `bindReply` refuses a call that is already bound or already completed (a duplicate REPLY
    racing the first reply's `done()`, an early REPLY racing a failing write): `C02_at_most_once` holds
    without any hypothesis, the former witnesses are now runs with exactly one completion
    (`C02_duplicate_and_early_reply_harmless`);
  * fix C02a: the read loop never leaves with a call's mutex held (`C02_no_reader_lock`,
    `C02_bound_reply_completes`);
  * fix C02c: a request above the size limit fails its write with 104 instead of panicking inside `Pack`
    (`C02_oversize_request_completes`).
-/
import Teleport.Lemmas.CallLife
namespace Teleport
namespace C02
open CallLife

/-! ## at most once -/

/-- For every interleaving of any number of callers, the reader, handlers, the disconnect path, the
    closer and the environment, and for every sequence of frames the peer sends (any seq — including
    duplicates of a seq and replies for seqs whose request is not written yet —, any decode outcome):
    every call's done channel has been closed at most once, it has been sent on its completion channel
    exactly as often, and the process has not crashed. -/
theorem C02_at_most_once (s : State) (r : Reachable s) :
    s.crashed = false ∧
    ∀ (i : Nat) (c : Call), s.calls[i]? = some c → c.doneCount ≤ 1 ∧ c.chanSends ≤ 1 ∧ c.chanSends = c.doneCount := by
  obtain ⟨h1, h2⟩ := ainv_reach r
  refine ⟨h1, fun i c hc => ?_⟩
  have ci := h2 i c hc
  exact ⟨ci.le1, ci.sends ▸ ci.le1, ci.sends⟩

/-- the schedule of the duplicate-reply race: the first reply is bound and its handler spawned; the
    reader looks the second reply's seq up (the call is still in the table) and waits for the mutex; the
    first handler completes the call and unlocks; the reader gets the mutex, finds the call completed
    and drops the frame (a handler goroutine for an unknown-seq reply runs and ends). -/
def dupRace : List Label :=
  [.issue false false false false 2, .store 0, .prewrite 0, .write 0 .ok, .unlock 0,
   .frame (.reply 1 .ok 0), .frame (.reply 1 .ok 0), .read, .bind, .read, .hDone 0, .hUnlock 0, .bind, .hOther]

/-- the early-reply schedule: the peer sends REPLY seq 1 before the request is written; the reader finds
    the stored call and waits for the mutex the caller still holds; the caller's write fails (cancelled
    context), it completes the call and unlocks; the reader gets the mutex, finds the call completed and
    drops the frame. -/
def earlyRace : List Label :=
  [.issue false true false false 2, .store 0, .frame (.reply 1 .ok 0), .read, .prewrite 0, .write 0 .ctxErr,
   .failDone 0, .unlock 0, .bind, .hOther]

/-- The two schedules that used to complete a call twice (`c02:double-completion`) now end with the call
    completed exactly once — by the first reply (status OK) resp. by the failed write (104) —, nothing
    bound a second time, no crash, the reader back in its loop. -/
theorem C02_duplicate_and_early_reply_harmless :
    (∃ s, run State.init dupRace = some s ∧ s.crashed = false ∧ s.rpc = .reading ∧ s.otherH = 0 ∧
      ∃ c, s.calls[0]? = some c ∧ c.chanSends = 1 ∧ c.doneCount = 1 ∧ c.stat = 0 ∧ c.mu = .free) ∧
    (∃ s, run State.init earlyRace = some s ∧ s.crashed = false ∧ s.rpc = .reading ∧ s.otherH = 0 ∧
      ∃ c, s.calls[0]? = some c ∧ c.chanSends = 1 ∧ c.doneCount = 1 ∧ c.stat = 104 ∧ c.hasReply = false ∧
        c.mu = .free) := by
  have h1 : run State.init dupRace = some ((run State.init dupRace).getD State.init) := by decide
  have h2 : run State.init earlyRace = some ((run State.init earlyRace).getD State.init) := by decide
  refine ⟨⟨_, h1, ?_⟩, ⟨_, h2, ?_⟩⟩ <;> decide

/-! ## hostile replies -/

/-- Hostile replies are harmless for at-most-once: whatever the decode outcome of a reply (ok, error with
    a known codec, error with codec id 0, decoder panic), whatever its status, whatever its seq (a
    pending call, an unknown seq, a duplicate, a seq whose request is still being written): one more
    frame and any step after it keep every call at one completion at most and the process alive. -/
theorem C02_hostile_reply (s t u : State) (r : Reachable s) (f : Frame)
    (hf : fire s (.frame f) = some t) (l : Label) (hl : fire t l = some u) :
    u.crashed = false ∧ ∀ (i : Nat) (c : Call), u.calls[i]? = some c → c.doneCount ≤ 1 ∧ c.chanSends ≤ 1 :=
  have ru : Reachable u := (r.step ⟨_, hf⟩).step ⟨_, hl⟩
  have h := C02_at_most_once u ru
  ⟨h.1, fun i c hc => ⟨(h.2 i c hc).1, (h.2 i c hc).2.1⟩⟩

/-- a reply whose call is already bound or completed is not bound again: the reader releases the mutex
    and goes on as for an unknown seq; no call record changes. -/
theorem C02_replied_call_not_rebound (s t : State) (i : Nat) (d : Dec) (rs : Nat) (c : Call)
    (hr : s.rpc = .bindWait i d rs) (hc : s.calls[i]? = some c) (hre : c.hasReply = true ∨ 1 ≤ c.doneCount)
    (hf : fire s .bind = some t) : t.calls = s.calls ∧ t.crashed = s.crashed ∧ (t.rpc = .reading ∨ t.rpc = .discLoad) := by
  unfold fire at hf
  split at hf
  · cases hf
  simp only [hr, hc] at hf
  by_cases hmu : c.mu ≠ .free
  · rw [if_pos hmu] at hf; cases hf
  rw [if_neg hmu, if_pos hre] at hf
  simp only [State.spawnOther] at hf
  split at hf <;> (cases hf; simp)

/-- non-vacuity of `C02_replied_call_not_rebound`: after the first 12 steps of `dupRace` the reader waits
    in `bindReply` for call 0, which has been completed by the first reply; the bind step is enabled. -/
example : ∃ s, run State.init (dupRace.take 12) = some s ∧ s.rpc = .bindWait 0 .ok 0 ∧ (fire s .bind).isSome = true ∧
    ∃ c, s.calls[0]? = some c ∧ c.hasReply = true ∧ c.doneCount = 1 := by
  have h : run State.init (dupRace.take 12) = some ((run State.init (dupRace.take 12)).getD State.init) := by decide
  refine ⟨_, h, ?_⟩
  decide

/-- a frame whose seq matches no table entry is never bound: the reader goes straight back to reading
    (or to the disconnect path) and no call record changes. -/
theorem C02_unknown_seq_not_bound (s t : State) (seq : Nat) (d : Dec) (rs : Nat) (rest : List Frame)
    (hr : s.rpc = .reading) (hq : s.inq = .reply seq d rs :: rest) (hl : s.lookup seq = none)
    (hf : fire s .read = some t) : t.calls = s.calls ∧ (t.rpc = .reading ∨ t.rpc = .discLoad) := by
  unfold fire at hf
  split at hf
  · cases hf
  simp only [hr, hq, hl, State.spawnOther] at hf
  split at hf <;> (cases hf; simp)


/-! ## no hang -/

/- Full-strength statement:
     theorem C02_no_stuck (s : State) (r : Reachable s) (hq : ∀ l, l.internal = true → fire s l = none) :
         ∀ (i : Nat) (c : Call), s.calls[i]? = some c →
           (c.hasReply = true ∨ s.lost = true ∨ s.status.closed = true) → c.doneCount = 1               -/

/-- the run behind the former defect `c02:nilcodec-reply-wedges-call`: one call is written; the peer
    answers with a REPLY whose body decode fails while the codec id is 0 (`Dec.errNil`: codec id 0,
    non-empty body, result not `*[]byte`); then everything settles. -/
def wedgeRun : List Label :=
  [.issue false false false false 2, .store 0, .prewrite 0, .write 0 .ok, .unlock 0,
   .frame (.reply 1 .errNil 0), .read, .bind, .discLoad, .discStore, .discCtxWait [], .discPick, .discFinish]

def unwedged : State :=
  { calls := [{ pc := .returned, mu := .free, hasReply := true, stat := 400, doneCount := 1, chanSends := 1,
                inTable := false, rstat := 0, rerr := true, veto := false, ctxDone := false,
                tooBig := false, bytesRes := false, cap := 2 }],
    inq := [], lost := false, sockClosed := true, status := .passiveClosed, rpc := .stopped,
    cpc := .idle, otherH := 0, crashed := false, leaked := false }

/-- The reply that used to wedge the call and the reader now completes the call exactly once with
    400 (the reader runs `handleReply` itself before it leaves the loop), the mutex is free again, and
    the session reaches a closed state by itself; the same for a decoder panic. -/
theorem C02_bound_reply_completes :
    run State.init wedgeRun = some unwedged ∧
    run State.init (wedgeRun.set 5 (.frame (.reply 1 .panic 0))) = some unwedged := by
  decide

/-- In every reachable state — any interleaving, any frames, any decode outcomes — no call's mutex is
    held by the reader: whenever the reader binds a
    reply and then leaves the read loop (decode error under codec id 0, decoder panic, session no longer
    reading) it has completed and unlocked the call in the same step. -/
theorem C02_no_reader_lock (s : State) (r : Reachable s) :
    ∀ (i : Nat) (c : Call), s.calls[i]? = some c → c.mu ≠ .reader :=
  fun i c h => ((ainv_reach r).2 i c h).nord

/- The part of `C02_no_stuck` that is proved here is the "reply has arrived" disjunct. The "connection
   lost" and "session closed" disjuncts (completion through the cancel loop of readDisconnected and through
   the callers' own status check) are NOT proved as theorems: they need the chain of invariants sketched in
   DESIGN §5 C02 (status never returns to Ok; every written, uncompleted call is in the Range snapshot; a
   visited call is completed); they are exercised by the correspondence families F3–F6 only. -/

/-- The "reply has arrived" disjunct of `C02_no_stuck`, without further hypotheses: in every reachable
    state in which no internal step is enabled, every call whose reply has been bound — whatever its
    decode outcome: ok, error under a known codec, error under codec id 0, decoder panic — has
    completed exactly once. -/
theorem C02_no_stuck_partial (s : State) (r : Reachable s)
    (hq : ∀ l : Label, l.internal = true → fire s l = none) :
    ∀ (i : Nat) (c : Call), s.calls[i]? = some c → c.hasReply = true → c.doneCount = 1 ∧ c.chanSends = 1 := by
  intro i c hci hr
  obtain ⟨hcr, hall⟩ := ainv_reach r
  have ci := hall i c hci
  rcases ci.replied hr with h | h
  · have := ci.le1; have := ci.sends; omega
  · exfalso
    have hd0 := ci.hpre h
    have hn := hq (.hDone i) rfl
    unfold fire at hn
    rw [if_neg (by simp [hcr])] at hn
    simp only [hci, h, if_true] at hn
    simp [complete, hd0] at hn

/-- the state after one call answered by a valid reply, everything settled. -/
def answered : State :=
  { calls := [{ pc := .returned, mu := .free, hasReply := true, stat := 0, doneCount := 1, chanSends := 1,
                inTable := false, rstat := 0, rerr := false, veto := false, ctxDone := false, tooBig := false,
                bytesRes := false, cap := 2 }],
    inq := [], lost := false, sockClosed := false, status := .ok, rpc := .reading, cpc := .idle, otherH := 0,
    crashed := false, leaked := false }

/-- non-vacuity of `C02_no_stuck_partial`: `answered` is reachable, quiescent and has a call with a
    reply. -/
example : Reachable answered ∧
    (∀ l : Label, l.internal = true → fire answered l = none) ∧
    ∃ c, answered.calls[0]? = some c ∧ c.hasReply = true := by
  have hr : run State.init [.issue false false false false 2, .store 0, .prewrite 0, .write 0 .ok, .unlock 0,
      .frame (.reply 1 .ok 0), .read, .bind, .hDone 0, .hUnlock 0] = some answered := by decide
  refine ⟨reach_run .init _ hr, ?_, ⟨_, rfl, rfl⟩⟩
  · intro l hl
    cases l with
    | write i o => rcases i with _ | i <;> cases o <;> simp [fire, answered]
    | store i => rcases i with _ | i <;> simp [fire, answered]
    | prewrite i => rcases i with _ | i <;> simp [fire, answered]
    | failDone i => rcases i with _ | i <;> simp [fire, answered]
    | unlock i => rcases i with _ | i <;> simp [fire, answered]
    | hDone i => rcases i with _ | i <;> simp [fire, answered]
    | hUnlock i => rcases i with _ | i <;> simp [fire, answered]
    | issue _ _ _ _ _ => simp [Label.internal] at hl
    | frame _ => simp [Label.internal] at hl
    | lose => simp [Label.internal] at hl
    | close => simp [Label.internal] at hl
    | _ => simp [fire, answered]

/-! ## request above the size limit -/

/-- A request above the message size limit (`tooBig`): the only outcome of its write is the size-limit
    error — nothing is written, no panic — and the caller completes the call itself with 104 before
    `AsyncCall` returns: completed exactly once, removed from the pending table, mutex released. (Before
    fix C02c jsonproto/pbproto panicked inside `Pack`, `AsyncCall` swallowed the panic and returned a
    nil `CallCmd` with the call still pending.) -/
theorem C02_oversize_request_completes :
    (∀ o : WOut, o ≠ .tooBig →
      (run State.init [.issue false false true false 2, .store 0, .prewrite 0, .write 0 o]) = none) ∧
    ∃ s, run State.init [.issue false false true false 2, .store 0, .prewrite 0, .write 0 .tooBig, .failDone 0,
        .unlock 0] = some s ∧
      ∃ c, s.calls[0]? = some c ∧ c.pc = .returned ∧ c.doneCount = 1 ∧ c.chanSends = 1 ∧ c.stat = 104 ∧
        c.inTable = false ∧ c.mu = .free := by
  refine ⟨?_, ?_⟩
  · intro o ho
    cases o with
    | tooBig => exact absurd rfl ho
    | err code => simp [run, fire, State.init, Call.fresh, State.setCall]
    | _ => decide
  · have h : run State.init [.issue false false true false 2, .store 0, .prewrite 0, .write 0 .tooBig, .failDone 0,
        .unlock 0] = some ((run State.init [.issue false false true false 2, .store 0, .prewrite 0, .write 0 .tooBig,
        .failDone 0, .unlock 0]).getD State.init) := by decide
    refine ⟨_, h, ?_⟩
    decide

/-! ## progress -/

/-- Every internal step (any step that is not a new external event: call issue, frame arrival,
    connection loss, Close call) strictly decreases the natural-number measure `measure`; so from any
    state only finitely many internal steps are possible before a state with no enabled internal step
    is reached — under weak fairness, "completion follows without any further external event" is exactly
    "no call that should be complete is incomplete in a state without enabled internal steps"
    (`C02_no_stuck_partial`). -/
theorem C02_measure (s t : State) (l : Label) (hl : l.internal = true) (hf : fire s l = some t) :
    measure t < measure s :=
  measure_step hl hf

end C02
end Teleport
