/-
Props/C02 — every call completes exactly once; none hangs, none completes twice.
Property theorems only. Model: Model/CallLife (one session, any number of calls, caller goroutines,
the reader, handler goroutines, the disconnect path, the closer, the environment); invariants in
Lemmas/CallLife.

Both defects that blocked the full-strength statements are repaired:
  * fix C02b: `bindReply` refuses a call that is already bound or already completed (a duplicate REPLY
    racing the first reply's `done()`, an early REPLY racing a failing write): `C02_at_most_once` holds
    without any hypothesis, the former witnesses are now runs with exactly one completion
    (`C02_duplicate_and_early_reply_harmless`);
  * fix C02a: the read loop never leaves with a call's mutex held (`C02_no_reader_lock`,
    `C02_bound_reply_completes`);
  * fix C02c: a request above the size limit fails its write with 104 instead of panicking inside `Pack`
    (`C02_oversize_request_completes`).

"None hangs" is proved at full strength (`C02_no_stuck`: reply arrived ∨ connection lost ∨ session closed,
in every reachable state without an enabled internal step; `C02_completion_follows`: every run of
internal steps from such a state is finite and, where it can go no further, has completed every call).
The invariant chain is in Lemmas/CallLifeLive (`GInv`). The model's cancel loop visits every entry that
is in the pending table when `Range` starts (the guarantee of goutil's atomicMap.Range) plus any others.
-/
import Teleport.Lemmas.CallLife
import Teleport.Lemmas.CallLifeLive
import Teleport.Gen.CallPath
namespace Teleport
namespace C02
open CallLife

/-! ## at most once -/

/-- For every interleaving of any number of callers, the reader, handlers, the disconnect path, the
    closer and the environment, and for every sequence of frames the peer sends (any seq — including
    duplicates of a seq and replies for seqs whose request is not written yet —, any decode outcome):
    every call's done channel has been closed at most once, it has been sent on its completion channel
    exactly as often, and the process has not crashed. -/
theorem C02_at_most_once (s : State) (r : Reachable s) :
    s.crashed = false ∧
    ∀ (i : Nat) (c : Call), s.calls[i]? = some c → c.doneCount ≤ 1 ∧ c.chanSends ≤ 1 ∧ c.chanSends = c.doneCount := by
  obtain ⟨h1, h2⟩ := ainv_reach r
  refine ⟨h1, fun i c hc => ?_⟩
  have ci := h2 i c hc
  exact ⟨ci.le1, ci.sends ▸ ci.le1, ci.sends⟩

/-- the schedule of the duplicate-reply race: the first reply is bound and its handler spawned; the
    reader looks the second reply's seq up (the call is still in the table) and waits for the mutex; the
    first handler completes the call and unlocks; the reader gets the mutex, finds the call completed
    and drops the frame (a handler goroutine for an unknown-seq reply runs and ends). -/
def dupRace : List Label :=
  [.issue false false false false 2, .store 0, .prewrite 0, .write 0 .ok, .unlock 0,
   .frame (.reply 1 .ok 0), .frame (.reply 1 .ok 0), .read, .bind, .read, .hDone 0, .hUnlock 0, .bind, .hOther]

/-- the early-reply schedule: the peer sends REPLY seq 1 before the request is written; the reader finds
    the stored call and waits for the mutex the caller still holds; the caller's write fails (cancelled
    context), it completes the call and unlocks; the reader gets the mutex, finds the call completed and
    drops the frame. -/
def earlyRace : List Label :=
  [.issue false true false false 2, .store 0, .frame (.reply 1 .ok 0), .read, .prewrite 0, .write 0 .ctxErr,
   .failDone 0, .unlock 0, .bind, .hOther]

/-- The two schedules that used to complete a call twice (`c02:double-completion`) now end with the call
    completed exactly once — by the first reply (status OK) resp. by the failed write (104) —, nothing
    bound a second time, no crash, the reader back in its loop. -/
theorem C02_duplicate_and_early_reply_harmless :
    (∃ s, run State.init dupRace = some s ∧ s.crashed = false ∧ s.rpc = .reading ∧ s.otherH = 0 ∧
      ∃ c, s.calls[0]? = some c ∧ c.chanSends = 1 ∧ c.doneCount = 1 ∧ c.stat = 0 ∧ c.mu = .free) ∧
    (∃ s, run State.init earlyRace = some s ∧ s.crashed = false ∧ s.rpc = .reading ∧ s.otherH = 0 ∧
      ∃ c, s.calls[0]? = some c ∧ c.chanSends = 1 ∧ c.doneCount = 1 ∧ c.stat = 104 ∧ c.hasReply = false ∧
        c.mu = .free) := by
  have h1 : run State.init dupRace = some ((run State.init dupRace).getD State.init) := by decide
  have h2 : run State.init earlyRace = some ((run State.init earlyRace).getD State.init) := by decide
  refine ⟨⟨_, h1, ?_⟩, ⟨_, h2, ?_⟩⟩ <;> decide

/-! ## hostile replies -/

/-- Hostile replies are harmless for at-most-once: whatever the decode outcome of a reply (ok, error with
    a known codec, error with codec id 0, decoder panic), whatever its status, whatever its seq (a
    pending call, an unknown seq, a duplicate, a seq whose request is still being written): one more
    frame and any step after it keep every call at one completion at most and the process alive. -/
theorem C02_hostile_reply (s t u : State) (r : Reachable s) (f : Frame)
    (hf : fire s (.frame f) = some t) (l : Label) (hl : fire t l = some u) :
    u.crashed = false ∧ ∀ (i : Nat) (c : Call), u.calls[i]? = some c → c.doneCount ≤ 1 ∧ c.chanSends ≤ 1 :=
  have ru : Reachable u := (r.step ⟨_, hf⟩).step ⟨_, hl⟩
  have h := C02_at_most_once u ru
  ⟨h.1, fun i c hc => ⟨(h.2 i c hc).1, (h.2 i c hc).2.1⟩⟩

/-- a reply whose call is already bound or completed is not bound again: the reader releases the mutex
    and goes on as for an unknown seq; no call record changes. -/
theorem C02_replied_call_not_rebound (s t : State) (i : Nat) (d : Dec) (rs : Nat) (c : Call)
    (hr : s.rpc = .bindWait i d rs) (hc : s.calls[i]? = some c) (hre : c.hasReply = true ∨ 1 ≤ c.doneCount)
    (hf : fire s .bind = some t) : t.calls = s.calls ∧ t.crashed = s.crashed ∧ (t.rpc = .reading ∨ t.rpc = .discLoad) := by
  unfold fire at hf
  split at hf
  · cases hf
  simp only [hr, hc] at hf
  by_cases hmu : c.mu ≠ .free
  · rw [if_pos hmu] at hf; cases hf
  rw [if_neg hmu, if_pos hre] at hf
  simp only [State.spawnOther] at hf
  split at hf <;> (cases hf; simp)

/-- non-vacuity of `C02_replied_call_not_rebound`: after the first 12 steps of `dupRace` the reader waits
    in `bindReply` for call 0, which has been completed by the first reply; the bind step is enabled. -/
example : ∃ s, run State.init (dupRace.take 12) = some s ∧ s.rpc = .bindWait 0 .ok 0 ∧ (fire s .bind).isSome = true ∧
    ∃ c, s.calls[0]? = some c ∧ c.hasReply = true ∧ c.doneCount = 1 := by
  have h : run State.init (dupRace.take 12) = some ((run State.init (dupRace.take 12)).getD State.init) := by decide
  refine ⟨_, h, ?_⟩
  decide

/-- a frame whose seq matches no table entry is never bound: the reader goes straight back to reading
    (or to the disconnect path) and no call record changes. -/
theorem C02_unknown_seq_not_bound (s t : State) (seq : Nat) (d : Dec) (rs : Nat) (rest : List Frame)
    (hr : s.rpc = .reading) (hq : s.inq = .reply seq d rs :: rest) (hl : s.lookup seq = none)
    (hf : fire s .read = some t) : t.calls = s.calls ∧ (t.rpc = .reading ∨ t.rpc = .discLoad) := by
  unfold fire at hf
  split at hf
  · cases hf
  simp only [hr, hq, hl, State.spawnOther] at hf
  split at hf <;> (cases hf; simp)


/-! ## no hang -/

/-- the run behind the former defect `c02:nilcodec-reply-wedges-call`: one call is written; the peer
    answers with a REPLY whose body decode fails while the codec id is 0 (`Dec.errNil`: codec id 0,
    non-empty body, result not `*[]byte`); then everything settles. -/
def wedgeRun : List Label :=
  [.issue false false false false 2, .store 0, .prewrite 0, .write 0 .ok, .unlock 0,
   .frame (.reply 1 .errNil 0), .read, .bind, .discLoad, .discStore, .discCtxWait [], .discPick, .discFinish]

def unwedged : State :=
  { calls := [{ pc := .returned, mu := .free, hasReply := true, stat := 400, doneCount := 1, chanSends := 1,
                inTable := false, rstat := 0, rerr := true, veto := false, ctxDone := false,
                tooBig := false, bytesRes := false, cap := 2 }],
    inq := [], lost := false, sockClosed := true, status := .passiveClosed, rpc := .stopped,
    cpc := .idle, otherH := 0, crashed := false, leaked := false }

/-- The reply that used to wedge the call and the reader now completes the call exactly once with
    400 (the reader runs `handleReply` itself before it leaves the loop), the mutex is free again, and
    the session reaches a closed state by itself; the same for a decoder panic. -/
theorem C02_bound_reply_completes :
    run State.init wedgeRun = some unwedged ∧
    run State.init (wedgeRun.set 5 (.frame (.reply 1 .panic 0))) = some unwedged := by
  decide

/-- In every reachable state — any interleaving, any frames, any decode outcomes — no call's mutex is
    held by the reader: whenever the reader binds a
    reply and then leaves the read loop (decode error under codec id 0, decoder panic, session no longer
    reading) it has completed and unlocked the call in the same step. -/
theorem C02_no_reader_lock (s : State) (r : Reachable s) :
    ∀ (i : Nat) (c : Call), s.calls[i]? = some c → c.mu ≠ .reader :=
  fun i c h => ((ainv_reach r).2 i c h).nord

/-- The "reply has arrived" disjunct of `C02_no_stuck`, without further hypotheses: in every reachable
    state in which no internal step is enabled, every call whose reply has been bound — whatever its
    decode outcome: ok, error under a known codec, error under codec id 0, decoder panic — has
    completed exactly once. -/
theorem C02_no_stuck_reply (s : State) (r : Reachable s)
    (hq : ∀ l : Label, l.internal = true → fire s l = none) :
    ∀ (i : Nat) (c : Call), s.calls[i]? = some c → c.hasReply = true → c.doneCount = 1 ∧ c.chanSends = 1 := by
  intro i c hci hr
  obtain ⟨hcr, hall⟩ := ainv_reach r
  have ci := hall i c hci
  rcases ci.replied hr with h | h
  · have := ci.le1; have := ci.sends; omega
  · exfalso
    have hd0 := ci.hpre h
    have hn := hq (.hDone i) rfl
    unfold fire at hn
    rw [if_neg (by simp [hcr])] at hn
    simp only [hci, h, if_true] at hn
    simp [complete, hd0] at hn

/-- the state after one call answered by a valid reply, everything settled. -/
def answered : State :=
  { calls := [{ pc := .returned, mu := .free, hasReply := true, stat := 0, doneCount := 1, chanSends := 1,
                inTable := false, rstat := 0, rerr := false, veto := false, ctxDone := false, tooBig := false,
                bytesRes := false, cap := 2 }],
    inq := [], lost := false, sockClosed := false, status := .ok, rpc := .reading, cpc := .idle, otherH := 0,
    crashed := false, leaked := false }

/-- non-vacuity of `C02_no_stuck_reply`: `answered` is reachable, quiescent and has a call with a
    reply. -/
example : Reachable answered ∧
    (∀ l : Label, l.internal = true → fire answered l = none) ∧
    ∃ c, answered.calls[0]? = some c ∧ c.hasReply = true := by
  have hr : run State.init [.issue false false false false 2, .store 0, .prewrite 0, .write 0 .ok, .unlock 0,
      .frame (.reply 1 .ok 0), .read, .bind, .hDone 0, .hUnlock 0] = some answered := by decide
  refine ⟨reach_run .init _ hr, ?_, ⟨_, rfl, rfl⟩⟩
  · intro l hl
    cases l with
    | write i o => rcases i with _ | i <;> cases o <;> simp [fire, answered]
    | store i => rcases i with _ | i <;> simp [fire, answered]
    | prewrite i => rcases i with _ | i <;> simp [fire, answered]
    | failDone i => rcases i with _ | i <;> simp [fire, answered]
    | unlock i => rcases i with _ | i <;> simp [fire, answered]
    | hDone i => rcases i with _ | i <;> simp [fire, answered]
    | hUnlock i => rcases i with _ | i <;> simp [fire, answered]
    | issue _ _ _ _ _ => simp [Label.internal] at hl
    | frame _ => simp [Label.internal] at hl
    | lose => simp [Label.internal] at hl
    | close => simp [Label.internal] at hl
    | _ => simp [fire, answered]

/-! ### connection lost -/

/-- Once the connection is lost (or the socket has been closed locally) and no internal step is enabled,
    the reader has run `readDisconnected` to its end: it neither sits in the read loop, nor waits for a
    call's mutex in `bindReply` or in the cancel loop, nor for the handler wait group. -/
theorem C02_lost_reader_stops (s : State) (r : Reachable s)
    (hq : ∀ l : Label, l.internal = true → fire s l = none) (hl : s.lost = true ∨ s.sockClosed = true) :
    s.rpc = .stopped :=
  quiescent_reader (ainv_reach r) (ginv_reach r) hq hl

/-- The "connection lost" disjunct of `C02_no_stuck`, without further hypotheses (that the reader has
    stopped is a consequence, `C02_lost_reader_stops`): in every reachable state — any interleaving of
    callers, reader, handlers, `Close`, the cancel loop in ANY visiting order that covers the table
    entries present when `Range` starts — in which the connection is lost and no internal step is
    enabled, EVERY call (written or not, stored before or after the cancel loop took its snapshot, with
    or without a reply) has completed exactly once. A call stored after the snapshot is not visited by
    the loop; it fails its own status check in `write` (102) and the caller runs `done()` itself. -/
theorem C02_no_stuck_lost (s : State) (r : Reachable s)
    (hq : ∀ l : Label, l.internal = true → fire s l = none) (hl : s.lost = true) :
    ∀ (i : Nat) (c : Call), s.calls[i]? = some c → c.doneCount = 1 ∧ c.chanSends = 1 :=
  quiescent_done (ainv_reach r) (ginv_reach r) hq (Or.inl hl)

/-- two calls: call 0 is written and unanswered when the connection is lost; call 1 is issued while the
    reader is on the disconnect path and stored AFTER the cancel loop took its snapshot (`[0]`). -/
def lostRun : List Label :=
  [.issue false false false false 2, .store 0, .prewrite 0, .write 0 .ok, .unlock 0, .lose, .readerEof, .discLoad,
   .discStore, .issue false false false false 2, .discCtxWait [0], .store 1, .prewrite 1, .write 1 .refused, .failDone 1,
   .unlock 1, .discPick, .discVisit, .discPick, .discFinish]

def lostEnd : State :=
  { calls := [{ pc := .returned, mu := .free, hasReply := false, stat := 102, doneCount := 1, chanSends := 1,
                inTable := false, rstat := 0, rerr := false, veto := false, ctxDone := false, tooBig := false,
                bytesRes := false, cap := 2 },
              { pc := .returned, mu := .free, hasReply := false, stat := 102, doneCount := 1, chanSends := 1,
                inTable := false, rstat := 0, rerr := false, veto := false, ctxDone := false, tooBig := false,
                bytesRes := false, cap := 2 }],
    inq := [], lost := true, sockClosed := true, status := .passiveClosed, rpc := .stopped, cpc := .idle, otherH := 0,
    crashed := false, leaked := false }

/-- non-vacuity of `C02_no_stuck_lost` / `C02_lost_reader_stops`: `lostEnd` is reachable (by `lostRun`:
    call 0 is cancelled by the loop, call 1 — stored after the snapshot — by its own caller), its
    connection is lost and no internal step is enabled. -/
example : Reachable lostEnd ∧ lostEnd.lost = true ∧
    (∀ l : Label, l.internal = true → fire lostEnd l = none) := by
  have hr : run State.init lostRun = some lostEnd := by decide
  refine ⟨reach_run .init _ hr, rfl, ?_⟩
  intro l hl
  cases l with
  | write i o => rcases i with _ | _ | i <;> cases o <;> simp [fire, lostEnd]
  | store i => rcases i with _ | _ | i <;> simp [fire, lostEnd]
  | prewrite i => rcases i with _ | _ | i <;> simp [fire, lostEnd]
  | failDone i => rcases i with _ | _ | i <;> simp [fire, lostEnd]
  | unlock i => rcases i with _ | _ | i <;> simp [fire, lostEnd]
  | hDone i => rcases i with _ | _ | i <;> simp [fire, lostEnd]
  | hUnlock i => rcases i with _ | _ | i <;> simp [fire, lostEnd]
  | issue _ _ _ _ _ => simp [Label.internal] at hl
  | frame _ => simp [Label.internal] at hl
  | lose => simp [Label.internal] at hl
  | close => simp [Label.internal] at hl
  | _ => simp [fire, lostEnd]

/-- The cancel loop must cover the table: a `Range` that yields nothing is not a step of the model when a
    call is pending (before the guard on `discCtxWait` was added — "ANY index list" — this run ended in a
    quiescent state with the connection lost and call 0 never completed; the real `atomicMap.Range`
    visits every key present at its start). -/
theorem C02_range_covers_table :
    run State.init [.issue false false false false 2, .store 0, .prewrite 0, .write 0 .ok, .unlock 0, .lose, .readerEof,
      .discLoad, .discStore, .discCtxWait []] = none ∧
    (run State.init [.issue false false false false 2, .store 0, .prewrite 0, .write 0 .ok, .unlock 0, .lose, .readerEof,
      .discLoad, .discStore, .discCtxWait [0]]).isSome = true := by
  decide

/-! ### session closed -/

/-- `Close` waits for the outstanding calls: in EVERY reachable state (no quiescence needed) whose
    status is ActiveClosed — `closeLocked` got past `graceCallCmdWaitGroup.Wait()` — every call whose
    caller is past a successful write has completed exactly once; and no call is written afterwards
    (a later `write` fails the status check), so this stays true. -/
theorem C02_close_waits (s : State) (r : Reachable s) (hst : s.status = .activeClosed) :
    ∀ (i : Nat) (c : Call), s.calls[i]? = some c → (c.pc = .written ∨ c.pc = .unlocking ∨ c.pc = .returned) →
      c.doneCount = 1 ∧ c.chanSends = 1 := by
  intro i c hc hpc
  have ci := (ainv_reach r).2 i c hc
  have hnp := (ginv_reach r).ac hst i c hc
  have h1 : c.doneCount ≠ 0 := fun h0 => hnp ⟨h0, hpc⟩
  have := ci.le1; have := ci.sends
  omega

/-- Once the reader is on the disconnect path past its status decision, the status word is never Ok
    again (so every later `write` is refused with 102), and a closed status comes with a closed socket
    (so the read loop ends without a further external event). -/
theorem C02_status_not_ok_again (s : State) (r : Reachable s) :
    ((s.rpc ≠ .reading ∧ (∀ i d rs, s.rpc ≠ .bindWait i d rs) ∧ s.rpc ≠ .discLoad ∧ s.rpc ≠ .discStore) →
      s.status ≠ .ok) ∧
    (s.status.closed = true → s.sockClosed = true) := by
  have g := ginv_reach r
  refine ⟨?_, g.sock⟩
  intro ⟨h1, h2, h3, h4⟩ hst
  have hc := g.cpl
  rw [hst] at hc
  cases hr : s.rpc with
  | reading => exact h1 hr
  | bindWait i d rs => exact h2 i d rs hr
  | discLoad => exact h3 hr
  | discStore => exact h4 hr
  | discCtxWait a => rw [hr] at hc; cases a <;> simp [couple, SS.isAct, SS.isPC] at hc
  | discLoop a t => rw [hr] at hc; cases a <;> simp [couple, SS.isAct, SS.isPC] at hc
  | discLock a i t => rw [hr] at hc; cases a <;> simp [couple, SS.isAct, SS.isPC] at hc
  | discFinish => rw [hr] at hc; simp [couple, SS.isPC] at hc
  | stopped => rw [hr] at hc; simp [couple, SS.post] at hc

/-- The "session closed" disjunct of `C02_no_stuck`, without further hypotheses: in every reachable
    state whose status is ActiveClosed or PassiveClosed and in which no internal step is enabled, EVERY
    call — also one issued, stored or about to be written while or after the session closed — has
    completed exactly once. -/
theorem C02_no_stuck_closed (s : State) (r : Reachable s)
    (hq : ∀ l : Label, l.internal = true → fire s l = none) (hc : s.status.closed = true) :
    ∀ (i : Nat) (c : Call), s.calls[i]? = some c → c.doneCount = 1 ∧ c.chanSends = 1 :=
  quiescent_done (ainv_reach r) (ginv_reach r) hq (Or.inr ((ginv_reach r).sock hc))

/-- call 0 is written; the application calls `Close`, which waits for it; the reply arrives and completes
    it; `Close` returns; call 1 is issued on the closed session and fails its write with 102; the reader
    ends on the closed socket. The connection is never lost. -/
def closedRun : List Label :=
  [.issue false false false false 2, .store 0, .prewrite 0, .write 0 .ok, .unlock 0, .close, .closeCtxWait,
   .frame (.reply 1 .ok 0), .read, .bind, .hDone 0, .hUnlock 0, .closeCallWait,
   .issue false false false false 2, .store 1, .prewrite 1, .write 1 .refused, .failDone 1, .unlock 1,
   .readerEof, .discLoad]

def closedEnd : State :=
  { calls := [{ pc := .returned, mu := .free, hasReply := true, stat := 0, doneCount := 1, chanSends := 1,
                inTable := false, rstat := 0, rerr := false, veto := false, ctxDone := false, tooBig := false,
                bytesRes := false, cap := 2 },
              { pc := .returned, mu := .free, hasReply := false, stat := 102, doneCount := 1, chanSends := 1,
                inTable := false, rstat := 0, rerr := false, veto := false, ctxDone := false, tooBig := false,
                bytesRes := false, cap := 2 }],
    inq := [], lost := false, sockClosed := true, status := .activeClosed, rpc := .stopped, cpc := .returned,
    otherH := 0, crashed := false, leaked := false }

/-- non-vacuity of `C02_no_stuck_closed` / `C02_close_waits`: `closedEnd` is reachable (by `closedRun`),
    closed (ActiveClosed, connection not lost) and no internal step is enabled. -/
example : Reachable closedEnd ∧ closedEnd.status.closed = true ∧ closedEnd.status = .activeClosed ∧
    closedEnd.lost = false ∧ (∀ l : Label, l.internal = true → fire closedEnd l = none) := by
  have hr : run State.init closedRun = some closedEnd := by decide
  refine ⟨reach_run .init _ hr, rfl, rfl, rfl, ?_⟩
  intro l hl
  cases l with
  | write i o => rcases i with _ | _ | i <;> cases o <;> simp [fire, closedEnd]
  | store i => rcases i with _ | _ | i <;> simp [fire, closedEnd]
  | prewrite i => rcases i with _ | _ | i <;> simp [fire, closedEnd]
  | failDone i => rcases i with _ | _ | i <;> simp [fire, closedEnd]
  | unlock i => rcases i with _ | _ | i <;> simp [fire, closedEnd]
  | hDone i => rcases i with _ | _ | i <;> simp [fire, closedEnd]
  | hUnlock i => rcases i with _ | _ | i <;> simp [fire, closedEnd]
  | issue _ _ _ _ _ => simp [Label.internal] at hl
  | frame _ => simp [Label.internal] at hl
  | lose => simp [Label.internal] at hl
  | close => simp [Label.internal] at hl
  | _ => simp [fire, closedEnd]

/-- `Close` really waits (non-vacuity of the blocking side of `C02_close_waits`): after the first seven
    steps of `closedRun` — call 0 written and unanswered, `Close` past the handler wait group — the step
    that lets `Close` return is not enabled. -/
example : ∃ s, run State.init (closedRun.take 7) = some s ∧ s.cpc = .callWait ∧ fire s .closeCallWait = none := by
  have h : run State.init (closedRun.take 7) = some ((run State.init (closedRun.take 7)).getD State.init) := by decide
  exact ⟨_, h, by decide, by decide⟩

/-! ### all three -/

/-- NONE HANGS, full strength. For every interleaving of any number of callers, the reader, handler
    goroutines, the disconnect path (cancel loop in any order), `Close`, and every environment (frames
    with any seq / decode outcome / status, connection loss, write cuts): in every reachable state in
    which no internal step is enabled — every further step needs a NEW external event — every call whose
    reply has arrived, or whose connection has been lost, or whose session has been closed, has
    completed exactly once (done channel closed once, one send on the completion channel). -/
theorem C02_no_stuck (s : State) (r : Reachable s) (hq : ∀ l : Label, l.internal = true → fire s l = none) :
    ∀ (i : Nat) (c : Call), s.calls[i]? = some c →
      (c.hasReply = true ∨ s.lost = true ∨ s.status.closed = true) → c.doneCount = 1 ∧ c.chanSends = 1 := by
  intro i c hc h
  rcases h with h | h | h
  · exact C02_no_stuck_reply s r hq i c hc h
  · exact C02_no_stuck_lost s r hq h i c hc
  · exact C02_no_stuck_closed s r hq h i c hc

/-- non-vacuity of `C02_no_stuck`: the three witnesses above are reachable quiescent states, one per
    disjunct, and in none of them the other two disjuncts' conditions are needed (`answered`: not lost,
    status Ok; `closedEnd`: not lost; `lostEnd`: call without a reply). -/
example : (answered.lost = false ∧ answered.status.closed = false) ∧ closedEnd.lost = false ∧
    (∃ c, lostEnd.calls[0]? = some c ∧ c.hasReply = false ∧ c.stat = 102) := by decide

/-! ## request above the size limit -/

/-- A request above the message size limit (`tooBig`): the only outcome of its write is the size-limit
    error — nothing is written, no panic — and the caller completes the call itself with 104 before
    `AsyncCall` returns: completed exactly once, removed from the pending table, mutex released. (Before
    fix C02c jsonproto/pbproto panicked inside `Pack`, `AsyncCall` swallowed the panic and returned a
    nil `CallCmd` with the call still pending.) -/
theorem C02_oversize_request_completes :
    (∀ o : WOut, o ≠ .tooBig →
      (run State.init [.issue false false true false 2, .store 0, .prewrite 0, .write 0 o]) = none) ∧
    ∃ s, run State.init [.issue false false true false 2, .store 0, .prewrite 0, .write 0 .tooBig, .failDone 0,
        .unlock 0] = some s ∧
      ∃ c, s.calls[0]? = some c ∧ c.pc = .returned ∧ c.doneCount = 1 ∧ c.chanSends = 1 ∧ c.stat = 104 ∧
        c.inTable = false ∧ c.mu = .free := by
  refine ⟨?_, ?_⟩
  · intro o ho
    cases o with
    | tooBig => exact absurd rfl ho
    | err code => simp [run, fire, State.init, Call.fresh, State.setCall]
    | _ => decide
  · have h : run State.init [.issue false false true false 2, .store 0, .prewrite 0, .write 0 .tooBig, .failDone 0,
        .unlock 0] = some ((run State.init [.issue false false true false 2, .store 0, .prewrite 0, .write 0 .tooBig,
        .failDone 0, .unlock 0]).getD State.init) := by decide
    refine ⟨_, h, ?_⟩
    decide

/-! ## progress -/

/-- Every internal step (any step that is not a new external event: call issue, frame arrival,
    connection loss, Close call) strictly decreases the natural-number measure `measure`; so from any
    state only finitely many internal steps are possible before a state with no enabled internal step
    is reached. -/
theorem C02_measure (s t : State) (l : Label) (hl : l.internal = true) (hf : fire s l = some t) :
    measure t < measure s :=
  measure_step hl hf

/-- "Once the reply has arrived, the connection has been lost, or the session has been closed,
    completion follows without any further external event": from a reachable state `s`, every run of
    internal steps only (no call issue, no frame, no loss, no `Close` call) has at most `measure s`
    steps; it keeps the same calls; and when it reaches a state `t` in which it cannot be extended
    (no internal step enabled — which every maximal run does, by the bound), every call that had its
    reply in `s`, and every call at all if in `s` the connection was lost or the session closed, has
    completed exactly once in `t`. -/
theorem C02_completion_follows (s t : State) (r : Reachable s) (ls : List Label)
    (hint : ∀ l ∈ ls, l.internal = true) (hrun : run s ls = some t)
    (hq : ∀ l : Label, l.internal = true → fire t l = none) :
    ls.length ≤ measure s ∧ t.calls.length = s.calls.length ∧
    ∀ (i : Nat) (c : Call), t.calls[i]? = some c →
      ((c.hasReply = true ∨ s.lost = true ∨ s.status.closed = true) → c.doneCount = 1 ∧ c.chanSends = 1) := by
  obtain ⟨h1, h2, h3, h4⟩ := run_internal ls hint hrun
  have rt : Reachable t := reach_run r ls hrun
  refine ⟨by omega, h4, ?_⟩
  intro i c hc h
  rcases h with h | h | h
  · exact C02_no_stuck_reply t rt hq i c hc h
  · exact C02_no_stuck_lost t rt hq (h2 h) i c hc
  · exact quiescent_done (ainv_reach rt) (ginv_reach rt) hq (Or.inr (h3 ((ginv_reach r).sock h))) i c hc

/-- the state right after the connection loss in `lostRun`: call 0 written and pending, the reader still
    in its read loop. -/
def lostMid : State :=
  { calls := [{ pc := .returned, mu := .free, hasReply := false, stat := 0, doneCount := 0, chanSends := 0,
                inTable := true, rstat := 0, rerr := false, veto := false, ctxDone := false, tooBig := false,
                bytesRes := false, cap := 2 }],
    inq := [], lost := true, sockClosed := false, status := .ok, rpc := .reading, cpc := .idle, otherH := 0,
    crashed := false, leaked := false }

def lostMidEnd : State :=
  { calls := [{ pc := .returned, mu := .free, hasReply := false, stat := 102, doneCount := 1, chanSends := 1,
                inTable := false, rstat := 0, rerr := false, veto := false, ctxDone := false, tooBig := false,
                bytesRes := false, cap := 2 }],
    inq := [], lost := true, sockClosed := true, status := .passiveClosed, rpc := .stopped, cpc := .idle, otherH := 0,
    crashed := false, leaked := false }

/-- non-vacuity of `C02_completion_follows`: `lostMid` is reachable, its connection is lost and its call
    is not completed; 8 internal steps and nothing else lead to `lostMidEnd`, in which no internal step
    is enabled and the call has been cancelled. -/
example : Reachable lostMid ∧ lostMid.lost = true ∧
    run lostMid [.readerEof, .discLoad, .discStore, .discCtxWait [0], .discPick, .discVisit, .discPick, .discFinish]
      = some lostMidEnd ∧
    (∀ l ∈ [Label.readerEof, .discLoad, .discStore, .discCtxWait [0], .discPick, .discVisit, .discPick, .discFinish],
      l.internal = true) ∧
    (∀ l : Label, l.internal = true → fire lostMidEnd l = none) := by
  have hr : run State.init (lostRun.take 6) = some lostMid := by decide
  refine ⟨reach_run .init _ hr, rfl, by decide, by decide, ?_⟩
  intro l hl
  cases l with
  | write i o => rcases i with _ | i <;> cases o <;> simp [fire, lostMidEnd]
  | store i => rcases i with _ | i <;> simp [fire, lostMidEnd]
  | prewrite i => rcases i with _ | i <;> simp [fire, lostMidEnd]
  | failDone i => rcases i with _ | i <;> simp [fire, lostMidEnd]
  | unlock i => rcases i with _ | i <;> simp [fire, lostMidEnd]
  | hDone i => rcases i with _ | i <;> simp [fire, lostMidEnd]
  | hUnlock i => rcases i with _ | i <;> simp [fire, lostMidEnd]
  | issue _ _ _ _ _ => simp [Label.internal] at hl
  | frame _ => simp [Label.internal] at hl
  | lose => simp [Label.internal] at hl
  | close => simp [Label.internal] at hl
  | _ => simp [fire, lostMidEnd]
/-! ## tie A: the statement shape of the call life cycle (`Teleport.Gen.CallPath`, regenerated from
`session.go` / `context.go` on every run by `srcfacts`). Each theorem states "the extracted fact = the
shape Model/CallLife assumes" and names the label of `CallLife.fire` it justifies. -/

/-- keep only the landmarks named in `ks` (the order relative to other landmarks is not the fact). -/
def proj (ks l : List String) : List String := l.filter ks.contains

/-- the landmark statements `AsyncCall` may contain. -/
def asyncCallKnown : List String :=
  ["seq.alloc", "callWG.add", "cmd.mu.lock", "defer cmd.mu.unlock", "table.store", "prewrite", "done@veto", "write",
   "done@write-failure", "postwrite"]

/-- **Labels `issue · store · prewrite · write · failDone · unlock` of `CallLife.fire`.** The caller's
    program counter runs `locked → stored → (prewrite veto: failing) → writing → (write failed: failing) →
    written → unlocking`, the call's mutex is `Mu.caller` from `issue` to `unlock`, and `callWG` counts the
    call from `issue` on. The code justifies it iff in `AsyncCall`: the call's mutex is locked and its
    release deferred BEFORE the call is stored in the pending table (nobody who finds it there can act on
    it before the caller leaves); the store precedes the pre-write hook and the write; `done()` is called
    exactly in the veto branch (before the write) and in the write-failure branch (after it), both
    followed by `return`; `graceCallCmdWaitGroup.Add(1)` precedes the store (the canceller's `Done` cannot
    come first); and there is no other landmark (no second store, no un-deferred unlock, no `done()`
    elsewhere, nothing inside a closure). -/
theorem C02_callpath_asynccall_shape :
    Gen.callPath_missing = [] ∧
    proj ["cmd.mu.lock", "defer cmd.mu.unlock", "table.store", "prewrite", "done@veto", "write", "done@write-failure"]
        Gen.asyncCall_landmarks =
      ["cmd.mu.lock", "defer cmd.mu.unlock", "table.store", "prewrite", "done@veto", "write", "done@write-failure"] ∧
    proj ["callWG.add", "table.store"] Gen.asyncCall_landmarks = ["callWG.add", "table.store"] ∧
    Gen.asyncCall_landmarks.all asyncCallKnown.contains = true ∧
    Gen.asyncCall_landmarks.length = asyncCallKnown.length := by
  decide

/-- **`CallLife.complete`** (used by `failDone`, `hDone`, `bind`→finish, `discVisit`): ONE table delete, ONE
    send on the completion channel, ONE `close(doneChan)`, ONE `callWG.Done`, in this order, all
    unconditional — `chanSends` and `doneCount` grow by exactly one per completion, which is what
    `C02_at_most_once` counts (a second `close` is the crash the model records). The code justifies it iff
    `callCmd.done` and `callCmd.cancel` consist of exactly these four landmark statements. -/
theorem C02_callpath_complete_once :
    Gen.callPath_missing = [] ∧
    Gen.callCmd_done = ["table.delete", "chan.send", "close.doneChan", "callWG.done"] ∧
    Gen.callCmd_cancel = ["table.delete", "chan.send", "close.doneChan", "callWG.done"] := by
  decide

/-- **Labels `read` (table lookup by the frame's seq) and `bind`** (`mu.Lock`; a call that already has a
    reply or is already completed is unlocked again and forgotten, otherwise it stays locked for
    `handleReply`). The code justifies it iff `bindReply` loads the call by the header parameter's
    `Seq()`, binds it to the context, locks its mutex unconditionally exactly once, and every exit is one
    of: before the lock (unknown seq); after the lock with `mu.Unlock()` AND `c.callCmd = nil` on the way
    (exactly one such path: fix fc90a5b); after the lock with the call still bound and the mutex still
    held (the bound exits, at least one) — never unlocked-but-bound or unbound-but-locked. -/
theorem C02_callpath_bindreply_locks :
    Gen.callPath_missing = [] ∧
    Gen.bindReply_lookup_key = ["param.Seq()"] ∧
    Gen.bindReply_landmarks = ["table.load", "bind", "mu.lock", "mu.unlock@branch", "unbind"] ∧
    Gen.bindReply_exits.all ["before-lock", "after-lock:unlock+unbind", "after-lock:bound"].contains = true ∧
    Gen.bindReply_exits.count "before-lock" = 1 ∧
    Gen.bindReply_exits.count "after-lock:unlock+unbind" = 1 ∧
    Gen.bindReply_exits.contains "after-lock:bound" = true := by
  decide

/-- **Labels `hDone` then `hUnlock`** (and the reader-side finish of `bind`): the completion happens while
    the call's mutex is still held and the mutex is released afterwards on EVERY path, including a
    panicking hook (`C02_no_reader_lock`, `C02_bound_reply_completes`). The code justifies it iff
    `handleReply` returns at once when no call is bound and otherwise defers ONE function literal whose
    unconditional statements contain, in this order, `recover()`, `c.callCmd.done()`, `c.callCmd.mu.Unlock()`
    — no `return` inside, neither statement under a condition. -/
theorem C02_callpath_handlereply_done_then_unlock :
    Gen.callPath_missing = [] ∧
    Gen.handleReply_prefix = ["guard:callCmd==nil:return"] ∧
    Gen.handleReply_deferred = ["recover", "done", "mu.unlock"] := by
  decide

/-- **The read loop never leaves a bound call behind** (fix ba33958; label `bind` with decode outcome
    `errNil`/`panic`, and the failed spawn): `finishBoundReply` exists, does nothing when no call is bound
    and otherwise calls `handleReply` unconditionally; `startReadAndHandle` calls it on each of the three
    paths on which `handle()` is not dispatched: after a recovered panic of `ReadMessage`, when leaving
    the loop after a read error without codec / a closed session, and when the handler goroutine could
    not be spawned. -/
theorem C02_callpath_finish_bound_reply :
    Gen.callPath_missing = [] ∧
    Gen.finishBoundReply_landmarks = ["guard:callCmd==nil:return", "handleReply"] ∧
    Gen.finishBoundReply_sites = ["deferred:after-recover", "loop:leaving", "loop:handle-not-spawned"] := by
  decide

end C02
end Teleport
