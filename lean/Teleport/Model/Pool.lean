/-
Model/Pool — the pooled objects of the framework with their *stale storage made explicit*
(property C20): `utils.Args` (`utils/args.go`: a slice with len < cap whose tail slots keep the
previous user's key/value buffers), `xfer.XferPipe`, `utils.ByteBuffer`, `socket.message`
(`socket/message.go`: Reset, GetMessage/PutMessage), `handlerCtx` (`context.go`: clean, reInit,
newReadHandleCtx; `peer.go`: getContext/putContext) and `socket.socket` (`socket/socket.go`: Reset,
Close's pool branch, NewSocket/GetSocket).

Conventions: a Go slice `s` is split into its visible part `s[:len]` (`live`) and the slots
`s[len:cap]` (`stale`) whose old contents are still in memory. A Go panic is an explicit outcome
(`Ret.panic`; the only one left is `Swap().Store` on a context whose swap is nil — `ParseBytes` has
no panic point since `hex2intTable` has 256 entries). Core Lean only (linked into the driver).
-/
import Teleport.Model.RawProto
namespace Teleport
namespace Pool
open Bytes

abbrev KV := Args.KV

/-! ## byte buffers of one argsKV slot -/

/-- `decodeArgAppend(dst[:0], src, true)` (`utils/args.go`, `hexbyte2int` over the 256-entry
    `hex2intTable` of `utils/bytesconv.go`): the bytes appended. The function returns on every input
    — there is no panic point — so the slice header of the slot is always updated. -/
def unquoteF : Nat → Bytes → Bytes
  | 0, _ => []
  | _, [] => []
  | fuel + 1, c :: rest =>
    if c == 37 then
      match rest with
      | h1 :: h2 :: rest' =>
        if hexValFixed h1 < 0 || hexValFixed h2 < 0 then c :: unquoteF fuel rest
        else (hexValFixed h1 * 16 + hexValFixed h2).toNat.toUInt8 :: unquoteF fuel rest'
      | _ => c :: rest
    else if c == 43 then 32 :: unquoteF fuel rest
    else c :: unquoteF fuel rest

/-- fuel = input length (every step consumes at least one byte). -/
def unquoteP (b : Bytes) : Bytes := unquoteF b.length b

/-- outcome of one `argsScanner.next(kv)` on a non-empty buffer. -/
structure NextOut where
  kv       : KV
  rest     : Bytes
deriving DecidableEq, Repr

/-- `argsScanner.next(kv)` where `*kv` currently holds `_old` (a zero slot or a stale one): both
    `kv.key` and `kv.value` are assigned on every path (`decodeArg(kv.key[:0], …)`,
    `kv.value = kv.value[:0]`), so the previous content is never visible afterwards. -/
def scanNext (_old : KV) (b : Bytes) : NextOut :=
  let rest := (Args.splitAmp b).2.getD []
  match Args.splitEq (Args.splitAmp b).1 with
  | (k, none) => ⟨(unquoteP k, []), rest⟩
  | (k, some v) => ⟨(unquoteP k, unquoteP v), rest⟩

/-! ## utils.Args -/

/-- `utils.Args`: `live` = `a.args[:len]`, `stale` = `a.args[len:cap]` (slots with the key/value
    buffers their last user left), `buf` = visible content of the scratch buffer `a.buf`. -/
structure PArgs where
  live  : List KV := []
  stale : List KV := []
  buf   : Bytes := []
deriving DecidableEq, Repr, Inhabited

namespace PArgs

/-- `&Args{}` -/
def fresh : PArgs := {}

/-- `Args.Reset`: `a.args = a.args[:0]` — every slot stays in memory. -/
def reset (a : PArgs) : PArgs := { a with live := [], stale := a.live ++ a.stale }

/-- `allocArg`: the slot handed out (`h[:n+1]` re-uses the first stale slot *with its contents*;
    `append(h, argsKV{})` gives a zero slot; capacity gained by growing holds zero slots only, which
    behave like no slots) and the remaining stale slots. -/
def allocSlot : List KV → KV × List KV
  | s :: r => (s, r)
  | [] => (([], []), [])

/-- `kv.key = append(kv.key[:0], key...); kv.value = append(kv.value[:0], value...)`. -/
def writeKV (_old : KV) (k v : Bytes) : KV := (k, v)

/-- `appendArg` -/
def appendArg (a : PArgs) (k v : Bytes) : PArgs :=
  { a with live := a.live ++ [writeKV (allocSlot a.stale).1 k v], stale := (allocSlot a.stale).2 }

/-- the loop of `setArg`: overwrite the value of the first slot whose key is `k`. -/
def setLive (k v : Bytes) : List KV → Option (List KV)
  | [] => none
  | kv :: r => if kv.1 == k then some ((kv.1, v) :: r) else (setLive k v r).map (kv :: ·)

/-- `setArg` -/
def setArg (a : PArgs) (k v : Bytes) : PArgs :=
  match setLive k v a.live with
  | some l => { a with live := l }
  | none => appendArg a k v

/-- `delAllArgs` exactly as coded: after a deletion the element that moved into position `i` is
    skipped by the `i++` of the loop. Result: (kept slots, removed slots — last removed first, which
    is the order in which they lie behind the new length). -/
def delLoop (key : Bytes) : List KV → List KV × List KV
  | [] => ([], [])
  | kv :: tl =>
    if kv.1 == key then
      match tl with
      | [] => ([], [kv])
      | x :: tl' => let r := delLoop key tl'; (x :: r.1, r.2 ++ [kv])
    else let r := delLoop key tl; (kv :: r.1, r.2)

/-- `Args.Del` -/
def del (a : PArgs) (k : Bytes) : PArgs :=
  { a with live := (delLoop k a.live).1, stale := (delLoop k a.live).2 ++ a.stale }

/-- `Args.Peek` / `PeekBytes` (`none` = the nil result for an absent key). -/
def peek (a : PArgs) (k : Bytes) : Option Bytes := (a.live.find? (·.1 == k)).map (·.2)

/-- `Args.Has` -/
def has (a : PArgs) (k : Bytes) : Bool := a.live.any (·.1 == k)

/-- `src.CopyTo(dst)`: `dst.Reset()` then `copyArgs(dst.args, src.args)`; a too small `dst` is
    replaced by a new array (`copy(tmp, dst)` copies nothing because `len(dst) = 0`). -/
def copyFrom (dst : PArgs) (src : List KV) : PArgs :=
  if (dst.live ++ dst.stale).length < src.length then { dst with live := src, stale := [] }
  else { dst with live := src, stale := (dst.live ++ dst.stale).drop src.length }

def nonEmptyKV (kv : KV) : Bool := !(kv.1.isEmpty && kv.2.isEmpty)

/-- the loop of `ParseBytes`. `kept` = slots completed so far, `cur` = content of the slot `kv`
    points to, `stale` = slots behind it. Result: (kept, cur, stale). Fuel = len b + 1. -/
def parseLoop : Nat → List KV → KV → List KV → Bytes → List KV × KV × List KV
  | 0, kept, cur, stale, _ => (kept, cur, stale)
  | fuel + 1, kept, cur, stale, b =>
    if b.isEmpty then (kept, cur, stale) else
    if nonEmptyKV (scanNext cur b).kv then
      parseLoop fuel (kept ++ [(scanNext cur b).kv]) (allocSlot stale).1 (allocSlot stale).2 (scanNext cur b).rest
    else parseLoop fuel kept (scanNext cur b).kv stale (scanNext cur b).rest

/-- `Args.ParseBytes(b)`: the state afterwards (`allocArg` … loop … `releaseArg`: the slot being
    written when the input ends goes back behind the length). -/
def parseBytes (a : PArgs) (b : Bytes) : PArgs :=
  let s := allocSlot (a.live ++ a.stale)
  let r := parseLoop (b.length + 1) [] s.1 s.2 b
  { a with live := r.1, stale := r.2.1 :: r.2.2 }

/-- `Args.Parse(s)`: `a.buf = append(a.buf[:0], s...)` then `ParseBytes(a.buf)`. -/
def parseStr (a : PArgs) (b : Bytes) : PArgs := parseBytes { a with buf := b } b

/-- `Args.QueryString`: `a.buf = a.AppendBytes(a.buf[:0])`. -/
def queryString (a : PArgs) : PArgs × Bytes := ({ a with buf := Args.query a.live }, Args.query a.live)

/-- the pairs `ParseBytes(b)` leaves. -/
def parseLive (b : Bytes) : List KV := (parseLoop (b.length + 1) [] ([], []) [] b).1

end PArgs

/-- result of one operation as the caller sees it. -/
inductive Ret
  | unit
  | bytes (b : Option Bytes)
  | bool (b : Bool)
  | err            -- the call returned a non-nil error
  | panic
  | packed (b : Bytes) (size : Nat)
  | packErr (e : Raw.PackErr)
deriving DecidableEq, Repr

/-- operations on an `Args` (the public API used by the framework and its users). -/
inductive AOp
  | add (k v : Bytes)          -- Add / AddBytesKV ...
  | set (k v : Bytes)          -- Set / SetBytesKV ...
  | del (k : Bytes)            -- Del / DelBytes
  | peek (k : Bytes)           -- Peek / PeekBytes
  | has (k : Bytes)            -- Has / HasBytes
  | parse (b : Bytes)          -- ParseBytes
  | parseStr (b : Bytes)       -- Parse
  | query                      -- QueryString / String / AppendBytes(nil)
  | reset                      -- Reset
  | copyFrom (src : List KV)   -- other.CopyTo(this), `other` holding `src`
deriving DecidableEq, Repr

namespace PArgs

def step (a : PArgs) : AOp → PArgs × Ret
  | .add k v => (a.appendArg k v, .unit)
  | .set k v => (a.setArg k v, .unit)
  | .del k => (a.del k, .unit)
  | .peek k => (a, .bytes (a.peek k))
  | .has k => (a, .bool (a.has k))
  | .parse b => (a.parseBytes b, .unit)
  | .parseStr b => (a.parseStr b, .unit)
  | .query => (a.queryString.1, .bytes (some a.queryString.2))
  | .reset => (a.reset, .unit)
  | .copyFrom src => (a.copyFrom src, .unit)

/-- everything a user can read from an `Args`: `Len`, the `VisitAll` sequence, the query string. -/
structure Obs where
  len   : Nat
  pairs : List KV
  query : Bytes
deriving DecidableEq, Repr

def obs (a : PArgs) : Obs := ⟨a.live.length, a.live, Args.query a.live⟩

def exec (a : PArgs) : List AOp → PArgs
  | [] => a
  | op :: ops => exec (a.step op).1 ops

/-- run a sequence: the result of every call and the full observation after every call. -/
def run (a : PArgs) : List AOp → List (Ret × Obs)
  | [] => []
  | op :: ops => ((a.step op).2, obs (a.step op).1) :: run (a.step op).1 ops

end PArgs

/-! ## xfer.XferPipe -/

/-- `XferPipe.filters` as ids: visible part and the slots behind the length. -/
structure PPipe where
  live  : List UInt8 := []
  stale : List UInt8 := []
deriving DecidableEq, Repr, Inhabited

namespace PPipe

def fresh : PPipe := {}

/-- `XferPipe.Reset`: `x.filters = x.filters[:0]`. -/
def reset (p : PPipe) : PPipe := { live := [], stale := p.live ++ p.stale }

/-- `x.filters = append(x.filters, f)`: overwrites the first stale slot. -/
def push (p : PPipe) (i : UInt8) : PPipe := { live := p.live ++ [i], stale := p.stale.drop 1 }

/-- `x.filters = x.filters[:n]`: the slots behind `n` become stale again, contents kept. -/
def truncTo (n : Nat) (p : PPipe) : PPipe := { live := p.live.take n, stale := p.live.drop n ++ p.stale }

/-- the loop of `Append`: push ids until one is not registered (`true` = hit an unregistered id). -/
def pushWhile (reg : Registry) (p : PPipe) : List UInt8 → PPipe × Bool
  | [] => (p, false)
  | i :: is => if (reg i).isSome then pushWhile reg (p.push i) is else (p, true)

/-- `XferPipe.Append(ids...)` as coded: on an unregistered id, or when the result is longer than
    255, the pipe is cut back to its previous length (`x.filters = x.filters[:n]`) and an error is
    returned — the ids already stored stay in the slots behind the length. -/
def append (reg : Registry) (p : PPipe) (ids : List UInt8) : PPipe × Bool :=
  if (pushWhile reg p ids).2 || (pushWhile reg p ids).1.live.length > 255 then
    (truncTo p.live.length (pushWhile reg p ids).1, true)
  else ((pushWhile reg p ids).1, false)

def pushAll (p : PPipe) : List UInt8 → PPipe
  | [] => p
  | i :: is => pushAll (p.push i) is

/-- `XferPipe.AppendFrom(src)`: nothing is appended if the result would be longer than 255. -/
def appendFrom (p : PPipe) (src : List UInt8) : PPipe :=
  if p.live.length + src.length > 255 then p else pushAll p src

end PPipe

inductive XOp
  | append (ids : List UInt8)
  | appendFrom (ids : List UInt8)
  | reset
deriving DecidableEq, Repr

namespace PPipe

def step (reg : Registry) (p : PPipe) : XOp → PPipe × Ret
  | .append ids => ((append reg p ids).1, if (append reg p ids).2 then .err else .unit)
  | .appendFrom ids => (appendFrom p ids, .unit)
  | .reset => (p.reset, .unit)

/-- `Len`, `IDs` (`Names`, `Range` are functions of the same list). -/
def obs (p : PPipe) : List UInt8 := p.live

def run (reg : Registry) (p : PPipe) : List XOp → List (Ret × List UInt8)
  | [] => []
  | op :: ops => ((p.step reg op).2, obs (p.step reg op).1) :: run reg (p.step reg op).1 ops

def exec (reg : Registry) (p : PPipe) : List XOp → PPipe
  | [] => p
  | op :: ops => exec reg (p.step reg op).1 ops

end PPipe

/-! ## utils.ByteBuffer -/

/-- `ByteBuffer.B`: visible bytes and the bytes between len and cap. -/
structure PBuf where
  data  : Bytes := []
  stale : Bytes := []
deriving DecidableEq, Repr, Inhabited

namespace PBuf

def fresh : PBuf := {}

/-- `ByteBuffer.Reset`: `b.B = b.B[:0]` -/
def reset (b : PBuf) : PBuf := { data := [], stale := b.data ++ b.stale }

/-- `Write/WriteByte/WriteString`: append overwrites the stale bytes it covers. -/
def write (b : PBuf) (p : Bytes) : PBuf := { data := b.data ++ p, stale := b.stale.drop p.length }

/-- `Set/SetString`: `append(b.B[:0], p...)` -/
def set (b : PBuf) (p : Bytes) : PBuf := (reset b).write p

/-- `ChangeLen(n)` as coded: growing within the capacity *exposes* the stale bytes; growing beyond it
    allocates zeros. Callers must overwrite all `n` bytes before reading (`fill`). -/
def changeLen (b : PBuf) (n : Nat) : PBuf :=
  if (b.data ++ b.stale).length < n then { data := List.replicate n 0, stale := [] }
  else { data := (b.data ++ b.stale).take n, stale := (b.data ++ b.stale).drop n }

/-- `io.ReadFull(r, bb.B)` succeeding: every visible byte is overwritten. -/
def fill (b : PBuf) (p : Bytes) : PBuf := { b with data := p ++ b.data.drop p.length }

end PBuf

inductive BOp
  | write (p : Bytes)
  | set (p : Bytes)
  | reset
  | readFull (p : Bytes)     -- ChangeLen(len p) followed by a successful io.ReadFull delivering p
deriving DecidableEq, Repr

namespace PBuf

def step (b : PBuf) : BOp → PBuf
  | .write p => b.write p
  | .set p => b.set p
  | .reset => b.reset
  | .readFull p => (b.changeLen p.length).fill p

def run (b : PBuf) : List BOp → List Bytes
  | [] => []
  | op :: ops => (b.step op).data :: run (b.step op) ops

def exec (b : PBuf) : List BOp → PBuf
  | [] => b
  | op :: ops => exec (b.step op) ops

end PBuf

/-! ## socket.message -/

/-- `socket.message`, field for field. Pointers / functions / contexts are identities (`Option Nat`,
    `none` = nil); a body is nil or a byte slice. -/
structure PMsg where
  serviceMethod : Bytes := []
  status        : Option Status := none
  md            : PArgs := {}
  body          : Option Bytes := none
  newBodyFunc   : Option Nat := none
  xferPipe      : PPipe := {}
  ctx           : Option Nat := none
  size          : Nat := 0
  seq           : Int := 0
  mtype         : UInt8 := 0
  bodyCodec     : UInt8 := 0
deriving DecidableEq, Repr, Inhabited

/-- operations on a message. -/
inductive MOp
  | setSeq (n : Int)
  | setMtype (t : UInt8)
  | setMethod (s : Bytes)
  | setStatus (s : Option Status)
  | statusInit                      -- Status(true)
  | mdOp (op : AOp)                    -- Meta().<op>
  | setCodec (c : UInt8)
  | setBody (b : Option Bytes)
  | setNewBody (f : Option Nat)
  | pipeOp (op : XOp)                  -- XferPipe().<op>
  | setSize (n : Nat)
  | withCtx (c : Option Nat)
  | pack                            -- rawProto.Pack(m) into a byte sink
  | reset                           -- Reset()
deriving DecidableEq, Repr

namespace PMsg

/-- `NewMessage()` -/
def fresh : PMsg := {}

/-- `message.Reset()` line by line. -/
def reset (m : PMsg) : PMsg :=
  { m with
    body := none
    status := none
    md := m.md.reset
    xferPipe := m.xferPipe.reset
    newBodyFunc := none
    seq := 0
    mtype := 0
    serviceMethod := []
    size := 0
    ctx := none
    bodyCodec := 0 }

/-- the header/body content `rawProto.Pack` reads (`Status(true)` of a nil status is the zero
    status, a nil body marshals to no bytes). -/
def toMsg (m : PMsg) : Msg :=
  { seq := m.seq, mtype := m.mtype, method := m.serviceMethod, status := m.status.getD Status.zero,
    md := m.md.live, codec := m.bodyCodec, body := m.body.getD [], pipe := m.xferPipe.live, size := m.size }

/-- `rawProto.Pack(m)` with its side effects on the message: `Status(true)` allocates the status,
    `Meta().QueryString()` rewrites the scratch buffer, `SetSize` records the size. The method length
    check returns before any of these. -/
def packOp (reg : Registry) (limit : Nat) (m : PMsg) : PMsg × Ret :=
  match Raw.pack reg limit m.toMsg with
  | .error .method => (m, .packErr .method)
  | .error e => ({ m with status := some (m.status.getD Status.zero), md := m.md.queryString.1 }, .packErr e)
  | .ok (b, sz) => ({ m with status := some (m.status.getD Status.zero), md := m.md.queryString.1, size := sz }, .packed b sz)

def step (reg : Registry) (limit : Nat) (m : PMsg) : MOp → PMsg × Ret
  | .setSeq n => ({ m with seq := n }, .unit)
  | .setMtype t => ({ m with mtype := t }, .unit)
  | .setMethod s => ({ m with serviceMethod := s }, .unit)
  | .setStatus s => ({ m with status := s }, .unit)
  | .statusInit => ({ m with status := some (m.status.getD Status.zero) }, .unit)
  | .mdOp op => ({ m with md := (m.md.step op).1 }, (m.md.step op).2)
  | .setCodec c => ({ m with bodyCodec := c }, .unit)
  | .setBody b => ({ m with body := b }, .unit)
  | .setNewBody f => ({ m with newBodyFunc := f }, .unit)
  | .pipeOp op => ({ m with xferPipe := (m.xferPipe.step reg op).1 }, (m.xferPipe.step reg op).2)
  | .setSize n => if n > limit then (m, .err) else ({ m with size := n }, .unit)
  | .withCtx c => ({ m with ctx := c }, .unit)
  | .pack => packOp reg limit m
  | .reset => (m.reset, .unit)

/-- every getter of `Message`/`Header`/`Body` plus what `rawProto.Pack` would put on the wire. -/
structure Obs where
  seq      : Int
  mtype    : UInt8
  method   : Bytes
  status   : Option Status
  md       : PArgs.Obs
  codec    : UInt8
  body     : Option Bytes
  newBody  : Option Nat
  pipe     : List UInt8
  size     : Nat
  ctx      : Option Nat
  wire     : Except Raw.PackErr (Bytes × Nat)
deriving Repr

def obs (reg : Registry) (limit : Nat) (m : PMsg) : Obs :=
  { seq := m.seq, mtype := m.mtype, method := m.serviceMethod, status := m.status, md := m.md.obs,
    codec := m.bodyCodec, body := m.body, newBody := m.newBodyFunc, pipe := m.xferPipe.obs, size := m.size,
    ctx := m.ctx, wire := Raw.pack reg limit m.toMsg }

def exec (reg : Registry) (limit : Nat) (m : PMsg) : List MOp → PMsg
  | [] => m
  | op :: ops => exec reg limit (m.step reg limit op).1 ops

def run (reg : Registry) (limit : Nat) (m : PMsg) : List MOp → List (Ret × Obs)
  | [] => []
  | op :: ops => ((m.step reg limit op).2, obs reg limit (m.step reg limit op).1) :: run reg limit (m.step reg limit op).1 ops

end PMsg

/-! ## handlerCtx -/

/-- identity of `c.binding` as the input message's newBodyFunc. -/
def bindingFn : Nat := 1

/-- `handlerCtx`, field for field. `swap` is the `goutil.Map` (nil or an association list). -/
structure PCtx where
  sess            : Option Nat := none
  input           : PMsg := { newBodyFunc := some bindingFn }
  output          : PMsg := {}
  handler         : Option Nat := none
  arg             : Option Nat := none
  callCmd         : Option Nat := none
  swap            : Option (List (Nat × Nat)) := none
  start           : Int := 0
  cost            : Int := 0
  pluginContainer : Option Nat := none
  stat            : Option Status := none
  context         : Option Nat := none
deriving DecidableEq, Repr, Inhabited

/-- `goutil.Map.Store` on an association list. -/
def mapStore (k v : Nat) : List (Nat × Nat) → List (Nat × Nat)
  | [] => [(k, v)]
  | (k', v') :: r => if k' == k then (k, v) :: r else (k', v') :: mapStore k v r

inductive COp
  | binding (now : Int) (pc : Nat)     -- c.binding: start, pluginContainer
  | pushStart (now : Int)              -- session.Push: ctx.start = s.timeNow()
  | setHandler (h : Option Nat) (arg : Option Nat)
  | setCallCmd (c : Option Nat)
  | swapStore (k v : Nat)
  | setStat (s : Option Status)
  | setContext (c : Option Nat)
  | recordCost (now : Int)             -- c.cost = now - c.start
  | inOp (op : MOp)                    -- on c.input (filled by Unpack, ResetServiceMethod, ...)
  | outOp (op : MOp)                   -- on c.output (SetMeta, AddMeta, SetBodyCodec, AddXferPipe, reply)
deriving DecidableEq, Repr

namespace PCtx

/-- `newReadHandleCtx()` -/
def fresh : PCtx := {}

/-- `handlerCtx.clean()` line by line (`start` is not touched). -/
def clean (c : PCtx) : PCtx :=
  { c with
    sess := none, handler := none, arg := none, callCmd := none, swap := none, cost := 0,
    pluginContainer := none, stat := none, context := none,
    input := { c.input.reset with newBodyFunc := some bindingFn },
    output := c.output.reset }

/-- `handlerCtx.reInit(s)`: the session and a copy of the socket's swap. -/
def reInit (c : PCtx) (s : Nat) (sockSwap : List (Nat × Nat)) : PCtx :=
  { c with sess := some s, swap := some (sockSwap.foldl (fun m kv => mapStore kv.1 kv.2 m) []) }

/-- `peer.getContext(s)`: `ctxPool.Get()`, `clean()`, `reInit(s)`. -/
def acquire (c : PCtx) (s : Nat) (sockSwap : List (Nat × Nat)) : PCtx := (c.clean).reInit s sockSwap

def step (reg : Registry) (limit : Nat) (c : PCtx) : COp → PCtx × Ret
  | .binding now pc => ({ c with start := now, pluginContainer := some pc }, .unit)
  | .pushStart now => ({ c with start := now }, .unit)
  | .setHandler h a => ({ c with handler := h, arg := a }, .unit)
  | .setCallCmd x => ({ c with callCmd := x }, .unit)
  | .swapStore k v =>
    match c.swap with
    | none => (c, .panic)
    | some m => ({ c with swap := some (mapStore k v m) }, .unit)
  | .setStat s => ({ c with stat := s }, .unit)
  | .setContext x => ({ c with context := x }, .unit)
  | .recordCost now => ({ c with cost := now - c.start }, .unit)
  | .inOp op => ({ c with input := (c.input.step reg limit op).1 }, (c.input.step reg limit op).2)
  | .outOp op => ({ c with output := (c.output.step reg limit op).1 }, (c.output.step reg limit op).2)

/-- every getter of the context interfaces; `start` has no getter (it is only read by `recordCost`
    and the run-log line). `Context()` falls back to the input message's context. -/
structure Obs where
  sess     : Option Nat
  input    : PMsg.Obs
  output   : PMsg.Obs
  handler  : Option Nat
  arg      : Option Nat
  callCmd  : Option Nat
  swap     : Option (List (Nat × Nat))
  cost     : Int
  pc       : Option Nat
  stat     : Option Status
  context  : Option Nat
deriving Repr

def obs (reg : Registry) (limit : Nat) (c : PCtx) : Obs :=
  { sess := c.sess, input := c.input.obs reg limit, output := c.output.obs reg limit, handler := c.handler,
    arg := c.arg, callCmd := c.callCmd, swap := c.swap, cost := c.cost, pc := c.pluginContainer, stat := c.stat,
    context := match c.context with | some x => some x | none => c.input.ctx }

def exec (reg : Registry) (limit : Nat) (c : PCtx) : List COp → PCtx
  | [] => c
  | op :: ops => exec reg limit (c.step reg limit op).1 ops

def run (reg : Registry) (limit : Nat) (c : PCtx) : List COp → List (Ret × Obs)
  | [] => []
  | op :: ops => ((c.step reg limit op).2, obs reg limit (c.step reg limit op).1) :: run reg limit (c.step reg limit op).1 ops

end PCtx

/-- `start` is written (by `binding` or `Push`) before every `recordCost` of the sequence;
    `w` = already written. -/
def startSafe : Bool → List COp → Bool
  | _, [] => true
  | _, .binding _ _ :: r => startSafe true r
  | _, .pushStart _ :: r => startSafe true r
  | w, .recordCost _ :: r => w && startSafe w r
  | w, _ :: r => startSafe w r

/-! ## socket.socket -/

/-- `socket.socket` at the level of what a user can observe: the connection (an identity), the
    bytes sitting unread in `readerWithBuffer` and its sticky error, the protocol (an identity),
    the id, the swap, the state and the pool flag. Mutexes are not modelled. -/
structure PSock where
  conn     : Option Nat := none
  rbuf     : Bytes := []
  rerr     : Bool := false
  protocol : Option Nat := none
  id       : Bytes := []
  swap     : Option (List (Nat × Nat)) := none
  curState : Nat := 0
  fromPool : Bool := false
deriving DecidableEq, Repr, Inhabited

inductive SOp
  | setID (id : Bytes)
  | swapStore (k v : Nat)              -- Swap().Store(k, v) (Swap() creates the map on demand)
  | swapSet (m : List (Nat × Nat))     -- Swap(newSwap)
  | buffered (b : Bytes) (err : Bool)  -- a read left `b` unread in the bufio.Reader (err: reader saw an error)
  | consume (n : Nat)                  -- n buffered bytes were read
  | close                              -- Close()
  | reset (conn : Option Nat) (proto : Nat)   -- Reset(conn, protoFunc)
deriving DecidableEq, Repr

namespace PSock

/-- `newSocket(c, protoFuncs)` -/
def new (conn : Option Nat) (proto : Nat) : PSock := { conn := conn, protocol := some proto }

/-- `socketPool.New`: `newSocket(nil, nil)` with `fromPool = true` (0 = the default protocol). -/
def poolNew : PSock := { new none 0 with fromPool := true }

/-- `socket.Reset(conn, protoFunc)` line by line. -/
def reset (s : PSock) (conn : Option Nat) (proto : Nat) : PSock :=
  { s with
    conn := conn
    rbuf := []          -- Discard(Buffered()) and bufio.Reader.Reset
    rerr := false       -- bufio.Reader.Reset
    protocol := some proto
    id := []            -- SetID("")
    swap := none
    curState := 0 }

/-- `socket.Close()`: nothing if already closed; the pool branch clears conn, swap and protocol. -/
def close (s : PSock) : PSock :=
  if s.curState == 1 then s else
  if s.fromPool then { s with curState := 1, conn := none, swap := none, protocol := none }
  else { s with curState := 1 }

def step (s : PSock) : SOp → PSock
  | .setID id => { s with id := id }
  | .swapStore k v => { s with swap := some (mapStore k v (s.swap.getD [])) }
  | .swapSet m => { s with swap := some m }
  | .buffered b e => { s with rbuf := s.rbuf ++ b, rerr := s.rerr || e }
  | .consume n => { s with rbuf := s.rbuf.drop n }
  | .close => s.close
  | .reset c p => s.reset c p

/-- `GetSocket(c, proto)` on the pooled object `s`. -/
def acquire (s : PSock) (conn : Option Nat) (proto : Nat) : PSock := s.reset conn proto

/-- what a user can read: `ID()` (`none` = falls back to the remote address of `conn`), `SwapLen`,
    the swap entries, the bytes a `Read` would deliver before touching the connection, the reader's
    error state, protocol, connection, state. -/
structure Obs where
  id       : Option Bytes
  swapLen  : Nat
  swap     : List (Nat × Nat)
  buffered : Bytes
  rerr     : Bool
  protocol : Option Nat
  conn     : Option Nat
  closed   : Bool
  pooled   : Bool
deriving DecidableEq, Repr

def obs (s : PSock) : Obs :=
  { id := if s.id.isEmpty then none else some s.id, swapLen := (s.swap.getD []).length, swap := s.swap.getD [],
    buffered := s.rbuf, rerr := s.rerr, protocol := s.protocol, conn := s.conn, closed := s.curState == 1,
    pooled := s.fromPool }

def exec (s : PSock) : List SOp → PSock
  | [] => s
  | op :: ops => exec (s.step op) ops

def run (s : PSock) : List SOp → List Obs
  | [] => []
  | op :: ops => obs (s.step op) :: run (s.step op) ops

end PSock

end Pool
end Teleport
