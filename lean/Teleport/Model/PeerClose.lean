/-
Model/PeerClose — `Peer.Close` (peer.go) as coded, composed with any number of sessions of the
per-session machine of Model/Graceful, and the three ways a session comes to exist
(`serveListener`'s accept goroutine, `ServeConn`, `Dial`).

Go code modelled (peer.go at the pinned commit; one step per statement that touches shared state):

  * `peer.Close`
        `pStart`     `close(p.closeCh)`
        `pLis`       `p.mu.Lock`; copy `p.listeners`; `Unlock`; `lis.Close()` for every (non-QUIC) listener
        `pRange`     `deletePeer(p)`; `p.sessHub.rangeCallback(...)` starts (goutil.AtomicMap.Range = sync.Map.Range)
        `pVisit i`   the callback runs for session `i` (an entry of the hub NOW): `count++`,
                     `MustGo(func() { errCh <- sess.Close() })`; always `return true` (no early stop)
        `pRangeEnd`  `Range` returns: every entry that was in the hub when it started and is still there
                     has been visited (an entry stored concurrently may or may not be; one deleted
                     concurrently may be skipped)
        `pRecv i`    one iteration of `for i := 0; i < count; i++ { err = errors.Merge(err, <-errCh) }`:
                     the result of the goroutine spawned for session `i` is received — possible only
                     after that `sess.Close()` has returned. An error does NOT end the loop.
        `pRet`       `i == count`: `close(errCh)`, (QUIC listeners closed), `return err`
    The goroutine spawned for session `i` is session `i`'s closer (`sess i xStart` …); when another
    `Close()` of the same session is already running it blocks on `session.lock` until that one has
    returned and then returns nil — so "the spawned `sess.Close()` has returned" is
    `St.closeReturned` of session `i` in both cases.
  * `serveListener` (listener path; `lis.Accept` fails once the listener is closed; the loop returns
    `ErrListenClosed` when `closeCh` is closed)
        `accept`     `lis.Accept()` returns a connection; goroutine: `newSession` (status Preparing)
        `hookOk i`   `postAccept` passes; `p.sessHub.set(sess)`           (hub entry, still Preparing)
        `goLive i`   `tryChangeStatus(Ok, Preparing)`: won → `startReadAndHandle`; lost (closed meanwhile)
                     → `p.sessHub.delete`
  * `ServeConn` / `Dial`  (NEITHER consults `closeCh` or any other record of `Peer.Close`)
        `serveConn` / `dial`   `newSession` (status Preparing); hooks run
        `hookOk i`   hooks pass; `tryChangeStatus(Ok, Preparing)`: won → `AnywayGo(startReadAndHandle)`
                     (the session serves from here on); lost → return `statConnClosed`
        `hubSet i`   `p.sessHub.set(sess)` — AFTER the reader goroutine has been started
        `hookFail i` hooks reject: `sess.Close()` (its steps are closer events of a `gone` session), no session
  * `sess i e`       a step of session `i`'s machine (Model/Graceful). Hub deletes: `xHubdel`
                     (`closeLocked`) and the `sessHub.delete` at the head of `readDisconnected` (folded
                     into `rDGo` when it proceeds). While Preparing only a `Close()` can act on it.

Not modelled: `hub.set` closing an older session with the same id (C07), redial (a client session in
its redial window is not in the hub either), a listener registered by `serveListener` after `pLis` took
its copy, QUIC listeners, `MustGo` blocking on an exhausted goroutine pool, a second `Peer.Close`
(`close` of a closed channel panics; recovered and returned as an error before anything else runs).
Core Lean only.
-/
import Teleport.Model.Graceful
namespace Teleport.PeerClose
open Teleport.Graceful

inductive Role
  | accept | serve | dial
deriving DecidableEq, Repr

/-- establishment phase of a session. -/
inductive Phase
  | hooks     -- `newSession` done (status Preparing), accept / dial hooks running; not in the hub
  | hubbed    -- listener path only: `sessHub.set` done, status still Preparing
  | live      -- Preparing → Ok won: the reader runs, the session serves
  | gone      -- hooks rejected it, or it was closed while Preparing
deriving DecidableEq, Repr

structure Sess where
  role : Role
  ph : Phase
  st : St
  /-- the hub maps this session's id to it. -/
  hub : Bool
  /-- `sessHub.set` has been executed for it. -/
  setDone : Bool
deriving DecidableEq, Repr

/-- program counter of `Peer.Close` = the last statement group it has executed. -/
inductive PPc
  | idle | chClosed | lisClosed | ranging | recv | ret
deriving DecidableEq, Repr

def PPc.rank : PPc → Nat
  | .idle => 0 | .chClosed => 1 | .lisClosed => 2 | .ranging => 3 | .recv => 4 | .ret => 5

structure PSt where
  pc : PPc
  /-- `closeCh` is closed. -/
  chClosed : Bool
  /-- the listeners accept connections. -/
  lis : Bool
  ss : List Sess
  /-- the sessions in the hub when `Range` started. -/
  must : List Nat
  /-- the sessions the callback has run for, latest first (`count` = its length). -/
  visited : List Nat
  /-- `count`. -/
  count : Nat
  /-- spawned `Close` goroutines whose result has not been received yet. -/
  pend : List Nat
  /-- completed iterations of the receive loop. -/
  recvd : Nat
deriving DecidableEq, Repr

def PSt.init : PSt := ⟨.idle, false, true, [], [], [], 0, [], 0⟩

def Sess.new (r : Role) : Sess := ⟨r, .hooks, St.init, false, false⟩

/-- events of the closer thread (`Close`/`closeLocked`). -/
def isCloserEv : Ev → Bool
  | .xStart | .xHubdel | .xCtxWait | .xCallWait | .xStClosed | .xSock | .xRet => true
  | _ => false

/-- the session's reader has executed the `sessHub.delete` at the head of `readDisconnected`. -/
def readerDeleted : RPc → Bool
  | .dwait _ => true
  | _ => false

/-- hub entry after a step of the session's machine. -/
def hubAfter (hub : Bool) (e : Ev) (t : St) : Bool :=
  match e with
  | .xHubdel => false
  | .rDGo => if readerDeleted t.reader then false else hub
  | _ => hub

/-- indices of the sessions in the hub. -/
def hubIdx (ss : List Sess) : List Nat :=
  (List.range ss.length).filter fun i =>
    match ss[i]? with
    | some s => s.hub
    | none => false

/-- `Range` may return: every session of the snapshot has been visited or has left the hub. -/
def rangeDone (p : PSt) : Bool :=
  p.must.all fun i =>
    p.visited.contains i ||
      match p.ss[i]? with
      | some s => !s.hub
      | none => true

inductive PEv
  | accept | serveConn | dial
  | hookOk (i : Nat) | hookFail (i : Nat) | goLive (i : Nat) | hubSet (i : Nat)
  | sess (i : Nat) (e : Ev)
  | pStart | pLis | pRange | pVisit (i : Nat) | pRangeEnd | pRecv (i : Nat) | pRet
deriving DecidableEq, Repr

/-- one atomic step; `none` = not enabled. -/
def pstep (p : PSt) : PEv → Option PSt
  | .accept => if p.lis then some { p with ss := p.ss ++ [Sess.new .accept] } else none
  | .serveConn => some { p with ss := p.ss ++ [Sess.new .serve] }
  | .dial => some { p with ss := p.ss ++ [Sess.new .dial] }
  | .hookOk i =>
    match p.ss[i]? with
    | some s =>
      if s.ph = .hooks then
        if s.role = .accept then some { p with ss := p.ss.set i { s with ph := .hubbed, hub := true, setDone := true } }
        else if s.st.closer = .idle then some { p with ss := p.ss.set i { s with ph := .live } }
        else some { p with ss := p.ss.set i { s with ph := .gone } }
      else none
    | none => none
  | .hookFail i =>
    match p.ss[i]? with
    | some s =>
      if s.ph = .hooks then some { p with ss := p.ss.set i { s with ph := .gone } } else none
    | none => none
  | .goLive i =>
    match p.ss[i]? with
    | some s =>
      if s.ph = .hubbed then
        if s.st.closer = .idle then some { p with ss := p.ss.set i { s with ph := .live } }
        else some { p with ss := p.ss.set i { s with ph := .gone, hub := false } }
      else none
    | none => none
  | .hubSet i =>
    match p.ss[i]? with
    | some s =>
      if s.ph = .live ∧ s.role ≠ .accept ∧ s.setDone = false then
        some { p with ss := p.ss.set i { s with hub := true, setDone := true } }
      else none
    | none => none
  | .sess i e =>
    match p.ss[i]? with
    | some s =>
      if s.ph = .live ∨ ((s.ph = .hooks ∨ s.ph = .hubbed ∨ s.ph = .gone) ∧ isCloserEv e = true) then
        match step s.st e with
        | some t => some { p with ss := p.ss.set i { s with st := t, hub := hubAfter s.hub e t } }
        | none => none
      else none
    | none => none
  | .pStart =>
    if p.pc = .idle then some { p with pc := .chClosed, chClosed := true } else none
  | .pLis => if p.pc = .chClosed then some { p with pc := .lisClosed, lis := false } else none
  | .pRange =>
    if p.pc = .lisClosed then some { p with pc := .ranging, must := hubIdx p.ss } else none
  | .pVisit i =>
    match p.ss[i]? with
    | some s =>
      if p.pc = .ranging ∧ s.hub = true ∧ p.visited.contains i = false then
        some { p with visited := i :: p.visited, count := p.count + 1, pend := i :: p.pend }
      else none
    | none => none
  | .pRangeEnd => if p.pc = .ranging ∧ rangeDone p = true then some { p with pc := .recv } else none
  | .pRecv i =>
    match p.ss[i]? with
    | some s =>
      if p.pc = .recv ∧ p.recvd < p.count ∧ p.pend.contains i = true ∧ s.st.closeReturned = true then
        some { p with pend := p.pend.erase i, recvd := p.recvd + 1 }
      else none
    | none => none
  | .pRet => if p.pc = .recv ∧ p.recvd = p.count then some { p with pc := .ret } else none

def PStep (p q : PSt) : Prop := ∃ e, pstep p e = some q

inductive PReach (p : PSt) : PSt → Prop
  | refl : PReach p p
  | step {q r : PSt} : PReach p q → PStep q r → PReach p r

def prun : PSt → List PEv → Option PSt
  | p, [] => some p
  | p, e :: es => (pstep p e).bind fun q => prun q es

/-- order in which `pstep` enables the steps of `Peer.Close` on a peer with the given sessions in the
    hub (used by tie A): the names of the statement groups. -/
def pcName : PPc → String
  | .idle => "idle" | .chClosed => "close:closeCh" | .lisClosed => "loop:listener.Close"
  | .ranging => "range:sessHub" | .recv => "range:end" | .ret => "return"

end Teleport.PeerClose
