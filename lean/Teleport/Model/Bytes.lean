/-
Model/Bytes — byte strings, big-endian integers, and the URL-style quoting used by
`utils/bytesconv.go` (`AppendQuotedArg`, `hexbyte2int`, `decodeArgAppend`) and, with a hex table
that is one entry short, by goutil `status/query_args.go`.  Core Lean only.
-/
namespace Teleport

abbrev Bytes := List UInt8

namespace Bytes

def be16 (n : Nat) : Bytes := [(n / 256 % 256).toUInt8, (n % 256).toUInt8]
def be32 (n : Nat) : Bytes :=
  [(n / 16777216 % 256).toUInt8, (n / 65536 % 256).toUInt8, (n / 256 % 256).toUInt8, (n % 256).toUInt8]

def rdBe16 (a b : UInt8) : Nat := a.toNat * 256 + b.toNat
def rdBe32 (a b c d : UInt8) : Nat := a.toNat * 16777216 + b.toNat * 65536 + c.toNat * 256 + d.toNat

/-- `c >= 'a' && c <= 'z' || c >= 'A' && c <= 'Z' || c >= '0' && c <= '9' || c == '*' || '-' || '.' || '_'` -/
def unreserved (c : UInt8) : Bool :=
  (97 ≤ c && c ≤ 122) || (65 ≤ c && c ≤ 90) || (48 ≤ c && c ≤ 57) ||
  c == 42 || c == 45 || c == 46 || c == 95

/-- `hexCharUpper` -/
def hexUpper (c : UInt8) : UInt8 := if c < 10 then 48 + c else c - 10 + 65

/-- `AppendQuotedArg(nil, src)` -/
def quote : Bytes → Bytes
  | [] => []
  | c :: cs =>
    if unreserved c then c :: quote cs
    else 37 :: hexUpper (c >>> 4) :: hexUpper (c &&& 15) :: quote cs

/-- Which copy of the hex table a decoder uses. `utils/bytesconv.go` builds `hex2intTable` with
    256 entries (every byte value has an entry); goutil `status/query_args.go` — a dependency that
    is not part of this repository — has its own copy with 255 entries, so `hexbyte2int(0xff)`
    there indexes out of range and panics. -/
inductive HexTab
  | full     -- utils/bytesconv.go: `make([]byte, 256)`
  | short    -- goutil status/query_args.go: `make([]byte, 255)`
deriving DecidableEq, Repr

/-- `hexbyte2int` of `utils/bytesconv.go` (256-entry table): total; `-1` = not a hex digit. -/
def hexValFixed (c : UInt8) : Int :=
  if 48 ≤ c && c ≤ 57 then (c.toNat - 48 : Nat)
  else if 97 ≤ c && c ≤ 102 then (c.toNat - 97 + 10 : Nat)
  else if 65 ≤ c && c ≤ 70 then (c.toNat - 65 + 10 : Nat)
  else -1

/-- `hexbyte2int` of goutil `status/query_args.go`: `none` = the Go code panics (table has 255
    entries, index 255 is out of range); `some (-1)` = not a hex digit. -/
def hexVal (c : UInt8) : Option Int :=
  if c == 255 then none else some (hexValFixed c)

/-- `hexbyte2int` through table `t`. -/
def hexValT : HexTab → UInt8 → Option Int
  | .full, c => some (hexValFixed c)
  | .short, c => hexVal c

/-- `decodeArgAppend(nil, src, plus)` with the hex table `t`; `none` = Go panics (index out of
    range in the 255-entry `hex2intTable`; impossible with the 256-entry one, see
    `Lemmas/Bytes.unquote_full_isSome`). -/
def unquote (t : HexTab) (plus : Bool) : Bytes → Option Bytes
  | [] => some []
  | c :: rest =>
    if c == 37 then
      match rest with
      | h1 :: h2 :: rest' =>
        match hexValT t h1, hexValT t h2 with
        | some x1, some x2 =>
          if x1 < 0 || x2 < 0 then (unquote t plus (h1 :: h2 :: rest')).map (c :: ·)
          else (unquote t plus rest').map ((x1 * 16 + x2).toNat.toUInt8 :: ·)
        | _, _ => none
      | _ => some (c :: rest)
    else if plus && c == 43 then (unquote t plus rest).map (32 :: ·)
    else (unquote t plus rest).map (c :: ·)
termination_by l => l.length

end Bytes
end Teleport
