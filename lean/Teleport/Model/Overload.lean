/-
Model/Overload — the overload plugin (plugin/overloader/{overloader,connlimiter,qpslimiter}.go) as coded,
composed with the accept path (peer.go ServeConn / serveListener: postAccept hook, on reject
`sess.Close()`) and the close paths (session.go closeLocked / readDisconnected: `postDisconnect`
runs for EVERY session they close, including one that an accept hook rejected; the plugin's
`PostDisconnect` releases only for a session it recorded in `connHolders` on a successful take).

Three layers, all core Lean:
  1. sequential functions: what each Go function does when it runs to completion without
     interference (`CL.take`, `CL.release`, `QL.take`, `QL.tick`, `OV.update`, `OV.readHeader`,
     `Sys.connect`, `Sys.close`) — these are what the correspondence harness replays;
  2. the connection limiter as an interleaving transition system, one step per atomic operation
     (`Step`: the operations of `take`, and of `release` — which the plugin's `PostDisconnect` runs
     only for a session whose `take` returned true, at most once; `UStep`: + `update` — the
     composed system);
  3. the token bucket as an interleaving transition system with counter abstraction for the
     takers (`qstep`), the ticker's load and compare-and-swap being separate steps (a failed
     compare-and-swap starts the refill over).
Counters are Go `int32`; the model uses `Int` (assumption: fewer than 2^31 concurrent operations).
-/
namespace Teleport.Overload

/-! ## 1a. connLimiter (connlimiter.go) — sequential -/

/-- `type connLimiter struct { lim, now, tmp int32 }` -/
structure CL where
  lim : Int
  now : Int
  tmp : Int
deriving DecidableEq, Repr

/-- `newConnLimiter(maxConn)` -/
def CL.new (maxConn : Int) : CL := ⟨maxConn, 0, 0⟩

/-- `update(maxConn)`: `atomic.StoreInt32(&c.lim, maxConn)` -/
def CL.update (c : CL) (maxConn : Int) : CL := { c with lim := maxConn }

/-- `take()`: `x := Add(&tmp,1); if lim := Load(&lim); lim <= 0 || x <= lim { Add(&now,1); return true };
    Add(&tmp,-1); return false` — a limit `<= 0` means no limit; the connection is counted all the same. -/
def CL.take (c : CL) : CL × Bool :=
  let x := c.tmp + 1
  if c.lim ≤ 0 ∨ x ≤ c.lim then ({ c with tmp := x, now := c.now + 1 }, true)
  else ({ c with tmp := x - 1 }, false)

/-- `release()`: `Add(&now,-1); Add(&tmp,-1)` -/
def CL.release (c : CL) : CL := { c with now := c.now - 1, tmp := c.tmp - 1 }

/-! ## 1b. qpsLimiter (qpslimiter.go) — sequential -/

/-- `limit, tokens, once int32; interval time.Duration` (nanoseconds); the ticker is driven by `tick`. -/
structure QL where
  limit : Int
  tokens : Int
  once : Int
  ivl : Nat
deriving DecidableEq, Repr

/-- `once := maxQPS / int32(time.Second/qpsInterval); if once == 0 { once = 1 }`.
    `none` = the Go code panics (integer divide by zero: interval 0 or longer than one second). -/
def calcOnce (maxQPS : Int) (ivl : Nat) : Option Int :=
  if ivl = 0 then none
  else
    let per : Nat := 1000000000 / ivl
    if per = 0 then none
    else
      let o := Int.tdiv maxQPS (per : Int)
      some (if o = 0 then 1 else o)

/-- `newQPSLimiter(maxQPS, qpsInterval)` -/
def QL.new (maxQPS : Int) (ivl : Nat) : Option QL :=
  (calcOnce maxQPS ivl).map fun o => ⟨maxQPS, maxQPS, o, ivl⟩

/-- `update(maxQPS, qpsInterval)`: the token count is left as it is. -/
def QL.update (q : QL) (maxQPS : Int) (ivl : Nat) : Option QL :=
  if maxQPS = q.limit ∧ ivl = q.ivl then some q
  else (calcOnce maxQPS ivl).map fun o => { q with limit := maxQPS, once := o, ivl := ivl }

/-- `take()`: `if Load(&tokens) <= 0 { return false }; return Add(&tokens,-1) >= 0` -/
def QL.take (q : QL) : QL × Bool :=
  if q.tokens ≤ 0 then (q, false)
  else
    let t := q.tokens - 1
    ({ q with tokens := t }, decide (0 ≤ t))

/-- the value `updateToken` computes from the loaded token count `v`. -/
def refill (limit once v : Int) : Int :=
  if v < 0 then once else if v + once > limit then limit else v + once

/-- `updateToken()` without interference (load, compute, compare-and-swap succeeds at once). -/
def QL.tick (q : QL) : QL := { q with tokens := refill q.limit q.once q.tokens }

/-! ## 1c. Overloader (overloader.go) — sequential -/

/-- `LimitConfig` (`QPSInterval` in nanoseconds). -/
structure Conf where
  maxConn : Int
  ivl : Nat
  maxTotal : Int
  handlers : List (String × Int)
deriving DecidableEq, Repr

/-- the plugin's state: current config, connection limiter, total and per-handler buckets. -/
structure OV where
  conf : Conf
  conn : Option CL
  total : Option QL
  hq : List (String × QL)
deriving DecidableEq, Repr

def hqGet (hq : List (String × QL)) (k : String) : Option QL := (hq.find? (·.1 == k)).map (·.2)
def hqDel (hq : List (String × QL)) (k : String) : List (String × QL) := hq.filter (·.1 != k)
def hqSet (hq : List (String × QL)) (k : String) (q : QL) : List (String × QL) :=
  if hq.any (·.1 == k) then hq.map (fun p => if p.1 == k then (k, q) else p) else hq ++ [(k, q)]

/-- `updateConnLimiter`: no limiter (only inside `New`) → a fresh one; otherwise only the limit is
    stored, whatever its sign: the limiter and its counters are kept. -/
def updConn (old : Option CL) (c : Conf) : Option CL :=
  match old with
  | none => some (CL.new c.maxConn)
  | some l => some (l.update c.maxConn)

/-- `updateTotalQPSLimiter` (`none` = panic inside `newQPSLimiter`/`update`). -/
def updTotal (old : Option QL) (c : Conf) : Option (Option QL) :=
  if c.maxTotal ≤ 0 then some none
  else match old with
    | none => (QL.new c.maxTotal c.ivl).map some
    | some q => (q.update c.maxTotal c.ivl).map some

/-- first loop of `updateHandlerLimiter` (as coded: a non-positive entry is deleted and then
    re-created at once by the lookup that follows). -/
def updHandlersLoop (ivl : Nat) : List (String × Int) → List (String × QL) → Option (List (String × QL))
  | [], hq => some hq
  | (m, v) :: rest, hq =>
    let hq1 := if v ≤ 0 then hqDel hq m else hq
    match hqGet hq1 m with
    | none => (QL.new v ivl).bind fun q => updHandlersLoop ivl rest (hqSet hq1 m q)
    | some l => (l.update v ivl).bind fun q => updHandlersLoop ivl rest (hqSet hq1 m q)

/-- `updateHandlerLimiter`: the loop, then every key absent from the new list is removed. -/
def updHandlers (old : List (String × QL)) (c : Conf) : Option (List (String × QL)) :=
  (updHandlersLoop c.ivl c.handlers old).map fun hq => hq.filter fun p => c.handlers.any (·.1 == p.1)

/-- `Update(newLimitConfig)`; `none` = panic. -/
def OV.update (o : OV) (c : Conf) : Option OV := do
  let conn := updConn o.conn c
  let total ← updTotal o.total c
  let hq ← updHandlers o.hq c
  pure ⟨c, conn, total, hq⟩

/-- `New(initLimitConfig)` -/
def OV.new (c : Conf) : Option OV := OV.update ⟨⟨0, 0, 0, []⟩, none, none, []⟩ c

/-- `takeConn()`: no limiter admits (zero-value `Overloader` only: `New` always creates one). -/
def OV.takeConn (o : OV) : OV × Bool :=
  match o.conn with
  | none => (o, true)
  | some l => let r := l.take; ({ o with conn := some r.1 }, r.2)

/-- `releaseConn()` (called by `PostDisconnect` for a session found in `connHolders`) -/
def OV.releaseConn (o : OV) : OV :=
  match o.conn with
  | none => o
  | some l => { o with conn := some l.release }

/-- outcome of `PostReadCallHeader` / `PostReadPushHeader`. -/
inductive Decision
  | ok
  | totalOver (limit : Int)     -- status 500 "qps overload, total_limit=%d"
  | handlerOver (limit : Int)   -- status 500 "qps overload, handler_limit=%d"
deriving DecidableEq, Repr

def Decision.isOK : Decision → Bool
  | .ok => true
  | _ => false

/-- `PostReadCallHeader(ctx)`: the total bucket first, then the handler's own bucket (a token taken
    from the total bucket is not given back when the handler bucket refuses). -/
def OV.readHeader (o : OV) (method : String) : OV × Decision :=
  let (o1, okT, limT) : OV × Bool × Int := match o.total with
    | none => (o, true, 0)
    | some q => let r := q.take; ({ o with total := some r.1 }, r.2, q.limit)
  if !okT then (o1, .totalOver limT)
  else match hqGet o1.hq method with
    | none => (o1, .ok)
    | some l =>
      let r := l.take
      ({ o1 with hq := hqSet o1.hq method r.1 }, if r.2 then .ok else .handlerOver l.limit)

/-- what the read loop does with the hook's verdict (context.go `bindCall`/`handleCall`,
    `bindPush`/`handlePush`): on a non-OK status `bind` returns before the handler lookup, the
    handler is not run; a CALL is answered with that status, a PUSH is dropped. -/
structure Handled where
  handlerRan : Bool
  reply : Option Decision   -- `none`: no reply frame (PUSH)
deriving DecidableEq, Repr

/-- `isCall`, `found`: the route exists (otherwise 404 for a call, drop for a push). -/
def dispatch (isCall found : Bool) (d : Decision) : Handled :=
  if d.isOK then ⟨found, if isCall then some .ok else none⟩
  else ⟨false, if isCall then some d else none⟩

/-! ## 1d. accept path + close paths composed with the plugin — sequential -/

/-- one server-side session: was it admitted by `postAccept` (then the plugin put it in
    `connHolders`), has a close path run for it. -/
structure Sess where
  admitted : Bool
  isOpen : Bool
deriving DecidableEq, Repr

structure Sys where
  ov : OV
  sess : List Sess
deriving DecidableEq, Repr

/-- result of a connect: admitted, or rejected with the numbers printed in the status message
    (`limit`, `now` read after the failed take and before `sess.Close()`). -/
inductive ConnRes
  | admitted
  | rejected (lim now : Int)
deriving DecidableEq, Repr

/-- `ServeConn`/`serveListener` body: `newSession`; `postAccept` → `takeConn`, on success the
    session is recorded in `connHolders`; when refused: `sess.Close()` → `closeLocked` (CAS from
    `statusPreparing` succeeds) → `postDisconnect` → the plugin's `PostDisconnect` does not find
    the session in `connHolders` and releases nothing. -/
def Sys.connect (s : Sys) : Sys × ConnRes :=
  let (o1, ok) := s.ov.takeConn
  if ok then ({ ov := o1, sess := s.sess ++ [⟨true, true⟩] }, .admitted)
  else
    let (lim, now) := match o1.conn with
      | some l => (l.lim, l.now)
      | none => (0, 0)
    ({ ov := o1, sess := s.sess ++ [⟨false, false⟩] }, .rejected lim now)

/-- `Close()` or remote disconnect of session `i`: the status CAS / status switch lets exactly the
    first close path through; it runs `postDisconnect` once: `PostDisconnect` removes the session
    from `connHolders` and calls `releaseConn` iff it was there. A second close is a no-op. -/
def Sys.close (s : Sys) (i : Nat) : Sys :=
  match s.sess[i]? with
  | some ⟨a, true⟩ =>
    { ov := if a then s.ov.releaseConn else s.ov, sess := s.sess.set i ⟨a, false⟩ }
  | _ => s

/-- sessions in the peer's index (`CountSession`). -/
def Sys.live (s : Sys) : Nat := s.sess.countP fun x => x.admitted && x.isOpen

/-- one operation of a sequential connection history. -/
inductive SOp
  | connect
  | close (i : Nat)
  | update (maxConn : Int)   -- `Update` of `MaxConn` alone, any value (`<= 0`: no limit)
deriving DecidableEq, Repr

/-- `Update(cfg)` with only `MaxConn` changed (a panicking `Update` leaves the system as it was). -/
def Sys.update (s : Sys) (n : Int) : Sys :=
  match s.ov.update { s.ov.conf with maxConn := n } with
  | some o => { s with ov := o }
  | none => s

/-- replay of a sequential history of connects, closes and updates. -/
def Sys.run (s : Sys) : List SOp → Sys
  | [] => s
  | .connect :: r => Sys.run s.connect.1 r
  | .close i :: r => Sys.run (s.close i) r
  | .update n :: r => Sys.run (s.update n) r

/-- indices of the sessions satisfying `p`, in arrival order. -/
def Sys.indices (s : Sys) (p : Sess → Bool) : List Nat :=
  (List.range s.sess.length).filter fun i => match s.sess[i]? with
    | some x => p x
    | none => false

/-! ## 2. the connection limiter as an interleaving transition system -/

/-- program counter of an entity that has executed `Add(&tmp,1)` and not yet its `Add(&tmp,-1)`. -/
inductive Pc
  | gotX      -- after `x := Add(&tmp,1)`, before `Load(&lim)`
  | willInc   -- loaded `lim`, `x <= lim`: about to `Add(&now,1)`
  | willDec   -- loaded `lim`, `x > lim`: about to `Add(&tmp,-1)` and return false
  | holding   -- `take` returned true; the session is admitted
  | rel1      -- in `release`: `Add(&now,-1)` done, `Add(&tmp,-1)` pending
deriving DecidableEq, Repr

/-- an entity: its program counter and the captured value `x`. -/
structure Ent where
  pc : Pc
  x : Int
deriving DecidableEq, Repr

/-- shared counters, the ghosts `hi` (largest limit in force so far) and `unl` (a limit `<= 0`, i.e.
    no limit, has been in force at some moment), the entities in arrival order. -/
structure St where
  lim : Int
  now : Int
  tmp : Int
  hi : Int
  unl : Bool
  ents : List Ent
deriving DecidableEq, Repr

def St.init (lim : Int) : St := ⟨lim, 0, 0, lim, decide (lim ≤ 0), []⟩

/-- the entity has been told `true` (or is about to be) and has not finished releasing. -/
def Ent.adm (e : Ent) : Bool :=
  match e.pc with
  | .willInc | .holding | .rel1 => true
  | _ => false

def Ent.isHolding (e : Ent) : Bool :=
  match e.pc with
  | .holding => true
  | _ => false

/-- number of concurrently admitted entities. -/
def St.admitted (s : St) : Nat := s.ents.countP Ent.adm

/-- every atomic operation of `take` and of `release`; `release` is run only by an entity whose
    `take` returned true (`PostDisconnect` finds it in `connHolders`) and only once (the entry is
    deleted under the same lock); an entity whose `take` returned false leaves after its
    `Add(&tmp,-1)` — its session's disconnect hook touches no counter.
    Any number of entities, any interleaving. -/
inductive Step : St → St → Prop
  | arrive (s : St) :
      Step s { s with tmp := s.tmp + 1, ents := s.ents ++ [⟨.gotX, s.tmp + 1⟩] }
  | checkOk (s : St) (pre post : List Ent) (x : Int) :
      s.ents = pre ++ ⟨.gotX, x⟩ :: post → (s.lim ≤ 0 ∨ x ≤ s.lim) →
      Step s { s with ents := pre ++ ⟨.willInc, x⟩ :: post }
  | checkNo (s : St) (pre post : List Ent) (x : Int) :
      s.ents = pre ++ ⟨.gotX, x⟩ :: post → ¬ (s.lim ≤ 0 ∨ x ≤ s.lim) →
      Step s { s with ents := pre ++ ⟨.willDec, x⟩ :: post }
  | inc (s : St) (pre post : List Ent) (x : Int) :
      s.ents = pre ++ ⟨.willInc, x⟩ :: post →
      Step s { s with now := s.now + 1, ents := pre ++ ⟨.holding, x⟩ :: post }
  | dec (s : St) (pre post : List Ent) (x : Int) :
      s.ents = pre ++ ⟨.willDec, x⟩ :: post →
      Step s { s with tmp := s.tmp - 1, ents := pre ++ post }
  | rel1 (s : St) (pre post : List Ent) (x : Int) :
      s.ents = pre ++ ⟨.holding, x⟩ :: post →
      Step s { s with now := s.now - 1, ents := pre ++ ⟨.rel1, x⟩ :: post }
  | rel2 (s : St) (pre post : List Ent) (x : Int) :
      s.ents = pre ++ ⟨.rel1, x⟩ :: post →
      Step s { s with tmp := s.tmp - 1, ents := pre ++ post }

/-- ... plus `Update` with any limit (`<= 0`: no limit) at any moment: the system composed of the
    plugin and the accept / close paths. -/
inductive UStep : St → St → Prop
  | base {s t : St} : Step s t → UStep s t
  | update (s : St) (n : Int) :
      UStep s { s with lim := n, hi := max s.hi n, unl := s.unl || decide (n ≤ 0) }

/-- reflexive-transitive closure. -/
inductive Reach (R : St → St → Prop) (s : St) : St → Prop
  | refl : Reach R s s
  | step {t u : St} : Reach R s t → R t u → Reach R s u

/-! ## 3. the token bucket as an interleaving transition system -/

/-- shared token count; `passed` = takers between their `Load(&tokens) > 0` and their
    `Add(&tokens,-1)` (the loaded value is not used afterwards, so a count describes them exactly);
    `tk` = the ticker between its load (value kept) and its compare-and-swap; ghost counters
    (`ticks` counts completed refills, `retries` failed compare-and-swaps). -/
structure QSt where
  tokens : Int
  passed : Nat
  tk : Option Int
  adm : Nat
  rej : Nat
  ticks : Nat
  retries : Nat
deriving DecidableEq, Repr

inductive QEv
  | takeLoad    -- a taker executes `Load(&tokens)`; `<= 0` returns false at once
  | takeAdd     -- a taker that passed the check executes `Add(&tokens,-1)`; result `>= 0` admits
  | tickLoad    -- `old := Load(&tokens)`
  | tickCas     -- `CompareAndSwap(&tokens, old, f(old))`: done when it succeeds, else load again
  | tick        -- load, compute and compare-and-swap without interference
deriving DecidableEq, Repr

def QSt.init (limit : Int) : QSt := ⟨limit, 0, none, 0, 0, 0, 0⟩

/-- one atomic operation; `none` = not enabled. `limit`, `once` are constant. -/
def qstep (limit once : Int) (s : QSt) : QEv → Option QSt
  | .takeLoad => some (if s.tokens ≤ 0 then { s with rej := s.rej + 1 } else { s with passed := s.passed + 1 })
  | .takeAdd =>
    match s.passed with
    | 0 => none
    | p + 1 =>
      let t := s.tokens - 1
      some (if 0 ≤ t then { s with tokens := t, passed := p, adm := s.adm + 1 }
            else { s with tokens := t, passed := p, rej := s.rej + 1 })
  | .tickLoad =>
    match s.tk with
    | none => some { s with tk := some s.tokens }
    | some _ => none
  | .tickCas =>
    match s.tk with
    | some v =>
      some (if s.tokens = v then { s with tokens := refill limit once v, tk := none, ticks := s.ticks + 1 }
            else { s with tk := none, retries := s.retries + 1 })
    | none => none
  | .tick =>
    match s.tk with
    | none => some { s with tokens := refill limit once s.tokens, ticks := s.ticks + 1 }
    | some _ => none

def qrun (limit once : Int) : QSt → List QEv → Option QSt
  | s, [] => some s
  | s, e :: es => (qstep limit once s e).bind fun t => qrun limit once t es

end Teleport.Overload
