/-
Model/HttpProto — `proto/httproto/httproto.go` (the HTTP-style wire protocol), as repaired by the
head-limit fix (`readLine`/`unpack` charge first line + header lines + body against the read limit).

`Pack`:   MarshalBody → transfer pipe (gzip filters only, first → last) → `http.Header`
          (`Set`/`Add` with `textproto.CanonicalMIMEHeaderKey`) → `packRequest` / `packResponse`
          (`url.Parse` of the service method, request / status line, `Header.Write`: keys sorted,
          invalid field names skipped, CR/LF in values replaced by spaces, values trimmed) → one `Write`.
`Unpack`: 5-byte prefix → `readLine` → status line / request line (`bytes.SplitN`, `url.Parse`,
          `Args.ParseBytes` of the query) → header loop (`Content-Type`, `Content-Length`,
          `X-Content-Encoding`, `X-Seq`, `X-Mtype`, everything else `Meta().SetBytesKV`) → limit check →
          body → `XferPipe.OnUnpack` → `UnmarshalBody` / `Status.UnmarshalJSON`.

Hand-written models of library code (validated by the correspondence check, kinds `http*`):
`strconv.Atoi` (`atoi`), `bytes.TrimSpace` incl. the Unicode White_Space runes (`trimSpace`),
`textproto.TrimString`, `textproto.CanonicalMIMEHeaderKey` + `httpguts.ValidHeaderFieldName`
(`canonKey`, `tokenByte`), `http.Header.Set/Add/Get/Write` (`hset`, `hadd`, `hget`, `hlines`),
`net/url.Parse` for every input that has no authority part (`urlParse`; `//host…` = `unmodelled`),
`utf8.DecodeRune` validity + goutil `StringMarshalJSON` (`jsonStr`), `Status.MarshalJSON`,
and `Status.UnmarshalJSON` for the documents `MarshalJSON` writes from ASCII text (`sjStrict`).
Parameters carried by the case line (`Env`): the gzip filter (compress/flate is not modelled) and
`encoding/json` on every other status entity.  Core Lean only.
-/
import Teleport.Model.RawProto
namespace Teleport
namespace HttpP
open Bytes

/-! ### constants -/
def kCT : Bytes := [67, 111, 110, 116, 101, 110, 116, 45, 84, 121, 112, 101]   -- Content-Type
def kCL : Bytes := [67, 111, 110, 116, 101, 110, 116, 45, 76, 101, 110, 103, 116, 104]   -- Content-Length
def kXCE : Bytes := [88, 45, 67, 111, 110, 116, 101, 110, 116, 45, 69, 110, 99, 111, 100, 105, 110, 103]   -- X-Content-Encoding
def kXSeq : Bytes := [88, 45, 83, 101, 113]   -- X-Seq
def kXMtype : Bytes := [88, 45, 77, 116, 121, 112, 101]   -- X-Mtype
def kCE : Bytes := [67, 111, 110, 116, 101, 110, 116, 45, 69, 110, 99, 111, 100, 105, 110, 103]   -- Content-Encoding
def kHost : Bytes := [72, 111, 115, 116]   -- Host
def kUA : Bytes := [85, 115, 101, 114, 45, 65, 103, 101, 110, 116]   -- User-Agent
def kAE : Bytes := [65, 99, 99, 101, 112, 116, 45, 69, 110, 99, 111, 100, 105, 110, 103]   -- Accept-Encoding
def vGzip : Bytes := [103, 122, 105, 112]   -- gzip
def vUA : Bytes := [101, 114, 112, 99, 45, 104, 116, 116, 112, 114, 111, 116, 111, 47, 49, 46, 49]   -- erpc-httproto/1.1
def ctPb : Bytes := [97, 112, 112, 108, 105, 99, 97, 116, 105, 111, 110, 47, 120, 45, 112, 114, 111, 116, 111, 98, 117, 102]   -- application/x-protobuf
def ctJson : Bytes := [97, 112, 112, 108, 105, 99, 97, 116, 105, 111, 110, 47, 106, 115, 111, 110]   -- application/json
def ctForm : Bytes := [97, 112, 112, 108, 105, 99, 97, 116, 105, 111, 110, 47, 120, 45, 119, 119, 119, 45, 102, 111, 114, 109, 45, 117, 114, 108, 101, 110, 99, 111, 100, 101, 100]   -- application/x-www-form-urlencoded
def ctPlain : Bytes := [116, 101, 120, 116, 47, 112, 108, 97, 105, 110]   -- text/plain
def ctXml : Bytes := [116, 101, 120, 116, 47, 120, 109, 108]   -- text/xml
def charset : Bytes := [59, 99, 104, 97, 114, 115, 101, 116, 61, 117, 116, 102, 45, 56]   -- ;charset=utf-8
def sPost : Bytes := [80, 79, 83, 84]   -- POST
def sVersion : Bytes := [72, 84, 84, 80, 47, 49, 46, 49]   -- HTTP/1.1
def sRespPrefix : Bytes := [72, 84, 84, 80, 47]   -- HTTP/
def sOk : Bytes := [50, 48, 48, 32, 79, 75]   -- 200 OK
def sBiz : Bytes := [50, 57, 57, 32, 66, 117, 115, 105, 110, 101, 115, 115, 32, 69, 114, 114, 111, 114]   -- 299 Business Error
def jA : Bytes := [123, 34, 99, 111, 100, 101, 34, 58]   -- {"code":
def jB : Bytes := [44, 34, 109, 115, 103, 34, 58]   -- ,"msg":
def jC : Bytes := [44, 34, 99, 97, 117, 115, 101, 34, 58]   -- ,"cause":
def uFFFD : Bytes := [92, 117, 102, 102, 102, 100]   -- backslash-u-fffd
def u202 : Bytes := [92, 117, 50, 48, 50]   -- \u202
def u00 : Bytes := [92, 117, 48, 48]   -- \u00
def crlf : Bytes := [13, 10]

/-! ### small library models -/

/-- split at the first byte `c`: (before, after) — `bytes.SplitN(_, c, 2)` / `strings.Cut`. -/
def cutAt (c : UInt8) : Bytes → Bytes × Option Bytes
  | [] => ([], none)
  | x :: xs => if x == c then ([], some xs) else
      let r := cutAt c xs; (x :: r.1, r.2)

/-- `strconv.Atoi` on a 64-bit platform: optional sign, decimal digits, value inside int64.
    Every error of `Atoi` makes httproto answer `errBadHTTPMsg`, so one `none` is enough. -/
def atoi (s : Bytes) : Option Int :=
  match s with
  | [] => none
  | c :: cs =>
    let ds := if c == 43 || c == 45 then cs else s
    match ds with
    | [] => none
    | _ =>
      match Num.parseDigits 10 ds 0 with
      | none => none
      | some n =>
        if c == 45 then (if n ≤ 9223372036854775808 then some (-(n : Int)) else none)
        else (if n < 9223372036854775808 then some (n : Int) else none)

/-- `int32(x)` of an int -/
def wrap32 (i : Int) : Int := (i + 2147483648) % 4294967296 - 2147483648
/-- `byte(x)` of an int -/
def byteOf (i : Int) : UInt8 := (i % 256).toNat.toUInt8

def asciiSpace (c : UInt8) : Bool := c == 9 || c == 10 || c == 11 || c == 12 || c == 13 || c == 32

/-- number of bytes of the `unicode.IsSpace` rune that starts the string (0 = none):
    the ASCII ones, U+0085, U+00A0, U+1680, U+2000..U+200A, U+2028, U+2029, U+202F, U+205F, U+3000. -/
def spaceAt : Bytes → Nat
  | [] => 0
  | c :: r =>
    if asciiSpace c then 1
    else if c == 0xC2 then (match r with | d :: _ => if d == 0x85 || d == 0xA0 then 2 else 0 | _ => 0)
    else if c == 0xE1 then (match r with | d :: e :: _ => if d == 0x9A && e == 0x80 then 3 else 0 | _ => 0)
    else if c == 0xE2 then (match r with
      | d :: e :: _ =>
        if d == 0x80 && ((0x80 ≤ e && e ≤ 0x8A) || e == 0xA8 || e == 0xA9 || e == 0xAF) then 3
        else if d == 0x81 && e == 0x9F then 3 else 0
      | _ => 0)
    else if c == 0xE3 then (match r with | d :: e :: _ => if d == 0x80 && e == 0x80 then 3 else 0 | _ => 0)
    else 0

/-- the same, read from the end (argument = the string reversed): what `utf8.DecodeLastRune` finds. -/
def spaceAtRev : Bytes → Nat
  | [] => 0
  | e :: r =>
    if asciiSpace e then 1
    else match r with
      | d :: r2 =>
        if d == 0xC2 && (e == 0x85 || e == 0xA0) then 2
        else match r2 with
          | c :: _ =>
            if c == 0xE1 && d == 0x9A && e == 0x80 then 3
            else if c == 0xE2 && d == 0x80 && ((0x80 ≤ e && e ≤ 0x8A) || e == 0xA8 || e == 0xA9 || e == 0xAF) then 3
            else if c == 0xE2 && d == 0x81 && e == 0x9F then 3
            else if c == 0xE3 && d == 0x80 && e == 0x80 then 3
            else 0
          | [] => 0
      | [] => 0

def trimBy (f : Bytes → Nat) : Nat → Bytes → Bytes
  | 0, s => s
  | n + 1, s => if f s == 0 then s else trimBy f n (s.drop (f s))

/-- `bytes.TrimSpace` (= `TrimFunc(s, unicode.IsSpace)`; invalid UTF-8 is never a space). -/
def trimSpace (s : Bytes) : Bytes :=
  let l := trimBy spaceAt s.length s
  (trimBy spaceAtRev l.length l.reverse).reverse

def httpSpace (c : UInt8) : Bool := c == 32 || c == 9 || c == 10 || c == 13

/-- `textproto.TrimString` -/
def trimHttp (s : Bytes) : Bytes := ((s.dropWhile httpSpace).reverse.dropWhile httpSpace).reverse

/-- RFC 7230 `tchar` (`httpguts.isTokenTable`, `textproto.validHeaderFieldByte`). -/
def tokenByte (c : UInt8) : Bool :=
  (48 ≤ c && c ≤ 57) || (65 ≤ c && c ≤ 90) || (97 ≤ c && c ≤ 122) ||
  c == 33 || c == 35 || c == 36 || c == 37 || c == 38 || c == 39 || c == 42 || c == 43 ||
  c == 45 || c == 46 || c == 94 || c == 95 || c == 96 || c == 124 || c == 126

/-- `httpguts.ValidHeaderFieldName` -/
def validKey (k : Bytes) : Bool := !k.isEmpty && k.all tokenByte

def canonGo : Bool → Bytes → Bytes
  | _, [] => []
  | up, c :: r =>
    let c' := if up && (97 ≤ c && c ≤ 122) then c - 32 else if !up && (65 ≤ c && c ≤ 90) then c + 32 else c
    c' :: canonGo (c' == 45) r

/-- `textproto.CanonicalMIMEHeaderKey`: unchanged if any byte is not a token byte. -/
def canonKey (k : Bytes) : Bytes := if k.all tokenByte then canonGo true k else k

/-! ### `http.Header` -/

/-- the header map: canonical key ↦ values, in first-insertion order (the order is irrelevant to Go;
    `Write` sorts). Entries whose key is not a valid field name are never written and never read by
    the code, so they are not stored. -/
abbrev Hdr := List (Bytes × List Bytes)

def hset (k v : Bytes) : Hdr → Hdr
  | [] => [(k, [v])]
  | (k', vs) :: r => if k' == k then (k, [v]) :: r else (k', vs) :: hset k v r

def haddC (k v : Bytes) : Hdr → Hdr
  | [] => [(k, [v])]
  | (k', vs) :: r => if k' == k then (k', vs ++ [v]) :: r else (k', vs) :: haddC k v r

/-- `header.Add(k, v)` for an arbitrary metadata key. -/
def hadd (k v : Bytes) (h : Hdr) : Hdr := if validKey k then haddC (canonKey k) v h else h

/-- `header.Get(k)` for a canonical key: first value or "". -/
def hget (k : Bytes) : Hdr → Bytes
  | [] => []
  | (k', vs) :: r => if k' == k then vs.headD [] else hget k r

/-- Go string `<` -/
def bytesLt : Bytes → Bytes → Bool
  | [], [] => false
  | [], _ :: _ => true
  | _ :: _, [] => false
  | a :: x, b :: y => a < b || (a == b && bytesLt x y)

def hins (e : Bytes × List Bytes) : Hdr → Hdr
  | [] => [e]
  | f :: r => if bytesLt e.1 f.1 then e :: f :: r else f :: hins e r

/-- `sortedKeyValues` -/
def hsort : Hdr → Hdr
  | [] => []
  | e :: r => hins e (hsort r)

/-- value as `Header.Write` prints it: CR/LF → space, then `textproto.TrimString`. -/
def hval (v : Bytes) : Bytes := trimHttp (v.map (fun c => if c == 10 || c == 13 then 32 else c))

/-- the header lines `Header.Write` prints, in order. -/
def hlines (h : Hdr) : List Args.KV := (hsort h).flatMap (fun e => e.2.map (fun v => (e.1, hval v)))

def renderLine (kv : Args.KV) : Bytes := kv.1 ++ 58 :: 32 :: kv.2 ++ crlf

def render (ls : List Args.KV) : Bytes := (ls.map renderLine).flatten

/-! ### `net/url.Parse` (no authority part) -/

structure Url where
  path : Bytes
  query : Bytes
  host : Bytes
deriving DecidableEq, Repr

inductive UrlOut
  | ok (u : Url)
  | err
  | unmodelled        -- `//authority…`: `parseAuthority` is not modelled
deriving DecidableEq, Repr

def isCTL (c : UInt8) : Bool := c < 32 || c == 127
def isAlpha (c : UInt8) : Bool := (97 ≤ c && c ≤ 122) || (65 ≤ c && c ≤ 90)
def isHex (c : UInt8) : Bool := (48 ≤ c && c ≤ 57) || (97 ≤ c && c ≤ 102) || (65 ≤ c && c ≤ 70)
def unhex (c : UInt8) : UInt8 :=
  if 48 ≤ c && c ≤ 57 then c - 48 else if 97 ≤ c && c ≤ 102 then c - 97 + 10 else c - 65 + 10

inductive Scheme
  | none            -- no scheme: the whole string is the rest
  | err             -- "missing protocol scheme"
  | at (n : Nat)    -- `n` scheme bytes, then ':'
deriving DecidableEq, Repr

def Scheme.bump : Scheme → Scheme
  | .at n => .at (n + 1)
  | s => s

/-- `getScheme` -/
def getScheme (first : Bool) : Bytes → Scheme
  | [] => .none
  | c :: r =>
    if isAlpha c then (getScheme false r).bump
    else if (48 ≤ c && c ≤ 57) || c == 43 || c == 45 || c == 46 then
      (if first then .none else (getScheme false r).bump)
    else if c == 58 then (if first then .err else .at 0)
    else .none

/-- `unescape(s, encodePath / encodeFragment)`: `none` = malformed `%` escape. -/
def pctDecode : Bytes → Option Bytes
  | [] => some []
  | c :: r =>
    if c == 37 then
      match r with
      | a :: b :: r' => if isHex a && isHex b then (pctDecode r').map ((unhex a * 16 + unhex b) :: ·) else none
      | _ => none
    else (pctDecode r).map (c :: ·)

def pathOf (rest query : Bytes) : UrlOut :=
  match pctDecode rest with
  | none => .err
  | some p => .ok { path := p, query, host := [] }

/-- `parse(u, false)` after the fragment was cut off. -/
def parseNoFrag (u : Bytes) : UrlOut :=
  if u.any isCTL then .err else
  match getScheme true u with
  | .err => .err
  | sc =>
    let hasScheme := match sc with | .at _ => true | _ => false
    let rest0 := match sc with | .at n => u.drop (n + 1) | _ => u
    let rq : Bytes × Bytes :=
      if rest0.getLast? == some 63 && rest0.count 63 == 1 then (rest0.dropLast, [])
      else ((cutAt 63 rest0).1, ((cutAt 63 rest0).2).getD [])
    if rq.1.head? != some 47 then
      if hasScheme then .ok { path := [], query := rq.2, host := [] }
      else if (cutAt 47 rq.1).1.contains 58 then .err
      else pathOf rq.1 rq.2
    else if [47, 47].isPrefixOf rq.1 && (hasScheme || !([47, 47, 47].isPrefixOf rq.1)) then .unmodelled
    else pathOf rq.1 rq.2

/-- `url.Parse` -/
def urlParse (s : Bytes) : UrlOut :=
  match parseNoFrag (cutAt 35 s).1 with
  | .ok u =>
    match (cutAt 35 s).2 with
    | none => .ok u
    | some frag => if frag.isEmpty then .ok u else if (pctDecode frag).isNone then .err else .ok u
  | o => o

/-! ### status entity (`Status.MarshalJSON` / `UnmarshalJSON`) -/

def hexLow (n : UInt8) : UInt8 := if n < 10 then 48 + n else 87 + n

def isCont (c : UInt8) : Bool := 0x80 ≤ c && c ≤ 0xBF

/-- length of the valid UTF-8 sequence that starts the string (`utf8.DecodeRune`), 0 = `RuneError`.
    Only called on a first byte ≥ 0x80. -/
def utf8Len : Bytes → Nat
  | [] => 0
  | c :: r =>
    if 0xC2 ≤ c && c ≤ 0xDF then (match r with | d :: _ => if isCont d then 2 else 0 | _ => 0)
    else if 0xE0 ≤ c && c ≤ 0xEF then
      (match r with
        | d :: e :: _ =>
          let lo : UInt8 := if c == 0xE0 then 0xA0 else 0x80
          let hi : UInt8 := if c == 0xED then 0x9F else 0xBF
          if lo ≤ d && d ≤ hi && isCont e then 3 else 0
        | _ => 0)
    else if 0xF0 ≤ c && c ≤ 0xF4 then
      (match r with
        | d :: e :: f :: _ =>
          let lo : UInt8 := if c == 0xF0 then 0x90 else 0x80
          let hi : UInt8 := if c == 0xF4 then 0x8F else 0xBF
          if lo ≤ d && d ≤ hi && isCont e && isCont f then 4 else 0
        | _ => 0)
    else 0

/-- one ASCII byte inside a JSON string (`escapeHTML = false`). -/
def jsonEscAscii (c : UInt8) : Bytes :=
  if c == 34 || c == 92 then [92, c]
  else if c == 10 then [92, 110] else if c == 13 then [92, 114] else if c == 9 then [92, 116]
  else if c < 32 then u00 ++ [hexLow (c >>> 4), hexLow (c &&& 15)]
  else [c]

/-- goutil `StringMarshalJSON(s, false)` without the quotes (fuel = length). -/
def jsonBody : Nat → Bytes → Bytes
  | 0, _ => []
  | _, [] => []
  | n + 1, c :: r =>
    if c < 0x80 then jsonEscAscii c ++ jsonBody n r
    else
      let k := utf8Len (c :: r)
      if k == 0 then uFFFD ++ jsonBody n r
      else if (c :: r).take 3 == [0xE2, 0x80, 0xA8] then u202 ++ 56 :: jsonBody n (r.drop 2)
      else if (c :: r).take 3 == [0xE2, 0x80, 0xA9] then u202 ++ 57 :: jsonBody n (r.drop 2)
      else (c :: r).take k ++ jsonBody n (r.drop (k - 1))

def jsonStr (s : Bytes) : Bytes := 34 :: jsonBody s.length s ++ [34]

/-- `(*Status).MarshalJSON` for a non-nil status. -/
def statusJSON (s : Status) : Bytes :=
  jA ++ Num.formatInt 8 s.code ++ jB ++ jsonStr s.msg ++ jC ++ jsonStr (s.cause.getD []) ++ [125]

/-- one token of a JSON string body: `some (none, rest)` = the closing quote, `some (some b, rest)` =
    the byte `b` (plain ASCII, or one of the escapes `jsonEscAscii` writes: `\" \\ \n \r \t` and
    `\u00XY` below 0x80), `none` = anything else (left to the environment). -/
def sjTok : Bytes → Option (Option UInt8 × Bytes)
  | [] => none
  | c :: r =>
    if c == 34 then some (none, r)
    else if c == 92 then
      match r with
      | e :: r' =>
        if e == 34 || e == 92 then some (some e, r')
        else if e == 110 then some (some 10, r')
        else if e == 114 then some (some 13, r')
        else if e == 116 then some (some 9, r')
        else if e == 117 then
          match r' with
          | a :: b :: x :: y :: r'' =>
            if a == 48 && b == 48 && isHex x && isHex y && unhex x < 8 then some (some (unhex x * 16 + unhex y), r'')
            else none
          | _ => none
        else none
      | [] => none
    else if c < 32 || c ≥ 128 then none
    else some (some c, r)

/-- a JSON string body up to the closing quote (fuel = number of tokens + 1): (value, after the quote). -/
def sjStringF : Nat → Bytes → Option (Bytes × Bytes)
  | 0, _ => none
  | n + 1, s =>
    match sjTok s with
    | none => none
    | some (none, r) => some ([], r)
    | some (some b, r) => (sjStringF n r).map (fun p => (b :: p.1, p.2))

def sjString (s : Bytes) : Option (Bytes × Bytes) := sjStringF (s.length + 1) s

/-- strip a literal prefix. -/
def stripPre : Bytes → Bytes → Option Bytes
  | [], s => some s
  | _ :: _, [] => none
  | p :: ps, c :: cs => if p == c then stripPre ps cs else none

/-- canonical decimal int32 followed by `stop`: (value, rest after the digits). -/
def sjInt (s : Bytes) : Option (Int × Bytes) :=
  let neg := s.head? == some 45
  let ds := if neg then s.drop 1 else s
  let digs := ds.takeWhile (fun c => 48 ≤ c && c ≤ 57)
  let rest := ds.dropWhile (fun c => 48 ≤ c && c ≤ 57)
  match Num.parseDigits 10 digs 0 with
  | none => none
  | some n =>
    let v : Int := if neg then -(n : Int) else n
    if digs.isEmpty then none
    else if Num.formatInt 8 v != (if neg then 45 :: digs else digs) then none     -- canonical spelling only
    else if v < -2147483648 || v > 2147483647 then none
    else some (v, rest)

/-- `UnmarshalJSON` of exactly the documents `MarshalJSON` writes from control-free… ASCII text
    (`{"code":N,"msg":"…","cause":"…"}`, no white space, the escapes `\" \\ \n \r \t` only):
    `none` = not of that shape — the environment's `encoding/json` table answers. -/
def sjStrict (b : Bytes) : Option Status :=
  (stripPre jA b).bind fun b1 =>
  (sjInt b1).bind fun ci =>
  (stripPre (jB ++ [34]) ci.2).bind fun b2 =>
  (sjString b2).bind fun ms =>
  (stripPre (jC ++ [34]) ms.2).bind fun b3 =>
  (sjString b3).bind fun cs =>
  if cs.2 == [125] then
    some { code := ci.1, msg := ms.1, cause := if cs.1.isEmpty then none else some cs.1 }
  else none

/-! ### environment: what is registered, and the two library functions that are not modelled -/

structure Env where
  /-- registered transfer filters by id -/
  reg : Registry
  /-- `filter.Name()` -/
  fname : UInt8 → Bytes
  /-- `xfer.GetByName` -/
  byName : Bytes → Option UInt8
  /-- `gzip.Is(id)` -/
  gz : UInt8 → Bool
  /-- the transfer pipe fails on these bytes with `io.EOF` / `io.ErrUnexpectedEOF` (compress/gzip on
      a truncated stream): `Unpack` hands that error on and the caller sees a short read. -/
  xeof : List UInt8 → Bytes → Bool
  /-- `json.Unmarshal` into the status triple for entities `sjStrict` does not answer:
      `none` = not in the table (unmodelled), `some none` = decoder error. -/
  sjson : Bytes → Option (Option Status)

/-- an environment with nothing registered (for concrete evaluations). -/
def envNone : Env :=
  { reg := fun _ => none, fname := fun _ => [], byName := fun _ => none, gz := fun _ => false,
    xeof := fun _ _ => false, sjson := fun _ => none }

inductive SJ | ok (s : Status) | err | unmodelled deriving DecidableEq, Repr

/-- `Status(true).UnmarshalJSON(b)` on a fresh status. -/
def statusOfJSON (env : Env) (b : Bytes) : SJ :=
  if b.isEmpty then .ok Status.zero else
  match sjStrict b with
  | some s => .ok s
  | none =>
    match env.sjson b with
    | none => .unmodelled
    | some none => .err
    | some (some s) => .ok s

/-! ### Pack -/

inductive PackOut
  | ok (b : Bytes) (size : Nat)
  | err (why : String)
  | panic                 -- nil filter dereferenced in `packResponse`
  | unmodelled
deriving DecidableEq, Repr

/-- `m.XferPipe().Range(...)`: gzip filters only, applied first → last; the two encoding headers. -/
def applyPipe (env : Env) : List UInt8 → Bytes → Hdr → Option (Bytes × Hdr)
  | [], b, h => some (b, h)
  | i :: is, b, h =>
    if !env.gz i then none else
    match env.reg i with
    | none => none
    | some f =>
      match f.pack b with
      | none => none
      | some b' => applyPipe env is b' (hset kXCE (env.fname i) (hset kCE vGzip h))

def addMeta : List Args.KV → Hdr → Hdr
  | [], h => h
  | (k, v) :: r, h => addMeta r (hadd k v h)

/-- the header map before `packRequest` / `packResponse`, and the filtered body. -/
def baseHeader (env : Env) (m : Msg) : Option (Bytes × Hdr) :=
  (applyPipe env m.pipe m.body []).map fun p =>
    (p.1, addMeta m.md (hset kXMtype (Num.formatNat 8 m.mtype.toNat) (hset kXSeq (Num.formatInt 8 m.seq) p.2)))

/-- `GetContentType` -/
def contentType (codec : UInt8) (dflt : Bytes) : Bytes :=
  if codec == 112 then ctPb ++ charset else if codec == 106 then ctJson ++ charset
  else if codec == 102 then ctForm ++ charset else if codec == 115 then ctPlain ++ charset
  else if codec == 120 then ctXml ++ charset else dflt

/-- `GetBodyCodec(v, codec.NilCodecID)` -/
def bodyCodec (v : Bytes) : UInt8 :=
  let t := (cutAt 59 v).1
  if t == ctPb then 112 else if t == ctJson then 106 else if t == ctForm then 102
  else if t == ctPlain then 115 else if t == ctXml then 120 else 0

def reqTarget (u : Url) : Bytes := if u.query.isEmpty then u.path else u.path ++ 63 :: u.query

/-- request line, status lines (without the line end). -/
def reqLine (u : Url) : Bytes := sPost ++ 32 :: reqTarget u ++ 32 :: sVersion
def okLine : Bytes := sVersion ++ 32 :: sOk
def bizLine : Bytes := sVersion ++ 32 :: sBiz

/-- first line, header block, blank line, entity. -/
def frame (first : Bytes) (h : Hdr) (payload : Bytes) : Bytes :=
  first ++ crlf ++ (render (hlines h) ++ (crlf ++ payload))

/-- the header map `packRequest` writes (`n` = length of the entity). -/
def reqHdr (u : Url) (codec : UInt8) (h : Hdr) (n : Nat) : Hdr :=
  hset kAE vGzip (hset kCL (Num.formatNat 8 n) (hset kCT (contentType codec (ctPlain ++ charset))
    (hset kUA vUA (if u.host.isEmpty then h else hset kHost u.host h))))

/-- the header map `packResponse` writes for an OK status. -/
def respHdr (codec : UInt8) (h : Hdr) (n : Nat) : Hdr :=
  hset kCL (Num.formatNat 8 n) (hset kCT (contentType codec ctPlain) h)

/-- … and for a status that is not OK. -/
def bizHdr (h : Hdr) (n : Nat) : Hdr := hset kCL (Num.formatNat 8 n) (hset kCT ctJson h)

/-- the bytes `packRequest` puts into the buffer. -/
def requestBytes (u : Url) (codec : UInt8) (h : Hdr) (body : Bytes) : Bytes :=
  frame (reqLine u) (reqHdr u codec h body.length) body

/-- the bytes `packResponse` puts into the buffer for an OK status. -/
def responseBytes (codec : UInt8) (h : Hdr) (body : Bytes) : Bytes :=
  frame okLine (respHdr codec h body.length) body

/-- the status entity of an error response: `none` = the nil-filter panic (`GetByName` of the
    `X-Content-Encoding` value found nothing); a filter error is dropped by the code (empty entity). -/
def bizEntity (env : Env) (st : Status) (h : Hdr) : Option Bytes :=
  let name := hget kXCE h
  if name.isEmpty then some (statusJSON st) else
  match env.byName name with
  | none => none
  | some id => match env.reg id with
    | none => none
    | some f => some ((f.pack (statusJSON st)).getD [])

/-- … and the bytes `packResponse` puts into the buffer for a status that is not OK. -/
def bizBytes (env : Env) (st : Status) (h : Hdr) : Option Bytes :=
  (bizEntity env st h).map fun e => frame bizLine (bizHdr h e.length) e

/-- `m.SetSize(uint32(len))` with its error ignored: the size stays 0 when the limit refuses it. -/
def sizeSet (limit n : Nat) : Nat := if n % 4294967296 > limit then 0 else n % 4294967296

/-- `httproto.Pack`: the bytes of the single `Write` and the size recorded in the message. -/
def pack (env : Env) (limit : Nat) (m : Msg) : PackOut :=
  match baseHeader env m with
  | none => .err "xfer"
  | some (body, h) =>
    if m.mtype == 1 || m.mtype == 4 then
      match urlParse m.method with
      | .err => .err "url"
      | .unmodelled => .unmodelled
      | .ok u => let b := requestBytes u m.codec h body; .ok b (sizeSet limit b.length)
    else if m.mtype == 2 || m.mtype == 5 then
      if m.status.ok then let b := responseBytes m.codec h body; .ok b (sizeSet limit b.length)
      else match bizBytes env m.status h with
        | none => .panic
        | some b => .ok b (sizeSet limit b.length)
    else .err "mtype"

/-! ### Unpack -/

/-- what the header loop has stored into the message so far. -/
structure HSt where
  seq : Int
  mtype : UInt8
  codec : UInt8
  md : List Args.KV
  pipe : List UInt8
  bodySize : Int        -- the last `Content-Length`
  clSum : Int           -- all `Content-Length` values (`size += bodySize`)
deriving DecidableEq, Repr

/-- `Args.SetBytesKV` -/
def setKV (k v : Bytes) : List Args.KV → List Args.KV
  | [] => [(k, v)]
  | (k', v') :: r => if k' == k then (k', v) :: r else (k', v') :: setKV k v r

/-- why a header line makes `unpack` return an error (depends on the line alone). -/
def lineErr (env : Env) (kv : Args.KV) : Option String :=
  if kv.1 == kCT then none
  else if kv.1 == kCL then (if (atoi kv.2).isNone then some "badmsg" else none)
  else if kv.1 == kXCE then (if (env.byName kv.2).isNone then some "filter" else none)
  else if kv.1 == kXSeq then (if (atoi kv.2).isNone then some "badmsg" else none)
  else if kv.1 == kXMtype then (if (atoi kv.2).isNone then some "badmsg" else none)
  else none

/-- `m.XferPipe().Append(zg.ID())` for the filter of that name (`Append`'s error — more than 255
    filters — is dropped by the code). -/
def addFilter (env : Env) (pipe : List UInt8) (name : Bytes) : List UInt8 :=
  match env.byName name with
  | some id => (Xfer.append env.reg pipe [id]).getD pipe
  | none => pipe

/-- what a header line stores. -/
def upd (env : Env) (st : HSt) (kv : Args.KV) : HSt :=
  if kv.1 == kCT then { st with codec := bodyCodec kv.2 }
  else if kv.1 == kCL then { st with bodySize := (atoi kv.2).getD 0, clSum := st.clSum + (atoi kv.2).getD 0 }
  else if kv.1 == kXCE then
    { st with pipe := addFilter env st.pipe kv.2 }
  else if kv.1 == kXSeq then { st with seq := wrap32 ((atoi kv.2).getD 0) }
  else if kv.1 == kXMtype then { st with mtype := byteOf ((atoi kv.2).getD 0) }
  else { st with md := setKV kv.1 kv.2 st.md }

/-- a header line split at its first colon, value `bytes.TrimSpace`d. -/
def splitHeader (ln : Bytes) : Option Args.KV :=
  match cutAt 58 ln with
  | (_, none) => none
  | (k, some v) => some (k, trimSpace v)

/-- which first line was read: request (service method), `200 OK`, `299 Business Error`. -/
inductive Kind
  | req (method : Bytes)
  | ok
  | biz
deriving DecidableEq, Repr

/-- observation of one `Unpack`: outcome, the input that was NOT consumed when it returned,
    the largest single read request, and the most bytes buffered for the message at any moment
    (head bytes charged so far + the line or body buffer being filled). -/
structure Read where
  out : Raw.Out
  left : Bytes
  ask : Nat
  hi : Nat
deriving Repr

def Read.consumed (r : Read) (inp : Bytes) : Nat := inp.length - r.left.length

/-- `bb.B[:n-1]` when the line ends in CR (argument = the line reversed). -/
def stripCR : Bytes → Bytes
  | 13 :: t => t
  | a => a

/-- the message `Unpack` delivers. -/
def deliver (env : Env) (limit : Nat) (kind : Kind) (st : HSt) (used : Nat) (body : Bytes) : Except String Msg :=
  let size := sizeSet limit (((used : Int) + st.clSum) % 4294967296).toNat
  match kind with
  | .req me => .ok { seq := st.seq, mtype := st.mtype, method := me, status := Status.zero, md := st.md, codec := st.codec, body, pipe := st.pipe, size }
  | .ok => .ok { seq := st.seq, mtype := st.mtype, method := [], status := Status.zero, md := st.md, codec := st.codec, body, pipe := st.pipe, size }
  | .biz =>
    match statusOfJSON env body with
    | .ok s => .ok { seq := st.seq, mtype := st.mtype, method := [], status := s, md := st.md, codec := st.codec, body := [], pipe := st.pipe, size }
    | .err => .error "json"
    | .unmodelled => .error "unmodelled"

/-- `Unpack` returns what `UnmarshalBody` / `UnmarshalJSON` returned. -/
def finish (d : Except String Msg) (rest : Bytes) (ask hi : Nat) : Read :=
  match d with
  | .ok m => ⟨.ok m rest, rest, ask, hi⟩
  | .error e => ⟨.reject e, rest, ask, hi⟩

/-- after the blank line: the limit check, the body, the transfer pipe. `used` = head bytes charged. -/
def finishBody (env : Env) (limit : Nat) (kind : Kind) (st : HSt) (used hi : Nat) (r : Bytes) : Read :=
  if st.bodySize ≤ 0 then finish (deliver env limit kind st used []) r 5 hi
  else if st.bodySize + (used : Int) > (limit : Int) then ⟨.size, r, 5, hi⟩
  else
    let n := st.bodySize.toNat
    match Raw.take? n r with
    | none => ⟨.eof, [], max 5 n, max hi (used + n)⟩
    | some (raw, rest) =>
      match Xfer.onUnpack env.reg st.pipe raw with
      | none => ⟨if env.xeof st.pipe raw then .eof else .reject "xfer", rest, max 5 n, max hi (used + n)⟩
      | some data => finish (deliver env limit kind st used data) rest (max 5 n) (max hi (used + n))

/-- the header loop of `unpack` with `readLine` inlined: `acc` = the current line reversed,
    `used` = head bytes charged against the limit so far (first line + complete header lines). -/
def hloop (env : Env) (limit : Nat) (kind : Kind) : Bytes → Bytes → HSt → Nat → Nat → Read
  | [], acc, _, used, hi => ⟨.eof, [], 5, max hi (used + acc.length)⟩
  | c :: r, acc, st, used, hi =>
    if c == 10 then
      let ln := (stripCR acc).reverse
      let hi' := max hi (used + acc.length)
      if ln.isEmpty then finishBody env limit kind st used hi' r
      else
        match splitHeader ln with
        | none => ⟨.reject "badmsg", r, 5, hi'⟩
        | some kv =>
          match lineErr env kv with
          | some e => ⟨.reject e, r, 5, hi'⟩
          | none => hloop env limit kind r [] (upd env st kv) (used + ln.length) hi'
    else if used + acc.length ≥ limit then ⟨.size, r, 5, max hi (used + acc.length)⟩
    else hloop env limit kind r (c :: acc) st used hi

inductive Line
  | line (ln : Bytes) (buffered : Nat) (rest : Bytes)
  | eof (buffered : Nat)
  | over (buffered : Nat) (rest : Bytes)
deriving Repr

/-- the repaired `readLine` with `room = limit - used`: at most `room` bytes are buffered. -/
def readLine (limit used : Nat) : Bytes → Bytes → Line
  | [], acc => .eof acc.length
  | c :: r, acc =>
    if c == 10 then .line (stripCR acc).reverse acc.length r
    else if used + acc.length ≥ limit then .over acc.length r
    else readLine limit used r (c :: acc)

/-- `readLine` before the repair: no bound on the line. -/
def readLineOld : Bytes → Bytes → Line
  | [], acc => .eof acc.length
  | c :: r, acc =>
    if c == 10 then .line (stripCR acc).reverse acc.length r
    else readLineOld r (c :: acc)

def hst0 (mtype : UInt8) (md : List Args.KV) : HSt :=
  { seq := 0, mtype, codec := 0, md, pipe := [], bodySize := 0, clSum := 0 }

/-- the first line is complete: status line or request line, then the header loop. -/
def afterFirst (env : Env) (limit : Nat) (first : Bytes) (buffered : Nat) (r : Bytes) : Read :=
  let hi := max 5 (5 + buffered)
  if first.take 5 == sRespPrefix then
    match cutAt 32 first with
    | (_, none) => ⟨.reject "badmsg", r, 5, hi⟩
    | (_, some code) =>
      if code == sOk then hloop env limit .ok r [] (hst0 2 []) first.length hi
      else if code == sBiz then hloop env limit .biz r [] (hst0 2 []) first.length hi
      else ⟨.reject "code", r, 5, hi⟩
  else
    match cutAt 32 first with
    | (_, none) => ⟨.reject "badmsg", r, 5, hi⟩
    | (_, some r1) =>
      match cutAt 32 r1 with
      | (_, none) => ⟨.reject "badmsg", r, 5, hi⟩
      | (target, some _) =>
        match urlParse target with
        | .err => ⟨.reject "url", r, 5, hi⟩
        | .unmodelled => ⟨.reject "unmodelled", r, 5, hi⟩
        | .ok u =>
          let md := if u.query.isEmpty then [] else (Args.parse u.query).getD []
          hloop env limit (.req u.path) r [] (hst0 1 md) first.length hi

/-- `httproto.Unpack` on the input `inp` (everything that will ever arrive) with read limit `limit`. -/
def unpack (env : Env) (limit : Nat) (inp : Bytes) : Read :=
  match inp with
  | a :: b :: c :: d :: e :: r =>
    match readLine limit 5 r [] with
    | .eof n => ⟨.eof, [], 5, max 5 (5 + n)⟩
    | .over n rest => ⟨.size, rest, 5, max 5 (5 + n)⟩
    | .line ln n rest => afterFirst env limit ([a, b, c, d, e] ++ ln) n rest
  | _ => ⟨.eof, [], 5, 5⟩

/-- the frames of a list of messages, each packed on its own. -/
def packAll (env : Env) (limit : Nat) : List Msg → Option (List Bytes)
  | [] => some []
  | m :: ms =>
    match pack env limit m, packAll env limit ms with
    | .ok b _, some r => some (b :: r)
    | _, _ => none

/-- read exactly `n` back-to-back messages. -/
def unpackN (env : Env) (limit : Nat) : Nat → Bytes → Option (List Msg × Bytes)
  | 0, inp => some ([], inp)
  | n + 1, inp =>
    match (unpack env limit inp).out with
    | .ok m rest => (unpackN env limit n rest).map (fun r => (m :: r.1, r.2))
    | _ => none

end HttpP
end Teleport
