/-
Model/Router — service-method name mapping, handler registration and route lookup of
`/repo/router.go`, the lookup part of `/repo/context.go` (`bindCall` / `bindPush`), goutil
`SnakeString` (string.go) and the stdlib pieces the mappers use (`strings.ToLower` on ASCII,
`strings.Replace` with a two-byte pattern, `strings.Trim(_, ".")`, `path.Join("/", p, n)`).
Core Lean only; every definition is structurally recursive so that `decide` can evaluate it.

Names are byte strings.  The Go code ranges over runes in `toServiceMethods`; on valid UTF-8 the
rune loop and this byte loop produce the same bytes (the only runes tested are `_` and NUL, both
one byte, and a continuation byte is never `_` or NUL).  `strings.ToLower` is modelled on ASCII.
-/
import Teleport.Model.Bytes
namespace Teleport
namespace Router

abbrev Name := Bytes
/-- identity of a handler (one per Go method / function value). -/
abbrev Hid := Nat

/-! ### toServiceMethods, first loop (router.go) -/

/-- `a[len(a)-1] = sep`; `none` = index out of range (Go panics). -/
def setLast (sep : UInt8) : Bytes → Option Bytes
  | [] => none
  | [_] => some [sep]
  | x :: y :: r => (setLast sep (y :: r)).map (x :: ·)

/-- the `for _, r := range name` loop, literally: `a` is the rune slice built so far, `last` the
    variable `last` (initially 0).  `none` = the Go code would panic at `a[len(a)-1]`. -/
def tsmLoop (sep : UInt8) : Bytes → UInt8 → Bytes → Option Bytes
  | a, _, [] => some a
  | a, last, r :: rs =>
    if last == 95 then
      if r == 95 then tsmLoop sep a 0 rs               -- last = '\x00'; continue
      else
        match setLast sep a with                        -- a[len(a)-1] = sep
        | none => none
        | some a' => tsmLoop sep (a' ++ [r]) r rs       -- (last == 0 is false here) append, last = r
    else if last == 0 && r == 95 then tsmLoop sep a last rs   -- continue
    else tsmLoop sep (a ++ [r]) r rs

/-! ### goutil.SnakeString (string.go), byte by byte -/

def isUpper (d : UInt8) : Bool := 65 ≤ d && d ≤ 90

/-- the loop of `SnakeString`: `data` built so far, flag `j`. -/
def snakeLoop : Bytes → Bool → Bytes → Bytes
  | data, _, [] => data
  | data, j, d :: ds =>
    if isUpper d then
      if j then snakeLoop (data ++ [95] ++ [d]) false ds
      else snakeLoop (data ++ [d]) j ds
    else if d != 95 then snakeLoop (data ++ [d]) true ds
    else snakeLoop (data ++ [d]) j ds

/-- `strings.ToLower` on ASCII. -/
def toLower (s : Bytes) : Bytes := s.map (fun c => if isUpper c then c + 32 else c)

def snakeString (s : Bytes) : Bytes := toLower (snakeLoop [] false s)

/-- `strings.Replace(s, string([a,b]), string([n]), -1)`: leftmost, non-overlapping. -/
def replace2 (a b n : UInt8) : Bytes → Bytes
  | [] => []
  | [x] => [x]
  | x :: y :: r => if x == a && y == b then n :: replace2 a b n r else x :: replace2 a b n (y :: r)

/-- `toServiceMethods(name, sep, toSnake)`; `none` = Go panic. -/
def toServiceMethods (name : Bytes) (sep : UInt8) (toSnake : Bool) : Option Bytes :=
  match tsmLoop sep [] 0 name with
  | none => none
  | some a =>
    if toSnake then
      some (replace2 sep 95 sep (replace2 95 95 95 (snakeString a)))
    else some a

/-! ### path.Join("/", prefix, name) (stdlib; semantic model of `Clean` on a rooted path) -/

/-- split at `/`: `cur` is the component being read. -/
def splitSlash : Bytes → Bytes → List Bytes
  | cur, [] => [cur]
  | cur, c :: cs => if c == 47 then cur :: splitSlash [] cs else splitSlash (cur ++ [c]) cs

/-- one component of `Clean` on a rooted path: empty and `.` vanish, `..` pops (never above root). -/
def cleanStep (st : List Bytes) (c : Bytes) : List Bytes :=
  if c == [] || c == [46] then st
  else if c == [46, 46] then st.dropLast
  else st ++ [c]

def joinSlash : List Bytes → Bytes
  | [] => []
  | [c] => c
  | c :: d :: r => c ++ 47 :: joinSlash (d :: r)

/-- `path.Clean(p)` for `p` starting with `/`. -/
def cleanRooted (p : Bytes) : Bytes := 47 :: joinSlash ((splitSlash [] p).foldl cleanStep [])

/-- `path.Join("/", prefix, name)`: non-empty elements joined by `/`, then `Clean`. -/
def pathJoinRoot (pfx name : Bytes) : Bytes :=
  cleanRooted (joinSlash ([[47], pfx, name].filter (fun e => !e.isEmpty)))

/-! ### strings.Trim(p, ".") -/

def trimDots (p : Bytes) : Bytes :=
  ((p.dropWhile (· == 46)).reverse.dropWhile (· == 46)).reverse

/-! ### the two mappers -/

inductive MapperKind | http | rpc
  deriving DecidableEq, Repr

/-- `HTTPServiceMethodMapper(prefix, name)` -/
def httpMapper (pfx name : Name) : Option Name :=
  (toServiceMethods name 47 true).map (pathJoinRoot pfx)

/-- `RPCServiceMethodMapper(prefix, name)` -/
def rpcMapper (pfx name : Name) : Option Name :=
  (toServiceMethods name 46 false).map (fun s => trimDots (pfx ++ [46] ++ s))

/-- `globalServiceMethodMapper(prefix, name)`; `none` = Go panic. -/
def mapper : MapperKind → Name → Name → Option Name
  | .http => httpMapper
  | .rpc => rpcMapper

/-! ### route tables, registration (`SubRouter.reg`), `SubRoute`, `SetUnknown*` -/

inductive Kind | call | push
  deriving DecidableEq, Repr

def Kind.other : Kind → Kind
  | .call => .push
  | .push => .call

/-- a Go `map[string]*Handler`: newest binding first; `find` = first match, so consing a binding
    for a present key is Go's overwrite. -/
abbrev Table := List (Name × Hid)

def find (n : Name) : Table → Option Hid
  | [] => none
  | (k, h) :: t => if n = k then some h else find n t

def keys (t : Table) : List Name := t.map (·.1)

/-- router state visible to registration and dispatch.  `groups` holds the `prefix` field of every
    `SubRouter` created so far (index 0 is the root).  `unkCall`/`unkPush` are
    `*peer.router.subRouter.unknownCall` / `unknownPush`, the slots `getCall`/`getPush` read; the
    `**Handler` pointing at them is allocated once in `newRouter` and shared by every `SubRouter`. -/
structure State where
  mkind : MapperKind
  groups : List Name
  call : Table
  push : Table
  unkCall : Option Hid
  unkPush : Option Hid
  deriving DecidableEq, Repr

def State.tbl (s : State) : Kind → Table
  | .call => s.call
  | .push => s.push

def State.unk (s : State) : Kind → Option Hid
  | .call => s.unkCall
  | .push => s.unkPush

def State.setTbl (s : State) (k : Kind) (t : Table) : State :=
  match k with
  | .call => { s with call := t }
  | .push => { s with push := t }

def State.setUnk (s : State) (k : Kind) (h : Hid) : State :=
  match k with
  | .call => { s with unkCall := some h }
  | .push => { s with unkPush := some h }

inductive Op
  /-- `g := groups[parent].SubRoute(pfx)`; the new group gets the next index. -/
  | subRoute (parent : Nat) (pfx : Name)
  /-- `groups[g].RouteCall(new(S))` / `RoutePush`: struct name and its (method name, handler) list in
      `reflect` method order. -/
  | routeStruct (k : Kind) (g : Nat) (sname : Name) (methods : List (Name × Hid))
  /-- `groups[g].RouteCallFunc(f)` / `RoutePushFunc`. -/
  | routeFunc (k : Kind) (g : Nat) (fname : Name) (h : Hid)
  /-- `SetUnknownCall` / `SetUnknownPush` on the root router (`g = 0`) or on `groups[g].ToRouter()`;
      both write the peer's one shared slot. -/
  | setUnknown (k : Kind) (g : Nat) (h : Hid)
  deriving DecidableEq, Repr

inductive Err
  /-- `Fatalf("there is a handler conflict: %s")` → `os.Exit(1)` -/
  | conflict (n : Name)
  /-- Go run-time panic inside a mapper -/
  | panic
  /-- the operation names a group that was never created (not expressible in Go) -/
  | badRef
  deriving DecidableEq, Repr

/-- `newRouter`: root prefix is `mapper("", "")`. -/
def init (mk : MapperKind) : Except Err State :=
  match mapper mk [] [] with
  | none => .error .panic
  | some p => .ok { mkind := mk, groups := [p], call := [], push := [], unkCall := none, unkPush := none }

/-- handler names of a controller struct: `mapper(mapper(prefix, struct), method)` per method
    (`make*HandlersFromStruct`). -/
def structNames (mk : MapperKind) (pfx sname : Name) : List (Name × Hid) → Option (List (Name × Hid))
  | [] => some []
  | (m, h) :: ms =>
    match mapper mk pfx sname with
    | none => none
    | some p =>
      match mapper mk p m, structNames mk pfx sname ms with
      | some n, some r => some ((n, h) :: r)
      | _, _ => none

/-- the `for _, h := range handlers` loop of `reg`: conflict check, insert, collect the name. -/
def regLoop : Table → List (Name × Hid) → List Name → Except Err (Table × List Name)
  | t, [], names => .ok (t, names)
  | t, (n, h) :: hs, names =>
    match find n t with
    | some _ => .error (.conflict n)
    | none => regLoop ((n, h) :: t) hs (names ++ [n])

/-- `reg` after the handler maker produced `hs`. -/
def reg (s : State) (k : Kind) (hs : List (Name × Hid)) : Except Err (State × List Name) :=
  match regLoop (s.tbl k) hs [] with
  | .error e => .error e
  | .ok (t, names) => .ok (s.setTbl k t, names)

/-- one registration-time operation; the list is what `Route*` returns (empty for other ops). -/
def step (s : State) : Op → Except Err (State × List Name)
  | .subRoute parent pfx =>
    match s.groups[parent]? with
    | none => .error .badRef
    | some pp =>
      match mapper s.mkind pp pfx with
      | none => .error .panic
      | some p => .ok ({ s with groups := s.groups ++ [p] }, [])
  | .routeStruct k g sname methods =>
    match s.groups[g]? with
    | none => .error .badRef
    | some pfx =>
      match structNames s.mkind pfx sname methods with
      | none => .error .panic
      | some hs => reg s k hs
  | .routeFunc k g fname h =>
    match s.groups[g]? with
    | none => .error .badRef
    | some pfx =>
      match mapper s.mkind pfx fname with
      | none => .error .panic
      | some n => reg s k [(n, h)]
  | .setUnknown k g h =>
    match s.groups[g]? with
    | none => .error .badRef
    | some _ =>
      -- `*r.subRouter.unknownCall = h` writes through the `**Handler` that `newRouter` allocated
      -- and every `SubRoute` copied: one slot per peer, whichever router the call goes through.
      .ok (s.setUnk k h, [])

/-- a whole registration history; returns the final state and what every operation returned. -/
def run : State → List Op → Except Err (State × List (List Name))
  | s, [] => .ok (s, [])
  | s, op :: ops =>
    match step s op with
    | .error e => .error e
    | .ok (s', names) =>
      match run s' ops with
      | .error e => .error e
      | .ok (s'', rets) => .ok (s'', names :: rets)

/-! ### lookup and dispatch (`getCall`/`getPush`, `bindCall`/`bindPush`) -/

/-- `getCall` / `getPush`: exact name, else the unknown handler, else nothing.
    `(h, isUnknown)`. -/
def getRoute (s : State) (k : Kind) (n : Name) : Option (Hid × Bool) :=
  match find n (s.tbl k) with
  | some h => some (h, false)
  | none =>
    match s.unk k with
    | some u => some (u, true)
    | none => none

inductive Disp
  | handler (h : Hid)
  | unknown (h : Hid)
  | notFound
  | badMessage
  deriving DecidableEq, Repr

/-- `bindCall` / `bindPush` with no vetoing plugin: empty method → 400, else the route lookup,
    `!ok` → `statNotFound`. -/
def dispatch (s : State) (k : Kind) (n : Name) : Disp :=
  if n.isEmpty then .badMessage
  else
    match getRoute s k n with
    | some (h, false) => .handler h
    | some (h, true) => .unknown h
    | none => .notFound

/-- the handlers run for a request (handler functions that return an OK status). -/
def Disp.invoked : Disp → List Hid
  | .handler h => [h]
  | .unknown h => [h]
  | _ => []

/-- status code the caller of a CALL sees (handlers reply OK). -/
def Disp.code : Disp → Nat
  | .handler _ => 0
  | .unknown _ => 0
  | .notFound => 404
  | .badMessage => 400

end Router
end Teleport
