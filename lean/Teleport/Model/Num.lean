/-
Model/Num — `strconv.FormatInt` / `strconv.ParseInt(s, base, 32)` for bases 10 and 36 (standard
library behaviour, modelled; validated against the real `strconv` by the correspondence check).
-/
import Teleport.Model.Bytes
namespace Teleport
namespace Num

/-- digit value → ASCII, lower case (`"0123456789abcdefghijklmnopqrstuvwxyz"`). -/
def digitChar (d : Nat) : UInt8 := if d < 10 then (48 + d).toUInt8 else (87 + d).toUInt8

/-- digits of `n` in base `b+2`, least significant first, with explicit fuel (structural, so the
    kernel can evaluate it). -/
def digitsRevF (b : Nat) : Nat → Nat → List Nat
  | 0, n => [n % (b + 2)]
  | f + 1, n => if n < b + 2 then [n] else (n % (b + 2)) :: digitsRevF b f (n / (b + 2))

/-- `strconv` formats 64-bit integers: 64 further digits always suffice for base ≥ 2. -/
def digitsRev (b : Nat) (n : Nat) : List Nat := digitsRevF b 64 n

/-- `strconv.FormatUint(n, b+2)` -/
def formatNat (b : Nat) (n : Nat) : Bytes := ((digitsRev b n).reverse).map digitChar

/-- `strconv.FormatInt(i, b+2)` -/
def formatInt (b : Nat) (i : Int) : Bytes :=
  if i < 0 then 45 :: formatNat b i.natAbs else formatNat b i.natAbs

/-- value of one digit character as `strconv.ParseUint` reads it (`lower(c)`), `none` = syntax error. -/
def digitVal (c : UInt8) : Option Nat :=
  if 48 ≤ c && c ≤ 57 then some (c.toNat - 48)
  else if 97 ≤ c && c ≤ 122 then some (c.toNat - 97 + 10)
  else if 65 ≤ c && c ≤ 90 then some (c.toNat - 65 + 10)
  else none

/-- digits → number, `none` on a bad digit (syntax error). Unbounded accumulator. -/
def parseDigits (base : Nat) : Bytes → Nat → Option Nat
  | [], acc => some acc
  | c :: cs, acc =>
    match digitVal c with
    | some d => if d < base then parseDigits base cs (acc * base + d) else none
    | none => none

inductive PErr | syntax | range deriving DecidableEq, Repr

/-- `strconv.ParseUint(_, base, 32)` checks the range digit by digit: it returns its range error at
    the first digit that takes the value above 2^32-1, BEFORE it looks at the bytes behind it.
    `true` = that happens before any byte that is not a digit of the base. -/
def overflowsEarly (base : Nat) : Bytes → Nat → Bool
  | [], _ => false
  | c :: cs, acc =>
    match digitVal c with
    | some d =>
      if d < base then (if acc * base + d > 4294967295 then true else overflowsEarly base cs (acc * base + d))
      else false
    | none => false

/-- `strconv.ParseInt(s, base, 32)` for an explicit base in 2..36: value and error.
    On a syntax error Go returns 0; on a range error the nearest bound (also when a
    bad byte follows the digits that overflowed: `overflowsEarly`). -/
def parseInt32 (base : Nat) (s : Bytes) : Int × Option PErr :=
  match s with
  | [] => (0, some .syntax)
  | c :: cs =>
    let neg := c == 45
    let ds := if c == 43 || c == 45 then cs else s
    match ds with
    | [] => (0, some .syntax)
    | _ =>
      match parseDigits base ds 0 with
      | none =>
        -- a bad byte somewhere: a syntax error, unless the digits in front of it already overflowed
        if overflowsEarly base ds 0 then (if neg then (-2147483648, some .range) else (2147483647, some .range))
        else (0, some .syntax)
      | some un =>
        if !neg && un ≥ 2147483648 then (2147483647, some .range)
        else if neg && un > 2147483648 then (-2147483648, some .range)
        else (if neg then -(un : Int) else (un : Int), none)

/-- strict use (`readHeader`: any error aborts). -/
def parseInt32? (base : Nat) (s : Bytes) : Option Int :=
  match parseInt32 base s with
  | (v, none) => some v
  | _ => none

def inInt32 (i : Int) : Prop := -2147483648 ≤ i ∧ i ≤ 2147483647
instance (i : Int) : Decidable (inInt32 i) := by unfold inInt32; infer_instance

end Num
end Teleport
