/-
Model/Graceful — one session end of henrylee2cn/teleport during a local graceful close, as an
interleaving transition system (any number of inbound handler threads, any number of outbound
calls, the closer, the reader, the environment), plus `Peer.Close` as a product of such sessions.

Go code modelled (session.go, context.go, peer.go at the pinned commit; as coded):

  * `Close`/`closeLocked`            closer thread, one step per statement between two gate points
        `xStart`     lock; `tryChangeStatus(ActiveClosing, Ok, Preparing)`   (fails → return nil = `noop`)
        `xHubdel`    `sessHub.delete`                                         [gate close.cas → close.hubdel]
        `xCtxWait`   `notifyClosed`; `graceCtxWait()` returns (counter = 0)   [→ close.ctxwait]
        `xCallWait`  `graceCallCmdWaitGroup.Wait()` returns (counter = 0)     [→ close.callwait]
        `xStClosed`  `changeStatus(ActiveClosed)`                             [→ close.sock]
        `xSock`      `socket.Close()`                                         [→ close.hook]
        `xRet`       `postDisconnect`; unlock; return
  * `startReadAndHandle`             reader thread
        `rTop`       loop head `goonRead()` (status ∈ {Ok, ActiveClosing})
        `rRead`      `ReadMessage` returns a frame; for a REPLY `bindReply` runs inside it
                     (`callCmdMap.Load`, `mu.Lock`, reply metadata recorded = `bound`)   [gate read.msg]
        `rReadErr`   `ReadMessage` returns an error (connection lost / socket closed locally)
        `rCheck`     `(err ∧ no codec) ∨ ¬goonRead()` → leave the loop, frame dropped  [→ gate read.add]
        `rAdd`       `graceCtxWaitGroup.Add(1)`; spawn the handler goroutine
        `rDLoad`…`rDSock`  `readDisconnected` (status load, switch / compare-and-swap to PassiveClosing (load again when it fails), ctx wait,
                     cancel of pending calls without reply, ActiveClosing → return, else socket close,
                     PassiveClosed). The cancel loop is `callCmdMap.Range` (goutil.AtomicMap = a copy of
                     sync.Map): `rDSnap` = `Range` starts: the key set present NOW is what it will visit
                     (`read.m`, after promoting the dirty map; a call stored later is not visited);
                     `rDPick j` = the Go map iteration yields entry `j` next — ANY remaining entry, the
                     order is not specified by the language; `rDVisit` = `callCmd.mu.Lock()` acquired
                     (blocked while a caller still inside `AsyncCall`, or a reply handler, holds it),
                     `cancel` when the call has no reply and no error status, `mu.Unlock()`;
                     `rDCancelEnd` = the iteration is exhausted.
  * `handlerCtx.handle` (CALL: `handleCall`, REPLY: `handleReply`), `Push`   handler threads
        `hEnter` [gate h.enter], `hBody` (handler body returns) [gate h.exit], `hCheck` (`write`: status
        load and test: Ok, or ActiveClosing and a REPLY), `hWrite` (`WriteMessage`) [gate reply.written],
        `hReplyDone` (`callCmd.done()`) [gate reply.done], `hFin` (`putContext` = `Done`),
        `pushStart` (`getContext(s,true)` = `Add(1)` by a `Push` of this side)
  * `AsyncCall`                       caller threads
        `cSeq` (seq allocated) [gate call.seq], `cIssue` (`graceCallCmdWaitGroup.Add(1)`, `callCmdMap.Store`)
        [gate call.store], `cCheck` (`write`: status load) [gate write.check], `cRefuse` (`done()` with the
        102 sentinel), `cWrite` (`WriteMessage`; failure → `done()`)
  * environment: `envCall` (the peer's CALL frame arrives), `envReply` (the peer replies to a written
        call), `envLost` (the connection is lost: peer closed it or it was cut)

No redial function (sessions made by `ServeConn`/accept have none), no context deadlines.
Ghost fields (never read by a guard): `H.ebc`, `H.late`, `H.res`, `C.chk`, `C.late`, `C.deliv`.
Core Lean only.
-/
namespace Teleport.Graceful

/-- session lifecycle status (the values used on this path). -/
inductive Status
  | ok | closing | closed | pclosing | pclosed
deriving DecidableEq, Repr

/-- an inbound frame. `orphan` = a REPLY for which `bindReply` found no pending call. -/
inductive Frame
  | call (id : Nat)
  | reply (c : Nat)
  | orphan
deriving DecidableEq, Repr

inductive HKind
  | call | reply (c : Nat) | orphan | push
deriving DecidableEq, Repr

/-- program counter of a handler goroutine (after `Add(1)`). -/
inductive HPc
  | counted   -- `Add(1)` done, goroutine spawned, before `h.enter` is passed
  | entered   -- `h.enter` passed, handler body running
  | hdone     -- handler body returned (`h.exit`), reply not yet written
  | wok       -- `write`: status loaded and accepted, frame not yet written
  | wrote     -- reply frame written to the socket (`writed = true`)
  | failed    -- reply refused (102) or the socket write failed
  | rdone     -- `handleReply`: `callCmd.done()` executed
  | fin       -- `putContext`: `Done()` executed
deriving DecidableEq, Repr

inductive Res
  | none | ok | lost
deriving DecidableEq, Repr

structure H where
  kind : HKind
  id : Nat
  pc : HPc
  /-- ghost: `h.enter` was passed while the closer had not yet done its CAS (before closeStart). -/
  ebc : Bool
  /-- ghost: `Add(1)` was executed when the closer had already returned from `graceCtxWait`. -/
  late : Bool
  /-- ghost: what happened to the reply. -/
  res : Res
deriving DecidableEq, Repr

inductive CRes
  | reply | refused | wfail | cancelled
deriving DecidableEq, Repr

/-- program counter of an outbound call. -/
inductive CPc
  | seq       -- sequence number allocated
  | issued    -- `callWG.Add(1)`, stored in the table
  | wok       -- `write`: status loaded = Ok
  | wno       -- `write`: status loaded ≠ Ok
  | written   -- frame written, `AsyncCall` returned; waiting for the reply
  | bound     -- the reader has bound the reply frame (`hasReply`)
  | done (r : CRes)
deriving DecidableEq, Repr

structure C where
  pc : CPc
  /-- ghost: the status test of `write` was passed (status Ok). -/
  chk : Bool
  /-- ghost: `Add(1)` was executed when the closer had already returned from the call wait. -/
  late : Bool
  /-- the peer has sent its reply frame. -/
  replied : Bool
  /-- ghost: the reader delivered the reply frame to this call. -/
  deliv : Bool
deriving DecidableEq, Repr

/-- program counter of the closer = the last gate point of `closeLocked` it has passed. -/
inductive XPc
  | idle | cas | hubdel | ctxw | callw | stc | sockc | ret | noop
deriving DecidableEq, Repr

def XPc.rank : XPc → Nat
  | .idle => 0 | .noop => 0 | .cas => 1 | .hubdel => 2 | .ctxw => 3 | .callw => 4
  | .stc => 5 | .sockc => 6 | .ret => 7

inductive RPc
  | top | blocked
  | got (f : Option Frame)   -- `ReadMessage` returned (frame consumed, or an error): gate read.msg
  | add (f : Frame)          -- post-read check passed: gate read.add, before `Add(1)`
  | dload | dgo (st : Status) | dwait (active : Bool)
  | dcancel (active : Bool)                               -- ctx wait returned, before `callCmdMap.Range`
  | dloop (active : Bool) (todo : List Nat)               -- in `Range`: entries of the snapshot not yet yielded
  | dlock (active : Bool) (j : Nat) (todo : List Nat)     -- entry `j` yielded: at `callCmd.mu.Lock()`
  | dsock | rexit
deriving DecidableEq, Repr

structure St where
  status : Status
  /-- `graceCtxWaitGroup` counter. -/
  ctx : Nat
  /-- `graceCallCmdWaitGroup` counter. -/
  calls : Nat
  /-- the local socket has been closed. -/
  sock : Bool
  /-- the connection has been lost by the environment. -/
  lost : Bool
  inq : List Frame
  closer : XPc
  reader : RPc
  hs : List H
  cs : List C
deriving DecidableEq, Repr

def St.init : St := ⟨.ok, 0, 0, false, false, [], .idle, .top, [], []⟩

def goon (st : Status) : Bool := st == .ok || st == .closing

def H.ofFrame (f : Frame) (late : Bool) : H :=
  match f with
  | .call id => ⟨.call, id, .counted, false, late, .none⟩
  | .reply c => ⟨.reply c, c, .counted, false, late, .none⟩
  | .orphan => ⟨.orphan, 0, .counted, false, late, .none⟩

/-- the handler still holds the context wait group. -/
def H.holds (h : H) : Bool :=
  match h.pc with
  | .fin => false
  | _ => true

/-- the call holds the call wait group (and is in the pending table). -/
def C.isOpen (c : C) : Bool :=
  match c.pc with
  | .issued | .wok | .wno | .written | .bound => true
  | _ => false

def C.isDone (c : C) : Bool :=
  match c.pc with
  | .done _ => true
  | _ => false

/-- `callCmd.mu` is held: by the caller from `cmd.mu.Lock()` in `AsyncCall` until `AsyncCall` returns
    (gates call.store and write.check are inside), by the reader / reply handler from `bindReply` to the
    end of `handleReply`. -/
def C.muHeld (c : C) : Bool :=
  match c.pc with
  | .issued | .wok | .wno | .bound => true
  | _ => false

/-- the pending-call table as `Range` sees it when it starts: the indices of the calls in the table. -/
def openIdx (cs : List C) : List Nat :=
  (List.range cs.length).filter fun j =>
    match cs[j]? with
    | some c => c.isOpen
    | none => false

/-- `write`'s status test for a reply / for a call or push. -/
def replyAllowed (st : Status) : Bool := st == .ok || st == .closing
def callAllowed (st : Status) : Bool := st == .ok

inductive Ev
  | envCall (id : Nat) | envReply (j : Nat) | envLost
  | rTop | rRead | rReadErr | rCheck | rAdd | rDLoad | rDGo | rDWait | rDSnap | rDPick (j : Nat) | rDVisit
  | rDCancelEnd | rDSock
  | hEnter (i : Nat) | hBody (i : Nat) | hCheck (i : Nat) | hWrite (i : Nat) | hReplyDone (i : Nat)
  | hFin (i : Nat) | pushStart
  | cSeq | cIssue (j : Nat) | cCheck (j : Nat) | cRefuse (j : Nat) | cWrite (j : Nat)
  | xStart | xHubdel | xCtxWait | xCallWait | xStClosed | xSock | xRet
deriving DecidableEq, Repr

/-- one atomic step; `none` = not enabled. -/
def step (s : St) : Ev → Option St
  | .envCall id => if s.lost then none else some { s with inq := s.inq ++ [.call id] }
  | .envReply j =>
    match s.cs[j]? with
    | some c =>
      if c.pc = .written ∧ c.replied = false ∧ s.lost = false then
        some { s with inq := s.inq ++ [.reply j], cs := s.cs.set j { c with replied := true } }
      else none
    | none => none
  | .envLost => some { s with lost := true }
  | .rTop =>
    if s.reader = .top then some { s with reader := if goon s.status then .blocked else .dload }
    else none
  | .rRead =>
    if s.reader = .blocked then
      match s.inq with
      | [] => none
      | .call id :: q => some { s with inq := q, reader := .got (some (.call id)) }
      | .orphan :: q => some { s with inq := q, reader := .got (some .orphan) }
      | .reply j :: q =>
        match s.cs[j]? with
        | some c =>
          if c.pc = .written then
            some { s with inq := q, reader := .got (some (.reply j)),
                          cs := s.cs.set j { c with pc := .bound, deliv := true } }
          else some { s with inq := q, reader := .got (some .orphan) }
        | none => some { s with inq := q, reader := .got (some .orphan) }
    else none
  | .rReadErr =>
    if s.reader = .blocked ∧ (s.lost = true ∨ s.sock = true) then some { s with reader := .got none }
    else none
  | .rCheck =>
    match s.reader with
    | .got none => some { s with reader := .dload }
    | .got (some f) => some { s with reader := if goon s.status then .add f else .dload }
    | _ => none
  | .rAdd =>
    match s.reader with
    | .add f => some { s with reader := .top, ctx := s.ctx + 1,
                              hs := s.hs ++ [H.ofFrame f (decide (3 ≤ s.closer.rank))] }
    | _ => none
  | .rDLoad => if s.reader = .dload then some { s with reader := .dgo s.status } else none
  | .rDGo =>
    match s.reader with
    | .dgo st =>
      if st = .ok then
        -- `tryChangeStatus(statusPassiveClosing, status)`; when it fails: load again
        if s.status = .ok then some { s with status := .pclosing, reader := .dwait false }
        else some { s with reader := .dload }
      else if st = .closing then some { s with reader := .dwait true }
      else some { s with reader := .rexit }
    | _ => none
  | .rDWait =>
    match s.reader with
    | .dwait a => if s.ctx = 0 then some { s with reader := .dcancel a } else none
    | _ => none
  | .rDSnap =>
    match s.reader with
    | .dcancel a => some { s with reader := .dloop a (openIdx s.cs) }
    | _ => none
  | .rDPick j =>
    match s.reader with
    | .dloop a todo => if j ∈ todo then some { s with reader := .dlock a j (todo.erase j) } else none
    | _ => none
  | .rDVisit =>
    match s.reader with
    | .dlock a j todo =>
      match s.cs[j]? with
      | some c =>
        if c.muHeld then none
        else if c.pc = .written then
          some { s with reader := .dloop a todo, calls := s.calls - 1,
                        cs := s.cs.set j { c with pc := .done .cancelled } }
        else some { s with reader := .dloop a todo }
      | none => some { s with reader := .dloop a todo }
    | _ => none
  | .rDCancelEnd =>
    match s.reader with
    | .dloop a [] => some { s with reader := if a then .rexit else .dsock }
    | _ => none
  | .rDSock =>
    if s.reader = .dsock then some { s with sock := true, status := .pclosed, reader := .rexit }
    else none
  | .hEnter i =>
    match s.hs[i]? with
    | some h =>
      if h.pc = .counted ∧ h.kind = .call then
        some { s with hs := s.hs.set i { h with pc := .entered, ebc := decide (s.closer = .idle) } }
      else none
    | none => none
  | .hBody i =>
    match s.hs[i]? with
    | some h => if h.pc = .entered then some { s with hs := s.hs.set i { h with pc := .hdone } } else none
    | none => none
  | .hCheck i =>
    match s.hs[i]? with
    | some h =>
      if (h.pc = .hdone ∧ h.kind = .call) then
        if replyAllowed s.status then some { s with hs := s.hs.set i { h with pc := .wok } }
        else some { s with hs := s.hs.set i { h with pc := .failed, res := .lost } }
      else if (h.pc = .counted ∧ h.kind = .push) then
        if callAllowed s.status then some { s with hs := s.hs.set i { h with pc := .wok } }
        else some { s with hs := s.hs.set i { h with pc := .failed, res := .lost } }
      else none
    | none => none
  | .hWrite i =>
    match s.hs[i]? with
    | some h =>
      if h.pc = .wok then
        if s.sock = false ∧ s.lost = false then
          some { s with hs := s.hs.set i { h with pc := .wrote, res := .ok } }
        else some { s with hs := s.hs.set i { h with pc := .failed, res := .lost } }
      else none
    | none => none
  | .hReplyDone i =>
    match s.hs[i]? with
    | some h =>
      if h.pc = .counted then
        match h.kind with
        | .reply j =>
          match s.cs[j]? with
          | some c =>
            if c.pc = .bound then
              some { s with calls := s.calls - 1, cs := s.cs.set j { c with pc := .done .reply },
                            hs := s.hs.set i { h with pc := .rdone } }
            else none
          | none => none
        | _ => none
      else none
    | none => none
  | .hFin i =>
    match s.hs[i]? with
    | some h =>
      if h.pc = .wrote ∨ h.pc = .failed ∨ h.pc = .rdone ∨ (h.pc = .counted ∧ h.kind = .orphan) then
        some { s with ctx := s.ctx - 1, hs := s.hs.set i { h with pc := .fin } }
      else none
    | none => none
  | .pushStart =>
    some { s with ctx := s.ctx + 1,
                  hs := s.hs ++ [⟨.push, 0, .counted, false, decide (3 ≤ s.closer.rank), .none⟩] }
  | .cSeq => some { s with cs := s.cs ++ [⟨.seq, false, false, false, false⟩] }
  | .cIssue j =>
    match s.cs[j]? with
    | some c =>
      if c.pc = .seq then
        some { s with calls := s.calls + 1,
                      cs := s.cs.set j { c with pc := .issued, late := decide (4 ≤ s.closer.rank) } }
      else none
    | none => none
  | .cCheck j =>
    match s.cs[j]? with
    | some c =>
      if c.pc = .issued then
        if callAllowed s.status then some { s with cs := s.cs.set j { c with pc := .wok, chk := true } }
        else some { s with cs := s.cs.set j { c with pc := .wno } }
      else none
    | none => none
  | .cRefuse j =>
    match s.cs[j]? with
    | some c =>
      if c.pc = .wno then
        some { s with calls := s.calls - 1, cs := s.cs.set j { c with pc := .done .refused } }
      else none
    | none => none
  | .cWrite j =>
    match s.cs[j]? with
    | some c =>
      if c.pc = .wok then
        if s.sock = false ∧ s.lost = false then some { s with cs := s.cs.set j { c with pc := .written } }
        else some { s with calls := s.calls - 1, cs := s.cs.set j { c with pc := .done .wfail } }
      else none
    | none => none
  | .xStart =>
    if s.closer = .idle then
      if s.status = .ok then some { s with status := .closing, closer := .cas }
      else some { s with closer := .noop }
    else none
  | .xHubdel => if s.closer = .cas then some { s with closer := .hubdel } else none
  | .xCtxWait => if s.closer = .hubdel ∧ s.ctx = 0 then some { s with closer := .ctxw } else none
  | .xCallWait => if s.closer = .ctxw ∧ s.calls = 0 then some { s with closer := .callw } else none
  | .xStClosed => if s.closer = .callw then some { s with status := .closed, closer := .stc } else none
  | .xSock => if s.closer = .stc then some { s with sock := true, closer := .sockc } else none
  | .xRet => if s.closer = .sockc then some { s with closer := .ret } else none

/-- one step of the session system: some event is enabled and leads from `s` to `t`. -/
def Step (s t : St) : Prop := ∃ e, step s e = some t

/-- reflexive-transitive closure. -/
inductive Reach (s : St) : St → Prop
  | refl : Reach s s
  | step {t u : St} : Reach s t → Step t u → Reach s u

/-- run a list of events (the driver and the witnesses use this). -/
def run : St → List Ev → Option St
  | s, [] => some s
  | s, e :: es => (step s e).bind fun t => run t es

/-! ## `Peer.Close`: listeners closed, then every session of the hub closed concurrently, joined -/

inductive PPc
  | idle | lclosed | spawned | joined
deriving DecidableEq, Repr

structure PSt where
  /-- listeners accept connections. -/
  lis : Bool
  pc : PPc
  ss : List St
  /-- indices of the sessions for which `Peer.Close` spawned a `Close` (the hub at range time). -/
  spawned : List Nat
deriving DecidableEq, Repr

def PSt.init : PSt := ⟨true, .idle, [], []⟩

/-- the session's `Close()` has returned. -/
def St.closeReturned (s : St) : Bool := s.closer == .ret || s.closer == .noop

/-- certainly in the hub: serving and nobody has started closing it. -/
def St.inHub (s : St) : Bool := s.closer == .idle && s.status == .ok

/-- `w` contains every index whose session is certainly in the hub. -/
def coversHub : List St → Nat → List Nat → Bool
  | [], _, _ => true
  | s :: r, i, w => (!s.inHub || w.contains i) && coversHub r (i + 1) w

inductive PEv
  | accept                      -- a listener accepts a connection: a new session in the hub
  | sess (i : Nat) (e : Ev)     -- any step of session `i` (its `xStart` = the goroutine spawned by
                                --   `Peer.Close`, or a `Session.Close` by the user)
  | closeLis                    -- `Peer.Close`: `close(closeCh)`, every listener closed
  | spawn (w : List Nat)        -- `Peer.Close`: `sessHub.rangeCallback`: one `Close` goroutine per
                                --   session found in the hub (`w` ⊇ the sessions certainly in it)
  | join                        -- `Peer.Close`: all `errCh` receives done, return
deriving DecidableEq, Repr

def pstep (p : PSt) : PEv → Option PSt
  | .accept => if p.lis then some { p with ss := p.ss ++ [St.init] } else none
  | .sess i e =>
    match p.ss[i]? with
    | some s =>
      match step s e with
      | some t => some { p with ss := p.ss.set i t }
      | none => none
    | none => none
  | .closeLis => if p.pc = .idle then some { p with lis := false, pc := .lclosed } else none
  | .spawn w =>
    if p.pc = .lclosed ∧ coversHub p.ss 0 w then some { p with pc := .spawned, spawned := w } else none
  | .join =>
    if p.pc = .spawned ∧ p.spawned.all (fun i => match p.ss[i]? with
        | some s => s.closeReturned
        | none => true) then some { p with pc := .joined }
    else none

def PStep (p q : PSt) : Prop := ∃ e, pstep p e = some q

inductive PReach (p : PSt) : PSt → Prop
  | refl : PReach p p
  | step {q r : PSt} : PReach p q → PStep q r → PReach p r

end Teleport.Graceful
