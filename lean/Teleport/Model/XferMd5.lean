/-
Model/XferMd5 — the parts of the transfer-filter machinery that Model/Xfer does not cover:

* `xfer/md5/md5.go`   : `md5F h` (parametric in the hash) and `md5Filter` (the concrete MD5);
* `xfer/gzip/gzip.go` : `gzipF comp decomp` over an abstract compressor pair (compress/gzip itself
  is not modelled), with the code's own special case "empty input unpacks to itself";
* `xfer/xfer.go`      : `Reg`, `Get`, `GetByName` over an explicit entry list; `XferPipe.Append`
  as coded (`appendLoop` / `appendSt`: ids are appended one by one, an unknown id aborts at that id,
  the length is checked after everything was appended, and on either failure the pipe is cut back
  to its old length), `AppendFrom` (refuses as a whole above 255), `Range`, `Reset`;
* `context.go`        : the reply pipe computed by `AddXferPipe` / `handleCall` (`callPipe`).
Core Lean only.
-/
import Teleport.Model.Xfer
import Teleport.Model.Md5
namespace Teleport
namespace Xfer

/-! ### xfer/md5/md5.go -/

/-- `const md5Length = 16` -/
def md5Length : Nat := 16

/-- `md5Hash.OnPack` / `md5Hash.OnUnpack` for the hash function `h` (`getMd5`).
    OnPack : `src = append(src, getMd5(src)...)`.
    OnUnpack : `len(src) < 16` → `errDataCheck`; `srcData := src[:len-16]`; the digest of `srcData`
    must equal `src[len-16:]`, else `errDataCheck`; returns `srcData`. -/
def md5F (h : Bytes → Bytes) : Filter :=
  { pack := fun src => some (src ++ h src)
    unpack := fun src =>
      if src.length < md5Length then none
      else
        let srcData := src.take (src.length - md5Length)
        if h srcData == src.drop (src.length - md5Length) then some srcData else none }

/-- the filter as registered by `md5.Reg`: the hash is MD5. -/
def md5Filter : Filter := md5F Md5.sum

/-! ### xfer/gzip/gzip.go -/

/-- `Gzip.OnPack` = the compressor; `Gzip.OnUnpack` = `if len(src) == 0 { return src, nil }`, else
    the decompressor (`ioutil.ReadAll(gzip.Reader)`; any error is a failure). -/
def gzipF (comp decomp : Bytes → Option Bytes) : Filter :=
  { pack := comp
    unpack := fun src => if src.isEmpty then some src else decomp src }

/-- a finite (plain, packed) table as a compressor pair: what the driver knows about the real
    gzip filter on one case (the pairs the real code produced). -/
def tableComp (t : List (Bytes × Bytes)) (x : Bytes) : Option Bytes := (t.find? (·.1 == x)).map (·.2)
def tableDecomp (t : List (Bytes × Bytes)) (y : Bytes) : Option Bytes := (t.find? (·.2 == y)).map (·.1)

/-! ### xfer/xfer.go: registry -/

/-- one registered filter: `ID()`, `Name()`, behaviour. -/
structure Entry where
  id   : UInt8
  name : Bytes
  f    : Filter

/-- `Reg`: `none` = the Go code panics (duplicate id is tested first, then duplicate name);
    nothing is stored on a panic. New entries go to the end (order is irrelevant for lookups because
    ids and names stay unique). -/
def reg (es : List Entry) (e : Entry) : Option (List Entry) :=
  if es.any (·.id == e.id) then none
  else if es.any (·.name == e.name) then none
  else some (es ++ [e])

/-- which of the two panics `Reg` raises (for the observation line). -/
def regOutcome (es : List Entry) (e : Entry) : String :=
  if es.any (·.id == e.id) then "panic:id"
  else if es.any (·.name == e.name) then "panic:name"
  else "ok"

/-- `Get(id)` -/
def get (es : List Entry) (i : UInt8) : Option Entry := es.find? (·.id == i)
/-- `GetByName(name)` -/
def getByName (es : List Entry) (n : Bytes) : Option Entry := es.find? (·.name == n)

/-- the id ↦ filter view used by `Model/Xfer`. -/
def toRegistry (es : List Entry) : Registry := fun i => (get es i).map (·.f)

/-- a sequence of `Reg` calls; `none` as soon as one panics. -/
def regAll : List Entry → List Entry → Option (List Entry)
  | es, [] => some es
  | es, e :: r => (reg es e).bind (fun es' => regAll es' r)

/-! ### xfer/xfer.go: XferPipe (a pipe is the list of the ids of its filters, outer-most first) -/

/-- the `for _, id := range filterID` loop of `XferPipe.Append`: `Get(id)` then
    `x.filters = append(x.filters, filter)`; `none` = `Get` failed on an unknown id (the loop is
    left at that id). -/
def appendLoop (reg : Registry) : List UInt8 → List UInt8 → Option (List UInt8)
  | cur, [] => some cur
  | cur, i :: is =>
    match reg i with
    | none => none
    | some _ => appendLoop reg (cur ++ [i]) is

/-- `XferPipe.Append(ids...)` exactly as coded: returns the pipe *afterwards* and whether the call
    returned nil. `n := len(x.filters)`; an unknown id cuts the pipe back (`x.filters[:n]`) and
    returns the error at once (`check` is not reached); otherwise all ids are appended and then
    `check()` compares the length with 255 — a too-long pipe is cut back to `n` as well. Either
    everything is appended or nothing is. -/
def appendSt (reg : Registry) (cur ids : List UInt8) : List UInt8 × Bool :=
  match appendLoop reg cur ids with
  | none => (cur, false)
  | some p => if p.length ≤ 255 then (p, true) else (cur, false)

/-- `XferPipe.AppendFrom(src)`: no lookup; `if x.Len()+src.Len() > math.MaxUint8 { return }`,
    else every filter of `src` is appended. -/
def appendFrom (cur src : List UInt8) : List UInt8 :=
  if cur.length + src.length > 255 then cur else cur ++ src

/-- `XferPipe.Reset()` -/
def reset (_cur : List UInt8) : List UInt8 := []

/-- `XferPipe.Range(cb)`: the (index, id) pairs the callback is invoked on — up to and including
    the first one for which it returns false. -/
def rangeFrom (cb : Nat → UInt8 → Bool) : Nat → List UInt8 → List (Nat × UInt8)
  | _, [] => []
  | k, i :: is => if cb k i then (k, i) :: rangeFrom cb (k + 1) is else [(k, i)]

def range (cb : Nat → UInt8 → Bool) (p : List UInt8) : List (Nat × UInt8) := rangeFrom cb 0 p

/-! ### context.go: pipe of the reply to a call -/

/-- `handlerCtx.AddXferPipe(ids...)` = `c.output.XferPipe().Append(ids...)`; an error is logged
    (`Warnf`) and the call has no other effect. -/
def addXferPipe (reg : Registry) (cur : List UInt8) (ids : List UInt8) : List UInt8 :=
  (appendSt reg cur ids).1

/-- a sequence of `AddXferPipe` calls. -/
def addAll (reg : Registry) (cur : List UInt8) (calls : List (List UInt8)) : List UInt8 :=
  calls.foldl (addXferPipe reg) cur

/-- the pipe statements at the head of `handleCall`, on the output pipe `out` and the request's
    pipe `req`: `if out.Len()+req.Len() > 255 { out.Reset() }` (the caller's pipe takes precedence
    over filters added to the reply earlier), then `out.AppendFrom(req)`. -/
def callPipe (out req : List UInt8) : List UInt8 :=
  appendFrom (if out.length + req.length > 255 then reset out else out) req

/-- the reply's pipe: the output message starts empty (`clean` resets it); `pre` are the
    `AddXferPipe` calls made before `handleCall` runs (plugins at post-read-header / pre-read-body),
    then `handleCall` runs `callPipe` with the request's pipe, then the handler (and post-read-body
    / pre-write-reply plugins) make the calls `post`. -/
def replyPipe (reg : Registry) (pre : List (List UInt8)) (req : List UInt8) (post : List (List UInt8)) :
    List UInt8 :=
  addAll reg (callPipe (addAll reg [] pre) req) post

/-- what `rawProto.Pack` writes for a pipe: `byte(Len())` then all ids. -/
def wirePipe (p : List UInt8) : Bytes := (p.length % 256).toUInt8 :: p

end Xfer
end Teleport
