/-
Model/StatusHeap — the status objects of a process as a heap (property C15).

A heap is a list of cells addressed by position. The framework's predefined statuses (the
package-level `stat*` variables of status.go / session.go) occupy the first `nSent` addresses, with
their initial (code, msg, cause); every other cell was allocated by one of the status-producing
sites of the framework or of user code:

  Go                                                         model
  status.go   var statXxx = NewStatus(CodeX, CodeText(CodeX), "")   `sentinelTable`, `init`
  session.go  var statUnpreparedError = statInvalidOpError.Copy(..) last row of `sentinelTable`
  `return statConnClosed`, `c.stat = statNotFound`, ...      `Op.returnSentinel a` (no allocation:
                                                              the SHARED pointer goes to the caller)
  `statX.Copy(cause)` (goutil status.Copy)                   `Op.copyOf a cause`   (allocates, tag copy)
  `m.Status(true).DecodeQuery(b)` in every proto's Unpack    `Op.decodeFresh b`    (allocates, tag messageOwned)
  a status crossing the wire (Pack: EncodeQuery, Unpack)     `Op.sendOver a`       (= decodeFresh (encode cell))
  `NewStatus(..)`, `new(Status)` in user code / plugins      `Op.newStatus s`      (allocates, tag fresh)
  a user-configured factory (binder ErrorFunc)               `Op.newCallback s`    (allocates, tag callback)
  `x.SetCode/SetMsg/SetCause/Clear/DecodeQuery/UnmarshalJSON` `Op.mutate site a m`  (in place at address a)

`site` is the syntactic provenance class that `srcfacts` computes for the receiver expression of the
mutating call (Gen/StatusMut.lean). The link between the syntactic class and the heap is `Op.respects`:
a receiver of class fresh / copy / messageOwned / callback denotes an object that was allocated by
the matching kind of site (its tag); a receiver of class returnedByCall / sentinel / unknown may
denote ANY object, in particular a sentinel.
-/
import Teleport.Model.Status
namespace Teleport
namespace StatusHeap

/-- ASCII text as bytes. -/
def ascii (s : String) : Bytes := s.toList.map (fun c => c.toNat.toUInt8)

inductive Cls
  | sentinel | fresh | copy | messageOwned | callback | returnedByCall | unknown
deriving DecidableEq, Repr, Inhabited

def Cls.ofString : String → Cls
  | "sentinel" => .sentinel
  | "fresh" => .fresh
  | "copy" => .copy
  | "messageOwned" => .messageOwned
  | "callback" => .callback
  | "returnedByCall" => .returnedByCall
  | _ => .unknown

/-- classes whose receiver cannot be a shared object. -/
def Cls.safe : Cls → Bool
  | .fresh | .copy | .messageOwned | .callback => true
  | _ => false

structure Cell where
  val : Status
  tag : Cls
deriving DecidableEq, Repr, Inhabited

abbrev Heap := List Cell
abbrev Addr := Nat

/-- the predefined statuses: (Go identifier, initial content). `NewStatus(c, m, "")` stores
    `errors.New("")`: a non-nil cause with empty text. -/
def sentinelTable : List (String × Status) := [
  ("statInvalidOpError",      ⟨1,   ascii "Invalid Operation", some []⟩),
  ("statUnknownError",        ⟨-1,  ascii "Unknown Error", some []⟩),
  ("statDialFailed",          ⟨105, ascii "Dial Failed", some []⟩),
  ("statConnClosed",          ⟨102, ascii "Connection Closed", some []⟩),
  ("statWriteFailed",         ⟨104, ascii "Write Failed", some []⟩),
  ("statBadMessage",          ⟨400, ascii "Bad Message", some []⟩),
  ("statNotFound",            ⟨404, ascii "Not Found", some []⟩),
  ("statCodeMtypeNotAllowed", ⟨405, ascii "Message Type Not Allowed", some []⟩),
  ("statHandleTimeout",       ⟨408, ascii "Handle Timeout", some []⟩),
  ("statInternalServerError", ⟨500, ascii "Internal Server Error", some []⟩),
  ("statUnpreparedError",     ⟨1,   ascii "Invalid Operation",
      some (ascii "Cannot be called during the Non-PostDial and Non-PostAccept phase")⟩)]

def init : Heap := sentinelTable.map (fun p => ⟨p.2, .sentinel⟩)
def nSent : Nat := 11

def idxOf (name : String) : List (String × Status) → Nat → Option Nat
  | [], _ => none
  | (n, _) :: r, i => if n == name then some i else idxOf name r (i + 1)

/-- address of a sentinel by its Go identifier. -/
def addrOf (name : String) : Option Addr := idxOf name sentinelTable 0

-- fixed addresses used by the failure rules
def aInvalidOp : Addr := 0
def aDialFailed : Addr := 2
def aConnClosed : Addr := 3
def aWriteFailed : Addr := 4
def aBadMessage : Addr := 5
def aNotFound : Addr := 6
def aMtype : Addr := 7
def aISE : Addr := 9
def aUnprepared : Addr := 10

/-- the in-place mutators of goutil `status.Status`. `overwrite` stands for Clear (s = zero),
    DecodeQuery and UnmarshalJSON: they replace the whole content by whatever they leave in the
    object (also when they stop half-way); the theorems quantify over every `s`. -/
inductive Mut
  | setCode (c : Int)
  | setMsg (m : Bytes)
  | setCause (c : Option Bytes)
  | overwrite (s : Status)
deriving DecidableEq, Repr

def Mut.apply : Mut → Status → Status
  | .setCode c, s => { s with code := c }
  | .setMsg m, s => { s with msg := m }
  | .setCause c, s => { s with cause := c }
  | .overwrite t, _ => t

inductive Op
  | returnSentinel (a : Addr)
  | copyOf (a : Addr) (cause : Option Bytes)
  | decodeFresh (b : Bytes)
  | sendOver (a : Addr)
  | newStatus (s : Status)
  | newCallback (s : Status)
  | mutate (site : Cls) (a : Addr) (m : Mut)
deriving DecidableEq, Repr

def updAt (f : Cell → Cell) : Nat → Heap → Heap
  | _, [] => []
  | 0, c :: r => f c :: r
  | n + 1, c :: r => c :: updAt f n r

def valAt (h : Heap) (a : Addr) : Status := (h[a]?.map (·.val)).getD Status.zero
def tagAt (h : Heap) (a : Addr) : Option Cls := h[a]?.map (·.tag)

/-- `(*Status).Copy(newCause)`: `New(s.code, s.msg, newCause)`, a nil newCause keeps the old cause. -/
def copyVal (s : Status) (cause : Option Bytes) : Status :=
  { s with cause := match cause with | some c => some c | none => s.cause }

/-- what `new(Status)` + `DecodeQuery(b)` leaves: the decoded triple; when un-quoting panics the object
    was `Clear()`ed and is abandoned with its message (explicit outcome `decodePanics`). -/
def decodeVal (b : Bytes) : Status := (Status.decode b).getD Status.zero
def decodePanics (b : Bytes) : Bool := (Status.decode b).isNone

/-- result of one operation: the pointer it hands to its caller (if any). -/
def Op.result (h : Heap) : Op → Option Addr
  | .returnSentinel a => some a
  | .copyOf _ _ | .decodeFresh _ | .sendOver _ | .newStatus _ | .newCallback _ => some h.length
  | .mutate _ a _ => some a

def step (h : Heap) : Op → Heap
  | .returnSentinel _ => h
  | .copyOf a c => h ++ [⟨copyVal (valAt h a) c, .copy⟩]
  | .decodeFresh b => h ++ [⟨decodeVal b, .messageOwned⟩]
  | .sendOver a => h ++ [⟨decodeVal (valAt h a).encode, .messageOwned⟩]
  | .newStatus s => h ++ [⟨s, .fresh⟩]
  | .newCallback s => h ++ [⟨s, .callback⟩]
  | .mutate _ a m => updAt (fun c => { c with val := m.apply c.val }) a h

def run (h : Heap) (ops : List Op) : Heap := ops.foldl step h

/-- the class discipline: which object a site of a given class can denote. -/
def Op.respects (h : Heap) : Op → Bool
  | .returnSentinel a => decide (a < nSent)
  | .copyOf a _ => decide (a < h.length)
  | .sendOver a => decide (a < h.length)
  | .decodeFresh _ | .newStatus _ | .newCallback _ => true
  | .mutate site a _ =>
    decide (a < h.length) && (if site.safe then tagAt h a == some site else true)

def Respects : Heap → List Op → Prop
  | _, [] => True
  | h, op :: r => op.respects h = true ∧ Respects (step h op) r

def respectsB : Heap → List Op → Bool
  | _, [] => true
  | h, op :: r => op.respects h && respectsB (step h op) r

/-- the mutating sites of the operation come from classes in `cs`. -/
def Op.siteIn (cs : List Cls) : Op → Bool
  | .mutate site _ _ => cs.contains site
  | _ => true

/-- the contents of the predefined statuses. -/
def sentinels (h : Heap) : List Status := (h.take nSent).map (·.val)

/-- state invariant: the sentinel cells are the initial ones and no allocated cell is tagged sentinel. -/
def SInv (h : Heap) : Prop := ∃ post, h = init ++ post ∧ ∀ c ∈ post, c.tag ≠ .sentinel

/-! ## framework failure rules: what a caller observes for a given failure cause -/

inductive Rule
  /-- Call/Push on a session that is not Ok: `session.write` returns `statConnClosed` as is. -/
  | closedCall
  /-- pending call cancelled by the disconnect path with a reason: `statConnClosed.Copy(reason)`. -/
  | cancelled (reason : Bytes)
  /-- no handler: `c.stat = statNotFound`, the reply carries it over the wire. -/
  | unknownRoute
  /-- empty service method: `statBadMessage.Copy("invalid service method for message")`, over the wire. -/
  | emptyMethod
  /-- undecodable call body: `statBadMessage.Copy(err)`, over the wire. -/
  | badBody (err : Bytes)
  /-- handler panic `p`: `statInternalServerError.Copy(p)`, over the wire. -/
  | handlerPanic (p : Bytes)
  /-- write refused / failed: `statWriteFailed.Copy(err)`. -/
  | writeFailed (err : Bytes)
  /-- `peer.Dial` failed: `statDialFailed.Copy(err)`. -/
  | dialFailed (err : Bytes)
  /-- PreSend/PreCall/PreReply/PreReceive outside the Preparing phase: `statUnpreparedError` as is. -/
  | unprepared
  /-- unsupported message type: `c.stat = statCodeMtypeNotAllowed` (server side; then disconnect). -/
  | mtypeNotAllowed
deriving DecidableEq, Repr

def invalidMethodText : Bytes := ascii "invalid service method for message"

/-- the operations a rule performs; the caller observes the object the LAST one returns. -/
def Rule.ops (h : Heap) : Rule → List Op
  | .closedCall => [.returnSentinel aConnClosed]
  | .cancelled r => [.copyOf aConnClosed (some r)]
  | .unknownRoute => [.returnSentinel aNotFound, .sendOver aNotFound]
  | .emptyMethod => [.copyOf aBadMessage (some invalidMethodText), .sendOver h.length]
  | .badBody e => [.copyOf aBadMessage (some e), .sendOver h.length]
  | .handlerPanic p => [.copyOf aISE (some p), .sendOver h.length]
  | .writeFailed e => [.copyOf aWriteFailed (some e)]
  | .dialFailed e => [.copyOf aDialFailed (some e)]
  | .unprepared => [.returnSentinel aUnprepared]
  | .mtypeNotAllowed => [.returnSentinel aMtype]

/-- run a list of operations, remembering the pointer the last one returned. -/
def runLast (h : Heap) (last : Option Addr) : List Op → Heap × Option Addr
  | [] => (h, last)
  | op :: r => runLast (step h op) (op.result h) r

/-- heap after the rule and the triple the caller observes. -/
def Rule.exec (h : Heap) (r : Rule) : Heap × Status :=
  let (h', last) := runLast h none (r.ops h)
  (h', valAt h' (last.getD 0))

/-- the rule table: the triple as a function of the failure cause alone. -/
def Rule.table : Rule → Status
  | .closedCall => ⟨102, ascii "Connection Closed", some []⟩
  | .cancelled r => ⟨102, ascii "Connection Closed", some r⟩
  | .unknownRoute => ⟨404, ascii "Not Found", some []⟩
  | .emptyMethod => ⟨400, ascii "Bad Message", some invalidMethodText⟩
  | .badBody e => ⟨400, ascii "Bad Message", some e⟩
  | .handlerPanic p => ⟨500, ascii "Internal Server Error", some p⟩
  | .writeFailed e => ⟨104, ascii "Write Failed", some e⟩
  | .dialFailed e => ⟨105, ascii "Dial Failed", some e⟩
  | .unprepared => ⟨1, ascii "Invalid Operation",
      some (ascii "Cannot be called during the Non-PostDial and Non-PostAccept phase")⟩
  | .mtypeNotAllowed => ⟨405, ascii "Message Type Not Allowed", some []⟩

end StatusHeap
end Teleport
