/-
Model/Conc — event model of concurrent executions for C14 (data-race freedom), core Lean only.

A *trace* is the list of events of one execution in the order in which they took effect; an event is
`(thread, op)`.  Ops: mutex `acq/rel`, rw-mutex read side `racq/rrel` (the write side of a rw-mutex is
`acq/rel` of the same lock), `atomicOp x` (a sync/atomic access of location `x`), plain accesses
`rd x`/`wr x`, `fork t'` (the `go` statement that starts thread `t'`), `chClose c` and `chRecv c`
(a receive on `c` that returned because `c` was closed).

Happens-before (`HB`) = transitive closure of: program order, release → later acquire of the same lock
(`rel→acq`, `rel→racq`, `rrel→acq`; *not* `rrel→racq`: two read-side sections are unordered), `fork t'`
→ every later event of `t'`, `chClose c` → later `chRecv c`.  These are the synchronisation edges of the
Go memory model for sync.Mutex / sync.RWMutex / go statements / channel close.  Atomic operations
create no edge here (fewer edges = a stronger race-freedom statement).

Lock semantics (`lockStep`, `lockRun`): per lock one writer slot and a multiset of readers; `acq` needs the
lock completely free, `racq` needs no writer, `rel`/`rrel` only by a holder.  `LockWf l tr` says the trace
respects this for lock `l`.  `HoldsW/HoldsR l tr i t`: thread `t` holds `l` exclusively / shared in the lock
state reached just before event `i`.

What this model does NOT contain: the Go runtime and scheduler, `sync.WaitGroup` (its Add/Wait protocol is
not modelled at all; the session's two grace counters are no longer of that type but of the package's own
`graceWaitGroup` — a counter `n` and a channel `zero` under the mutex `mu`, whose accesses are ordinary rows of the
site table and whose wake-up is a `chClose`/`chRecv` pair), `sync.Pool`, channel sends/receives other than
close-observing receives, the internals of `sync.Map`, and any access made through `unsafe` or reflection.
-/
namespace Teleport.Conc

abbrev Tid := Nat
abbrev LockId := Nat
abbrev Loc := Nat
abbrev Chan := Nat

inductive Op where
  | acq (l : LockId)
  | rel (l : LockId)
  | racq (l : LockId)
  | rrel (l : LockId)
  | atomicOp (x : Loc)
  | rd (x : Loc)
  | wr (x : Loc)
  | fork (t : Tid)
  | chClose (c : Chan)
  | chRecv (c : Chan)
  deriving DecidableEq, Repr

structure Ev where
  tid : Tid
  op : Op
  deriving DecidableEq, Repr

abbrev Trace := List Ev

/-! ### happens-before -/

/-- `a` is a release of a lock and `b` an acquire of the same lock that it synchronises with. -/
def lockSync : Op → Op → Bool
  | .rel l, .acq l' => l == l'
  | .rel l, .racq l' => l == l'
  | .rrel l, .acq l' => l == l'
  | _, _ => false

/-- the non-program-order synchronisation edges: unlock→lock, go statement→started thread, close→receive. -/
def syncs (a b : Ev) : Bool :=
  lockSync a.op b.op ||
  (match a.op with | .fork t => t == b.tid | _ => false) ||
  (match a.op, b.op with | .chClose c, .chRecv c' => c == c' | _, _ => false)

/-- a direct happens-before edge from event `i` to the later event `j`. -/
def Edge (tr : Trace) (i j : Nat) : Prop :=
  i < j ∧ ∃ a b, tr[i]? = some a ∧ tr[j]? = some b ∧ (a.tid = b.tid ∨ syncs a b = true)

/-- happens-before: transitive closure of `Edge`. -/
inductive HB (tr : Trace) : Nat → Nat → Prop where
  | edge {i j : Nat} : Edge tr i j → HB tr i j
  | trans {i k j : Nat} : HB tr i k → HB tr k j → HB tr i j

/-! ### accesses, conflicts, races -/

/-- `op` may modify `x`: a plain write, or an atomic operation (conservatively counted as a write). -/
def Op.isWrite (x : Loc) (o : Op) : Bool := o == .wr x || o == .atomicOp x
/-- `op` is a plain (non-atomic) access of `x`. -/
def Op.isPlain (x : Loc) (o : Op) : Bool := o == .wr x || o == .rd x
/-- `op` accesses `x` at all. -/
def Op.isAccess (x : Loc) (o : Op) : Bool := o.isWrite x || o == .rd x

/-- events `i < j` are conflicting accesses of `x`: different threads, at least one may write, and not both
atomic.  (Go: "a write to a memory location happening concurrently with another read or write of that
location, unless all the accesses involved are atomic"; an atomic load against a plain read is counted
as a conflict here, which only makes the theorems stronger.) -/
def Conflict (tr : Trace) (x : Loc) (i j : Nat) : Prop :=
  i < j ∧ ∃ a b, tr[i]? = some a ∧ tr[j]? = some b ∧ a.tid ≠ b.tid ∧
    a.op.isAccess x = true ∧ b.op.isAccess x = true ∧
    (a.op.isWrite x = true ∨ b.op.isWrite x = true) ∧
    (a.op.isPlain x = true ∨ b.op.isPlain x = true)

/-- a data race on `x`: two conflicting accesses not ordered by happens-before. -/
def Race (tr : Trace) (x : Loc) : Prop := ∃ i j, Conflict tr x i j ∧ ¬ HB tr i j

/-- no data race on `x`: every pair of conflicting accesses is ordered by happens-before. -/
def RaceFree (tr : Trace) (x : Loc) : Prop := ∀ i j, Conflict tr x i j → HB tr i j

/-! ### lock semantics -/

structure LState where
  writer : Option Tid
  readers : List Tid
  deriving DecidableEq, Repr

def LState.free : LState := ⟨none, []⟩

/-- effect of one event on the state of lock `l`; `none` = the event is not allowed in that state. -/
def lockStep (l : LockId) (s : LState) (e : Ev) : Option LState :=
  match e.op with
  | .acq l' =>
    if l' = l then (if s.writer = none ∧ s.readers = [] then some ⟨some e.tid, []⟩ else none) else some s
  | .rel l' =>
    if l' = l then (if s.writer = some e.tid then some ⟨none, s.readers⟩ else none) else some s
  | .racq l' =>
    if l' = l then (if s.writer = none then some ⟨none, e.tid :: s.readers⟩ else none) else some s
  | .rrel l' =>
    if l' = l then (if e.tid ∈ s.readers then some ⟨s.writer, s.readers.erase e.tid⟩ else none) else some s
  | _ => some s

def lockRun (l : LockId) (s : LState) : Trace → Option LState
  | [] => some s
  | e :: tr => (lockStep l s e).bind (fun s' => lockRun l s' tr)

/-- the trace respects the semantics of lock `l` (at most one writer, readers exclude writers, release only
by a holder), starting from the free lock. -/
def LockWf (l : LockId) (tr : Trace) : Prop := (lockRun l LState.free tr).isSome = true

instance (l : LockId) (tr : Trace) : Decidable (LockWf l tr) := by unfold LockWf; infer_instance

/-- thread `t` holds `l` exclusively just before event `i`. -/
def HoldsW (l : LockId) (tr : Trace) (i : Nat) (t : Tid) : Prop :=
  ∃ s, lockRun l LState.free (tr.take i) = some s ∧ s.writer = some t

/-- thread `t` holds `l` in read (shared) mode just before event `i`. -/
def HoldsR (l : LockId) (tr : Trace) (i : Nat) (t : Tid) : Prop :=
  ∃ s, lockRun l LState.free (tr.take i) = some s ∧ t ∈ s.readers

/-- the locking discipline for location `x` with guard `l`: every event that may write `x` (plain write or
atomic op) is performed holding `l` exclusively; every plain read holding `l` exclusively or shared. -/
def Guarded (tr : Trace) (x : Loc) (l : LockId) : Prop :=
  ∀ i e, tr[i]? = some e →
    (e.op.isWrite x = true → HoldsW l tr i e.tid) ∧
    (e.op = .rd x → HoldsW l tr i e.tid ∨ HoldsR l tr i e.tid)

/-- computable versions for concrete traces (non-vacuity examples). -/
def holdsWb (l : LockId) (tr : Trace) (i : Nat) (t : Tid) : Bool :=
  match lockRun l LState.free (tr.take i) with
  | some s => s.writer == some t
  | none => false

def holdsRb (l : LockId) (tr : Trace) (i : Nat) (t : Tid) : Bool :=
  match lockRun l LState.free (tr.take i) with
  | some s => s.readers.contains t
  | none => false

def guardedFrom (full : Trace) (x : Loc) (l : LockId) : Nat → Trace → Bool
  | _, [] => true
  | i, e :: rest =>
    ((!e.op.isWrite x) || holdsWb l full i e.tid) &&
    ((!(e.op == .rd x)) || holdsWb l full i e.tid || holdsRb l full i e.tid) &&
    guardedFrom full x l (i + 1) rest

def guardedb (tr : Trace) (x : Loc) (l : LockId) : Bool := guardedFrom tr x l 0 tr

/-! ### publication -/

/-- `x` is initialised by thread `t0` and published at event `p` (an event of `t0`, e.g. the `fork` that
starts the first other user, or the unlock after inserting the object into a shared table): every plain
write of `x` is by `t0` before `p`, and every access of `x` by another thread is ordered after `p`. -/
structure Published (tr : Trace) (x : Loc) (t0 : Tid) (p : Nat) : Prop where
  pub : ∃ e, tr[p]? = some e ∧ e.tid = t0
  writes : ∀ i e, tr[i]? = some e → e.op = .wr x → e.tid = t0 ∧ i < p
  foreign : ∀ j e, tr[j]? = some e → e.op.isAccess x = true → e.tid ≠ t0 → HB tr p j

/-- no atomic op on `x` anywhere in the trace. -/
def NoAtomic (tr : Trace) (x : Loc) : Prop := ∀ e ∈ tr, e.op ≠ .atomicOp x
/-- no plain access of `x` anywhere in the trace. -/
def NoPlain (tr : Trace) (x : Loc) : Prop := ∀ e ∈ tr, e.op.isPlain x = false
/-- every plain access of `x` is made by `t0` before event `p` (constructor initialisation). -/
def PlainOnlyInit (tr : Trace) (x : Loc) (t0 : Tid) (p : Nat) : Prop :=
  ∀ i e, tr[i]? = some e → e.op.isPlain x = true → e.tid = t0 ∧ i < p

/-- the started thread has no event before the `go` statement that starts it. -/
def ForkWf (tr : Trace) : Prop :=
  ∀ (q : Nat) (e : Ev) (t' : Tid), tr[q]? = some e → e.op = .fork t' →
    ∀ (j : Nat) (e' : Ev), tr[j]? = some e' → e'.tid = t' → q < j

/-! ### the declared guard map (tie A: checked against the regenerated site table `Teleport.Gen.guards`)

PARTIAL by construction: the table lists *syntactic* lock regions per enclosing function, lock identity is
(owner type, field name) and not the instance, and there is no callee inlining — functions that are only
called with the lock held are *named* here (`heldIn`) and that naming is trusted. -/

/-- one access site of the regenerated table. -/
structure Site where
  field : String
  kind : String          -- "R" / "W"
  atomic : Bool
  locks : List (String × String)   -- (lock, mode "R"/"W"; mode "P" = publication marker)
  fn : String
  file : String
  deriving DecidableEq, Repr

def Site.ofRow (r : String × String × Bool × List (String × String) × String × String) : Site :=
  ⟨r.1, r.2.1, r.2.2.1, r.2.2.2.1, r.2.2.2.2.1, r.2.2.2.2.2⟩

def Site.holdsW (s : Site) (l : String) : Bool := s.locks.contains (l, "W")
def Site.holdsAny (s : Site) (l : String) : Bool := s.locks.contains (l, "W") || s.locks.contains (l, "R")

inductive Discipline where
  /-- every site holds `l` exclusively (↔ `C14_lockset_sound`), except in constructors `ctors`
  (↔ `C14_init_then_guarded_sound`) and in functions `heldIn` that are only called with `l` held. -/
  | mutex (l : String) (ctors heldIn : List String)
  /-- writes and atomic ops hold `l` exclusively, reads hold it exclusively or shared. -/
  | rw (l : String) (ctors heldIn : List String)
  /-- every site goes through sync/atomic, except plain initialisation in `ctors`
  (↔ `C14_atomic_only_sound`, `C14_atomic_after_init_sound`). -/
  | atomicOnly (ctors : List String)
  /-- written only in `ctors` (before the object is shared), plain reads afterwards
  (↔ `C14_init_before_publish_sound`). -/
  | initOnly (ctors : List String)
  /-- callCmd result fields: written under `l` (or in `heldIn`) and never after the publication marker
  `pub` (close of doneChan); read under `l`, in `heldIn`, or in `afterDone` functions that first receive from
  the closed doneChan (↔ lockset among writers + `C14_init_before_publish_sound` with the close→recv edge). -/
  | donePublished (l pub : String) (ctors heldIn afterDone : List String)
  /-- not covered by any theorem: documented as not safe for concurrent use / setup-time only. -/
  | exempt (why : String)
  deriving Repr

/-- callCmd.mu is locked in bindReply (reader goroutine) and unlocked at the end of handleReply's deferred
function (handler goroutine, started by the reader after bindReply): these functions run with it held. -/
def cmdHeld : List String := ["handlerCtx.handleReply", "handlerCtx.handleReply$defer", "callCmd.cancel", "callCmd.hasReply"]
/-- accessors that block on `<-c.Done()` first. -/
def cmdAfterDone : List String := ["callCmd.Reply", "callCmd.InputBodyCodec", "callCmd.InputMeta", "callCmd.CostTime"]
/-- accessors documented for use once the command is complete (Call returns after Done; AsyncCall hands the
command over through the completion channel, a channel send/receive edge). -/
def cmdCallerOrdered : List String := ["callCmd.Status", "callCmd.StatusOK", "callCmd.RealIP"]

/-- fields that are written only while the object is built (the named constructor functions) and only read
afterwards; every field of a watched struct that is not a lock and has no other discipline must be listed here
(the extractor watches ALL fields of these structs, so a field that is missing here makes
`C14_discipline_partial` fail: fails closed). -/
def initOnlyFields : List (String × List String) := [
  -- session: set in the composite literal of newSession
  ("session.peer", ["newSession"]), ("session.getCallHandler", ["newSession"]),
  ("session.getPushHandler", ["newSession"]), ("session.timeNow", ["newSession"]),
  -- callCmd: set in the composite literal of AsyncCall, before the command is stored in callCmdMap / sent
  ("callCmd.start", ["session.AsyncCall"]), ("callCmd.sess", ["session.AsyncCall"]),
  ("callCmd.output", ["session.AsyncCall"]), ("callCmd.swap", ["session.AsyncCall"]),
  ("callCmd.callCmdChan", ["session.AsyncCall"]), ("callCmd.doneChan", ["session.AsyncCall"]),
  -- peer: configuration copied in NewPeer
  ("peer.router", ["NewPeer"]), ("peer.pluginContainer", ["NewPeer"]), ("peer.sessHub", ["NewPeer"]),
  ("peer.defaultSessionAge", ["NewPeer"]), ("peer.defaultContextAge", ["NewPeer"]),
  ("peer.slowCometDuration", ["NewPeer"]), ("peer.timeNow", ["NewPeer"]), ("peer.network", ["NewPeer"]),
  ("peer.defaultBodyCodec", ["NewPeer"]), ("peer.printDetail", ["NewPeer"]), ("peer.countTime", ["NewPeer"]),
  ("peer.listenAddr", ["NewPeer"]), ("peer.dialer", ["NewPeer"]),
  -- protocol objects: built by the ProtoFunc literal, one per socket
  ("rawProto.r", ["RawProtoFunc$lit"]), ("rawProto.w", ["RawProtoFunc$lit"]),
  ("rawProto.name", ["RawProtoFunc$lit"]), ("rawProto.id", ["RawProtoFunc$lit"]),
  ("jsonproto.rw", ["NewJSONProtoFunc$lit"]), ("jsonproto.name", ["NewJSONProtoFunc$lit"]),
  ("jsonproto.id", ["NewJSONProtoFunc$lit"]),
  ("pbproto.rw", ["NewPbProtoFunc$lit"]), ("pbproto.name", ["NewPbProtoFunc$lit"]), ("pbproto.id", ["NewPbProtoFunc$lit"]),
  ("httproto.rw", ["NewHTTProtoFunc$lit"]), ("httproto.name", ["NewHTTProtoFunc$lit"]),
  ("httproto.id", ["NewHTTProtoFunc$lit"]), ("httproto.printMessage", ["NewHTTProtoFunc$lit"]),
  ("tBinaryProto.rwCounter", ["NewBinaryProtoFunc$lit"]), ("tBinaryProto.name", ["NewBinaryProtoFunc$lit"]),
  ("tBinaryProto.id", ["NewBinaryProtoFunc$lit"]),
  ("tStructProto.rwCounter", ["NewStructProtoFunc$lit"]), ("tStructProto.name", ["NewStructProtoFunc$lit"]),
  ("tStructProto.id", ["NewStructProtoFunc$lit"])
]

def guardOf (f : String) : Option Discipline :=
  match f with
  | "session.status" => some (.atomicOnly ["newSession"])
  | "session.seq" => some (.atomicOnly [])
  | "session.didCloseNotify" => some (.atomicOnly [])
  | "session.sessionAge" => some (.rw "session.sessionAgeLock" ["newSession"] [])
  | "session.contextAge" => some (.rw "session.contextAgeLock" ["newSession"] [])
  | "session.socket" => some (.initOnly ["newSession"])
  | "session.callCmdMap" => some (.initOnly ["newSession"])
  | "session.closeNotifyCh" => some (.initOnly ["newSession"])
  | "session.redialForClientLocked" => some (.initOnly ["newSession", "peer.Dial"])
  | "session.protoFuncs" => some (.exempt "written by ModifySocket, which is documented for the PostDial/PostAccept phase only (PreSession), before the session is shared")
  -- the two grace counters are VALUES of type graceWaitGroup inside the session: the field itself is never
  -- assigned (zero value from newSession's literal); Add/Done/Wait work on it in place and synchronise on the
  -- counter's own mutex (next two lines).  Were the type sync.WaitGroup again, every Add/Wait would be a W row of
  -- the session field (srcfacts `guardWaitGroupPatterns`) and violate this discipline.
  | "session.graceCtxWaitGroup" => some (.initOnly ["newSession"])
  | "session.graceCallCmdWaitGroup" => some (.initOnly ["newSession"])
  | "graceWaitGroup.n" => some (.mutex "graceWaitGroup.mu" [] [])
  | "graceWaitGroup.zero" => some (.mutex "graceWaitGroup.mu" [] [])
  | "callCmd.stat" => some (.donePublished "callCmd.mu" "callCmd.@done" [] cmdHeld (cmdAfterDone ++ cmdCallerOrdered))
  | "callCmd.result" => some (.donePublished "callCmd.mu" "callCmd.@done" ["session.AsyncCall"] cmdHeld (cmdAfterDone ++ cmdCallerOrdered))
  | "callCmd.inputMeta" => some (.donePublished "callCmd.mu" "callCmd.@done" [] cmdHeld (cmdAfterDone ++ cmdCallerOrdered))
  | "callCmd.inputBodyCodec" => some (.donePublished "callCmd.mu" "callCmd.@done" [] cmdHeld (cmdAfterDone ++ cmdCallerOrdered))
  | "callCmd.cost" => some (.donePublished "callCmd.mu" "callCmd.@done" [] cmdHeld (cmdAfterDone ++ cmdCallerOrdered))
  | "socket.Conn" => some (.rw "socket.mu" ["newSocket"] ["socket.initOptimize", "socket.RawLocked"])
  | "socket.protocol" => some (.rw "socket.mu" ["newSocket"] [])
  | "socket.readerWithBuffer" => some (.initOnly ["newSocket"])
  | "socket.fromPool" => some (.initOnly ["socketPool$lit"])
  | "socket.id" => some (.rw "socket.idMutex" [] [])
  | "socket.swap" => some (.rw "socket.swapMutex" [] [])
  | "socket.curState" => some (.atomicOnly [])
  | "SessionHub.sessions" => some (.initOnly ["newSessionHub"])
  | "peer.listeners" => some (.mutex "peer.mu" ["NewPeer"] [])
  | "peer.closeCh" => some (.initOnly ["NewPeer"])
  | "peer.tlsConfig" => some (.exempt "SetTLSConfig is setup-time configuration, not among the operations documented as safe for concurrent use")
  | "tBinaryProto.writeCount" => some (.mutex "tBinaryProto.packLock" [] [])
  | "tBinaryProto.readCount" => some (.mutex "tBinaryProto.unpackLock" [] [])
  | "tStructProto.writeCount" => some (.mutex "tStructProto.packLock" [] [])
  | "tStructProto.readCount" => some (.mutex "tStructProto.unpackLock" [] [])
  | "tBinaryProto.tProtocol" => some (.mutex "tBinaryProto.packLock" ["NewBinaryProtoFunc$lit"] [])
  | "tStructProto.tProtocol" => some (.mutex "tStructProto.packLock" ["NewStructProtoFunc$lit"] [])
  | "ReadCounter.count" => some (.exempt "unsynchronised helper object; its owner's discipline is checked at the call sites (tBinaryProto/tStructProto.readCount)")
  | "WriteCounter.count" => some (.exempt "unsynchronised helper object; its owner's discipline is checked at the call sites (tBinaryProto/tStructProto.writeCount)")
  | "pluginSingleContainer.plugins" => some (.exempt "plugin containers are configured before serving (setup time); registration is not documented as safe for concurrent use")
  | "PluginContainer.left" => some (.exempt "plugin containers are configured before serving (setup time)")
  | "PluginContainer.middle" => some (.exempt "plugin containers are configured before serving (setup time)")
  | "PluginContainer.right" => some (.exempt "plugin containers are configured before serving (setup time)")
  | "PluginContainer.refreshTree" => some (.exempt "plugin containers are configured before serving (setup time)")
  | f => (initOnlyFields.lookup f).map Discipline.initOnly

def isExempt : Option Discipline → Bool
  | some (.exempt _) => true
  | _ => false

/-- does site `s` satisfy discipline `d`? -/
def siteOk (d : Discipline) (s : Site) : Bool :=
  match d with
  | .mutex l ctors heldIn => ctors.contains s.fn || heldIn.contains s.fn || s.holdsW l
  | .rw l ctors heldIn =>
    ctors.contains s.fn || heldIn.contains s.fn ||
      (if s.kind == "W" || s.atomic then s.holdsW l else s.holdsAny l)
  | .atomicOnly ctors => s.atomic || ctors.contains s.fn
  | .initOnly ctors => !s.atomic && (s.kind == "R" || ctors.contains s.fn)
  | .donePublished l pub ctors heldIn afterDone =>
    ctors.contains s.fn ||
      (if s.kind == "W" || s.atomic then (s.holdsW l || heldIn.contains s.fn) && !s.locks.contains (pub, "P")
       else s.holdsAny l || heldIn.contains s.fn || afterDone.contains s.fn)
  | .exempt _ => true

/-- a site of the current code that violates its declared discipline and corresponds to a data race that
the race detector exhibits (or, `confirmed = false`, that the table predicts but no stress scenario has
exhibited). `sig` is the canonical signature the harness computes from the detector's report. -/
structure Known where
  sig : String
  field : String
  fn : String
  kind : String
  confirmed : Bool
  scenarios : List String
  what : String
  deriving Repr

def Known.matches (k : Known) (s : Site) : Bool := k.field == s.field && k.fn == s.fn && k.kind == s.kind

/-- the races of the CURRENT tree. `sig` = canonical signature computed by harness/cmd/conform/c14.go from a
race-detector report; (`field`, `fn`, `kind`) = the violating site of the regenerated table it corresponds to;
`confirmed` = the detector exhibited it in one of `scenarios` during the pre-study of this check. -/
def knownRacy : List Known := [
  ⟨"c14:race:binary_proto.go:tBinaryProto.Pack|tBinaryProto.Unpack", "tBinaryProto.tProtocol", "tBinaryProto.binaryUnpack", "R", true, ["thrift"],
   "one thrift THeaderProtocol object is used by Pack under packLock and by Unpack under unpackLock"⟩,
  ⟨"c14:race:binary_proto.go:tBinaryProto.Pack|tBinaryProto.Unpack", "tBinaryProto.tProtocol", "tBinaryProto.Pack", "R", true, ["thrift"],
   "t.tProtocol.Transport().Close() outside any lock"⟩,
  ⟨"c14:race:binary_proto.go:tBinaryProto.Pack|tBinaryProto.Unpack", "tBinaryProto.tProtocol", "tBinaryProto.Unpack", "R", true, ["thrift"],
   "t.tProtocol.Transport().Close() outside any lock"⟩,
  ⟨"c14:race:struct_proto.go:tStructProto.Pack|tStructProto.Unpack", "tStructProto.tProtocol", "tStructProto.structUnpack", "R", false, [],
   "same defect in the struct protocol (not exercised by a scenario)"⟩,
  ⟨"c14:race:struct_proto.go:tStructProto.Pack|tStructProto.Unpack", "tStructProto.tProtocol", "tStructProto.Pack", "R", false, [], "same defect in the struct protocol"⟩,
  ⟨"c14:race:struct_proto.go:tStructProto.Pack|tStructProto.Unpack", "tStructProto.tProtocol", "tStructProto.Unpack", "R", false, [], "same defect in the struct protocol"⟩,
  ⟨"c14:race:socket.go:socket.Conn", "socket.Conn", "session.RemoteAddr", "R", true, ["redial"],
   "promoted net.Conn method through the embedded socket.Conn without socket.mu against socket.Reset during redial"⟩,
  ⟨"c14:race:socket.go:socket.Conn", "socket.Conn", "session.LocalAddr", "R", true, ["redial"], "as above"⟩,
  ⟨"c14:race:socket.go:socket.Conn", "socket.Conn", "socket.ID", "R", false, ["redial"], "s.RemoteAddr() in ID holds idMutex, not mu"⟩,
  ⟨"c14:race:socket.go:socket.Conn", "socket.Conn", "session.SetSessionAge", "R", false, ["redial"], "SetReadDeadline through the embedded Conn without socket.mu"⟩,
  ⟨"c14:race:socket.go:socket.Conn", "socket.Conn", "session.doSend", "R", false, ["redial"], "SetWriteDeadline through the embedded Conn without socket.mu"⟩,
  ⟨"c14:race:socket.go:socket.Conn", "socket.Conn", "session.write", "R", false, ["redial"], "SetWriteDeadline through the embedded Conn without socket.mu"⟩,
  ⟨"c14:race:socket.go:socket.Conn", "socket.Conn", "session.PreReceive", "R", false, ["redial"], "SetReadDeadline through the embedded Conn without socket.mu"⟩,
  ⟨"c14:race:socket.go:socket.Conn", "socket.Conn", "session.startReadAndHandle", "R", false, ["redial"], "SetReadDeadline through the embedded Conn without socket.mu"⟩
]

/-- signatures the model predicts for a stress scenario: `knownRacy` entries of that scenario whose site is
still present in the given table and still violates its discipline (an entry whose race was repaired in the code
predicts nothing). Sorted, without duplicates. -/
def predictedSigs (table : List Site) (sc : String) : List String :=
  let active := knownRacy.filter fun k =>
    k.scenarios.contains sc && table.any fun s =>
      k.matches s && (match guardOf s.field with | some d => !siteOk d s | none => true)
  ((active.map (·.sig)).eraseDups).mergeSort (fun a b => !decide (b < a))

/-- all sub-lists (order preserved): a predicted race needs the right schedule to be observed. -/
def sublists : List String → List (List String)
  | [] => [[]]
  | x :: xs => let r := sublists xs; r ++ r.map (x :: ·)

def siteVerdict (known : List Known) (s : Site) : String :=
  match guardOf s.field with
  | none => "undeclared"
  | some d => if siteOk d s then "ok" else if known.any (·.matches s) then "known-racy" else "VIOLATES"

end Teleport.Conc
