/-
Model/ConcCallers — the calling conventions that `Conc.guardOf` NAMES (functions listed in `heldIn`, `afterDone`,
`ctors`), stated as checkable obligations over the regenerated call-site table `Teleport.Gen.callers`,
`Gen.afterDoneFns`, `Gen.ctorAccess` (tie A; extractor harness/cmd/srcfacts/facts_callers.go).  Core Lean only.

  * `heldIn` (lock `l`): every call site of the function holds `l` exclusively in the syntactic lock region of the
    caller (same walk as the site table), or lies in a function that was itself established to run with `l` held
    (`heldClosure`: least fixed point by fuel, base = the constructors of the entries guarded by `l`), and no use
    is a `go` statement or a function value.  Call sites for which this cannot be established lexically are the
    explicit, site-level list `calleeTrusted` (each with the reason it stays trusted).
  * `afterDone`: the accessor's body starts with a receive from the command's done channel which dominates every
    access of the receiver's fields; the accessors that do NOT receive are the explicit list `Conc.cmdCallerOrdered`.
  * `ctors`: every access that is excused only because it is made in a constructor is made to an object the
    constructor itself creates, as a composite-literal key or before the object escapes lexically; the explicit
    exceptions are `ctorTrusted`.
-/
import Teleport.Model.Conc
namespace Teleport.Conc

/-- one use of a named function (row of `Gen.callers`). -/
structure CallSite where
  callee : String
  kind : String      -- call / go / defer / value / assign
  via : String       -- direct / iface / field / lit / ext
  fn : String        -- enclosing function (walker name)
  file : String
  scope : String     -- "" / go / defer / lit
  locks : List (String × String)
  deriving DecidableEq, Repr

def CallSite.ofRow (r : String × String × String × String × String × String × List (String × String)) : CallSite :=
  ⟨r.1, r.2.1, r.2.2.1, r.2.2.2.1, r.2.2.2.2.1, r.2.2.2.2.2.1, r.2.2.2.2.2.2⟩

def Discipline.lock? : Discipline → Option String
  | .mutex l _ _ => some l
  | .rw l _ _ => some l
  | .donePublished l _ _ _ _ => some l
  | _ => none

def Discipline.ctors : Discipline → List String
  | .mutex _ c _ => c
  | .rw _ c _ => c
  | .atomicOnly c => c
  | .initOnly c => c
  | .donePublished _ _ c _ _ => c
  | .exempt _ => []

def Discipline.heldIn : Discipline → List String
  | .mutex _ _ h => h
  | .rw _ _ h => h
  | .donePublished _ _ _ h _ => h
  | _ => []

def Discipline.afterDone : Discipline → List String
  | .donePublished _ _ _ _ a => a
  | _ => []

/-- the same discipline without its constructor clause. -/
def Discipline.stripCtors : Discipline → Discipline
  | .mutex l _ h => .mutex l [] h
  | .rw l _ h => .rw l [] h
  | .atomicOnly _ => .atomicOnly []
  | .initOnly _ => .initOnly []
  | .donePublished l p _ h a => .donePublished l p [] h a
  | .exempt w => .exempt w

/-- (role, name) pairs a discipline names. -/
def Discipline.names (d : Discipline) : List (String × String) :=
  d.ctors.map (("ctor", ·)) ++ d.heldIn.map (("heldIn", ·)) ++ d.afterDone.map (("afterDone", ·))

/-- the declared entries of the given fields. -/
def guardEntries (fields : List String) : List (String × Discipline) :=
  fields.filterMap fun f => (guardOf f).map fun d => (f, d)

/-- drop adjacent duplicates (the regenerated tables are sorted, so equal fields are adjacent; on an unsorted
list this only leaves duplicates in, which is harmless for the uses below). -/
def dedupAdj : List String → List String
  | [] => []
  | a :: t =>
    match t with
    | [] => [a]
    | b :: _ => if a == b then dedupAdj t else a :: dedupAdj t

/-- the names of one role in the extractor's target list `Gen.callerTargets`. -/
def targetNames (targets : List (String × String)) (role : String) : List String :=
  targets.filterMap fun rn => if rn.1 == role then some rn.2 else none

/-- functions that no `guardOf` entry names but that run with a lock held and call `heldIn` functions:
(lock, function); their call sites are extracted and checked exactly like those of the `heldIn` names (the
extractor follows a literal stored in a struct field through calls of that field, `via = field`).  Empty on the
current tree (the redial literal of `peer.Dial`, stored in `session.redialForClientLocked` and called under
`session.lock`, was such a function while `session.closeLocked` was a `heldIn` name). -/
def calleeHeld : List (String × String) := []

/-- every (role, name) the guard map (for the given fields) and `calleeHeld` use. -/
def declaredNames (fields : List String) : List (String × String) :=
  (guardEntries fields).flatMap (fun fd => fd.2.names) ++ calleeHeld.map (fun lh => ("heldIn", lh.2))

/-- a call site whose lock cannot be established lexically and that stays TRUSTED (site-level, so that a new
call site of the same function is not covered). -/
structure CalleeTrusted where
  callee : String
  fn : String
  why : String       -- handoff / protofunc
  what : String
  deriving Repr

def calleeTrusted : List CalleeTrusted := [
  ⟨"handlerCtx.handleReply", "handlerCtx.handle", "handoff",
   "callCmd.mu is locked by bindReply (reader goroutine, via binding) and stays locked across the hand-over of the context to the handler goroutine; handle -> handleReply -> deferred Unlock. Not a lexical region."⟩,
  ⟨"handlerCtx.handleReply", "handlerCtx.finishBoundReply", "handoff",
   "the read loop calls finishBoundReply on the context that bindReply has just locked when it will not dispatch handle()"⟩,
  ⟨"socket.RawLocked", "NewWsProtoFunc$lit", "protofunc",
   "mixer/websocket: a ProtoFunc literal; ProtoFuncs are invoked by socket.getProto, which newSocket calls before the socket is shared and Reset calls under socket.mu — a function value, not followed"⟩
]

/-- only an ordinary call at the listed place is trusted (a `go`, `defer` or method-value use there is not). -/
def CalleeTrusted.matches (t : CalleeTrusted) (c : CallSite) : Bool :=
  t.callee == c.callee && t.fn == c.fn && c.kind == "call"

def isTrustedSite (c : CallSite) : Bool := calleeTrusted.any (·.matches c)

/-- an ordinary call (not `go`, not deferred, not a function value) resolved inside the package. -/
def CallSite.plainCall (c : CallSite) : Bool :=
  c.kind == "call" && (c.via == "direct" || c.via == "iface" || c.via == "field")

/-- the site runs with `l` held exclusively, given the functions `ver` already established to run with `l` held:
a plain call under the lock or inside such a function; a deferred call/literal inside such a function (it runs
before the function returns to its caller, which still holds the lock); the assignment of a literal to the struct
field through which all its calls (`via = field`) are extracted is not a call. -/
def siteHolds (l : String) (ver : List String) (c : CallSite) : Bool :=
  (c.kind == "assign" && c.via == "lit") ||
  (c.plainCall && (c.locks.contains (l, "W") || ver.contains c.fn)) ||
  (c.kind == "defer" && (c.via == "direct" || c.via == "lit") && ver.contains c.fn)

def heldStep (cs : List CallSite) (l : String) (names ver : List String) : List String :=
  ver ++ names.filter fun f =>
    !ver.contains f && (cs.filter (·.callee == f)).all fun c => isTrustedSite c || siteHolds l ver c

/-- functions established to run with `l` held after `n` rounds, starting from `base`. -/
def heldClosure (cs : List CallSite) (l : String) (names base : List String) : Nat → List String
  | 0 => base
  | n + 1 => heldStep cs l names (heldClosure cs l names base n)

def heldNamesFor (ents : List (String × Discipline)) (l : String) : List String :=
  ((ents.flatMap fun fd => if fd.2.lock? == some l then fd.2.heldIn else []) ++
    (calleeHeld.filter (·.1 == l)).map (·.2)).eraseDups

def ctorNamesFor (ents : List (String × Discipline)) (l : String) : List String :=
  (ents.flatMap fun fd => if fd.2.lock? == some l then fd.2.ctors else []).eraseDups

def heldVerified (cs : List CallSite) (ents : List (String × Discipline)) (l : String) : List String :=
  heldClosure cs l (heldNamesFor ents l) (ctorNamesFor ents l) 4

/-- the locks for which some function is named as running with the lock held. -/
def heldLocks (ents : List (String × Discipline)) : List String :=
  ((ents.filterMap fun fd => if fd.2.heldIn.isEmpty then none else fd.2.lock?) ++ calleeHeld.map (·.1)).eraseDups

/-- all `heldIn` obligations of the guard map and of `calleeHeld`: per lock, every function named as running with
the lock held is in the closure. -/
def heldInOk (cs : List CallSite) (ents : List (String × Discipline)) : Bool :=
  (heldLocks ents).all fun l => (heldNamesFor ents l).all ((heldVerified cs ents l).contains ·)

/-- every function named as running with some lock held. -/
def heldNamesAll (ents : List (String × Discipline)) : List String :=
  (ents.flatMap fun fd => fd.2.heldIn) ++ calleeHeld.map (·.2)

def ctorNamesAll (ents : List (String × Discipline)) : List String :=
  (ents.flatMap fun fd => fd.2.ctors).eraseDups

/-- no use of a held function is a `go` statement or a function value (trusted sites excepted). -/
def noAsyncUse (cs : List CallSite) (heldNames : List String) : Bool :=
  cs.all fun c => !heldNames.contains c.callee || isTrustedSite c || !(c.kind == "go" || c.kind == "value")

/-- every `calleeTrusted` entry is a site of the current table at which the obligation really cannot be
established lexically: no lock at all is held there and the enclosing function is not itself a named one. -/
def trustedSitesFail (cs : List CallSite) (ents : List (String × Discipline)) : Bool :=
  calleeTrusted.all fun t => cs.any fun c =>
    t.matches c && c.locks.isEmpty && !(heldNamesAll ents).contains c.fn && !(ctorNamesAll ents).contains c.fn

/-! ### afterDone -/

/-- the accessor `f` first receives from the done channel and touches no receiver field before that. -/
def afterDoneOk (tab : List (String × String × List String × List String)) (f : String) : Bool :=
  tab.any fun r => r.1 == f && r.2.1 != "" && r.2.2.1 == []

/-- the table site `s` (an access in accessor `s.fn`) comes after the receive. -/
def afterDoneSiteOk (tab : List (String × String × List String × List String)) (s : Site) : Bool :=
  tab.any fun r => r.1 == s.fn && r.2.1 != "" && r.2.2.1 == [] &&
    r.2.2.2.any fun fld => s.field == "callCmd." ++ fld

/-! ### ctors -/

/-- accesses in constructors that are NOT made to a provably still-local object and stay trusted. -/
structure CtorTrusted where
  fn : String
  field : String
  what : String
  deriving Repr

def ctorTrusted : List CtorTrusted := [
  ⟨"newSocket", "socket.protocol",
   "s.protocol = getProto(protoFuncs, s): the new socket is handed to the ProtoFunc (which keeps it as its reader/writer) before the assignment; no other goroutine can have it yet"⟩,
  ⟨"peer.Dial", "session.redialForClientLocked",
   "written after the session was passed to the PostDial plugins and captured by the dial closure, but before it is put into the session hub / its read loop is started; a PostDial plugin that hands the session to another goroutine would race"⟩
]

def isCtorTrusted (s : Site) : Bool := ctorTrusted.any fun t => t.fn == s.fn && t.field == s.field

/-- the site is excused by nothing but the constructor clause of its discipline. -/
def ctorExcused (d : Discipline) (s : Site) : Bool := d.ctors.contains s.fn && !siteOk d.stripCtors s

/-- one pass over the constructor-access rows: some row matches (function, field, kind) of the site and every
matching row has status `lit` or `fresh`. -/
def ctorRowsOk (s : Site) : List (String × String × String × String) → Bool → Bool
  | [], seen => seen
  | r :: t, seen =>
    if r.2.1 == s.field && r.1 == s.fn && r.2.2.1 == s.kind then
      (r.2.2.2 == "lit" || r.2.2.2 == "fresh") && ctorRowsOk s t true
    else ctorRowsOk s t seen

/-- such a site is an access to an object the constructor itself creates, before it escapes. -/
def ctorSiteLocal (acc : List (String × String × String × String)) (s : Site) : Bool := ctorRowsOk s acc false

/-- every site of the table that only the constructor clause excuses is local (or explicitly trusted).
`ctorNames` = the extractor's constructor targets; by `namesEqual` they are exactly the constructor names of the
guard map, so a site outside them cannot be excused by a constructor clause. -/
def ctorSitesOk (acc : List (String × String × String × String)) (ctorNames : List String)
    (sites : List Site) : Bool :=
  sites.all fun s => !ctorNames.contains s.fn ||
    match guardOf s.field with
    | none => false
    | some d => !ctorExcused d s || isCtorTrusted s || ctorSiteLocal acc s

/-- the trusted constructor accesses really are not provably local: an `escaped` access is extracted for each. -/
def ctorTrustedFail (acc : List (String × String × String × String)) : Bool :=
  ctorTrusted.all fun t => acc.any fun r => r.1 == t.fn && r.2.1 == t.field && r.2.2.2.startsWith "escaped"

/-- every accessor named in an `afterDone` list receives first, or is one of `cmdCallerOrdered`. -/
def afterDoneNamesOk (tab : List (String × String × List String × List String)) (ents : List (String × Discipline)) : Bool :=
  ents.all fun fd => fd.2.afterDone.all fun f => cmdCallerOrdered.contains f || afterDoneOk tab f

/-- every site of the table that only the `afterDone` clause excuses lies after the receive (`adNames` = the
extractor's afterDone targets = the afterDone names of the guard map, by `namesEqual`). -/
def afterDoneSitesOk (tab : List (String × String × List String × List String)) (adNames : List String)
    (sites : List Site) : Bool :=
  sites.all fun s => !adNames.contains s.fn || cmdCallerOrdered.contains s.fn ||
    match guardOf s.field with
    | some (.donePublished l p c h a) =>
      !a.contains s.fn || siteOk (.donePublished l p c h []) s || afterDoneSiteOk tab s
    | _ => true

/-- the accessors of `cmdCallerOrdered` really do not receive (they stay trusted: documented for use after Done). -/
def callerOrderedFail (tab : List (String × String × List String × List String)) : Bool :=
  cmdCallerOrdered.all fun f => tab.any fun r => r.1 == f && r.2.1 == ""

end Teleport.Conc
