/-
Model/Secure — decision-level model of `plugin/secure/secure.go` together with the stage call
sites of `context.go` / `session.go` that give its hooks their effect.  Core Lean only.

What is abstract (parameters of the model, never computed here):
* the cipher (`goutil.AESEncrypt/AESDecrypt`, AES-ECB + PKCS5 + hex): `enc k x`, `dec k c`
  (three outcomes: plain text, `error`, Go panic — `cipher.Block.Decrypt` panics on a short block)
  and the key version `ver k` (`goutil.Md5(key)`, 32 hex digits);
* the body codec carrying the envelope `Encrypt{Cipherversion, Ciphertext}`: `mar v c`, `unmar b`.
Message bodies are the *marshalled* byte strings (`Message.MarshalBody` output / the argument of
`Message.UnmarshalBody`): "the handler sees `a`" means `UnmarshalBody(a)` is run on the handler's
argument object with the message's own body codec, exactly as without the plugin.
-/
import Teleport.Model.Bytes
namespace Teleport
namespace Secure

/-- outcome of `goutil.AESDecrypt(key, ciphertext)`. -/
inductive DecOut where
  | ok (b : Bytes)
  | err
  | panic
  deriving DecidableEq, Repr

/-- the abstract cipher and key-version function. -/
structure Cipher where
  enc : Bytes → Bytes → Bytes
  dec : Bytes → Bytes → DecOut
  ver : Bytes → Bytes

/-- the body codec restricted to the envelope object `secure.Encrypt`. -/
structure EnvCodec where
  mar : Bytes → Bytes → Bytes
  unmar : Bytes → Option (Bytes × Bytes)

/-- `"true"` / `"false"` as written by `WithSecureMeta`, `EnforceSecure`, `WithAcceptSecureMeta`. -/
def trueB : Bytes := [116, 114, 117, 101]
def falseB : Bytes := [102, 97, 108, 115, 101]

/-- the two metadata markers of one message: value of `X-Secure` / `X-Accept-Secure`, `none` = key
    absent. (Empty values are outside the model: `Args.Peek` returns nil or an empty non-nil slice
    for them depending on the pooled slot, which changes whether `isSecure` deletes the key.) -/
structure Marks where
  sec : Option Bytes
  acc : Option Bytes
  deriving DecidableEq, Repr

/-- statuses at the granularity the property talks about. -/
inductive St where
  | ok                -- nil / code 0
  | secure            -- the plugin's own `statCode`
  | handler           -- the non-OK status returned by the handler
  | bad               -- 400 statBadMessage (body of the frame could not be decoded)
  | internal          -- 500 statInternalServerError (recovered panic in handleCall)
  deriving DecidableEq, Repr

/-- one frame as written to the connection (only what the plugin influences). -/
structure Frame where
  mks : Marks
  body : Bytes
  st : St
  deriving DecidableEq, Repr

/-- `isSecure(meta)`: true iff the value is exactly `"true"` (`len(b) == 4 && b == "true"`). -/
def isSecure (v : Option Bytes) : Bool := decide (v = some trueB)

/-- the `X-Secure` entry after `isSecure` ran: any other present value is deleted. -/
def secAfter (v : Option Bytes) : Option Bytes := if isSecure v then v else none

/-- `PreWriteCall` = `PreWritePush` = `PreWriteReply`.
    `hasStatus`: `ctx.Status() != nil`; `swapAcc`: `accept_encrypt` present in the context swap. -/
def preWrite (C : Cipher) (E : EnvCodec) (k : Bytes) (hasStatus swapAcc : Bool) (mks : Marks)
    (body : Bytes) : Marks × Bytes :=
  if hasStatus then (mks, body)
  else if !isSecure mks.sec && !swapAcc then ({ mks with sec := none }, body)
  else ({ mks with sec := some trueB }, E.mar (C.ver k) (C.enc k body))

/-- `PreRead*Body`, first result: is the body binder swapped for an `Encrypt` object. -/
def useDecrypt (mks : Marks) : Bool := isSecure mks.sec

/-- `PreRead*Body`, second result: is `accept_encrypt` stored in the swap.
    `accept := string(PeekMeta("X-Accept-Secure"))` (absent = empty string). -/
def storesAccept (mks : Marks) : Bool :=
  if isSecure mks.sec then decide (mks.acc.getD [] ≠ falseB) else decide (mks.acc.getD [] = trueB)

/-- `Message.UnmarshalBody` into the `Encrypt` binder: zero bytes leave the zero object. -/
def readEnv (E : EnvCodec) (b : Bytes) : Option (Bytes × Bytes) :=
  if b = [] then some ([], []) else E.unmar b

/-- what the reader ends up with for the body of one frame. -/
inductive BodyR where
  | deliver (a : Bytes)   -- `UnmarshalBody(a)` ran on the original binder, stages returned nil
  | fail (s : St)         -- a stage / the frame decoder produced this status
  | panic                 -- `AESDecrypt` panicked inside `PostRead*Body`
  | undetermined          -- codec-dependent (partially decoded envelope on a reply)
  deriving DecidableEq, Repr

/-- `PostRead*Body` for a frame whose binder was swapped (`rawbody` present in the swap). -/
def postRead (C : Cipher) (k : Bytes) (v c : Bytes) : BodyR :=
  if v = [] then .deliver []                 -- `len(version) > 0` fails: `bodyBytes` stays nil
  else if v ≠ C.ver k then .fail .secure     -- "inconsistent encryption version"
  else match C.dec k c with
    | .ok b => .deliver b
    | .err => .fail .secure
    | .panic => .panic

/-- body path of a CALL or PUSH frame on the receiving peer (`bindCall`/`bindPush` +
    `ReadMessage` + `postRead*Body`). -/
def readBody (C : Cipher) (E : EnvCodec) (k : Bytes) (fr : Frame) : BodyR :=
  if !useDecrypt fr.mks then .deliver fr.body
  else match readEnv E fr.body with
    | none => .fail .bad
    | some (v, c) => postRead C k v c

/-- what the handler does, as far as the plugin can see it. -/
structure HRes where
  ok : Bool          -- returned status is OK
  body : Bytes       -- marshalled result
  mks : Marks         -- markers the handler put on the reply (`ctx.SetMeta`, `EnforceSecure`)

structure Cfg where
  C : Cipher
  E : EnvCodec
  kc : Bytes         -- key of the calling / pushing peer
  ks : Bytes         -- key of the serving / receiving peer

structure Req where
  mks : Marks
  body : Bytes
  h : Bytes → HRes

structure Outcome where
  reqWire : Frame
  invoked : Bool
  handlerArg : Option Bytes
  replyWire : Frame
  callerSt : St
  callerRes : Option Bytes     -- `none`: the caller's result object was not written
  callerUndet : Bool := false

/-- `AsyncCall` up to the write: `preWriteCall(cmd)` with `cmd.stat == nil` and an empty swap. -/
def callFrame (cfg : Cfg) (mks : Marks) (body : Bytes) : Frame :=
  let o := preWrite cfg.C cfg.E cfg.kc false false mks body
  ⟨o.1, o.2, .ok⟩

/-- the serving peer: `bindCall`, body, `handleCall` (postReadCallBody, handler, preWriteReply,
    writeReply). Returns (invoked, handler argument, reply frame). -/
def serveCall (cfg : Cfg) (q : Frame) (h : Bytes → HRes) : Bool × Option Bytes × Frame :=
  match readBody cfg.C cfg.E cfg.ks q with
  | .deliver a =>
    let r := h a
    if r.ok then
      let o := preWrite cfg.C cfg.E cfg.ks false (storesAccept q.mks) r.mks r.body
      (true, some a, ⟨o.1, o.2, .ok⟩)
    else
      -- `ctx.Status() != nil`: PreWriteReply returns at once; writeReply drops body and codec
      (true, some a, ⟨r.mks, [], .handler⟩)
  | .fail s => (false, none, ⟨⟨none, none⟩, [], s⟩)
  | .panic => (false, none, ⟨⟨none, none⟩, [], .internal⟩)
  | .undetermined => (false, none, ⟨⟨none, none⟩, [], .bad⟩)

/-- `handleReply` after the body stages: caller's status, delivered result, "codec-dependent". -/
def replyOf : BodyR → St × Option Bytes × Bool
  | .deliver a => (.ok, some a, false)
  | .fail s => (s, none, false)
  | .panic => (.ok, none, false)           -- recovered in handleReply: `callCmd.stat` stays OK
  | .undetermined => (.ok, none, true)

/-- the calling peer reading the reply: `bindReply` (preReadReplyBody), body, `handleReply`. -/
def readReply (cfg : Cfg) (p : Frame) : St × Option Bytes × Bool :=
  if p.st ≠ .ok then (p.st, none, false)       -- `stat = c.input.Status()` wins, body is empty
  else if !useDecrypt p.mks then (.ok, some p.body, false)
  else match readEnv cfg.E p.body with
    | none => (.ok, none, true)
    | some (v, c) => replyOf (postRead cfg.C cfg.kc v c)

/-- one complete CALL/REPLY exchange between two peers that both run the plugin. -/
def secureExchange (cfg : Cfg) (req : Req) : Outcome :=
  let q := callFrame cfg req.mks req.body
  let s := serveCall cfg q req.h
  let c := readReply cfg s.2.2
  { reqWire := q, invoked := s.1, handlerArg := s.2.1, replyWire := s.2.2,
    callerSt := c.1, callerRes := c.2.1, callerUndet := c.2.2 }

structure PushOutcome where
  wire : Frame
  invoked : Bool
  handlerArg : Option Bytes
  senderSt : St       -- a PUSH has no reply: the sender's status is that of its own write

/-- `Push`: preWritePush on the sender; `bindPush`, body, `handlePush` on the receiver. -/
def securePush (cfg : Cfg) (mks : Marks) (body : Bytes) : PushOutcome :=
  let q := callFrame cfg mks body
  match readBody cfg.C cfg.E cfg.ks q with
  | .deliver a => ⟨q, true, some a, .ok⟩
  | _ => ⟨q, false, none, .ok⟩

/-- "this frame's body is the envelope of `x` under key `k`" (and it is marked). -/
def Frame.isEnvelopeOf (C : Cipher) (E : EnvCodec) (k x : Bytes) (f : Frame) : Prop :=
  f.mks.sec = some trueB ∧ f.body = E.mar (C.ver k) (C.enc k x)

/-- "this frame carries `x` unchanged and unmarked". -/
def Frame.isClear (x : Bytes) (f : Frame) : Prop := f.mks.sec = none ∧ f.body = x

/-! ### finite marker classes (for the decision table) -/

inductive SecC where | absent | tru | other deriving DecidableEq, Repr
inductive AccC where | absent | tru | fls | other deriving DecidableEq, Repr

def secClass (v : Option Bytes) : SecC :=
  match v with
  | none => .absent
  | some b => if b = trueB then .tru else .other

def accClass (v : Option Bytes) : AccC :=
  match v with
  | none => .absent
  | some b => if b = trueB then .tru else if b = falseB then .fls else .other

/-- is the request body encrypted. -/
def planReq (qs : SecC) : Bool := decide (qs = .tru)

/-- does the server remember "encrypt the reply". -/
def planAccept (qs : SecC) (qa : AccC) : Bool :=
  if qs = .tru then decide (qa ≠ .fls) else decide (qa = .tru)

/-- is the body of an OK reply encrypted (`rs`: marker set by the handler). -/
def planReply (qs : SecC) (qa : AccC) (rs : SecC) : Bool := decide (rs = .tru) || planAccept qs qa

end Secure
end Teleport
