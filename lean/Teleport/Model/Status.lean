/-
Model/Status — goutil `status.Status` as the framework uses it on the wire:
`EncodeQuery` / `DecodeQuery` (status.go of goutil), observational content (code, msg, cause text).
-/
import Teleport.Model.Num
import Teleport.Model.Args
namespace Teleport
open Bytes

structure Status where
  code  : Int
  msg   : Bytes
  cause : Option Bytes      -- `cause.Error()` text; `none` = nil cause
deriving DecidableEq, Repr, Inhabited

namespace Status

def zero : Status := ⟨0, [], none⟩
def ok (s : Status) : Bool := s.code == 0

def kCode : Bytes := [99, 111, 100, 101]          -- "code"
def kMsg : Bytes := [109, 115, 103]               -- "msg"
def kCause : Bytes := [99, 97, 117, 115, 101]     -- "cause"

/-- `(*Status).EncodeQuery` for a non-nil receiver. -/
def encode (s : Status) : Bytes :=
  kCode ++ 61 :: Num.formatInt 8 s.code
  ++ (if s.msg.isEmpty then [] else 38 :: kMsg ++ 61 :: quote s.msg)
  ++ (match s.cause with | none => [] | some c => 38 :: kCause ++ 61 :: quote c)

/-- first value stored under key `k`. -/
def firstOf (k : Bytes) : List Args.KV → Option Bytes
  | [] => none
  | (k', v) :: r => if k' == k then some v else firstOf k r

/-- `(*Status).DecodeQuery` after `Clear()`. `none` = Go panics while un-quoting (goutil's own
    `hex2intTable` has 255 entries: `%` followed within two bytes by `0xff`; `HexTab.short`).
    (The scanner decodes every pair up to the one that completes the triple; a panic in a later
    pair is therefore not reached — modelled by `scanUntil`.) -/
def decodeFrom (pairs : List Args.KV) : Status :=
  { code := match firstOf kCode pairs with
      | some v => (Num.parseInt32 10 v).1
      | none => 0
    msg := (firstOf kMsg pairs).getD []
    cause := firstOf kCause pairs }

def decode (b : Bytes) : Option Status :=
  if b.isEmpty then some zero else (Args.scanAll .short b).map decodeFrom

end Status
end Teleport
