/-
Model/Reader — a byte source that delivers its bytes in ARBITRARY read chunks, `io.ReadFull` over it, and
`rawProto.Unpack` (`readMessage` + `Unpack` of socket/protocol.go) expressed with those reads.

  Reader            the bytes that will ever arrive, cut into the pieces in which successive `Read` calls
                    can deliver them at most (a TCP connection, the harness's chunkReader): a list of
                    chunks; a chunk may be empty (`Read` returning `0, nil`).
  read n            one `Read(p)` with `len(p) = n`: at most the rest of the current chunk, at most `n`
                    bytes; on the exhausted reader `0, io.EOF`.
  readFull n        `io.ReadFull(r, buf)` with `len(buf) = n` (= `io.ReadAtLeast(r, buf, n)`):
                        for got < n && err == nil { nn, err = r.Read(buf[got:]); got += nn }
                    result: the bytes read, `err == nil` (all `n` bytes arrived), the remaining reader.
                    With `n = 0` no `Read` is made.
  unpackChunked     the stages of Model/RawProto `Raw.unpack` / `unpackXfer` / `unpackTail`, each
                    `io.ReadFull` of `readMessage` being a `readFull` on the chunked reader: 4 bytes (size),
                    1 byte (pipe length), `xferLen` bytes (filter ids), the remaining bytes of the frame.

Core Lean only. That chunking is irrelevant (`unpackChunked` on ANY chunking = `Raw.unpack` on the
concatenation) is Props/C05 `C05_chunking_irrelevant`; lemmas in Lemmas/Reader.
-/
import Teleport.Model.RawProto
namespace Teleport
open Bytes

/-- the chunks in which the input arrives. -/
abbrev Reader := List Bytes

namespace Reader

/-- one `Read(p)`, `len(p) = n`: the bytes delivered and the reader afterwards. -/
def read (n : Nat) : Reader → Bytes × Reader
  | [] => ([], [])
  | c :: r => if c.length ≤ n then (c, r) else (c.take n, c.drop n :: r)

/-- `io.ReadFull` for `n` bytes: (bytes read, complete, remaining reader). The loop runs `read` until `n`
    bytes have arrived or the reader is exhausted: a `read` that returns a whole chunk shorter than what
    is still missing is followed by the next iteration on the rest (`readFull_loop` states the loop
    equation in terms of `read`). -/
def readFull : Nat → Reader → Bytes × Bool × Reader
  | 0, r => ([], true, r)
  | _ + 1, [] => ([], false, [])
  | n + 1, c :: rest =>
    if c.length < n + 1 then
      let x := readFull (n + 1 - c.length) rest
      (c ++ x.1, x.2.1, x.2.2)
    else ((read (n + 1) (c :: rest)).1, true, (read (n + 1) (c :: rest)).2)

/-- outcome of reading one frame from a chunked reader. -/
inductive COut
  | ok (m : Msg) (rest : Reader)
  | eof
  | size
  | reject (why : String)
deriving Repr

structure CRead where
  out      : COut
  consumed : Nat
  alloc    : Nat
  maxReq   : Nat
deriving Repr

/-- forget the chunking of what is left. -/
def COut.flat : COut → Raw.Out
  | .ok m rest => .ok m rest.flatten
  | .eof => .eof
  | .size => .size
  | .reject w => .reject w

def CRead.flat (x : CRead) : Raw.Read := ⟨x.out.flat, x.consumed, x.alloc, x.maxReq⟩

/-- last stage (`Raw.unpackTail`): `io.ReadFull(r.r, bb.B[:lastSize])`, transfer pipe, header, body.
    `consumed` counts the bytes really read, `maxReq` the largest `io.ReadFull` length so far. -/
def unpackTailC (reg : Registry) (size last alloc xferLen : Nat) (pipe : List UInt8) (r3 : Reader) : CRead :=
  let req := max (max 4 xferLen) (last - (1 + xferLen))
  let x := readFull (last - (1 + xferLen)) r3
  if x.2.1 = false then ⟨.eof, 5 + xferLen + x.1.length, alloc, req⟩ else
  match Xfer.onUnpack reg pipe x.1 with
  | none => ⟨.reject "err:xfer", 4 + last, alloc, req⟩
  | some data =>
    match Raw.parseData size pipe data with
    | .error e => ⟨.reject e, 4 + last, alloc, req⟩
    | .ok m => ⟨.ok m x.2.2, 4 + last, alloc, req⟩

/-- middle stage (`Raw.unpackXfer`): `io.ReadFull(r.r, bb.B[:1])`, `minus(lastSize, xferLen)`, then
    `io.ReadFull(r.r, bb.B[:xferLen])`. -/
def unpackXferC (reg : Registry) (size last alloc : Nat) (r1 : Reader) : CRead :=
  let x := readFull 1 r1
  if x.2.1 = false then ⟨.eof, 4 + x.1.length, alloc, 4⟩ else
  match x.1 with
  | [] => ⟨.eof, 4, alloc, 4⟩
  | xl :: _ =>
    if last - 1 < xl.toNat then ⟨.reject "err:badpackage", 5, alloc, 4⟩ else
    let y := readFull xl.toNat x.2.2
    if y.2.1 = false then ⟨.eof, 5 + y.1.length, alloc, max 4 xl.toNat⟩ else
    match Xfer.append reg [] y.1 with
    | none => ⟨.reject "err:filter", 5 + xl.toNat, alloc, max 4 xl.toNat⟩
    | some pipe => unpackTailC reg size last alloc xl.toNat pipe y.2.2

/-- `rawProto.Unpack` reading from a chunked reader (`Raw.unpack`): `io.ReadFull(r.r, bb.B)` with
    `len(bb.B) = 4`, the size checks, then the stages above. -/
def unpackChunked (reg : Registry) (limit : Nat) (r : Reader) : CRead :=
  let x := readFull 4 r
  if x.2.1 = false then ⟨.eof, x.1.length, 4, 4⟩ else
  match x.1 with
  | [a, b, c, d] =>
    let size := rdBe32 a b c d
    if size > limit then ⟨.size, 4, 4, 4⟩ else
    if size < 4 then ⟨.reject "err:badpackage", 4, 4, 4⟩ else
    let last := size - 4
    if last < 1 then ⟨.reject "err:badpackage", 4, max 4 last, 4⟩ else
    unpackXferC reg size last (max 4 last) x.2.2
  | _ => ⟨.eof, x.1.length, 4, 4⟩

/-- read exactly `n` back-to-back frames from a chunked reader (`Raw.unpackN`). -/
def unpackNChunked (reg : Registry) (limit : Nat) : Nat → Reader → Option (List Msg × Reader)
  | 0, r => some ([], r)
  | n + 1, r =>
    match (unpackChunked reg limit r).out with
    | .ok m rest => (unpackNChunked reg limit n rest).map (fun p => (m :: p.1, p.2))
    | _ => none

/-- cut a byte string into chunks of the given sizes (a size 0 gives an empty chunk); what is left after
    the last size is one final chunk. Every list of sizes gives a chunking of the same bytes. -/
def chunk : List Nat → Bytes → Reader
  | [], b => [b]
  | k :: ks, b => b.take k :: chunk ks (b.drop k)

end Reader
end Teleport
