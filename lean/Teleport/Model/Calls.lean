/-
Model/Calls — call / reply / push matching of a session pair as an interleaving transition system
(session.go AsyncCall, Push, write, startReadAndHandle; context.go binding, bindCall, bindPush,
bindReply, handleCall, handlePush, handleReply, callCmd.done / cancel).

Payloads are opaque tokens (`Nat`): an argument / result body token and a metadata token. What the
bytes of a body are, and that a frame written is the frame read, is the business of the wire
properties (C05 `C05_raw_stream`, C12 `C12_pipe_inverts`, C11); here a frame is a value.

One `End` is one `*session` together with the goroutines that work on it:
  * `ctr`      `session.seq` (`atomic.AddInt32`; Go `int32`, here `Nat` — assumption: fewer than 2^31
               sequence numbers are drawn on one session, no wrap-around);
  * `callers`  goroutines inside `AsyncCall` / `Push` after the increment, with their captured
               locals (`seq`, the argument and metadata they were called with) and program counter;
  * `table`    `session.callCmdMap`: seq ↦ `callCmd` (its own `result` object and `inputMeta` copy);
  * `handlers` the goroutines spawned by the reader (`Go(func(){ ctx.handle() })`), each with its own
               context: `binding` creates a new argument value per frame (`handler.NewArgValue()`),
               a recycled context is a reset one (property C20);
  * `out`      the frames this end has written and the peer's reader has not yet taken: one FIFO per
               direction. `write` appends one WHOLE frame: `session.write` holds `writeLock` around
               `socket.WriteMessage` and `Proto.Pack` issues a single `Write` (checked on every run by
               the harness's frame-per-Write assertion);
  * `done`     the calls that have completed, as the caller sees them (`CallCmd.Reply/Status/InputMeta`);
  * `sent`, `invoked` ghost logs: every CALL/PUSH written, every handler input bound, in order.
There is ONE reader per end (`startReadAndHandle`), so `recv` takes the head of the peer's FIFO.

`H`, `Hm` are uninterpreted: what the handler returns (result body, reply metadata) for an input.
-/
namespace Teleport.Calls

/-- message type (`TypeCall`, `TypeReply`, `TypePush`). -/
inductive MT
  | call | reply | push
deriving DecidableEq, Repr

/-- one frame on the wire: type, sequence number, status OK?, body token, metadata token. -/
structure Frame where
  mt : MT
  seq : Nat
  ok : Bool
  body : Nat
  mtok : Nat
deriving DecidableEq, Repr

/-- program counter of a goroutine inside `AsyncCall` / `Push`. -/
inductive CPc
  | alloc    -- after `seq := atomic.AddInt32(&s.seq, 1)`
  | stored   -- after `s.callCmdMap.Store(seq, cmd)`, before `s.write(output)`
deriving DecidableEq, Repr

structure Caller where
  isPush : Bool
  pc : CPc
  seq : Nat
  args : Nat
  mtok : Nat
deriving DecidableEq, Repr

/-- a `callCmd` in the table: the call's own arguments and its own result slot
    (`reply = some (ok, result, inputMeta)` once `bindReply` has bound a reply frame to it). -/
structure Pending where
  args : Nat
  mtok : Nat
  reply : Option (Bool × Nat × Nat)
deriving DecidableEq, Repr

/-- a handler goroutine with its context: the input bound from ONE frame; `out` = what the handler
    function returned (`none`: not yet run). `idx`: ghost, its position in the `invoked` log. -/
structure Handler where
  isPush : Bool
  idx : Nat
  seq : Nat
  body : Nat
  mtok : Nat
  out : Option (Bool × Nat × Nat)
deriving DecidableEq, Repr

/-- a completed call as the caller observes it. -/
structure Done where
  seq : Nat
  args : Nat
  mtok : Nat
  ok : Bool
  result : Nat
  replyMeta : Nat
deriving DecidableEq, Repr

/-- ghost log entry: a CALL/PUSH message (type, body, metadata). -/
structure Msg where
  isPush : Bool
  body : Nat
  mtok : Nat
deriving DecidableEq, Repr

structure End where
  ctr : Nat
  callers : List Caller
  table : List (Nat × Pending)
  handlers : List Handler
  out : List Frame
  done : List Done
  sent : List Msg
  invoked : List Msg
deriving DecidableEq, Repr

def End.init : End := ⟨0, [], [], [], [], [], [], []⟩

/-! ### the pending-call table (`callCmdMap`) -/

/-- `callCmdMap.Load(seq)` -/
def lookup (k : Nat) : List (Nat × Pending) → Option Pending
  | [] => none
  | (n, p) :: t => if n = k then some p else lookup k t

/-- the table after `bindReply` has written into the entry of `k` (every entry keyed `k`; keys are
    pairwise distinct in every reachable state, `C01_seq_injective`). -/
def tset (k : Nat) (v : Pending) (t : List (Nat × Pending)) : List (Nat × Pending) :=
  t.map fun e => if e.1 = k then (k, v) else e

/-- `callCmdMap.Delete(seq)` -/
def terase (k : Nat) (t : List (Nat × Pending)) : List (Nat × Pending) :=
  t.filter fun e => e.1 != k

def keys (t : List (Nat × Pending)) : List Nat := t.map (·.1)

/-! ### steps -/

/-- the atomic steps of one end. `x` is the acting end, `y` its peer (only `recv` touches `y`). -/
inductive Ev
  /-- a goroutine enters `AsyncCall` (`isPush = false`) or `Push` with arguments `(args, mtok)` and
      executes `atomic.AddInt32(&s.seq, 1)`; it keeps the new value. -/
  | alloc (isPush : Bool) (args mtok : Nat)
  /-- the `AsyncCall` goroutine holding `seq` executes `callCmdMap.Store(seq, cmd)`. -/
  | store (seq : Nat)
  /-- the goroutine holding `seq` writes its frame (one whole frame under `writeLock`) and leaves. -/
  | write (seq : Nat)
  /-- the reader takes the next frame of the peer's FIFO and binds it. -/
  | recv
  /-- handler goroutine `idx` runs the handler function on its bound input; `ok`: its verdict. -/
  | hRun (idx : Nat) (ok : Bool)
  /-- handler goroutine `idx` writes the reply frame (`output.SetSeq(input.Seq())`) and leaves. -/
  | replyWrite (idx : Nat)
  /-- `handleReply` → `callCmd.done()`: the entry leaves the table, the caller gets the result slot. -/
  | complete (seq : Nat)
  /-- `callCmd.cancel` (disconnect) or a failed write: the call completes with a non-OK status. -/
  | cancel (seq : Nat)
deriving DecidableEq, Repr

def Caller.canStore (n : Nat) (c : Caller) : Bool := c.seq == n && c.pc == .alloc && !c.isPush
def Caller.canWrite (n : Nat) (c : Caller) : Bool :=
  c.seq == n && ((c.isPush && c.pc == .alloc) || (!c.isPush && c.pc == .stored))

def Caller.frame (c : Caller) : Frame := ⟨if c.isPush then .push else .call, c.seq, true, c.args, c.mtok⟩
def Caller.msg (c : Caller) : Msg := ⟨c.isPush, c.args, c.mtok⟩

/-- the CALL/PUSH message a frame carries (`none` for a REPLY frame). -/
def Frame.msg? (f : Frame) : Option Msg := if f.mt = .reply then none else some ⟨f.mt == .push, f.body, f.mtok⟩

/-- what a handler goroutine leaves in its context after the handler function returned. -/
def hOut (H Hm : Nat → Nat → Nat) (ok : Bool) (body mtok : Nat) : Bool × Nat × Nat :=
  if ok then (true, H body mtok, Hm body mtok) else (false, 0, 0)

/-- the reader binds one frame (`binding`): CALL/PUSH → a new handler context holding exactly the
    frame's body and metadata; REPLY → `callCmdMap.Load(header.Seq())`, and the frame is read into
    that call's own result object / `inputMeta` (no entry: the frame is dropped). -/
def bind (x : End) (f : Frame) : End :=
  if f.mt = .reply then
    match lookup f.seq x.table with
    | some p => { x with table := tset f.seq { p with reply := some (f.ok, f.body, f.mtok) } x.table }
    | none => x
  else
    { x with
      handlers := x.handlers ++ [⟨f.mt == .push, x.invoked.length, f.seq, f.body, f.mtok, none⟩]
      invoked := x.invoked ++ [⟨f.mt == .push, f.body, f.mtok⟩] }

/-- one atomic step of end `x` (peer `y`); `none` = not enabled. -/
def estep (H Hm : Nat → Nat → Nat) (x y : End) : Ev → Option (End × End)
  | .alloc isPush a m =>
    some ({ x with ctr := x.ctr + 1, callers := x.callers ++ [⟨isPush, .alloc, x.ctr + 1, a, m⟩] }, y)
  | .store n =>
    match x.callers.find? (Caller.canStore n) with
    | none => none
    | some c =>
      some ({ x with
        callers := x.callers.map fun d => if d.canStore n then { d with pc := .stored } else d
        table := (n, ⟨c.args, c.mtok, none⟩) :: x.table }, y)
  | .write n =>
    match x.callers.find? (Caller.canWrite n) with
    | none => none
    | some c =>
      some ({ x with
        callers := x.callers.filter fun d => !d.canWrite n
        out := x.out ++ [c.frame]
        sent := x.sent ++ [c.msg] }, y)
  | .recv =>
    match y.out with
    | [] => none
    | f :: rest => some (bind x f, { y with out := rest })
  | .hRun idx ok =>
    match x.handlers.find? (fun h => h.idx == idx && h.out.isNone) with
    | none => none
    | some h =>
      if h.isPush then some ({ x with handlers := x.handlers.filter fun g => g.idx != idx }, y)
      else some ({ x with handlers := x.handlers.map fun g =>
                    if g.idx == idx then { g with out := some (hOut H Hm ok g.body g.mtok) } else g }, y)
  | .replyWrite idx =>
    match x.handlers.find? (fun h => h.idx == idx && h.out.isSome && !h.isPush) with
    | none => none
    | some h =>
      match h.out with
      | none => none
      | some (ok, r, rm) =>
        some ({ x with
          handlers := x.handlers.filter fun g => g.idx != idx
          out := x.out ++ [⟨.reply, h.seq, ok, r, rm⟩] }, y)
  | .complete n =>
    match lookup n x.table with
    | none => none
    | some p =>
      match p.reply with
      | none => none
      | some (ok, r, rm) =>
        some ({ x with table := terase n x.table, done := ⟨n, p.args, p.mtok, ok, r, rm⟩ :: x.done }, y)
  | .cancel n =>
    match lookup n x.table with
    | none => none
    | some p =>
      match p.reply with
      | some _ => none
      | none =>
        some ({ x with table := terase n x.table, done := ⟨n, p.args, p.mtok, false, 0, 0⟩ :: x.done }, y)

/-! ### a session pair, any number of pairs -/

/-- one connection: the session object of each of the two peers. -/
structure Pair where
  a : End
  b : End
deriving DecidableEq, Repr

def Pair.init : Pair := ⟨End.init, End.init⟩

inductive Side
  | a | b
deriving DecidableEq, Repr

def pstep (H Hm : Nat → Nat → Nat) (p : Pair) (sd : Side) (e : Ev) : Option Pair :=
  match sd with
  | .a => (estep H Hm p.a p.b e).map fun (x, y) => ⟨x, y⟩
  | .b => (estep H Hm p.b p.a e).map fun (x, y) => ⟨y, x⟩

/-- the process: any number of session pairs. Sessions share no mutable state (the pools of
    contexts and messages hand out reset objects: C20). -/
abbrev Sys := List Pair

/-- a step of the system = a step of one end of one pair. -/
def step (H Hm : Nat → Nat → Nat) (s : Sys) (i : Nat) (sd : Side) (e : Ev) : Option Sys :=
  match s[i]? with
  | none => none
  | some p => (pstep H Hm p sd e).map fun q => s.set i q

/-- a new connection is served (`ServeConn` / `Dial`): a fresh pair. -/
def connect (s : Sys) : Sys := s ++ [Pair.init]

/-- reachable systems: start with no session; connect and step in any order, any number of times. -/
inductive Reach (H Hm : Nat → Nat → Nat) : Sys → Prop
  | init : Reach H Hm []
  | connect {s} : Reach H Hm s → Reach H Hm (connect s)
  | step {s t} (i : Nat) (sd : Side) (e : Ev) : Reach H Hm s → step H Hm s i sd e = some t → Reach H Hm t

end Teleport.Calls
