/-
Model/Dispatch — the per-frame dispatch decision of a session, as coded:
`session.go startReadAndHandle` (decision after `ReadMessage`), `context.go binding / bindCall /
bindPush / handle / handleCall / handlePush / writeReply / ReplyBodyCodec`, `socket/message.go
UnmarshalBody`, the caller side `session.go AsyncCall`, `context.go bindReply / handleReply`,
`session.go readDisconnected` (cancel of pending calls), and the framework statuses of `status.go`.

Everything the code cannot decide by itself is an explicit input: which routes are registered,
the first vetoing plugin's status per stage, what the handler does, whether the body decodes,
what each reply write does, whether the session is still readable, whether the goroutine pool
took the handler.
-/
import Teleport.Model.Status
import Teleport.Model.RawProto
namespace Teleport
namespace Dispatch
open Bytes

/-! ### constants of message.go / status.go -/

def tCall : UInt8 := 1
def tReply : UInt8 := 2
def tPush : UInt8 := 3

def txtNotFound : Bytes := [78, 111, 116, 32, 70, 111, 117, 110, 100]
def txtBadMessage : Bytes := [66, 97, 100, 32, 77, 101, 115, 115, 97, 103, 101]
def txtInternal : Bytes :=
  [73, 110, 116, 101, 114, 110, 97, 108, 32, 83, 101, 114, 118, 101, 114, 32, 69, 114, 114, 111, 114]
def txtConnClosed : Bytes := [67, 111, 110, 110, 101, 99, 116, 105, 111, 110, 32, 67, 108, 111, 115, 101, 100]
def txtWriteFailed : Bytes := [87, 114, 105, 116, 101, 32, 70, 97, 105, 108, 101, 100]
def txtMtype : Bytes :=
  [77, 101, 115, 115, 97, 103, 101, 32, 84, 121, 112, 101, 32, 78, 111, 116, 32, 65, 108, 108, 111, 119, 101, 100]
def txtInvalidMethod : Bytes :=
  [105, 110, 118, 97, 108, 105, 100, 32, 115, 101, 114, 118, 105, 99, 101, 32, 109, 101, 116, 104, 111, 100,
   32, 102, 111, 114, 32, 109, 101, 115, 115, 97, 103, 101]
def txtUnsupportedCodec : Bytes :=
  [117, 110, 115, 117, 112, 112, 111, 114, 116, 101, 100, 32, 99, 111, 100, 101, 99, 32, 105, 100, 58, 32]

/-- `NewStatus(code, CodeText(code), "")`: the sentinels carry a non-nil cause with empty text. -/
def sentinel (code : Int) (text : Bytes) : Status := ⟨code, text, some []⟩
/-- `sentinel.Copy(cause)` with a non-nil cause. -/
def copyOf (code : Int) (text cause : Bytes) : Status := ⟨code, text, some cause⟩

def stNotFound : Status := sentinel 404 txtNotFound
def stMtype : Status := sentinel 405 txtMtype
def stConnClosed : Status := sentinel 102 txtConnClosed
def stBadMessage (cause : Bytes) : Status := copyOf 400 txtBadMessage cause
def stInternal (cause : Bytes) : Status := copyOf 500 txtInternal cause
def stWriteFailed (cause : Bytes) : Status := copyOf 104 txtWriteFailed cause
def stBadMethod : Status := stBadMessage txtInvalidMethod

/-! ### inputs -/

/-- result of `getCallHandler` / `getPushHandler`: exact route (and whether its argument type is
    `[]byte`), the unknown-name handler, or nothing. -/
inductive Lookup | exact (rawArg : Bool) | unknown | none
deriving DecidableEq, Repr

/-- routing table abstraction and codec registry of the receiving peer. -/
structure Cfg where
  calls : List Bytes := []
  rawCalls : List Bytes := []       -- registered CALL routes whose argument type is `[]byte`
  pushes : List Bytes := []
  rawPushes : List Bytes := []
  unknownCall : Bool := false
  unknownPush : Bool := false
  codecs : List UInt8 := []         -- ids for which `codec.Get` succeeds (never contains 0)
  age : Bool := false               -- a context age is configured (`ContextAge() > 0`)
deriving Repr

def lookup (names raws : List Bytes) (unk : Bool) (m : Bytes) : Lookup :=
  if raws.contains m then .exact true
  else if names.contains m then .exact false
  else if unk then .unknown else .none

/-- the header fields of a received frame that the decision depends on. -/
structure Frame where
  mtype : UInt8
  seq : Int
  method : Bytes
  codec : UInt8
  bodyEmpty : Bool                  -- `len(bodyBytes) == 0`
  accept : Option UInt8 := none     -- parsed `X-Accept-Body-Codec` metadata, if present and numeric
deriving DecidableEq, Repr

/-- first non-agreeing plugin per pre-handler stage (`none` = all agree). A status with code 0 is
    not a veto (`!stat.OK()` in every stage function of plugin.go). -/
structure PV where
  preReadHeader : Bool := false            -- some plugin returned an error before the header
  postReadHeader : Option Status := none   -- postRead{Call,Push}Header (peer container)
  preReadBody : Option Status := none      -- preRead{Call,Push}Body (handler container)
  postReadBody : Option Status := none     -- postRead{Call,Push}Body (handler container)
deriving Repr

def veto? (o : Option Status) : Option Status := o.bind fun s => if s.ok then none else some s

/-- what the handler returned besides the status. -/
structure Ret where
  setCodec : Option UInt8 := none          -- explicit `SetBodyCodec` call
  rawResult : Bool := false                -- the result is a byte slice (`MarshalBody` needs no codec)
  merr : List (UInt8 × Bytes) := []        -- registered codecs that cannot marshal the result: error text
deriving Repr

/-- handler behaviour: returns `(body, st)` (a `st` with code 0 counts as success), or panics with
    a value whose error text is `p`; `slow` = it took longer than the configured context age. -/
inductive HB
  | ret (st : Status) (r : Ret) (slow : Bool)
  | panic (p : Bytes) (slow : Bool)
deriving Repr

def HB.slow : HB → Bool
  | .ret _ _ s => s
  | .panic _ s => s

def txtDeadline : Bytes :=
  [99, 111, 110, 116, 101, 120, 116, 32, 100, 101, 97, 100, 108, 105, 110, 101, 32, 101, 120, 99, 101, 101,
   100, 101, 100]

/-- outcome of one `session.write` of a reply. `failed e broken`: `statWriteFailed.Copy(e)`;
    `broken` = the failure was an I/O error that leaves the connection unusable (as opposed to a
    body that cannot be marshalled, a transfer-filter error, a size-limit error or an expired
    context, which leave the connection up and no byte written). -/
inductive WR | sent | connClosed | failed (e : Bytes) (broken : Bool)
deriving DecidableEq, Repr

structure Env where
  dec : Option Bytes := none   -- `codec.Unmarshal(body, arg)`: `none` = ok, `some e` = error text
  goon : Bool := true          -- session status is Ok/ActiveClosing when re-checked after the read
  spawn : Bool := true         -- the goroutine pool accepted `handle`
deriving Repr

/-! ### binding (reader goroutine) -/

inductive BodyObj | nil | bytes | value
deriving DecidableEq, Repr

structure Bound where
  stat : Status
  obj : BodyObj
  handler : Bool        -- `c.handler != nil`
deriving Repr

/-- `bindCall` / `bindPush` (identical up to the table and stage names). -/
def bindRoute (names raws : List Bytes) (unk : Bool) (f : Frame) (pv : PV) : Bound :=
  match veto? pv.postReadHeader with
  | some st => ⟨st, .nil, false⟩
  | none =>
    if f.method.isEmpty then ⟨stBadMethod, .nil, false⟩ else
    match lookup names raws unk f.method with
    | .none => ⟨stNotFound, .nil, false⟩
    | .exact raw =>
      (match veto? pv.preReadBody with
       | some st => ⟨st, .nil, true⟩
       | none => ⟨Status.zero, if raw then .bytes else .value, true⟩)
    | .unknown =>
      (match veto? pv.preReadBody with
       | some st => ⟨st, .nil, true⟩
       | none => ⟨Status.zero, .bytes, true⟩)

/-- `binding`: by message type. A REPLY on the receiving side of this model has no pending call
    (the caller side is `clientReply`). -/
def binding (cfg : Cfg) (f : Frame) (pv : PV) : Bound :=
  if f.mtype == tReply then ⟨Status.zero, .nil, false⟩
  else if f.mtype == tPush then bindRoute cfg.pushes cfg.rawPushes cfg.unknownPush f pv
  else if f.mtype == tCall then bindRoute cfg.calls cfg.rawCalls cfg.unknownCall f pv
  else ⟨stMtype, .nil, false⟩

def unsupportedCodec (id : UInt8) : Bytes := txtUnsupportedCodec ++ Num.formatInt 8 id.toNat

/-- `UnmarshalBody`: the error it returns (`none` = nil). -/
def readErr (codecs : List UInt8) (dec : Option Bytes) (codec : UInt8) (bodyEmpty : Bool) (obj : BodyObj) :
    Option Bytes :=
  if bodyEmpty then none else
  match obj with
  | .nil => none
  | .bytes => none
  | .value => if codecs.contains codec then dec else some (unsupportedCodec codec)

/-! ### outcome -/

structure Reply where
  seq : Int
  status : Status
  codec : UInt8
  hasBody : Bool
deriving DecidableEq, Repr

structure Outcome where
  leftLoop : Bool := false        -- the read loop returned (→ `readDisconnected`)
  handled : Nat := 0              -- `handle` goroutines started for this frame
  invocations : Nat := 0          -- handler function calls
  replies : List Reply := []      -- REPLY frames completely written
  writes : List WR := []          -- what each `writeReply` call met, in order
  closeRequested : Bool := false  -- `go c.sess.Close()`
  connLost : Bool := false        -- a reply write met a closed session / broke the connection
  stat : Status := Status.zero    -- final `c.stat`
deriving Repr

def Outcome.disconnected (o : Outcome) : Bool := o.leftLoop || o.closeRequested || o.connLost

/-- a write that failed without a byte on the wire and with the connection still usable. -/
def WR.quiet : WR → Bool
  | .failed _ false => true
  | _ => false

/-- the frame got neither an answer nor a disconnect. -/
def Outcome.dropped (o : Outcome) : Bool := o.replies.isEmpty && !o.disconnected

/-- `ReplyBodyCodec`: explicit, else a registered non-zero accept id, else the request's. -/
def replyCodec (cfg : Cfg) (f : Frame) (setCodec : Option UInt8) : UInt8 :=
  match setCodec with
  | some c => if c != 0 then c else
      (match f.accept with
       | some a => if a != 0 && cfg.codecs.contains a then a else f.codec
       | none => f.codec)
  | none =>
      (match f.accept with
       | some a => if a != 0 && cfg.codecs.contains a then a else f.codec
       | none => f.codec)

/-- the frame `writeReply(st)` tries to write (`rc` = reply codec chosen for a success). -/
def mkReply (f : Frame) (st : Status) (rc : UInt8) : Reply :=
  if st.ok then ⟨f.seq, Status.zero, rc, true⟩ else ⟨f.seq, st, 0, false⟩

def lost : WR → Bool
  | .sent => false
  | .connClosed => true
  | .failed _ b => b

/-- `MarshalBody` of a successful reply: the error it returns (`none` = nil). -/
def marshalErr (cfg : Cfg) (rc : UInt8) (r : Ret) : Option Bytes :=
  if r.rawResult then none
  else if cfg.codecs.contains rc then (r.merr.find? (·.1 == rc)).map (·.2)
  else some (unsupportedCodec rc)

/-- what `session.write` does with a reply, given what the connection would do (`w`): an expired
    context is noticed first, then the body is marshalled (inside `Pack`), then the bytes go out. -/
def effW (expired : Bool) (merr : Option Bytes) (w : WR) : WR :=
  if expired then .failed txtDeadline false
  else match merr with
    | some e => .failed e false
    | none => w

/-- `handleCall` after the handler phase, no panic: first write, and after a failure that is not
    102 a second `writeReply(500 copy(cause))`. -/
def replyPhase (f : Frame) (st : Status) (rc : UInt8) (inv : Nat) (w1 w2 : WR) : Outcome :=
  match w1 with
  | .sent => { handled := 1, invocations := inv, replies := [mkReply f st rc], writes := [w1], stat := st }
  | .connClosed => { handled := 1, invocations := inv, writes := [w1], connLost := true,
                     stat := if st.ok then stConnClosed else st }
  | .failed e b =>
    let st' := if st.ok then stWriteFailed e else st
    match w2 with
    | .sent => { handled := 1, invocations := inv, replies := [mkReply f (stInternal e) 0], writes := [w1, w2],
                 connLost := b, stat := st' }
    | _ => { handled := 1, invocations := inv, writes := [w1, w2], connLost := b || lost w2, stat := st' }

/-- deferred recover of `handleCall` (`writed` is false: the handler runs before any write). -/
def panicPhase (f : Frame) (st : Status) (p : Bytes) (w1 : WR) : Outcome :=
  let st' := if st.ok then stInternal p else st
  match w1 with
  | .sent => { handled := 1, invocations := 1, replies := [mkReply f st' 0], writes := [w1], stat := st' }
  | _ => { handled := 1, invocations := 1, writes := [w1], connLost := lost w1, stat := st' }

def handleCall (cfg : Cfg) (f : Frame) (stat : Status) (hb : HB) (pv : PV) (w1 w2 : WR) : Outcome :=
  if stat.ok then
    match veto? pv.postReadBody with
    | some v => replyPhase f v 0 0 w1 w2
    | none =>
      let expired := cfg.age && hb.slow
      match hb with
      | .ret st r _ =>
        if st.ok then
          let rc := replyCodec cfg f r.setCodec
          replyPhase f stat rc 1 (effW expired (marshalErr cfg rc r) w1) (effW expired none w2)
        else replyPhase f st 0 1 (effW expired none w1) (effW expired none w2)
      | .panic p _ => panicPhase f stat p (effW expired none w1)
  else replyPhase f stat 0 0 w1 w2

def handlePush (b : Bound) (stat : Status) (pv : PV) : Outcome :=
  if stat.ok && b.handler then
    match veto? pv.postReadBody with
    | some _ => { handled := 1, stat := stat }
    | none => { handled := 1, invocations := 1, stat := stat }
  else { handled := 1, stat := stat }

/-- `handle`: 405 (from `binding`, from a plugin or otherwise) → request `Close`; else by type. -/
def handle (cfg : Cfg) (f : Frame) (b : Bound) (stat : Status) (hb : HB) (pv : PV) (w1 w2 : WR) : Outcome :=
  if stat.code == 405 then { handled := 1, closeRequested := true, stat := stat }
  else if f.mtype == tReply then { handled := 1, stat := stat }
  else if f.mtype == tPush then handlePush b stat pv
  else if f.mtype == tCall then handleCall cfg f stat hb pv w1 w2
  else { handled := 1, closeRequested := true, stat := stat }

/-- the error `ReadMessage` returns for this frame (`none` = nil). -/
def frameErr (cfg : Cfg) (env : Env) (f : Frame) (pv : PV) : Option Bytes :=
  readErr cfg.codecs env.dec f.codec f.bodyEmpty (binding cfg f pv).obj

/-- `(err != nil && ctx.GetBodyCodec() == codec.NilCodecID) || !s.goonRead()` -/
def leaves (cfg : Cfg) (env : Env) (f : Frame) (pv : PV) : Bool :=
  ((frameErr cfg env f pv).isSome && f.codec == 0) || !env.goon

/-- `if err != nil { ctx.stat = statBadMessage.Copy(err) }` -/
def statAfterRead (cfg : Cfg) (env : Env) (f : Frame) (pv : PV) : Status :=
  match frameErr cfg env f pv with
  | some e => stBadMessage e
  | none => (binding cfg f pv).stat

/-- one iteration of the read loop of `startReadAndHandle` for a frame whose header parsed. -/
def handleFrame (cfg : Cfg) (env : Env) (f : Frame) (hb : HB) (pv : PV) (wr : WR × WR) : Outcome :=
  if pv.preReadHeader then { leftLoop := true }
  else if leaves cfg env f pv then { leftLoop := true, stat := (binding cfg f pv).stat }
  else if !env.spawn then { stat := statAfterRead cfg env f pv }
  else handle cfg f (binding cfg f pv) (statAfterRead cfg env f pv) hb pv wr.1 wr.2

/-- everything one received frame depends on. -/
structure Item where
  env : Env
  frame : Frame
  hb : HB
  pv : PV
  wr : WR × WR
deriving Repr

def Item.run (cfg : Cfg) (it : Item) : Outcome := handleFrame cfg it.env it.frame it.hb it.pv it.wr

/-- the read loop over the frames that arrive: it stops at the first frame that makes it return. -/
def readLoop (cfg : Cfg) : List Item → List Outcome
  | [] => []
  | it :: rest => if (it.run cfg).leftLoop then [it.run cfg] else it.run cfg :: readLoop cfg rest

/-! ### caller side -/

/-- wire protocols by what their frame format does with the status field. -/
inductive Proto | raw | json | pb | wsJson | wsPb
deriving DecidableEq, Repr

/-- does `Pack` write the status at all (pbSubProto's payload message has no such field;
    jsonSubProto carries it the way jsonproto does). -/
def Proto.carriesStatus : Proto → Bool
  | .raw | .json | .pb | .wsJson => true
  | .wsPb => false

/-- status as it arrives: `DecodeQuery(EncodeQuery(st))` inside a container that is assumed to
    deliver the query string unchanged (raw: proved in C05; json/pb/wsJson: library containers), or the
    zero status where the format has no status field. `none` = un-quoting panics. -/
def transport (p : Proto) (st : Status) : Option Status :=
  if p.carriesStatus then Status.decode (Status.encode st) else some Status.zero

structure Client where
  preWriteCall : Option Status := none
  closed : Bool := false                    -- session not Ok at `write` (no redial) → 102 sentinel
  writeFail : Option Bytes := none          -- `write` failed: 104 copy(err)
  postReadReplyHeader : Option Status := none
  preReadReplyBody : Option Status := none
  postReadReplyBody : Option Status := none
  rawResult : Bool := false                 -- the result object is `*[]byte`
  codecs : List UInt8 := []
  rdec : Option Bytes := none               -- `codec.Unmarshal(replyBody, result)`: `none` = ok
  discReason : Option Bytes := none         -- read error text other than EOF on disconnect
deriving Repr

/-- the body object `bindReply` installs: the caller's result. -/
def Client.obj (c : Client) : BodyObj := if c.rawResult then .bytes else .value

/-- what the caller gets: completion with a status (and whether the result object was filled by a
    successful decode), or no completion at all. -/
inductive Obs | done (st : Status) (decoded : Bool) | hang
deriving DecidableEq, Repr

/-- `bindReply` → `UnmarshalBody` → read-loop decision → `handleReply` for a REPLY matching the
    pending call. The read error is stored in the context (`ctx.stat = 400 Bad Message, cause = the
    decoder's error`); `handleReply` makes it the call's status when the call's status is still OK
    after everything else: the reply itself carries an OK status (a failure status sent by the peer
    wins) and the `postReadReplyBody` plugins, which run as before, agree. -/
def clientReply (c : Client) (st : Status) (codec : UInt8) (hasBody : Bool) : Obs :=
  match veto? c.postReadReplyHeader with
  | some v => .done v false
  | none =>
    match veto? c.preReadReplyBody with
    | some v => .done v false
    | none =>
      match readErr c.codecs c.rdec codec (!hasBody) c.obj with
      | some e =>
        -- also with codec id 0: the read loop then completes the call itself before it leaves
        -- (`finishBoundReply`), the session disconnects afterwards
        .done (if st.ok then ((veto? c.postReadReplyBody).getD (stBadMessage e)) else st) false
      | none => .done (if st.ok then ((veto? c.postReadReplyBody).getD st) else st) hasBody

structure Scenario where
  proto : Proto
  cfg : Cfg
  frame : Frame
  env : Env := {}
  hb : HB
  pv : PV := {}
  wr : WR × WR := (.sent, .sent)
  cli : Client := {}
deriving Repr

def Scenario.outcome (sc : Scenario) : Outcome := handleFrame sc.cfg sc.env sc.frame sc.hb sc.pv sc.wr

def connClosedWith : Option Bytes → Status
  | none => stConnClosed
  | some r => copyOf 102 txtConnClosed r

/-- `AsyncCall` … completion. -/
def callerObs (sc : Scenario) : Obs :=
  match veto? sc.cli.preWriteCall with
  | some v => .done v false
  | none =>
    if sc.cli.closed then .done stConnClosed false else
    match sc.cli.writeFail with
    | some e => .done (stWriteFailed e) false
    | none =>
      match sc.outcome.replies with
      | r :: _ =>
        (match transport sc.proto r.status with
         | some st => clientReply sc.cli st r.codec r.hasBody
         | none => .done (connClosedWith sc.cli.discReason) false)
      | [] => if sc.outcome.disconnected then .done (connClosedWith sc.cli.discReason) false else .hang

def callerStatus (sc : Scenario) : Option Status :=
  match callerObs sc with
  | .done st _ => some st
  | .hang => none

end Dispatch
end Teleport
