/-
Model/CallLife — the life cycle of outgoing calls of ONE session (property C02), as a transition
system with any number of calls. Core Lean only (linked into the driver).

What is modelled (Go statement ↔ label of `fire`):
  session.go AsyncCall      issue (seq, callWG.Add, cmd.mu.Lock — the fresh cmd is not shared yet),
                            store (callCmdMap.Store), prewrite (preWriteCall verdict → stat),
                            write (session.write: status check → 102 sentinel, cancelled context → 104,
                            one whole frame | error → 102/104 | request above the size limit: Pack
                            returns the error, nothing written → 104),
                            failDone (cmd.done() on a non-OK stat), unlock (deferred cmd.mu.Unlock)
  session.go startReadAndHandle   read (ReadMessage up to bindReply's table lookup), bind
                            (bindReply: mu.Lock — blocks while the mutex is held —; a call that already
                            has a reply or is already completed is unlocked again and the frame treated
                            as one for an unknown seq; else inputMeta set = hasReply; body decode; the decision `(err ≠ nil ∧ codec = 0) ∨ ¬goonRead`
                            or a decoder panic → `finishBoundReply`: handleReply runs in the reader
                            (status 400 on an error, done(), Unlock), then the loop is left
                            | ctxWG.Add + spawn handle),
                            readerEof (read error)
  session.go readDisconnected     discLoad, discStore (CAS Ok→PassiveClosing, else load again), discCtxWait todo (graceCtxWait; `todo` = the order in which Range
                            will yield entries: ANY index list that contains every entry of the table at
                            that moment — the guarantee of atomicMap.Range), discPick (Range yields
                            the next entry), discVisit (mu.Lock; `¬hasReply ∧ stat.OK` → cancel; Unlock),
                            discFinish (socket.Close, no redial configured, PassiveClosed)
  context.go handleReply    hDone (stat from the reply — its status, else 400 if its body did not decode —
                            unless already non-OK; done()), hUnlock
                            (mu.Unlock, ctxWG.Done)
  context.go callCmd.done / cancel   `complete`: table delete, channel send (blocks on a full channel),
                            close(doneChan) (a second close panics in a pool goroutine = process crash),
                            callWG.Done
  session.go Close/closeLocked     close (CAS Ok→ActiveClosing), closeCtxWait, closeCallWait
                            (callWG.Wait; ActiveClosed; socket.Close)
Environment labels: issue, frame (the peer sends any frame: any seq, any decode outcome), lose
(connection lost), close (the application calls Close).
Ghost field (never read by `fire` for a decision): `leaked` — the reader left the read loop with a call's mutex held.
-/
namespace Teleport.CallLife

/-- program counter of the caller goroutine inside AsyncCall. -/
inductive Pc | locked | stored | writing | failing | written | unlocking | returned
  deriving DecidableEq, Repr

/-- who holds the per-call mutex. `reader`: locked by bindReply and never unlocked. -/
inductive Mu | free | caller | reader | hPre | hPost
  deriving DecidableEq, Repr

/-- body decode outcome of a REPLY frame for a result object that is not `*[]byte`. -/
inductive Dec | ok | errKnown | errNil | panic
  deriving DecidableEq, Repr

inductive Frame
  | reply (seq : Nat) (dec : Dec) (rstat : Nat)
  | other      -- CALL / PUSH / any frame that involves no pending call
  | garbage    -- unreadable before the codec id is known (bad size, unknown filter, header panic)
  deriving DecidableEq, Repr

/-- lifecycle status of the session (Preparing/Redialing are outside this model). -/
inductive SS | ok | activeClosing | activeClosed | passiveClosing | passiveClosed
  deriving DecidableEq, Repr

def SS.goon : SS → Bool
  | .ok | .activeClosing => true
  | _ => false

def SS.closed : SS → Bool
  | .activeClosed | .passiveClosed => true
  | _ => false

inductive RPc
  | reading
  | bindWait (i : Nat) (dec : Dec) (rstat : Nat)
  | discLoad
  | discStore
  | discCtxWait (act : Bool)
  | discLoop (act : Bool) (todo : List Nat)
  | discLock (act : Bool) (i : Nat) (todo : List Nat)
  | discFinish
  | stopped
  deriving DecidableEq, Repr

inductive CPc | idle | ctxWait | callWait | returned
  deriving DecidableEq, Repr

structure Call where
  pc : Pc
  mu : Mu
  hasReply : Bool
  stat : Nat            -- 0 = OK, else the status code
  doneCount : Nat       -- times doneChan was closed (a second close is the crash)
  chanSends : Nat       -- times the call was sent on its completion channel
  inTable : Bool
  rstat : Nat           -- status carried by the bound reply
  rerr : Bool           -- the bound reply's body could not be decoded: `ctx.stat = 400 Bad Message`
  -- parameters fixed at issue
  veto : Bool           -- preWriteCall verdict is non-OK
  ctxDone : Bool        -- the call's context is already cancelled
  tooBig : Bool         -- the request is above the message size limit: Pack returns the error
  bytesRes : Bool       -- result object is *[]byte (body is copied, never decoded)
  cap : Nat             -- capacity of the completion channel
  deriving DecidableEq, Repr

structure State where
  calls : List Call
  inq : List Frame
  lost : Bool
  sockClosed : Bool
  status : SS
  rpc : RPc
  cpc : CPc
  otherH : Nat
  crashed : Bool
  leaked : Bool
  deriving DecidableEq, Repr

/-- the call record right after `seq` allocation, `callWG.Add(1)` and `cmd.mu.Lock()`. -/
def Call.fresh (veto ctxDone tooBig bytesRes : Bool) (cap : Nat) : Call :=
  { pc := .locked, mu := .caller, hasReply := false, stat := 0, doneCount := 0, chanSends := 0,
    inTable := false, rstat := 0, rerr := false, veto := veto, ctxDone := ctxDone, tooBig := tooBig,
    bytesRes := bytesRes, cap := cap }

def State.init : State :=
  { calls := [], inq := [], lost := false, sockClosed := false, status := .ok, rpc := .reading,
    cpc := .idle, otherH := 0, crashed := false, leaked := false }

/-- outcome of `session.write` for a CALL. -/
inductive WOut | ok | refused | ctxErr | cut | err (code : Nat) | tooBig
  deriving DecidableEq, Repr

inductive Label
  | issue (veto ctxDone tooBig bytesRes : Bool) (cap : Nat)
  | frame (f : Frame)
  | lose
  | close
  | store (i : Nat) | prewrite (i : Nat) | write (i : Nat) (o : WOut) | failDone (i : Nat) | unlock (i : Nat)
  | read | bind | readerEof
  | discLoad | discStore | discCtxWait (todo : List Nat) | discPick | discVisit | discFinish
  | hDone (i : Nat) | hUnlock (i : Nat) | hOther
  | closeCtxWait | closeCallWait
  deriving DecidableEq, Repr

def Label.internal : Label → Bool
  | .issue .. | .frame _ | .lose | .close => false
  | _ => true

/-- `handleReply`: the status the reply gives the call — the status the frame carries, else the
    read error stored by the read loop (400), else OK. -/
def Call.replyStat (c : Call) : Nat := if c.rstat ≠ 0 then c.rstat else if c.rerr then 400 else 0

/-- a `*[]byte` result is filled by copying the body: no decoder runs. -/
def effDec (c : Call) (dec : Dec) : Dec := if c.bytesRes then .ok else dec

/-- `ReadMessage` failed after `bindReply` (decode error, codec id 0, decoder panic): the context
    carries `400 Bad Message` with the error as cause. -/
def Dec.isErr : Dec → Bool
  | .ok => false
  | _ => true

def Call.busyH (c : Call) : Bool := c.mu == .hPre || c.mu == .hPost

/-- graceCtxWaitGroup counter. -/
def State.ctxBusy (s : State) : Nat := s.otherH + s.calls.countP Call.busyH

/-- graceCallCmdWaitGroup counter is zero. -/
def State.callsDone (s : State) : Bool := s.calls.all (fun c => decide (1 ≤ c.doneCount))

def State.setCall (s : State) (i : Nat) (c : Call) : State := { s with calls := s.calls.set i c }

/-- `callCmd.done` / `cancel` on call `c` (with its final stat already set): `none` = blocked forever
    on the full completion channel; the flag says whether `close(doneChan)` panicked. -/
def complete (c : Call) : Option (Call × Bool) :=
  if c.doneCount = 0 then
    some ({ c with inTable := false, chanSends := c.chanSends + 1, doneCount := 1 }, false)
  else if c.chanSends < c.cap then
    some ({ c with inTable := false, chanSends := c.chanSends + 1, doneCount := c.doneCount + 1 }, true)
  else none

/-- table lookup by sequence number: call `i` has seq `i+1`. -/
def State.lookup (s : State) (seq : Nat) : Option Nat :=
  match seq with
  | 0 => none
  | q + 1 => match s.calls[q]? with
    | some c => if c.inTable then some q else none
    | none => none

/-- indices of the table entries, in index order (snapshot taken by Range). -/
def tableIdx : List Call → Nat → List Nat
  | [], _ => []
  | c :: r, n => if c.inTable then n :: tableIdx r (n + 1) else tableIdx r (n + 1)

/-- after a frame that needs a handler goroutine but no call: the read loop's `goonRead` decision. -/
def State.spawnOther (s : State) : State :=
  if s.status.goon then { s with otherH := s.otherH + 1, rpc := .reading } else { s with rpc := .discLoad }

def fire (s : State) (l : Label) : Option State :=
  if s.crashed then none else
  match l with
  | .issue veto ctxDone tooBig bytesRes cap =>
    if cap = 0 then none else
    some { s with calls := s.calls ++ [Call.fresh veto ctxDone tooBig bytesRes cap] }
  | .frame f => some { s with inq := s.inq ++ [f] }
  | .lose => some { s with lost := true }
  | .close =>
    match s.cpc with
    | .idle => if s.status = .ok then some { s with status := .activeClosing, cpc := .ctxWait }
               else some { s with cpc := .returned }
    | _ => some s
  | .store i =>
    match s.calls[i]? with
    | some c => if c.pc = .locked then some (s.setCall i { c with pc := .stored, inTable := true }) else none
    | none => none
  | .prewrite i =>
    match s.calls[i]? with
    | some c =>
      if c.pc = .stored then
        some (s.setCall i (if c.veto then { c with pc := .failing, stat := 499 } else { c with pc := .writing }))
      else none
    | none => none
  | .write i o =>
    match s.calls[i]? with
    | some c =>
      if c.pc ≠ .writing then none
      else if s.status ≠ .ok then
        (if o = .refused then some (s.setCall i { c with pc := .failing, stat := 102 }) else none)
      else if c.ctxDone then
        (if o = .ctxErr then some (s.setCall i { c with pc := .failing, stat := 104 }) else none)
      else if c.tooBig then
        (if o = .tooBig then some (s.setCall i { c with pc := .failing, stat := 104 }) else none)
      else match o with
        | .ok => some (s.setCall i { c with pc := .written })
        | .cut => some ({ s with lost := true }.setCall i { c with pc := .failing, stat := 104 })
        | .err code =>
          if (s.lost || s.sockClosed) && (code = 102 || code = 104) then
            some (s.setCall i { c with pc := .failing, stat := code }) else none
        | _ => none
    | none => none
  | .failDone i =>
    match s.calls[i]? with
    | some c =>
      if c.pc = .failing then
        match complete c with
        | some (c', cr) => some ({ s with crashed := cr }.setCall i { c' with pc := .unlocking })
        | none => none
      else none
    | none => none
  | .unlock i =>
    match s.calls[i]? with
    | some c =>
      if c.pc = .written ∨ c.pc = .unlocking then some (s.setCall i { c with pc := .returned, mu := .free }) else none
    | none => none
  | .read =>
    match s.rpc, s.inq with
    | .reading, f :: rest =>
      let s1 := { s with inq := rest }
      match f with
      | .garbage => some { s1 with rpc := .discLoad }
      | .other => some s1.spawnOther
      | .reply seq dec rstat =>
        match s.lookup seq with
        | some i => some { s1 with rpc := .bindWait i dec rstat }
        | none => some s1.spawnOther
    | _, _ => none
  | .bind =>
    match s.rpc with
    | .bindWait i dec rstat =>
      match s.calls[i]? with
      | some c =>
        if c.mu ≠ .free then none else
        if c.hasReply = true ∨ 1 ≤ c.doneCount then
          -- already replied or completed (looked up before the table delete): Unlock, `callCmd = nil`,
          -- nil body — from here on the frame is a reply for an unknown seq
          some { s with rpc := .reading }.spawnOther
        else
        let eff := effDec c dec
        let c1 := { c with hasReply := true, rstat := rstat, rerr := eff.isErr }
        if (eff = .errNil ∨ eff = .panic) ∨ s.status.goon = false then
          -- the loop is left: `finishBoundReply` runs `handleReply` in the reader itself (status, done(),
          -- Unlock). (A second `close(doneChan)` would panic inside `done()`, skip the Unlock and be
          -- caught by the read loop's own recover: `mu := .reader`, ghost `leaked`.)
          match complete { c1 with stat := if c.stat = 0 then c1.replyStat else c.stat } with
          | some (c2, cr) =>
            some ({ s with leaked := s.leaked || cr, rpc := .discLoad }.setCall i
              { c2 with mu := if cr then .reader else .free })
          | none => none
        else
          some ({ s with rpc := .reading }.setCall i { c1 with mu := .hPre })
      | none => none
    | _ => none
  | .readerEof =>
    match s.rpc, s.inq with
    | .reading, [] => if s.lost || s.sockClosed then some { s with rpc := .discLoad } else none
    | _, _ => none
  | .discLoad =>
    match s.rpc with
    | .discLoad =>
      match s.status with
      | .ok => some { s with rpc := .discStore }
      | .activeClosing => some { s with rpc := .discCtxWait true }
      | _ => some { s with rpc := .stopped }
    | _ => none
  | .discStore =>
    match s.rpc with
    | .discStore =>
      -- `tryChangeStatus(statusPassiveClosing, status)` from the loaded `Ok`; when it fails: load again
      match s.status with
      | .ok => some { s with status := .passiveClosing, rpc := .discCtxWait false }
      | _ => some { s with rpc := .discLoad }
    | _ => none
  | .discCtxWait todo =>
    -- Range visits the table in map order: any list of indices that contains every entry present at
    -- the start of the Range call (goutil atomicMap.Range iterates over "all of the keys that were already
    -- present at the start of the call"; entries stored later may or may not be yielded: any further
    -- indices; entries that are not in the table any more are skipped by discPick); the driver uses
    -- index order
    match s.rpc with
    | .discCtxWait act =>
      if s.ctxBusy = 0 ∧ todo.length ≤ s.calls.length ∧ (tableIdx s.calls 0).all (fun j => todo.contains j) = true then
        some { s with rpc := .discLoop act todo } else none
    | _ => none
  | .discPick =>
    match s.rpc with
    | .discLoop act [] => some { s with rpc := if act then .stopped else .discFinish }
    | .discLoop act (i :: todo) =>
      match s.calls[i]? with
      | some c => if c.inTable then some { s with rpc := .discLock act i todo } else some { s with rpc := .discLoop act todo }
      | none => some { s with rpc := .discLoop act todo }
    | _ => none
  | .discVisit =>
    match s.rpc with
    | .discLock act i todo =>
      match s.calls[i]? with
      | some c =>
        if c.mu ≠ .free then none
        else if c.hasReply = false ∧ c.stat = 0 then
          match complete { c with stat := 102 } with
          | some (c', cr) => some ({ s with crashed := cr, rpc := .discLoop act todo }.setCall i c')
          | none => none
        else some { s with rpc := .discLoop act todo }
      | none => none
    | _ => none
  | .discFinish =>
    match s.rpc with
    | .discFinish => some { s with sockClosed := true, status := .passiveClosed, rpc := .stopped }
    | _ => none
  | .hDone i =>
    match s.calls[i]? with
    | some c =>
      if c.mu = .hPre then
        match complete { c with stat := if c.stat = 0 then c.replyStat else c.stat } with
        | some (c', cr) => some ({ s with crashed := cr }.setCall i { c' with mu := .hPost })
        | none => none
      else none
    | none => none
  | .hUnlock i =>
    match s.calls[i]? with
    | some c => if c.mu = .hPost then some (s.setCall i { c with mu := .free }) else none
    | none => none
  | .hOther => if s.otherH = 0 then none else some { s with otherH := s.otherH - 1 }
  | .closeCtxWait =>
    match s.cpc with
    | .ctxWait => if s.ctxBusy = 0 then some { s with cpc := .callWait } else none
    | _ => none
  | .closeCallWait =>
    match s.cpc with
    | .callWait =>
      if s.callsDone then some { s with status := .activeClosed, sockClosed := true, cpc := .returned } else none
    | _ => none

/-- one step of the system under label `l`. -/
def Step (s t : State) : Prop := ∃ l, fire s l = some t

/-- one internal step (no new external event). -/
def IStep (s t : State) : Prop := ∃ l, l.internal = true ∧ fire s l = some t

inductive Reachable : State → Prop
  | init : Reachable State.init
  | step {s t : State} : Reachable s → Step s t → Reachable t

/-- run a label sequence. -/
def run (s : State) : List Label → Option State
  | [] => some s
  | l :: ls => (fire s l).bind (fun t => run t ls)

/-! ## deterministic scheduler used by the driver (and by the witnesses) -/

/-- the outcome `session.write` has in the sequential scripts: refused / cancelled context / size limit /
    a cut placed inside this write (`wcut`) / error on a lost connection / success. -/
def canonWrite (s : State) (c : Call) (wcut : Bool) : WOut :=
  if s.status ≠ .ok then .refused
  else if c.ctxDone then .ctxErr
  else if c.tooBig then .tooBig
  else if wcut then .cut
  else if s.lost || s.sockClosed then .err 104
  else .ok

/-- candidate internal labels in scheduling order; `holdH` parks handlers before `done` (gate
    reply.done), `holdC` parks callers after the table store (gate call.store); `cutIdx` = the call whose
    request write is cut by the environment. -/
def candidates (s : State) (holdH holdC : Bool) (cutIdx : Option Nat) : List Label :=
  let n := s.calls.length
  let idx := List.range n
  let callerL := idx.flatMap fun i =>
    match s.calls[i]? with
    | some c =>
      [Label.store i] ++ (if holdC then [] else [Label.prewrite i, Label.write i (canonWrite s c (cutIdx == some i)),
        Label.failDone i, Label.unlock i])
    | none => []
  let handlerL := idx.flatMap fun i => (if holdH then [] else [Label.hDone i]) ++ [Label.hUnlock i]
  callerL ++ handlerL ++ [.hOther, .read, .bind, .readerEof, .discLoad, .discStore, .discCtxWait (tableIdx s.calls 0), .discPick,
    .discVisit, .discFinish, .closeCtxWait, .closeCallWait]

def firstEnabled (s : State) : List Label → Option State
  | [] => none
  | l :: ls => match fire s l with
    | some t => some t
    | none => firstEnabled s ls

/-- run enabled internal steps (in candidate order) until none is enabled or the fuel ends. -/
def settle (holdH holdC : Bool) (cutIdx : Option Nat) : Nat → State → State
  | 0, s => s
  | fuel + 1, s =>
    match firstEnabled s (candidates s holdH holdC cutIdx) with
    | some t => settle holdH holdC cutIdx fuel t
    | none => s

end Teleport.CallLife
