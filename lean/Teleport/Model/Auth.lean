import Teleport.Model.Lifecycle
/-
Model/Auth — the authentication gate of one accepted connection, at the granularity of the atomic
stages of the code:

  * `plugin/auth/auth.go`  `authCheckerPlugin.PostAccept` (the `called` once-flag, `RecvOnce` =
    one `PreReceive`, the type / status checks, `MultiRecvErr`, the `PreSend` of the AUTH_REPLY,
    which status is returned), `authBearerPlugin.PostDial` (second half of this file);
  * `session.go`  `PreReceive` / `PreSend` (only in `statusPreparing`; `PreReceive` reads exactly one
    frame, errors and recovered panics become a status), `closeLocked`, `startReadAndHandle`,
    `readDisconnected`, `write` (status check);
  * `peer.go`  `ServeConn` and `serveListener` (they order `hub.set` / `status:=Ok` / reader start
    differently — flag `lis`), `Dial`;
  * `context.go`  `binding` / `handle` / `handleCall` / `handlePush` as far as "which per-message
    hook stages and which handler run for a frame of a given kind".

The client is the environment: complete frames (or byte strings on which `ReadMessage` fails) arrive
at any time (`Ev.arrive`), the connection may be cut at any time (`Ev.cut`), read deadlines may fire
whenever a read is in progress (`timeout` flag of the read events).  The checker function is user
code: it may call `RecvOnce` any number of times (`Ev.recvOnce`) and return any verdict
(`Ev.ckReturn`); a *strict* checker (`St.strict`) returns an OK status only if its `RecvOnce` calls
returned exactly one OK.

The checker function is handed the session (`auth.Session`): besides `RecvOnce` it may rename it
(`Ev.setId` = `session.SetID`: a session that is being prepared ENTERS THE HUB under the new id and
leaves it under the old one; when the new id belongs to another live session of the peer, that
session is replaced and closed — `SessionHub.set`) and read the peer (`Ev.peek`), any number of
times, before and after `RecvOnce`, whatever verdict follows. The hub is part of the state, keyed by
id (`Lifecycle.AL`, the association list of Model/Lifecycle): owner 0 = this connection, owner
`o + 1` = the other live session `o` of the same peer. `sessHub.delete(s.ID(), s)` of `closeLocked`
/ `readDisconnected` / the listener's failed compare-and-swap removes the entry under the CURRENT
id if it maps to this connection (`AL.delIf`).

Assumption (scope): while the accept hooks run nobody else closes the session (it is reachable
through the hub once the checker renamed it; closing a session whose hooks still run is covered by
the lifecycle model of C07, `hookClose`): `Ev.appClose` needs `authPassed`.

`step : St → Ev → Option St` is executable; `Reach` is its reflexive-transitive closure.  The
deterministic scheduler `runCase` (used by the driver and compared with the real code) only ever
applies `step`, so every state it visits is `Reach`able (`Lemmas/Auth.run_reach`).
-/
namespace Teleport
namespace Auth
open Lifecycle (AL)

/-- the peer's session hub: id ↦ owner (0 = this connection, `o + 1` = other live session `o`). -/
abbrev Hub := AL Nat

/-- message type classes the gate and the read loop distinguish (`message.go` Type*). -/
inductive FKind | authCall | call | push | reply | authReply | other
  deriving DecidableEq, Repr

/-- a complete, well-formed frame as far as this property looks at it. -/
structure Frame where
  kind  : FKind
  /-- status code carried by the frame -/
  code  : Int := 0
  /-- CALL/PUSH: 0 if the route lookup finds a handler, else what `bindCall/bindPush` set
      (404 not found, 400 empty service method) -/
  hcode : Int := 0
  seq   : Int := 0
  deriving DecidableEq, Repr

/-- the frame's own status field is OK (`Message.StatusOK`). -/
def Frame.stOk (f : Frame) : Bool := f.code == 0

/-- one unit of client traffic. -/
inductive Item
  | frame (f : Frame)
  /-- bytes on which `ReadMessage` fails: an error (`code = 102`) or a recovered panic (400) -/
  | bad (code : Int)
  deriving DecidableEq, Repr

/-- `session.go` status constants that a server-side session can take. -/
inductive SStat | preparing | ok | activeClosing | activeClosed | passiveClosing | passiveClosed
  deriving DecidableEq, Repr

/-- what one `RecvOnce` call returned to the checker function. -/
inductive RecvRes | ok | err (code : Int) | multi
  deriving DecidableEq, Repr

/-- what the checker function returns (`multi` = the very `MultiRecvErr` value). -/
inductive Verdict | accept | reject (code : Int) | multi | panic   -- panic: the checker function panics (recovered by the PostAccept stage runner: 500, no AUTH_REPLY)
  deriving DecidableEq, Repr

/-- program counter of the accepting goroutine (`ServeConn` / the goroutine of `serveListener`). -/
inductive APc
  | checker                 -- inside `checkerFunc`
  | reply (v : Verdict)     -- checker returned, `PreSend(AUTH_REPLY)` next
  | decided (st : Int)      -- `postAccept` returned status code `st` (0 = OK)
  | rejClosing (st : Int)   -- inside `sess.Close()` of the reject branch
  | okSet                   -- ServeConn: after `changeStatus(statusOk)`
  | okSpawned               -- ServeConn: after `AnywayGo(startReadAndHandle)`
  | lisHub                  -- listener: after `sessHub.set`
  | lisSet                  -- listener: after `tryChangeStatus(statusOk, statusPreparing)` succeeded
  | done (st : Int)         -- returned with status code `st`
  deriving DecidableEq, Repr

/-- stages of `closeLocked` after its CAS. -/
inductive CPc | hubdel | notify | waitCtx | setClosed | sockClose | hook
  deriving DecidableEq, Repr

/-- reader goroutine: loop top, blocked in `ReadMessage`, stages of `readDisconnected`. -/
inductive RPc
  | top | read | dLoad | dHub (wasActive : Bool) | dWait (wasActive : Bool) | dSock | dSet | dHook
  | exited
  deriving DecidableEq, Repr

/-- handler goroutine of one frame: before the handler body / before writing the reply. -/
inductive HPc | start | reply (code : Int)
  deriving DecidableEq, Repr

structure H where
  f  : Frame
  pc : HPc
  deriving DecidableEq, Repr

/-- frames the server writes. -/
inductive OutF | authReply (code : Int) | reply (seq : Int) (code : Int)
  deriving DecidableEq, Repr

structure St where
  /-- listener path (`serveListener`) instead of `ServeConn` -/
  lis          : Bool := false
  /-- the checker function accepts only after exactly one OK `RecvOnce` -/
  strict       : Bool := true
  status       : SStat := .preparing
  acc          : APc := .checker
  /-- the `called` once-flag of `PostAccept` -/
  called       : Bool := false
  /-- number of `PreReceive` executions of the exchange -/
  exch         : Nat := 0
  recvLog      : List RecvRes := []
  /-- the accept-hook chain returned OK -/
  authPassed   : Bool := false
  /-- `socket.ID()`; 0 = the default id (the remote address) -/
  sid          : Nat := 0
  /-- every id the connection has had, oldest first -/
  ids          : List Nat := [0]
  /-- the peer's session hub -/
  hub          : Hub := []
  /-- other sessions of the peer closed by this connection's `hub.set` (`oldSess.Close()`) -/
  kicked       : List Nat := []
  /-- session operations (`SetID`, reads) the checker function has performed -/
  nops         : Nat := 0
  /-- the checker function called `SetID` with an id different from the current one -/
  renamed      : Bool := false
  /-- what the checker's reads returned: `GetSession(current id)` is this session?, `CountSession()` -/
  peeks        : List (Bool × Nat) := []
  sockClosed   : Bool := false
  /-- everything the client has sent so far, in order -/
  arrived      : List Item := []
  /-- arrived and not yet read by the server -/
  pending      : List Item := []
  /-- consumed by `PreReceive` -/
  preRead      : List Item := []
  /-- consumed by the read loop -/
  loopRead     : List Item := []
  cut          : Bool := false
  rd           : Option RPc := none
  hs           : List H := []
  /-- holder of `session.lock` inside `closeLocked` -/
  closer       : Option CPc := none
  /-- `go sess.Close()` goroutines not yet started -/
  wantClose    : Nat := 0
  /-- call / push / unknown handlers run -/
  handlerCount : Nat := 0
  /-- per-message hook stages run, except `PreReadHeader` -/
  hookCount    : Nat := 0
  /-- `PreReadHeader` runs -/
  prhCount     : Nat := 0
  /-- `PostDisconnect` runs (connection-level hook, not a message hook) -/
  discHook     : Nat := 0
  out          : List OutF := []
  deriving Repr

/-- some hub entry — under whatever id — refers to this connection (`GetSession` / `RangeSession` /
    `CountSession` would show it). -/
def St.inHub (s : St) : Bool := s.hub.any fun kv => kv.2 == 0

/-- `SessionHub.set(sess)`: LoadOrStore + Store under the current id; a different session found
    there is closed (`oldSess.Close()`; its own `delete(id, oldSess)` finds this connection and
    leaves the entry alone). -/
def hubSet (s : St) : St :=
  match s.hub.get s.sid with
  | some (o + 1) => { s with hub := s.hub.put s.sid 0, kicked := s.kicked ++ [o] }
  | _ => { s with hub := s.hub.put s.sid 0 }

/-- `sessHub.delete(s.ID(), s)`. -/
def hubDel (s : St) : St := { s with hub := s.hub.delIf s.sid 0 }

/-- all per-message hook stage executions. -/
def St.messageHookCount (s : St) : Nat := s.hookCount + s.prhCount

inductive Ev
  | arrive (i : Item)            -- environment: one more unit of client traffic has fully arrived
  | cut                          -- environment: client closes / connection is cut
  | recvOnce (timeout : Bool)    -- checker calls `RecvOnce`
  | setId (v : Nat)              -- checker calls `sess.SetID(v)`
  | peek                         -- checker reads the peer / the session (`Peer().GetSession`, `CountSession`, addresses, `Swap`)
  | ckReturn (v : Verdict)       -- checker returns
  | sendReply (wcode : Int)      -- `PreSend(AUTH_REPLY)`; `wcode` = 0 or the write failure code
  | branch                       -- `if stat := postAccept(sess); !stat.OK()`
  | accStep                      -- next statement of the accepting goroutine after the branch
  | appClose                     -- application calls `Session.Close()` on a session it can reach
  | goClose                      -- a spawned `go sess.Close()` starts
  | closeStep                    -- next stage of `closeLocked`
  | rdTop                        -- reader: loop condition + `preReadHeader`
  | rdRead (timeout : Bool)      -- reader: `ReadMessage` (+ synchronous binding) + spawn
  | rdDisc                       -- reader: next stage of `readDisconnected`
  | hRun (i : Nat)               -- handler goroutine `i`: body
  | hReply (i : Nat)             -- handler goroutine `i`: write the reply
  deriving Repr

def goon (st : SStat) : Bool := st == .ok || st == .activeClosing

/-- `closeLocked` up to and including its CAS (caller holds `lock`, i.e. `closer = none`). -/
def startClose (s : St) : St :=
  if s.status == .ok || s.status == .preparing then
    { s with status := .activeClosing, closer := some .hubdel }
  else s

/-- result of `RecvOnce`'s checks on a successfully read frame (`PostAccept` closure). -/
def recvCheck (f : Frame) : RecvRes :=
  if !f.stOk then .err f.code
  else if f.kind != .authCall then .err 401
  else .ok

/-- hooks run synchronously by `binding` while the frame is read. -/
def bindHooks (f : Frame) : Nat :=
  match f.kind with
  | .call | .push => if f.hcode == 0 then 2 else 1   -- postRead*Header (+ preRead*Body)
  | _ => 0                                            -- REPLY without a pending call, other types

def verdictCode : Verdict → Int
  | .accept => 0
  | .reject c => c
  | .multi => 500
  | .panic => 500

def evRecvOnce (s : St) (timeout : Bool) : Option St :=
  if s.acc != .checker then none else
  if s.called then some { s with recvLog := s.recvLog ++ [.multi] } else
  -- once-flag set, `PreReceive` entered
  if s.status != .preparing then
    some { s with called := true, exch := s.exch + 1, recvLog := s.recvLog ++ [.err 1] } else
  if timeout then
    some { s with called := true, exch := s.exch + 1, recvLog := s.recvLog ++ [.err 102] } else
  match s.pending with
  | [] =>
    if s.cut then
      some { s with called := true, exch := s.exch + 1, recvLog := s.recvLog ++ [.err 102] }
    else none
  | .bad c :: r =>
    some { s with called := true, exch := s.exch + 1, pending := r, preRead := s.preRead ++ [.bad c],
                  recvLog := s.recvLog ++ [.err c] }
  | .frame f :: r =>
    some { s with called := true, exch := s.exch + 1, pending := r, preRead := s.preRead ++ [.frame f],
                  recvLog := s.recvLog ++ [recvCheck f] }

/-- `session.SetID(newID)` called by the checker function: same id: nothing; else `socket.SetID`,
    and for a session in Preparing / Ok `hub.set(s)` then `hub.delete(oldID, s)` (the second status
    check cannot fire: nobody closes the session while its hooks run). -/
def evSetId (s : St) (v : Nat) : Option St :=
  if s.acc != .checker then none else
  if v == s.sid then some { s with nops := s.nops + 1 } else
  let s1 : St := { s with sid := v, ids := s.ids ++ [v], nops := s.nops + 1, renamed := true }
  if s.status == .preparing || s.status == .ok then
    let s2 := hubSet s1
    some { s2 with hub := s2.hub.delIf s.sid 0 }
  else some s1

def evPeek (s : St) : Option St :=
  if s.acc != .checker then none else
  some { s with nops := s.nops + 1, peeks := s.peeks ++ [(s.hub.get s.sid == some 0, s.hub.length)] }

def evCkReturn (s : St) (v : Verdict) : Option St :=
  if s.acc != .checker then none else
  if s.strict && verdictCode v == 0 && s.recvLog != [.ok] then none else
  some { s with acc := .reply v }

def evSendReply (s : St) (wcode : Int) : Option St :=
  match s.acc with
  | .reply v =>
    -- `PreSend` refuses outside `statusPreparing`
    let w : Int := if s.status != .preparing then 1 else wcode
    if v == .panic then some { s with acc := .decided 500 } else   -- no PreSend is reached
    let st : Int := if v == .multi then 500 else if w != 0 then w else verdictCode v
    some { s with acc := .decided st,
                  out := if w == 0 then s.out ++ [.authReply (verdictCode v)] else s.out }
  | _ => none

def evBranch (s : St) : Option St :=
  match s.acc with
  | .decided st =>
    if st != 0 then
      if s.closer.isSome then none else some { startClose s with acc := .rejClosing st }
    else if s.lis then some (hubSet { s with authPassed := true, acc := .lisHub })
    else some { s with authPassed := true, status := .ok, acc := .okSet }
  | _ => none

def evAccStep (s : St) : Option St :=
  match s.acc with
  | .okSet => some { s with rd := some .top, acc := .okSpawned }
  | .okSpawned => some (hubSet { s with acc := .done 0 })
  | .lisHub =>
    -- `if !sess.tryChangeStatus(statusOk, statusPreparing) { p.sessHub.delete(sess.ID(), sess); return }`
    if s.status = .preparing then some { s with status := .ok, acc := .lisSet }
    else some (hubDel { s with acc := .done 0 })
  | .lisSet => some { s with rd := some .top, acc := .done 0 }
  | .rejClosing st => if s.closer.isSome then none else some { s with acc := .done st }
  | _ => none

def evAppClose (s : St) : Option St :=
  if s.closer.isSome then none else
  if s.authPassed && (s.inHub || s.acc == .done 0) then some (startClose s) else none

def evGoClose (s : St) : Option St :=
  if s.closer.isSome || s.wantClose == 0 then none else
  some (startClose { s with wantClose := s.wantClose - 1 })

def evCloseStep (s : St) : Option St :=
  match s.closer with
  | none => none
  | some .hubdel => some (hubDel { s with closer := some .notify })
  | some .notify => some { s with closer := some .waitCtx }
  | some .waitCtx => if s.hs.isEmpty then some { s with closer := some .setClosed } else none
  | some .setClosed => some { s with status := .activeClosed, closer := some .sockClose }
  | some .sockClose => some { s with sockClosed := true, closer := some .hook }
  | some .hook => some { s with discHook := s.discHook + 1, closer := none }

def evRdTop (s : St) : Option St :=
  match s.rd with
  | some .top =>
    if goon s.status then some { s with prhCount := s.prhCount + 1, rd := some .read }
    else some { s with rd := some .dLoad }
  | _ => none

def evRdRead (s : St) (timeout : Bool) : Option St :=
  match s.rd with
  | some .read =>
    if s.sockClosed || timeout then some { s with rd := some .dLoad } else
    match s.pending with
    | [] => if s.cut then some { s with rd := some .dLoad } else none
    | .bad c :: r => some { s with pending := r, loopRead := s.loopRead ++ [.bad c], rd := some .dLoad }
    | .frame f :: r =>
      let hk := s.hookCount + bindHooks f
      let s : St := { s with pending := r, loopRead := s.loopRead ++ [Item.frame f], hookCount := hk }
      if goon s.status then some { s with hs := s.hs ++ [⟨f, .start⟩], rd := some .top }
      else some { s with rd := some .dLoad }
  | _ => none

def evRdDisc (s : St) : Option St :=
  match s.rd with
  | some .dLoad =>
    match s.status with
    | .passiveClosed | .activeClosed | .passiveClosing => some { s with rd := some .exited }
    | .activeClosing => some { s with rd := some (.dHub true) }
    | _ => some { s with status := .passiveClosing, rd := some (.dHub false) }
  | some (.dHub a) => some (hubDel { s with rd := some (.dWait a) })
  | some (.dWait a) =>
    if s.hs.isEmpty then some { s with rd := some (if a then .exited else .dSock) } else none
  | some .dSock => some { s with sockClosed := true, rd := some .dSet }
  | some .dSet => some { s with status := .passiveClosed, rd := some .dHook }
  | some .dHook => some { s with discHook := s.discHook + 1, rd := some .exited }
  | _ => none

def evHRun (s : St) (i : Nat) : Option St :=
  match s.hs[i]? with
  | some ⟨f, .start⟩ =>
    match f.kind with
    | .call =>
      -- postReadCallBody + handler if bound; then preWriteReply
      let s1 := if f.hcode == 0 then
          { s with hookCount := s.hookCount + 2, handlerCount := s.handlerCount + 1 }
        else { s with hookCount := s.hookCount + 1 }
      some { s1 with hs := s1.hs.set i ⟨f, .reply f.hcode⟩ }
    | .push =>
      let s1 := if f.hcode == 0 then
          { s with hookCount := s.hookCount + 1, handlerCount := s.handlerCount + 1 }
        else s
      some { s1 with hs := s1.hs.eraseIdx i }
    | .reply => some { s with hs := s.hs.eraseIdx i }
    | _ => some { s with wantClose := s.wantClose + 1, hs := s.hs.eraseIdx i }
  | _ => none

def evHReply (s : St) (i : Nat) : Option St :=
  match s.hs[i]? with
  | some ⟨f, .reply c⟩ =>
    -- `session.write`: only in Ok, or ActiveClosing for a REPLY; then postWriteReply
    if s.status == .ok || s.status == .activeClosing then
      some { s with out := s.out ++ [.reply f.seq c], hookCount := s.hookCount + 1,
                    hs := s.hs.eraseIdx i }
    else some { s with hs := s.hs.eraseIdx i }
  | _ => none

def step (s : St) : Ev → Option St
  | .arrive i => if s.cut then none else
      some { s with arrived := s.arrived ++ [i], pending := s.pending ++ [i] }
  | .cut => some { s with cut := true }
  | .recvOnce t => evRecvOnce s t
  | .setId v => evSetId s v
  | .peek => evPeek s
  | .ckReturn v => evCkReturn s v
  | .sendReply w => evSendReply s w
  | .branch => evBranch s
  | .accStep => evAccStep s
  | .appClose => evAppClose s
  | .goClose => evGoClose s
  | .closeStep => evCloseStep s
  | .rdTop => evRdTop s
  | .rdRead t => evRdRead s t
  | .rdDisc => evRdDisc s
  | .hRun i => evHRun s i
  | .hReply i => evHReply s i

inductive Reach (s0 : St) : St → Prop
  | refl : Reach s0 s0
  | step {s t : St} (e : Ev) : Reach s0 s → step s e = some t → Reach s0 t

/-- the hub of a peer whose other live sessions `o, o + 1, …` are listed under the given ids
    (a later session with the same id has taken the place of the earlier one). -/
def hubOf : List Nat → Nat → Hub → Hub
  | [], _, h => h
  | id :: r, o, h => hubOf r (o + 1) (h.put id (o + 1))

/-- a freshly accepted connection on a peer whose other live sessions `0, 1, …` have the ids
    `others` (this connection's default id is 0). -/
def init (lis strict : Bool) (others : List Nat := []) : St :=
  { lis := lis, strict := strict, hub := hubOf others 0 [] }

/-! ## deterministic scheduler (what the driver runs and the harness compares with the real code) -/

/-- scripted checker function of the harness: calls `RecvOnce` `nrecv` times; `propagate`: returns
    the first non-OK `RecvOnce` status if there is one; otherwise its verdict. -/
inductive CkOp | setId (v : Nat) | peek
  deriving DecidableEq, Repr

def CkOp.ev : CkOp → Ev
  | .setId v => .setId v
  | .peek => .peek

/-- `pre`: session operations before the first `RecvOnce`; `post`: after the last one (whatever the
    `RecvOnce` calls returned), before the verdict. -/
structure Script where
  nrecv     : Nat := 1
  propagate : Bool := true
  verdict   : Verdict := .accept
  pre       : List CkOp := []
  post      : List CkOp := []
  deriving Repr

def Script.result (k : Script) (log : List RecvRes) : Verdict :=
  if k.propagate then
    match log.find? (· != .ok) with
    | some (.err c) => .reject c
    | some .multi => .multi
    | _ => k.verdict
  else k.verdict

/-- what the client does once everything it sends has been written and nothing more happens:
    `close` = closes its end (server reads EOF, server writes still succeed), `silent` = keeps the
    connection open and idle (server deadlines fire), `brk` = connection cut (server writes fail). -/
inductive EndKind | close | silent | brk
  deriving DecidableEq, Repr

structure Case where
  lis    : Bool := false
  /-- ids of the other live sessions of the peer -/
  others : List Nat := []
  script : Script := {}
  items  : List Item := []
  /-- client ends (per `fin`) right after writing, without waiting for anything -/
  early  : Bool := false
  fin    : EndKind := .close
  deriving Repr

/-- first event of the list that is enabled. -/
def firstEnabled (s : St) : List Ev → Option (Ev × St)
  | [] => none
  | e :: r =>
    match step s e with
    | some t => some (e, t)
    | none => firstEnabled s r

/-- first enabled event in a fixed priority order: accept thread, handlers, closers, reader. -/
def pickEv (k : Script) (brk : Bool) (s : St) : Option (Ev × St) :=
  let accEv : Ev := match s.acc with
    | .checker =>
      match k.pre[s.nops]? with
      | some o => o.ev
      | none =>
        if s.recvLog.length < k.nrecv then .recvOnce false else
        match k.post[s.nops - k.pre.length]? with
        | some o => o.ev
        | none => .ckReturn (k.result s.recvLog)
    | .reply _ => .sendReply (if brk then 104 else 0)
    | .decided _ => .branch
    | _ => .accStep
  firstEnabled s [accEv, .hRun 0, .hReply 0, .closeStep, .goClose, .rdDisc, .rdTop, .rdRead false]

/-- run until nothing is enabled (or fuel ends). -/
def runQ (k : Script) (brk : Bool) : Nat → St → St
  | 0, s => s
  | n + 1, s =>
    match pickEv k brk s with
    | none => s
    | some (_, t) => runQ k brk n t

/-- the event with which the client's end-of-traffic behaviour wakes a blocked server. -/
def wakeEv (fin : EndKind) (s : St) : Option Ev :=
  match fin with
  | .silent =>
    if s.acc == .checker then some (.recvOnce true)
    else if s.rd == some .read then some (.rdRead true) else none
  | _ => if s.cut then none else some .cut

def applyEvs (s : St) : List Ev → St
  | [] => s
  | e :: r => match step s e with
    | some t => applyEvs t r
    | none => applyEvs s r

def fuelOf (c : Case) : Nat :=
  64 + 16 * c.items.length + 4 * c.script.nrecv + 2 * (c.script.pre.length + c.script.post.length)

/-- all the client's traffic is written first (arrival time does not matter, see
    `C16_no_handler_before_auth`), the server runs to quiescence, then the client's end-of-traffic
    behaviour happens (for `early` cases before the server runs) and the server runs to quiescence
    again; a `silent` client is woken a second time (read-loop deadline after the auth deadline). -/
def runCase (c : Case) : St :=
  let brk := c.fin == .brk
  let s0 := applyEvs (init c.lis (c.script.propagate && c.script.nrecv != 0) c.others) (c.items.map .arrive)
  let s0 := if c.early && c.fin != .silent then applyEvs s0 [.cut] else s0
  let s1 := runQ c.script brk (fuelOf c) s0
  let wake (s : St) : St :=
    match wakeEv c.fin s with
    | none => s
    | some e => runQ c.script brk (fuelOf c) (applyEvs s [e])
  wake (wake s1)

/-! ## bearer side: `authBearerPlugin.PostDial` inside `peer.Dial` (no redial) -/

/-- what the bearer's `PreReceive` got after its AUTH_CALL was sent. -/
inductive BRecv
  | frame (f : Frame)
  | fail (code : Int)     -- read error / timeout / panic
  deriving DecidableEq, Repr

/-- `SendOnce` closure of `PostDial`: `called` flag, `PreSend`, `PreReceive`, checks.
    Returns the new flag and the status code handed to the bearer function (0 = nil). -/
def sendOnce (called : Bool) (wcode : Int) (r : BRecv) : Bool × Int :=
  if called then (true, 104) else        -- MultiSendErr (CodeWriteFailed)
  if wcode != 0 then (true, wcode) else
  match r with
  | .fail c => (true, c)
  | .frame f =>
    if !f.stOk then (true, f.code)
    else if f.kind != .authReply then (true, 401)
    else (true, 0)

structure DialOut where
  /-- `Dial` returned a session -/
  established : Bool
  code        : Int       -- status code `Dial` returns
  status      : SStat     -- status of the session object
  inHub       : Bool
  readerStarted : Bool
  connClosed  : Bool      -- the dialer closed the connection
  deriving DecidableEq, Repr

/-- `peer.Dial` with a bearer function that calls `SendOnce` once and returns what it got
    (`hookCode` = status code `postDial` returns). -/
def dial (hookCode : Int) : DialOut :=
  if hookCode != 0 then
    -- `conn.Close(); return stat.Cause()` → `dialWithRetry` fails → `statDialFailed`
    { established := false, code := 105, status := .preparing, inHub := false,
      readerStarted := false, connClosed := true }
  else
    { established := true, code := 0, status := .ok, inHub := true,
      readerStarted := true, connClosed := false }

end Auth
end Teleport
