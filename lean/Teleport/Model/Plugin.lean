/-
Model/Plugin — the plugin containers and the per-message hook stages of teleport, as coded.

Go ↔ Lean
  plugin.go  PluginContainer{left,middle,right,embedded all-list,refreshTree}  ↔ `Peer.left/right`, `Cont`
             newPluginContainer / cloneAndAppendMiddle                         ↔ `Peer.new` / `clone`
               (the clone's `middle` is a fresh slice: copy of the parent's, then its own plugins —
                no container shares a backing array with another, so plain lists model the slices)
             refresh (unique-name check, Fatalf = os.Exit)                      ↔ `refresh` (`none` = process exit)
             refreshTree (own refresh, then the refreshTree of every container cloned from it)
                                                                               ↔ `refreshTree` (the whole tree)
             AppendLeft / AppendRight / Remove                                  ↔ `appendLeft` / `appendRight` / `remove`
             every per-message stage function                                  ↔ `runStage`
  router.go  SubRoute / Route*Func / SetUnknownCall / SetUnknownPush, getCall / getPush
                                                                                ↔ `Op`, `apply`, `getCall`, `getPush`
  session.go AsyncCall / Push / startReadAndHandle stage calls                  ↔ `callerWrite`, `pusher`, first step of `calleeSteps`/`pusheeSteps`/`callerRead`
  context.go binding / bindCall / bindPush / bindReply / handleCall / handlePush / handleReply
                                                                                ↔ `callee`, `pushee`, `callerRead`

Only the root container is reachable through the public API (`Peer.PluginContainer()`), so
`AppendLeft/AppendRight/Remove` exist for the root only. `left` and `right` are *shared pointers*:
every clone copies the parent's `left`/`right` pointer, so one value per peer models them.
The per-container list the stage functions iterate (`all`) is a *copy* made by `refresh`.
Core Lean only (linked into the driver).
-/
namespace Teleport
namespace Plug

/-- the per-message plugin stages, in the order of the interface declarations of plugin.go. -/
inductive Stage
  | preWriteCall | postWriteCall | preWriteReply | postWriteReply | preWritePush | postWritePush
  | preReadHeader | postReadCallHeader | preReadCallBody | postReadCallBody
  | postReadPushHeader | preReadPushBody | postReadPushBody
  | postReadReplyHeader | preReadReplyBody | postReadReplyBody
deriving DecidableEq, Repr, Inhabited

namespace Stage

/-- declaration index (bit number in a plugin's mask; stage number in case lines). -/
def idx : Stage → Nat
  | preWriteCall => 0 | postWriteCall => 1 | preWriteReply => 2 | postWriteReply => 3
  | preWritePush => 4 | postWritePush => 5 | preReadHeader => 6 | postReadCallHeader => 7
  | preReadCallBody => 8 | postReadCallBody => 9 | postReadPushHeader => 10 | preReadPushBody => 11
  | postReadPushBody => 12 | postReadReplyHeader => 13 | preReadReplyBody => 14 | postReadReplyBody => 15

def all : List Stage :=
  [preWriteCall, postWriteCall, preWriteReply, postWriteReply, preWritePush, postWritePush,
   preReadHeader, postReadCallHeader, preReadCallBody, postReadCallBody,
   postReadPushHeader, preReadPushBody, postReadPushBody,
   postReadReplyHeader, preReadReplyBody, postReadReplyBody]

def ofIdx (n : Nat) : Option Stage := all[n]?

/-- documented order of the stages along one exchange (doc comments of the plugin interfaces:
    "before writing CALL", "after successful writing CALL", "before reading message header",
    "after reading CALL header", "before/after reading CALL body", "before/after writing REPLY",
    "after reading REPLY header", "before/after reading REPLY body"; the PUSH stages likewise). -/
def rank : Stage → Nat
  | preWriteCall => 0 | postWriteCall => 1
  | preWritePush => 0 | postWritePush => 1
  | preReadHeader => 2
  | postReadCallHeader => 3 | preReadCallBody => 4 | postReadCallBody => 5
  | postReadPushHeader => 3 | preReadPushBody => 4 | postReadPushBody => 5
  | preWriteReply => 6 | postWriteReply => 7
  | postReadReplyHeader => 8 | preReadReplyBody => 9 | postReadReplyBody => 10

end Stage

/-- a plugin object: its `Name()` and the set of stage interfaces its Go type implements
    (bit `s.idx` of `mask`; the framework decides by interface assertion in each stage function). -/
structure Plugin where
  name : Nat
  mask : Nat
deriving DecidableEq, Repr, Inhabited

def Plugin.impl (p : Plugin) (s : Stage) : Bool := p.mask.testBit s.idx

/-- verdict of the plugin called `name` at a stage: the status code it returns; 0 = OK (nil). -/
abbrev Verd := Nat → Stage → Int

/-- one hook invocation: (plugin name, stage). -/
abbrev Firing := Nat × Stage

/-- A stage function of plugin.go (`preWriteCall` … `postReadReplyBody`): iterate the list in
    order, call the plugins that implement the stage, stop at the first non-OK and return it;
    `0` = the final `return nil`. First component: the hooks that were invoked, in order. -/
def runStage (V : Verd) (s : Stage) : List Plugin → List Firing × Int
  | [] => ([], 0)
  | p :: ps =>
    if p.impl s then
      if V p.name s = 0 then ((p.name, s) :: (runStage V s ps).1, (runStage V s ps).2)
      else ([(p.name, s)], V p.name s)
    else runStage V s ps

/-! ### containers -/

/-- one `*PluginContainer`. Every container other than the global one (index 0) is cloned,
    directly or through other clones, from the global one, so the root's `refreshTree` reaches it.
    `middle.plugins` is a Go slice with its own backing array (`cloneAndAppendMiddle` allocates it),
    so its content is only ever what was put there at creation. -/
structure Cont where
  chain  : List Plugin      -- ghost: the plugins registered along the route (parent's chain ++ own)
  middle : List Plugin      -- `middle.plugins`
  all    : List Plugin      -- embedded `pluginSingleContainer.plugins`: what the stages iterate
deriving DecidableEq, Repr, Inhabited

structure Peer where
  left    : List Plugin            -- the one shared `left` single container
  right   : List Plugin            -- the one shared `right` single container
  conts   : List Cont              -- every container created so far; index 0 = global
  groups  : List Nat               -- routers: group number ↦ container index; group 0 = root router
  calls   : List (Nat × Nat)       -- `callHandlers`: route id ↦ handler container index
  pushes  : List (Nat × Nat)       -- `pushHandlers`
  unkCall : Option Nat             -- unknown-call handler's container
  unkPush : Option Nat
deriving DecidableEq, Repr, Inhabited

/-- `NewPeer` before its `AppendLeft(globalLeftPlugin...)`: `newPluginContainer()` + `newRouter`. -/
def Peer.new : Peer :=
  { left := [], right := [], conts := [{ chain := [], middle := [], all := [] }], groups := [0],
    calls := [], pushes := [], unkCall := none, unkPush := none }

/-- the `m[plugin.Name()]` scan of `refresh`: no name occurs twice. -/
def dupFree : List Nat → Bool
  | [] => true
  | n :: ns => !ns.contains n && dupFree ns

def names (l : List Plugin) : List Nat := l.map (·.name)

/-- `(*PluginContainer).refresh`: `none` = `Fatalf("repeat add plugin")` = `os.Exit(1)`. -/
def refresh (l r : List Plugin) (c : Cont) : Option Cont :=
  let a := l ++ c.middle ++ r
  if dupFree (names a) then some { c with all := a } else none

/-- the root's `refreshTree`: the root's own `refresh`, then the `refreshTree` of every container
    cloned from it, each of which does the same for its own clones — so every container of the
    peer is refreshed (depth first; the order only decides which duplicate name `Fatalf` reports). -/
def refreshConts (l r : List Plugin) : List Cont → Option (List Cont)
  | [] => some []
  | c :: cs =>
    match refresh l r c, refreshConts l r cs with
    | some c', some cs' => some (c' :: cs')
    | _, _ => none

def refreshTree (P : Peer) : Option Peer :=
  (refreshConts P.left P.right P.conts).map (fun cs => { P with conts := cs })

def contAt (P : Peer) (i : Nat) : Cont :=
  P.conts.getD i { chain := [], middle := [], all := [] }

/-- `cloneAndAppendMiddle` on container `i`: new container (index = old `conts.length`) whose
    `middle` is a freshly allocated slice holding the parent's `middle` followed by `ps`, sharing
    `left`/`right`, refreshed once at creation. No existing container is touched. -/
def clone (P : Peer) (i : Nat) (ps : List Plugin) : Option (Peer × Nat) :=
  let par := contAt P i
  match refresh P.left P.right
      { chain := par.chain ++ ps, middle := par.middle ++ ps, all := [] } with
  | some c => some ({ P with conts := P.conts ++ [c] }, P.conts.length)
  | none => none

/-- `pluginSingleContainer.remove`: delete the first plugin with that name (error if absent). -/
def eraseName (n : Nat) : List Plugin → List Plugin
  | [] => []
  | p :: ps => if p.name = n then ps else p :: eraseName n ps

/-- registration-time operations of the public API. -/
inductive Op
  | subRoute (parent : Nat) (ps : List Plugin)       -- `(*SubRouter).SubRoute(prefix, ps...)` on group `parent`
  | routeCall (group : Nat) (id : Nat) (ps : List Plugin)   -- `RouteCallFunc(f_id, ps...)` on group
  | routePush (group : Nat) (id : Nat) (ps : List Plugin)   -- `RoutePushFunc(f_id, ps...)`
  | unknownCall (ps : List Plugin)                   -- `peer.SetUnknownCall(fn, ps...)`
  | unknownPush (ps : List Plugin)                   -- `peer.SetUnknownPush(fn, ps...)`
  | appendLeft (ps : List Plugin)                    -- `peer.PluginContainer().AppendLeft(ps...)`
  | appendRight (ps : List Plugin)                   -- `peer.PluginContainer().AppendRight(ps...)`
  | remove (name : Nat)                              -- `peer.PluginContainer().Remove(name)`
deriving Repr, Inhabited

/-- operations on the global container (as opposed to registering groups / handlers). -/
def Op.isGlobal : Op → Bool
  | .appendLeft _ | .appendRight _ | .remove _ => true
  | _ => false

def groupCont (P : Peer) (g : Nat) : Nat := P.groups.getD g 0

/-- one operation; `none` = the process exits (`Fatalf`: duplicate plugin name in a refreshed
    chain, or handler name conflict). -/
def apply (P : Peer) : Op → Option Peer
  | .subRoute g ps =>
    (clone P (groupCont P g) ps).map (fun (P', k) => { P' with groups := P'.groups ++ [k] })
  | .routeCall g id ps =>
    (clone P (groupCont P g) ps).bind (fun (P', k) =>
      if P'.calls.any (·.1 == id) then none else some { P' with calls := P'.calls ++ [(id, k)] })
  | .routePush g id ps =>
    (clone P (groupCont P g) ps).bind (fun (P', k) =>
      if P'.pushes.any (·.1 == id) then none else some { P' with pushes := P'.pushes ++ [(id, k)] })
  | .unknownCall ps => (clone P 0 ps).map (fun (P', k) => { P' with unkCall := some k })
  | .unknownPush ps => (clone P 0 ps).map (fun (P', k) => { P' with unkPush := some k })
  | .appendLeft ps => refreshTree { P with left := ps ++ P.left }
  | .appendRight ps => refreshTree { P with right := P.right ++ ps }
  | .remove n =>
    -- `p.pluginSingleContainer.remove(name)` on the root's all-list: absent ⇒ error, nothing changes
    if (names (contAt P 0).all).contains n then
      refreshTree { P with left := eraseName n P.left, right := eraseName n P.right }
    else some P

def run (P : Peer) : List Op → Option Peer
  | [] => some P
  | o :: os => (apply P o).bind (fun P' => run P' os)

/-- a peer configured by `ops` starting from `NewPeer(cfg)`. -/
def build (ops : List Op) : Option Peer := run Peer.new ops

/-- the list the stage functions iterate for container `i`. -/
def allOf (P : Peer) (i : Nat) : List Plugin := (contAt P i).all
def globalAll (P : Peer) : List Plugin := allOf P 0

def lookup (id : Nat) : List (Nat × Nat) → Option Nat
  | [] => none
  | (k, v) :: r => if k = id then some v else lookup id r

/-- `getCall`: the registered handler, else the unknown-call handler, else none (404). -/
def getCall (P : Peer) (id : Nat) : Option Nat :=
  match lookup id P.calls with
  | some k => some k
  | none => P.unkCall

def getPush (P : Peer) (id : Nat) : Option Nat :=
  match lookup id P.pushes with
  | some k => some k
  | none => P.unkPush

/-! ### one message through the stages -/

/-- consecutive stage calls, each on its own list, up to and including the first one that
    returns non-OK (the `if !stat.OK() { return }` chains of bind*/handle*). -/
def runSteps (V : Verd) : List (Stage × List Plugin) → List Firing × Int
  | [] => ([], 0)
  | (s, C) :: rest =>
    if (runStage V s C).2 ≠ 0 then runStage V s C
    else ((runStage V s C).1 ++ (runSteps V rest).1, (runSteps V rest).2)

/-- stage calls whose verdict is ignored by the call site (each still stops at its own first non-OK). -/
def runAll (V : Verd) : List (Stage × List Plugin) → List Firing
  | [] => []
  | (s, C) :: rest => (runStage V s C).1 ++ runAll V rest

def notFound : Int := 404
def connClosed : Int := 102

/-- the list a stage iterates while a CALL to route `id` is received, up to the handler:
    the global list before the route lookup (`binding`), the handler's after it (`bindCall`:
    "reset plugin container"); nothing more when no handler is bound. -/
def calleeSteps (P : Peer) (id : Nat) : List (Stage × List Plugin) :=
  [(.preReadHeader, globalAll P), (.postReadCallHeader, globalAll P)] ++
  match getCall P id with
  | none => []
  | some h => [(.preReadCallBody, allOf P h), (.postReadCallBody, allOf P h)]

/-- the container whose list serves the body and reply stages of a CALL to `id`
    (the handler's; the global one when no handler was bound). -/
def callCont (P : Peer) (id : Nat) : Nat := (getCall P id).getD 0

/-- the context's current list when the REPLY is written: still the global one if the header
    stage vetoed (or nothing matched), the handler's otherwise. -/
def replyList (P : Peer) (V : Verd) (id : Nat) : List Plugin :=
  if (runSteps V [(.preReadHeader, globalAll P), (.postReadCallHeader, globalAll P)]).2 ≠ 0 then globalAll P
  else allOf P (callCont P id)

def replySteps (C : List Plugin) : List (Stage × List Plugin) := [(.preWriteReply, C), (.postWriteReply, C)]

/-- receiving side of one CALL. `pre`: hooks before the handler (or up to the veto), `invoked`:
    whether the handler ran, `post`: the reply-writing hooks, `reply`: status code written in the
    REPLY (`none` = no reply: the read loop ended, the session disconnects). -/
structure CalleeOut where
  pre     : List Firing
  invoked : Bool
  post    : List Firing
  reply   : Option Int
deriving DecidableEq, Repr

/-- startReadAndHandle → binding/bindCall → handleCall for one CALL to route `id`;
    `hs` = the status code the handler returns when it is invoked. -/
def callee (P : Peer) (V : Verd) (id : Nat) (hs : Int) : CalleeOut :=
  let r := runSteps V (calleeSteps P id)
  if (runStage V .preReadHeader (globalAll P)).2 ≠ 0 then
    { pre := r.1, invoked := false, post := [], reply := none }      -- read loop returns: disconnect
  else
    let post := runAll V (replySteps (replyList P V id))
    if r.2 ≠ 0 then { pre := r.1, invoked := false, post := post, reply := some r.2 }
    else match getCall P id with
      | none => { pre := r.1, invoked := false, post := post, reply := some notFound }
      | some _ => { pre := r.1, invoked := true, post := post, reply := some hs }

/-- all hook firings on the receiving peer for one CALL, in order. -/
def calleeHooks (o : CalleeOut) : List Firing := o.pre ++ o.post

/-- the list each stage of a received CALL iterates (what positions are measured in). -/
def calleeList (P : Peer) (V : Verd) (id : Nat) : Stage → List Plugin
  | .preReadHeader | .postReadCallHeader => globalAll P
  | .preWriteReply | .postWriteReply => replyList P V id
  | _ => allOf P (callCont P id)

/-- receiving side of one PUSH (no reply). -/
structure PusheeOut where
  pre     : List Firing
  invoked : Bool
deriving DecidableEq, Repr

def pusheeSteps (P : Peer) (id : Nat) : List (Stage × List Plugin) :=
  [(.preReadHeader, globalAll P), (.postReadPushHeader, globalAll P)] ++
  match getPush P id with
  | none => []
  | some h => [(.preReadPushBody, allOf P h), (.postReadPushBody, allOf P h)]

def pushCont (P : Peer) (id : Nat) : Nat := (getPush P id).getD 0

def pushee (P : Peer) (V : Verd) (id : Nat) : PusheeOut :=
  let r := runSteps V (pusheeSteps P id)
  { pre := r.1, invoked := r.2 == 0 && (getPush P id).isSome }

def pusheeList (P : Peer) (id : Nat) : Stage → List Plugin
  | .preReadHeader | .postReadPushHeader => globalAll P
  | _ => allOf P (pushCont P id)

/-- calling side, `AsyncCall`: `preWriteCall` veto ⇒ done with that status, nothing written;
    otherwise the frame is written and `postWriteCall` runs (verdict ignored). -/
structure WriteOut where
  fired   : List Firing
  written : Bool
  veto    : Int           -- 0 = none
deriving DecidableEq, Repr

def writeSide (V : Verd) (pre post : Stage) (G : List Plugin) : WriteOut :=
  let r := runStage V pre G
  if r.2 ≠ 0 then { fired := r.1, written := false, veto := r.2 }
  else { fired := r.1 ++ (runStage V post G).1, written := true, veto := 0 }

def callerWrite (P : Peer) (V : Verd) : WriteOut := writeSide V .preWriteCall .postWriteCall (globalAll P)

/-- `Push` on the sending side. -/
def pusher (P : Peer) (V : Verd) : WriteOut := writeSide V .preWritePush .postWritePush (globalAll P)

/-- calling side, reading the REPLY whose status code is `rs`: `hdr` = the `preReadHeader`
    hooks of the read loop, `fired` = bindReply/handleReply hooks, `status` = the call's final status. -/
structure ReadOut where
  hdr    : List Firing
  fired  : List Firing
  status : Int
deriving DecidableEq, Repr

/-- bindReply: postReadReplyHeader, preReadReplyBody; handleReply: postReadReplyBody only when the
    call's status and the REPLY's status are both OK. -/
def replyReadSteps (G : List Plugin) (rs : Int) : List (Stage × List Plugin) :=
  [(.postReadReplyHeader, G), (.preReadReplyBody, G)] ++ (if rs = 0 then [(.postReadReplyBody, G)] else [])

def callerRead (P : Peer) (V : Verd) (rs : Int) : ReadOut :=
  let G := globalAll P
  let r0 := runStage V .preReadHeader G
  if r0.2 ≠ 0 then { hdr := r0.1, fired := [], status := connClosed } else
  let r := runSteps V (replyReadSteps G rs)
  { hdr := r0.1, fired := r.1, status := if r.2 ≠ 0 then r.2 else rs }

/-- one whole CALL exchange between caller peer `A` and callee peer `B`. -/
structure CallOut where
  aw      : List Firing      -- caller: preWriteCall, postWriteCall
  ahdr    : List Firing      -- caller: preReadHeader of its read loop
  ar      : List Firing      -- caller: reply stages
  bpre    : List Firing      -- callee: up to the handler
  invoked : Bool
  bpost   : List Firing      -- callee: reply-writing hooks
  written : Bool             -- CALL frame written
  status  : Option Int       -- caller's final status; `none` = disconnected (102/104)
deriving DecidableEq, Repr

def call (A B : Peer) (VA VB : Verd) (id : Nat) (hs : Int) : CallOut :=
  let w := callerWrite A VA
  let ah := runStage VA .preReadHeader (globalAll A)
  if w.veto ≠ 0 then
    -- nothing is written; the callee only runs the `preReadHeader` of its idle read loop
    { aw := w.fired, ahdr := ah.1, ar := [], bpre := (runStage VB .preReadHeader (globalAll B)).1, invoked := false,
      bpost := [], written := false, status := some w.veto }
  else
    let c := callee B VB id hs
    match c.reply with
    | none => { aw := w.fired, ahdr := ah.1, ar := [], bpre := c.pre, invoked := false, bpost := [], written := true, status := none }
    | some rs =>
      let r := callerRead A VA rs
      { aw := w.fired, ahdr := r.hdr, ar := r.fired, bpre := c.pre, invoked := c.invoked, bpost := c.post, written := true,
        status := if ah.2 ≠ 0 then none else some r.status }

/-- the hook firings of one CALL exchange in causal order (the caller's idle-loop `preReadHeader`
    is concurrent with its own write and is listed separately in `CallOut.ahdr`). -/
def callHooks (o : CallOut) : List Firing := o.aw ++ o.bpre ++ o.bpost ++ o.ar

/-- one PUSH from `A` to `B`. -/
structure PushOut where
  aw      : List Firing
  bpre    : List Firing
  invoked : Bool
  written : Bool
  status  : Int
deriving DecidableEq, Repr

def push (A B : Peer) (VA VB : Verd) (id : Nat) : PushOut :=
  let w := pusher A VA
  if w.veto ≠ 0 then
    { aw := w.fired, bpre := (runStage VB .preReadHeader (globalAll B)).1, invoked := false, written := false, status := w.veto }
  else
    let p := pushee B VB id
    { aw := w.fired, bpre := p.pre, invoked := p.invoked, written := true, status := 0 }

def pushHooks (o : PushOut) : List Firing := o.aw ++ o.bpre

end Plug
end Teleport
