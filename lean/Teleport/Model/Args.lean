/-
Model/Args — the query-string form of `utils.Args` (`utils/args.go`): `AppendBytes/QueryString`
and `ParseBytes` (`argsScanner.next`).  The pooled/stale-buffer aspect is in Model/Pool.
-/
import Teleport.Model.Bytes
namespace Teleport
namespace Args
open Bytes

abbrev KV := Bytes × Bytes

/-- `Args.AppendBytes(nil)` -/
def query : List KV → Bytes
  | [] => []
  | [(k, v)] => quote k ++ (if v.isEmpty then [] else 61 :: quote v)
  | (k, v) :: rest => quote k ++ (if v.isEmpty then [] else 61 :: quote v) ++ 38 :: query rest

/-- split at the first `&` : (segment, rest after the `&` if there was one). -/
def splitAmp : Bytes → Bytes × Option Bytes
  | [] => ([], none)
  | c :: cs => if c == 38 then ([], some cs) else
      let (seg, r) := splitAmp cs; (c :: seg, r)

/-- split a segment at the first `=`. -/
def splitEq : Bytes → Bytes × Option Bytes
  | [] => ([], none)
  | c :: cs => if c == 61 then ([], some cs) else
      let (k, r) := splitEq cs; (c :: k, r)

/-- decode one `key[=value]` segment with hex table `t` (`none` = Go panics in `hexbyte2int`:
    only with goutil's 255-entry table). -/
def decodeSeg (t : HexTab) (seg : Bytes) : Option KV :=
  match splitEq seg with
  | (k, none) => (unquote t true k).map (fun k' => (k', []))
  | (k, some v) => (unquote t true k).bind (fun k' => (unquote t true v).map (fun v' => (k', v')))

/-- one `argsScanner.next` on a non-empty buffer: decoded pair and the remaining buffer. -/
def scanOne (t : HexTab) (b : Bytes) : Option KV × Bytes :=
  ((decodeSeg t (splitAmp b).1), (splitAmp b).2.getD [])

theorem splitAmp_rest_le (l : Bytes) : ((splitAmp l).2.getD []).length ≤ l.length := by
  induction l with
  | nil => simp [splitAmp]
  | cons c cs ih =>
    simp only [splitAmp]
    split
    · simp
    · simp only [List.length_cons]; omega

theorem splitAmp_rest_lt (c : UInt8) (cs : Bytes) :
    ((splitAmp (c :: cs)).2.getD []).length < (c :: cs).length := by
  simp only [splitAmp]
  split
  · simp
  · have := splitAmp_rest_le cs
    simp only [List.length_cons]; omega

/-- all pairs produced by scanning, in order (including empty ones). `none` = panic.
    `t` = the hex table of the scanner's package (`utils`: `.full`; goutil `status`: `.short`). -/
def scanAll (t : HexTab) : Bytes → Option (List KV)
  | [] => some []
  | c :: cs =>
    (scanOne t (c :: cs)).1.bind fun kv => (scanAll t (scanOne t (c :: cs)).2).map (kv :: ·)
termination_by b => b.length
decreasing_by exact splitAmp_rest_lt c cs

/-- `Args.ParseBytes` (`utils/args.go`, 256-entry hex table): pairs with empty key *and* empty value
    are not kept. The result is `some` for every input (`Lemmas/Args.parse_total`); the `Option` is
    kept because the scanner is shared with goutil's status decoder, which can panic. -/
def parse (b : Bytes) : Option (List KV) :=
  (scanAll .full b).map (fun l => l.filter (fun kv => !(kv.1.isEmpty && kv.2.isEmpty)))

end Args
end Teleport
