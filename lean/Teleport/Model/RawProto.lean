/-
Model/RawProto — `socket/protocol.go` (`rawProto.Pack`, `readMessage`, `minus`, `readHeader`,
`readBody`) over the header part of `socket/message.go`.  The body is the already marshalled
byte string (body codecs are Model/Codec).
-/
import Teleport.Model.Status
import Teleport.Model.Xfer
namespace Teleport
open Bytes

structure Msg where
  seq    : Int
  mtype  : UInt8
  method : Bytes
  status : Status
  md     : List Args.KV
  codec  : UInt8
  body   : Bytes
  pipe   : List UInt8
  size   : Nat := 0
deriving DecidableEq, Repr, Inhabited

namespace Raw

inductive PackErr | method | body | xfer | size deriving DecidableEq, Repr

/-- `writeHeader` + `writeBody` (before the transfer pipe). The two length fields are written as
    `uint16(len(..))`, i.e. truncated modulo 65536 exactly like the Go code. -/
def payload (m : Msg) : Bytes :=
  let seqStr := Num.formatInt 34 m.seq
  let st := m.status.encode
  let me := Args.query m.md
  (seqStr.length % 256).toUInt8 :: seqStr
  ++ m.mtype :: (m.method.length % 256).toUInt8 :: m.method
  ++ be16 (st.length % 65536) ++ st
  ++ be16 (me.length % 65536) ++ me
  ++ m.codec :: m.body

/-- `rawProto.Pack`: the bytes handed to the single `Write`, and the size recorded in the message. -/
def pack (reg : Registry) (limit : Nat) (m : Msg) : Except PackErr (Bytes × Nat) :=
  if m.method.length > 255 then .error .method else
  match Xfer.onPack reg m.pipe (payload m) with
  | none => .error .xfer
  | some p =>
    let total := 4 + 1 + m.pipe.length + p.length
    if total % 4294967296 > limit then .error .size
    else .ok (be32 (total % 4294967296) ++ (m.pipe.length % 256).toUInt8 :: m.pipe ++ p, total % 4294967296)

/-- result of reading one frame from a finite input (everything that will ever arrive). -/
inductive Out
  | ok (m : Msg) (rest : Bytes)
  | eof                 -- input exhausted inside a frame (`io.EOF` / `io.ErrUnexpectedEOF`)
  | size                -- announced size above the limit
  | reject (why : String)   -- any other error or a (recovered) panic: no message delivered
deriving Repr

/-- observation record of `readMessage`: outcome, bytes consumed, largest buffer length requested,
    largest length one `io.ReadFull` asked the connection to fill. -/
structure Read where
  out      : Out
  consumed : Nat
  alloc    : Nat
  maxReq   : Nat
deriving Repr

def take? (n : Nat) (l : Bytes) : Option (Bytes × Bytes) :=
  if n ≤ l.length then some (l.take n, l.drop n) else none

def rdByte (tag : String) : Bytes → Except String (UInt8 × Bytes)
  | [] => .error tag
  | a :: d => .ok (a, d)

def rdN (tag : String) (n : Nat) (d : Bytes) : Except String (Bytes × Bytes) :=
  match take? n d with
  | none => .error tag
  | some x => .ok x

def rdU16 (tag : String) : Bytes → Except String (Nat × Bytes)
  | a :: b :: d => .ok (rdBe16 a b, d)
  | _ => .error tag

def ofOpt {α : Type} (tag : String) : Option α → Except String α
  | none => .error tag
  | some x => .ok x

/-- `readHeader` + `readBody` on the un-filtered data. Out-of-range slice expressions are Go panics
    (reported as `reject`); tags name the failing step. -/
def parseData (size : Nat) (pipe : List UInt8) (data : Bytes) : Except String Msg :=
  (rdByte "panic:seqLen" data).bind fun p1 =>
  (rdN "panic:seq" p1.1.toNat p1.2).bind fun p2 =>
  (ofOpt "err:seq" (Num.parseInt32? 36 p2.1)).bind fun seq =>
  (rdByte "panic:mtype" p2.2).bind fun p3 =>
  (rdByte "panic:mlen" p3.2).bind fun p4 =>
  (rdN "panic:method" p4.1.toNat p4.2).bind fun p5 =>
  (rdU16 "panic:slen" p5.2).bind fun p6 =>
  (rdN "panic:status" p6.1 p6.2).bind fun p7 =>
  (ofOpt "panic:statusquote" (Status.decode p7.1)).bind fun st =>
  (rdU16 "panic:metalen" p7.2).bind fun p8 =>
  (rdN "panic:meta" p8.1 p8.2).bind fun p9 =>
  (ofOpt "panic:metaquote" (Args.parse p9.1)).bind fun md =>
  (rdByte "panic:codec" p9.2).bind fun p10 =>
  .ok { seq, mtype := p3.1, method := p5.1, status := st, md, codec := p10.1, body := p10.2, pipe, size }

/-- last stage of `readMessage` + `Unpack`: the pipe is known and `1 + xferLen ≤ last` has been checked
    (`unpackXfer`); read the remaining `last - (1 + xferLen)` bytes, undo the transfer pipe, parse header
    and body. `inpLen` = total input length. The reads so far asked for 4, 1 and `xferLen` bytes. -/
def unpackTail (reg : Registry) (size last alloc xferLen inpLen : Nat) (pipe : List UInt8) (r3 : Bytes) : Read :=
  let req := max (max 4 xferLen) (last - (1 + xferLen))
  match take? (last - (1 + xferLen)) r3 with
  | none => ⟨.eof, inpLen, alloc, req⟩
  | some (raw, rest) =>
    match Xfer.onUnpack reg pipe raw with
    | none => ⟨.reject "err:xfer", 4 + last, alloc, req⟩
    | some data =>
      match parseData size pipe data with
      | .error e => ⟨.reject e, 4 + last, alloc, req⟩
      | .ok m => ⟨.ok m rest, 4 + last, alloc, req⟩

/-- middle stage (`1 ≤ last` has been checked, `minus(lastSize, 1)`): the transfer-pipe length byte,
    `minus(lastSize, xferLen)` — the filter ids must fit into what the frame announced — and only then
    the filter ids. After `ChangeLen(last)` the buffer has length `last ≥ 1 + xferLen`, so neither
    `bb.B[:1]` nor `bb.B[:xferLen]` can be out of range: the capacity of the pooled buffer plays no role. -/
def unpackXfer (reg : Registry) (size last alloc inpLen : Nat) : Bytes → Read
  | [] => ⟨.eof, 4, alloc, 4⟩
  | xl :: r2 =>
    if last - 1 < xl.toNat then ⟨.reject "err:badpackage", 5, alloc, 4⟩ else
    match take? xl.toNat r2 with
    | none => ⟨.eof, inpLen, alloc, max 4 xl.toNat⟩
    | some (ids, r3) =>
      match Xfer.append reg [] ids with
      | none => ⟨.reject "err:filter", 5 + xl.toNat, alloc, max 4 xl.toNat⟩
      | some pipe => unpackTail reg size last alloc xl.toNat inpLen pipe r3

/-- `rawProto.Unpack` on the input `inp` (everything that will ever arrive) with read limit `limit`:
    4 size bytes, `SetSize` (limit), `minus(lastSize, 4)`, `ChangeLen(last)`, `minus(lastSize, 1)`,
    then the stages above. Every check precedes the read it guards. -/
def unpack (reg : Registry) (limit : Nat) (inp : Bytes) : Read :=
  match inp with
  | a :: b :: c :: d :: r1 =>
    let size := rdBe32 a b c d
    if size > limit then ⟨.size, 4, 4, 4⟩ else
    if size < 4 then ⟨.reject "err:badpackage", 4, 4, 4⟩ else
    let last := size - 4
    if last < 1 then ⟨.reject "err:badpackage", 4, max 4 last, 4⟩ else
    unpackXfer reg size last (max 4 last) inp.length r1
  | _ => ⟨.eof, inp.length, 4, 4⟩

end Raw
end Teleport

namespace Teleport
namespace Raw

/-- read exactly `n` back-to-back frames. -/
def unpackN (reg : Registry) (limit : Nat) : Nat → Bytes → Option (List Msg × Bytes)
  | 0, inp => some ([], inp)
  | n + 1, inp =>
    match (unpack reg limit inp).out with
    | .ok m rest => (unpackN reg limit n rest).map (fun r => (m :: r.1, r.2))
    | _ => none

end Raw
end Teleport
