/-
Model/Md5 — the MD5 digest (RFC 1321) as an executable function on byte lists, the hash that
`xfer/md5/md5.go` obtains from `crypto/md5` (`md5.New(); Write(src); Sum(nil)`).
Core Lean only, `UInt32` arithmetic, structural/fuel recursion, tail-recursive over the blocks so
that the compiled driver hashes megabyte inputs.  The harness compares it with `crypto/md5` on the
RFC test vectors and on every generated payload.
-/
import Teleport.Model.Bytes
namespace Teleport
namespace Md5

/-- `K[i] = floor(2^32 * |sin (i+1)|)` -/
def kTab : List UInt32 :=
  [3614090360, 3905402710, 606105819, 3250441966, 4118548399, 1200080426, 2821735955, 4249261313,
   1770035416, 2336552879, 4294925233, 2304563134, 1804603682, 4254626195, 2792965006, 1236535329,
   4129170786, 3225465664, 643717713, 3921069994, 3593408605, 38016083, 3634488961, 3889429448,
   568446438, 3275163606, 4107603335, 1163531501, 2850285829, 4243563512, 1735328473, 2368359562,
   4294588738, 2272392833, 1839030562, 4259657740, 2763975236, 1272893353, 4139469664, 3200236656,
   681279174, 3936430074, 3572445317, 76029189, 3654602809, 3873151461, 530742520, 3299628645,
   4096336452, 1126891415, 2878612391, 4237533241, 1700485571, 2399980690, 4293915773, 2240044497,
   1873313359, 4264355552, 2734768916, 1309151649, 4149444226, 3174756917, 718787259, 3951481745]

/-- per-step left-rotation amounts -/
def sTab : List UInt32 :=
  [7, 12, 17, 22, 7, 12, 17, 22, 7, 12, 17, 22, 7, 12, 17, 22,
   5, 9, 14, 20, 5, 9, 14, 20, 5, 9, 14, 20, 5, 9, 14, 20,
   4, 11, 16, 23, 4, 11, 16, 23, 4, 11, 16, 23, 4, 11, 16, 23,
   6, 10, 15, 21, 6, 10, 15, 21, 6, 10, 15, 21, 6, 10, 15, 21]

/-- one step description: round (0..3), additive constant, rotation, message word index. -/
structure StepD where
  rnd : Nat
  k   : UInt32
  s   : UInt32
  g   : Nat

def gIdx (i : Nat) : Nat :=
  match i / 16 with
  | 0 => i
  | 1 => (5 * i + 1) % 16
  | 2 => (3 * i + 5) % 16
  | _ => (7 * i) % 16

/-- the 64 steps in order. -/
def steps : List StepD :=
  (List.range 64).map (fun i => { rnd := i / 16, k := kTab.getD i 0, s := sTab.getD i 0, g := gIdx i })

structure St where
  a : UInt32
  b : UInt32
  c : UInt32
  d : UInt32

def init : St := ⟨0x67452301, 0xefcdab89, 0x98badcfe, 0x10325476⟩

def rotl (x s : UInt32) : UInt32 := (x <<< s) ||| (x >>> (32 - s))

def stepFn (m : Array UInt32) (st : St) (sd : StepD) : St :=
  let f : UInt32 :=
    match sd.rnd with
    | 0 => (st.b &&& st.c) ||| ((~~~ st.b) &&& st.d)
    | 1 => (st.d &&& st.b) ||| ((~~~ st.d) &&& st.c)
    | 2 => st.b ^^^ st.c ^^^ st.d
    | _ => st.c ^^^ (st.b ||| (~~~ st.d))
  let f := f + st.a + sd.k + m.getD sd.g 0
  ⟨st.d, st.b + rotl f sd.s, st.b, st.c⟩

/-- little-endian 32-bit words of a byte string (a trailing partial word is dropped; blocks are
    always 64 bytes). -/
def toWords : Bytes → List UInt32
  | a :: b :: c :: d :: r =>
    (a.toUInt32 ||| (b.toUInt32 <<< 8) ||| (c.toUInt32 <<< 16) ||| (d.toUInt32 <<< 24)) :: toWords r
  | _ => []

/-- the compression function on one 64-byte block. -/
def compress (st : St) (block : Bytes) : St :=
  let m := (toWords block).toArray
  let r := steps.foldl (stepFn m) st
  ⟨st.a + r.a, st.b + r.b, st.c + r.c, st.d + r.d⟩

/-- `n` blocks, front to back. -/
def blocks : Nat → Bytes → St → St
  | 0, _, st => st
  | n + 1, d, st => blocks n (d.drop 64) (compress st (d.take 64))

def le32 (w : UInt32) : Bytes :=
  [w.toUInt8, (w >>> 8).toUInt8, (w >>> 16).toUInt8, (w >>> 24).toUInt8]

def le64 (n : Nat) : Bytes :=
  [(n % 256).toUInt8, (n / 256 % 256).toUInt8, (n / 65536 % 256).toUInt8, (n / 16777216 % 256).toUInt8,
   (n / 4294967296 % 256).toUInt8, (n / 1099511627776 % 256).toUInt8,
   (n / 281474976710656 % 256).toUInt8, (n / 72057594037927936 % 256).toUInt8]

/-- message ++ 0x80 ++ zeros ++ 64-bit little-endian bit length; a multiple of 64 bytes. -/
def pad (x : Bytes) : Bytes :=
  let n := x.length
  let z := (119 - n % 64) % 64
  x ++ 0x80 :: (List.replicate z 0 ++ le64 (8 * n))

/-- the 16-byte MD5 digest. -/
def sum (x : Bytes) : Bytes :=
  let p := pad x
  let r := blocks (p.length / 64) p init
  le32 r.a ++ le32 r.b ++ le32 r.c ++ le32 r.d

end Md5
end Teleport
