/-
Model/Xfer — `xfer/xfer.go`: the filter registry and `XferPipe.Append/OnPack/OnUnpack`.
A filter is a pair of partial functions; the registry is a function id ↦ filter.
-/
import Teleport.Model.Bytes
namespace Teleport

structure Filter where
  pack   : Bytes → Option Bytes
  unpack : Bytes → Option Bytes

abbrev Registry := UInt8 → Option Filter

namespace Xfer

/-- `XferPipe.Append(ids...)` on a pipe that currently holds `cur`: every id must be registered,
    then the total length must not exceed 255. -/
def append (reg : Registry) (cur : List UInt8) (ids : List UInt8) : Option (List UInt8) :=
  if ids.all (fun i => (reg i).isSome) then
    if (cur ++ ids).length > 255 then none else some (cur ++ ids)
  else none

/-- `XferPipe.OnUnpack`: filters first → last. -/
def onUnpack (reg : Registry) : List UInt8 → Bytes → Option Bytes
  | [], d => some d
  | i :: is, d =>
    match reg i with
    | none => none
    | some f => (f.unpack d).bind (onUnpack reg is)

/-- `XferPipe.OnPack`: filters last → first. -/
def onPack (reg : Registry) : List UInt8 → Bytes → Option Bytes
  | [], d => some d
  | i :: is, d =>
    match reg i with
    | none => none
    | some f => (onPack reg is d).bind f.pack

/-- a filter whose unpack inverts its pack. -/
def Lawful (f : Filter) : Prop := ∀ x y, f.pack x = some y → f.unpack y = some x

end Xfer
end Teleport
