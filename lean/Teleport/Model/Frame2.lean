/-
Model/Frame2 — the outer frame shared by `proto/jsonproto/jsonproto.go` and
`proto/pbproto/pbproto.go` (the two `Pack`/`Unpack` bodies are identical except for how header and
body become the payload bytes):

    {4-byte big-endian size}{pipe length byte}{pipe ids}{transfer pipe applied to the payload}
    size = 1 + pipeLen + len(filtered payload)        (the four length bytes are NOT counted)

`Pack`: payload → `XferPipe.OnPack` → `SetSize` (limit check) → one `Write`.
`Unpack`: `binary.Read` size → `SetSize` (limit check) → size 0 = empty message → `io.ReadFull` →
pipe length byte → `XferPipe.Append(ids)` → `OnUnpack` → payload decoder.
The payload encoder/decoder is a parameter (`Payload`): jsonproto's hand-written JSON text +
gjson reads (Model/JsonProto), pbproto's protobuf `Payload` message.  Core Lean only.
-/
import Teleport.Model.RawProto
namespace Teleport
namespace Frame2
open Bytes

/-- how header and body become the payload bytes and back. -/
structure Payload where
  /-- `none` = the message is outside the modelled domain of the encoder (not a Go error). -/
  ser : Msg → Option Bytes
  /-- size, pipe, un-filtered payload ↦ message, or the reason no message is delivered. -/
  de : Nat → List UInt8 → Bytes → Except String Msg

inductive PackErr | xfer | size | ser deriving DecidableEq, Repr

/-- `Pack`: the bytes of the single `Write` and the size recorded in the message. -/
def pack (P : Payload) (reg : Registry) (limit : Nat) (m : Msg) : Except PackErr (Bytes × Nat) :=
  match P.ser m with
  | none => .error .ser
  | some t =>
    match Xfer.onPack reg m.pipe t with
    | none => .error .xfer
    | some p =>
      let sz := (1 + m.pipe.length + p.length) % 4294967296
      if sz > limit then .error .size
      else .ok (be32 sz ++ (m.pipe.length % 256).toUInt8 :: m.pipe ++ p, sz)

/-- the message `Unpack` leaves for a frame of size 0 (nothing is set). -/
def emptyMsg : Msg :=
  { seq := 0, mtype := 0, method := [], status := Status.zero, md := [], codec := 0, body := [], pipe := [] }

/-- the decoder's error is returned unchanged: `"eof"` stands for `io.ErrUnexpectedEOF`, which
    golang/protobuf returns for a truncated payload and which the caller cannot tell from a
    short read. -/
def finish (P : Payload) (size : Nat) (pipe : List UInt8) (s rest : Bytes) : Raw.Out :=
  match P.de size pipe s with
  | .error e => if e == "eof" then .eof else .reject e
  | .ok m => .ok m rest

/-- `Unpack` after `io.ReadFull`: `fr` = the `size` bytes of the frame, `rest` = what follows. -/
def unpackFrame (P : Payload) (reg : Registry) (size : Nat) (fr rest : Bytes) : Raw.Out :=
  match fr with
  | [] => .reject "impossible"
  | xl :: p =>
    if xl == 0 then finish P size [] p rest
    -- `bb.B[:xferLen]` beyond the length reads stale pooled bytes or panics; if `Append` accepts
    -- them `bb.B[xferLen:]` panics: no message either way
    else if p.length < xl.toNat then .reject "panic:xferlen"
    else
      match Xfer.append reg [] (p.take xl.toNat) with
      | none => .reject "err:filter"
      | some pipe =>
        match Xfer.onUnpack reg pipe (p.drop xl.toNat) with
        | none => .reject "err:xfer"
        | some data => finish P size pipe data rest

/-- `Unpack` after the four length bytes gave `size`. -/
def unpackSized (P : Payload) (reg : Registry) (limit size : Nat) (r1 : Bytes) : Raw.Out :=
  if size > limit then .size else
  if size == 0 then .ok emptyMsg r1 else
  match Raw.take? size r1 with
  | none => .eof
  | some (fr, rest) => unpackFrame P reg size fr rest

/-- `Unpack` on the input `inp` (everything that will ever arrive). -/
def unpack (P : Payload) (reg : Registry) (limit : Nat) (inp : Bytes) : Raw.Out :=
  match inp with
  | a :: b :: c :: d :: r1 => unpackSized P reg limit (rdBe32 a b c d) r1
  | _ => .eof

/-- read exactly `n` back-to-back frames. -/
def unpackN (P : Payload) (reg : Registry) (limit : Nat) : Nat → Bytes → Option (List Msg × Bytes)
  | 0, inp => some ([], inp)
  | n + 1, inp =>
    match unpack P reg limit inp with
    | .ok m rest => (unpackN P reg limit n rest).map (fun r => (m :: r.1, r.2))
    | _ => none

/-- all frames of a list of messages, packed back to back (sizes recorded). -/
def packAll (P : Payload) (reg : Registry) (limit : Nat) : List Msg → Option (Bytes × List Msg)
  | [] => some ([], [])
  | m :: ms =>
    match pack P reg limit m, packAll P reg limit ms with
    | .ok (bs, sz), some (r, out) => some (bs ++ r, { m with size := sz } :: out)
    | _, _ => none

end Frame2
end Teleport
