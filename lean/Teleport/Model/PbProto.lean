/-
Model/PbProto — `proto/pbproto/pbproto.go`: the repo-owned mapping between a message and the
`pb.Payload` record (`Pack`: seven fields, status and metadata as query strings; `Unpack`:
`byte(s.Mtype)`, `DecodeQuery`, `ParseBytes`, `byte(s.BodyCodec)`), inside the outer frame of
Model/Frame2.  The protobuf serializer (`codec.ProtoMarshal` / `ProtoUnmarshal`, golang/protobuf)
is third-party and stays a parameter `(ser, de)`; the correspondence check supplies its values on
the generated cases as a finite table computed by the real library.  Core Lean only.
-/
import Teleport.Model.Frame2
namespace Teleport
namespace PbP

/-- `pb.Payload` (proto/pbproto/pb/payload.proto). -/
structure Rec where
  seq    : Int
  mtype  : Int
  method : Bytes
  status : Bytes
  md     : Bytes
  codec  : Int
  body   : Bytes
deriving DecidableEq, Repr

/-- the record `Pack` hands to `codec.ProtoMarshal`. -/
def toRec (m : Msg) : Rec :=
  { seq := m.seq, mtype := m.mtype.toNat, method := m.method, status := m.status.encode,
    md := Args.query m.md, codec := m.codec.toNat, body := m.body }

/-- `byte(x)` of an int32 -/
def byteOf (i : Int) : UInt8 := (i % 256).toNat.toUInt8

/-- "read other" + "read body" of `Unpack` on the decoded record. -/
def ofRec (size : Nat) (pipe : List UInt8) (r : Rec) : Except String Msg :=
  (Raw.ofOpt "panic:statusquote" (Status.decode r.status)).bind fun status =>
  (Raw.ofOpt "panic:metaquote" (Args.parse r.md)).bind fun md =>
  .ok { seq := r.seq, mtype := byteOf r.mtype, method := r.method, status, md, codec := byteOf r.codec,
        body := r.body, pipe, size }

/-- pbproto's payload for a given protobuf serializer. -/
def payload (ser : Rec → Option Bytes) (de : Bytes → Option Rec) : Frame2.Payload :=
  { ser := fun m => ser (toRec m)
    de := fun size pipe b =>
      match de b with
      | none => .error "err:proto"
      | some r => ofRec size pipe r }

end PbP
end Teleport
