module verif/harness

go 1.21

require (
	git.apache.org/thrift.git v0.13.0
	github.com/gogo/protobuf v1.2.1
	github.com/henrylee2cn/erpc/v6 v6.0.0
	github.com/henrylee2cn/goutil v0.0.0-20200416032639-974f5b4094a2
	github.com/tidwall/gjson v1.2.2
)

require (
	github.com/golang/protobuf v1.4.2 // indirect
	github.com/henrylee2cn/ameda v1.3.6 // indirect
	github.com/henrylee2cn/cfgo v0.0.0-20180417024816-e6c3cc325b21 // indirect
	github.com/klauspost/cpuid v1.2.2 // indirect
	github.com/klauspost/reedsolomon v1.9.3 // indirect
	github.com/pkg/errors v0.8.1 // indirect
	github.com/templexxx/cpu v0.0.1 // indirect
	github.com/templexxx/xorsimd v0.4.1 // indirect
	github.com/tidwall/match v1.0.1 // indirect
	github.com/tidwall/pretty v1.0.0 // indirect
	github.com/tjfoc/gmsm v1.0.1 // indirect
	github.com/xtaci/kcp-go/v5 v5.5.12 // indirect
	golang.org/x/crypto v0.0.0-20200622213623-75b288015ac9 // indirect
	golang.org/x/net v0.0.0-20200707034311-ab3426394381 // indirect
	golang.org/x/sys v0.0.0-20200519105757-fe76b779f299 // indirect
	google.golang.org/protobuf v1.23.0 // indirect
	gopkg.in/yaml.v2 v2.3.0 // indirect
)

replace github.com/henrylee2cn/erpc/v6 => /repo
