package main

import (
	"fmt"
	"strings"
	"time"

	erpc "github.com/henrylee2cn/erpc/v6"
	"github.com/henrylee2cn/erpc/v6/socket"

	"verif/harness/internal/hx"
	"verif/harness/internal/mem"
)

// C06 with the framework's own run log switched ON (kind `xlivelog`, the property's own oracle, no
// model). Every other family silences the logger, so the code that RENDERS a received message for
// the run log (session.printRunLog -> messageLogBytes / bodyLogBytes -> utils.ToJSONStr, reached
// with PeerConfig.PrintDetail and a printing logger level, executed in the handler goroutine AFTER
// its recover) never ran. It sees every received byte: metadata and raw bodies are attacker
// controlled. Here a live server session with PrintDetail=true and logger level DEBUG (into a
// discarding outputter) receives well-formed CALL / PUSH frames whose bodies and metadata values
// end in, or consist of, the byte sequences text renderers get wrong: truncated multi-byte UTF-8,
// U+2028/U+2029, surrogate halves, over-long forms, control bytes, quotes, backslashes. Every CALL
// must be answered exactly once, the session must stay up, a control call must work afterwards -
// and the process must survive (a panic in a pool goroutine kills the harness: reported as
// harness exit). Seed C06-E: an off-by-one in ToJSONStr's U+2028 test panicked on a body ending in
// E2 80.
//
//	xlivelog kind=call|push|ucall|upush body=<hex> mv=<hex metadata value>

type c06Discard struct{}

func (c06Discard) Output(int, []byte, erpc.LoggerLevel) {}
func (c06Discard) Flush() error                         { return nil }

func C06lRaw(ctx erpc.CallCtx, arg *[]byte) ([]byte, *erpc.Status) { return *arg, nil }
func C06lPraw(ctx erpc.PushCtx, arg *[]byte) *erpc.Status          { return nil }

var c06lTails = [][]byte{
	{0xe2, 0x80}, {0xe2}, {0xc2}, {0xf0, 0x9f}, {0xf0, 0x9f, 0x98}, {0xe2, 0x80, 0xa8}, {0xe2, 0x80, 0xa9},
	{0xe2, 0x80, 0xa8, 0xe2, 0x80}, {0xed, 0xa0, 0x80}, {0xed, 0xb0, 0x80}, {0xc0, 0x80}, {0xff}, {0xfe, 0xff},
	{0xf4, 0x90, 0x80, 0x80}, {0xef, 0xbf, 0xbd}, {'"'}, {'\\'}, {'\\', 'u'}, {'\\', 'u', '2', '0'}, {0}, {0x1f}, {0x7f},
	{'<', '/', 's', 'c', 'r'}, {'&'}, {0xe2, 0x80, 0xa8, '"'}, {'\r'}, {'\n'}, {'\t'}, {},
}

func c06lText(r *hx.R) []byte {
	var b []byte
	for k := r.Intn(4); k > 0; k-- {
		switch r.Intn(3) {
		case 0:
			b = append(b, r.Bytes(r.Intn(6), 0)...)
		case 1:
			b = append(b, "abc é€😀"[:r.Intn(12)]...)
		default:
			b = append(b, c06lTails[r.Intn(len(c06lTails))]...)
		}
	}
	return append(b, c06lTails[r.Intn(len(c06lTails))]...)
}

func init() {
	p := props["c06"]
	g, r := p.Gen, p.Run
	p.Gen = func(rr *hx.R, tier string, out *hx.Out) []string {
		ls := g(rr, tier, out)
		n := 40
		if tier == "thorough" {
			n = 400
		}
		kinds := []string{"call", "push", "ucall", "upush"}
		// every tail once as the END of a raw body (fixed part), then random texts
		for i, t := range c06lTails {
			ls = append(ls, fmt.Sprintf("xlivelog kind=%s body=%s mv=%s", kinds[i%4], hx.Hex(append([]byte("abc"), t...)), hx.Hex(append([]byte("v"), t...))))
		}
		for i := 0; i < n; i++ {
			ls = append(ls, fmt.Sprintf("xlivelog kind=%s body=%s mv=%s", kinds[rr.Intn(4)], hx.Hex(c06lText(rr)), hx.Hex(c06lText(rr))))
		}
		return ls
	}
	p.Run = func(line string, out *hx.Out) (string, bool) {
		if strings.HasPrefix(line, "xlivelog ") {
			return c06lRun(line, out)
		}
		return r(line, out)
	}
}

func c06lRun(line string, out *hx.Out) (obs string, nt bool) {
	defer func() {
		if p := recover(); p != nil {
			obs, nt = fmt.Sprint("harness-panic:", p), true
		}
	}()
	_, f := hx.Fields(line)
	body, mv, kind := hx.UnHex(f["body"]), hx.UnHex(f["mv"]), f["kind"]
	// logger ON for this case only (no session of this process is alive between cases)
	erpc.SetLoggerOutputter(c06Discard{})
	erpc.SetLoggerLevel("DEBUG")
	defer erpc.SetLoggerLevel("OFF")
	srv := erpc.NewPeer(erpc.PeerConfig{PrintDetail: true, CountTime: true})
	rawName := srv.RouteCallFunc(C06lRaw)
	pushName := srv.RoutePushFunc(C06lPraw)
	srv.SetUnknownCall(func(ctx erpc.UnknownCallCtx) (interface{}, *erpc.Status) { return ctx.InputBodyBytes(), nil })
	srv.SetUnknownPush(func(ctx erpc.UnknownPushCtx) *erpc.Status { return nil })
	defer func() {
		done := make(chan struct{})
		go func() { srv.Close(); close(done) }()
		select {
		case <-done:
		case <-time.After(2 * time.Second):
			out.Count("xlivelog:peer-close-stuck")
		}
	}()
	ca, cb := mem.Pair("")
	served := make(chan erpc.Session, 1)
	go func() { s, _ := srv.ServeConn(cb); served <- s }()
	var sess erpc.Session
	select {
	case sess = <-served:
	case <-time.After(5 * time.Second):
		return "hang:serve", false
	}
	if sess == nil {
		return "no-session", false
	}
	rp := newRawPeer(ca, socket.DefaultProtoFunc())
	type got struct {
		m   *M
		err error
	}
	frames := make(chan got, 16)
	go func() {
		for {
			m, err := rp.Recv()
			frames <- got{m, err}
			if err != nil {
				return
			}
		}
	}()
	meta := [][2][]byte{{[]byte("k"), mv}}
	var m *M
	switch kind {
	case "call":
		m = &M{Seq: 1, Mtype: 1, Method: []byte(rawName), Body: body, Meta: meta}
	case "push":
		m = &M{Seq: 1, Mtype: 3, Method: []byte(pushName), Body: body, Meta: meta}
	case "ucall":
		m = &M{Seq: 1, Mtype: 1, Method: []byte("/c06l/unknown"), Body: body, Meta: meta}
	case "upush":
		m = &M{Seq: 1, Mtype: 3, Method: []byte("/c06l/unknown"), Body: body, Meta: meta}
	default:
		return "bad-case", false
	}
	rp.Send(m)
	// control call on the same session: answered => the session is up and the message before it was digested
	rp.Send(&M{Seq: 2, Mtype: 1, Method: []byte(rawName), Body: []byte("ctl")})
	replies := map[int32]int{}
	eof := false
	deadline := time.After(3 * time.Second)
	isCall := kind == "call" || kind == "ucall"
wait:
	for (replies[2] == 0 || (isCall && replies[1] == 0)) && !eof { // handlers run concurrently: either reply may come first
		select {
		case g := <-frames:
			if g.err != nil {
				eof = true
			} else {
				replies[g.m.Seq]++
			}
		case <-deadline:
			break wait
		}
	}
	out.Count("xlivelog:" + kind)
	switch {
	case eof:
		out.Violate(line, "session-survives-wellformed-message", "the server dropped the connection after a well-formed "+kind+" (run log on, PrintDetail)", "c06:log:session-dropped")
	case replies[2] != 1:
		out.Violate(line, "session-still-functional", fmt.Sprintf("the control call after a well-formed %s was answered %d times within 3 s (run log on, PrintDetail)", kind, replies[2]), "c06:log:session-wedged")
	case isCall && replies[1] != 1:
		out.Violate(line, "answered-once", fmt.Sprintf("the %s was answered %d times (run log on, PrintDetail)", kind, replies[1]), "c06:log:call-not-answered")
	}
	ca.Close()
	return "oracle-only", true
}
