package main

// C07 — session lifecycle follows one state machine; the session index is exact.
//
// Case kinds (model side: lean/Teleport/Drv/C07.lean):
//
//	c07hist  ops=a0,l1s5,a2r,i3x7,q0,w1,c2,r3,u4,p1,...   sequential history on two real peers
//	c07sched order=crrcc...                               forced schedule of Close() ∥ readDisconnected
//
// History operations (sessions are numbered in creation order: connection j has session 2j on
// peer 0 and session 2j+1 on peer 1; ids are numbers: 2k = the address of connection name k,
// odd = a user id):
//
//	a<k>[s<v>][x][r]  new connection named k, both ends through ServeConn (peer 0 first, then peer 1);
//	               peer 1's accept hook calls SetID(v) (s<v>), calls Close() on the session (x:
//	               a Close() that lands while the accept hooks run, as Peer.Close or a take-over
//	               of the session's id would) and/or refuses (r)
//	l<k>[s<v>][r]  the same with peer 1's end going through the listener accept path
//	i<s>x<v>       SetID(v) on session s          c<s>  Close() of session s
//	r<s>           Close() of the other end of s  u<s>  the connection of s is cut
//	p<P>           Peer.Close() of peer P         q<s>  Call from s        w<s>  Push from s
//
// After every operation the harness waits for quiescence (no goroutine inside a close path, an
// accept path or a handler; every read loop of an Ok session blocked in Read) and records for
// every session status/Health/CloseNotify, the notify and disconnect-hook counts, the status class
// of a probe Call and Push on sessions that are not Ok, and for both peers CountSession,
// RangeSession and GetSession of every id used so far.
//
// Schedule cases: one established connection; token c lets the goroutine calling Close() on the
// peer-1 session run to its next gate (close.cas, close.hubdel, close.ctxwait, close.callwait,
// close.sock, close.hook, end), token r does the same for the reader's disconnect path (the first r
// cuts the connection; disc.load, disc.store, disc.cancel, disc.redial, disc.hook, end). A parked
// goroutine is released after 5 s at the latest (reported as hang).

import (
	"fmt"
	"io"
	"net"
	"runtime"
	"sort"
	"strconv"
	"strings"
	"sync"
	"sync/atomic"
	"time"

	erpc "github.com/henrylee2cn/erpc/v6"

	"verif/harness/internal/hx"
	"verif/harness/internal/mem"
)

func init() {
	props["c07"] = &Prop{Setup: c07Setup, Gen: c07Gen, Run: c07Run}
}

// ---- handlers ------------------------------------------------------------------------------------

var c07PushRan int64

type C07h struct{ erpc.CallCtx }

func (h *C07h) Echo(arg *int) (int, *erpc.Status) { return *arg + 1, nil }

type C07p struct{ erpc.PushCtx }

func (h *C07p) Note(arg *int) *erpc.Status {
	atomic.AddInt64(&c07PushRan, 1)
	return nil
}

// ---- recording plugin ----------------------------------------------------------------------------

type c07Script struct {
	setID  string // "" = none
	close  bool   // Close() the session inside the hook
	reject bool
}

type c07Plug struct {
	mu       sync.Mutex
	script   c07Script
	last     erpc.Session
	accepted int64
	disc     map[erpc.Session]int
}

func (p *c07Plug) Name() string { return "c07plug" }

func (p *c07Plug) PostAccept(s erpc.PreSession) *erpc.Status {
	p.mu.Lock()
	sc := p.script
	p.script = c07Script{}
	p.last, _ = s.(erpc.Session)
	p.mu.Unlock()
	if sc.setID != "" {
		s.SetID(sc.setID)
	}
	if sc.close {
		if ss, ok := s.(erpc.Session); ok {
			ss.Close()
		}
	}
	atomic.AddInt64(&p.accepted, 1)
	if sc.reject {
		return erpc.NewStatus(403, "refused", "c07 accept hook")
	}
	return nil
}

func (p *c07Plug) PostDisconnect(s erpc.BaseSession) *erpc.Status {
	if ss, ok := s.(erpc.Session); ok {
		p.mu.Lock()
		p.disc[ss]++
		p.mu.Unlock()
	}
	return nil
}

func (p *c07Plug) discOf(s erpc.Session) int {
	p.mu.Lock()
	defer p.mu.Unlock()
	return p.disc[s]
}

// ---- in-memory listener fed with chosen conns -----------------------------------------------------

type c07Listener struct {
	ch     chan net.Conn
	closed chan struct{}
	once   sync.Once
}

func newC07Listener() *c07Listener {
	return &c07Listener{ch: make(chan net.Conn, 8), closed: make(chan struct{})}
}
func (l *c07Listener) Accept() (net.Conn, error) {
	select {
	case c := <-l.ch:
		return c, nil
	case <-l.closed:
		return nil, io.EOF
	}
}
func (l *c07Listener) Close() error   { l.once.Do(func() { close(l.closed) }); return nil }
func (l *c07Listener) Addr() net.Addr { return mem.Addr{S: "c07-listener:1"} }
func (l *c07Listener) isClosed() bool {
	select {
	case <-l.closed:
		return true
	default:
		return false
	}
}

// ---- environment of one case ----------------------------------------------------------------------

type c07Park struct {
	point string
	ch    chan struct{}
}

type c07Env struct {
	peers      [2]erpc.Peer
	plugs      [2]*c07Plug
	sess       []erpc.Session
	conns      []*mem.Conn
	idx        map[erpc.Session]int
	ids        map[int]bool
	lis        *c07Listener
	callSM     string
	pushSM     string
	pclosed    [2]bool
	rejected   map[int]bool
	hookClosed map[int]bool // sessions closed inside their accept hook

	mu     sync.Mutex
	notify map[erpc.Session]int
	left   map[erpc.Session]string // first transition out of a closed state

	// schedule cases
	target erpc.Session
	rec    bool
	trace  []string
	parked map[byte]*c07Park
	free   bool
	hung   bool
}

var c07Cur atomic.Value // *c07Env

func c07Setup() {
	erpc.SetLoggerLevel("OFF")
	erpc.VerifSetHooks(&erpc.VerifHooks{
		Gate: func(point string, s erpc.Session) {
			if e, _ := c07Cur.Load().(*c07Env); e != nil {
				e.gate(point, s)
			}
		},
		Event: func(kind string, s erpc.Session, a, b int64) {
			if e, _ := c07Cur.Load().(*c07Env); e != nil {
				e.event(kind, s, a, b)
			}
		},
	})
}

func newC07Env() *c07Env {
	e := &c07Env{rejected: map[int]bool{}, hookClosed: map[int]bool{}, idx: map[erpc.Session]int{}, ids: map[int]bool{}, notify: map[erpc.Session]int{},
		left: map[erpc.Session]string{}, parked: map[byte]*c07Park{}}
	for i := 0; i < 2; i++ {
		e.plugs[i] = &c07Plug{disc: map[erpc.Session]int{}}
		e.peers[i] = erpc.NewPeer(erpc.PeerConfig{}, e.plugs[i])
		cs := e.peers[i].RouteCall(new(C07h))
		ps := e.peers[i].RoutePush(new(C07p))
		if len(cs) > 0 {
			e.callSM = cs[0]
		}
		if len(ps) > 0 {
			e.pushSM = ps[0]
		}
	}
	c07Cur.Store(e)
	return e
}

func (e *c07Env) teardown() {
	e.mu.Lock()
	e.free = true
	for k, p := range e.parked {
		if p != nil {
			close(p.ch)
			e.parked[k] = nil
		}
	}
	e.mu.Unlock()
	c07Cur.Store((*c07Env)(nil))
	for i := 0; i < 2; i++ {
		if !e.pclosed[i] {
			e.peers[i].Close()
		}
	}
	for _, s := range e.sess {
		if s != nil {
			s.Close()
		}
	}
	for _, c := range e.conns {
		if c != nil {
			c.Break(io.EOF)
		}
	}
	if e.lis != nil {
		e.lis.Close()
	}
}

func (e *c07Env) event(kind string, s erpc.Session, a, b int64) {
	e.mu.Lock()
	defer e.mu.Unlock()
	switch kind {
	case "st":
		if (a == 3 || a == 5) && a != b {
			if _, ok := e.left[s]; !ok {
				e.left[s] = fmt.Sprintf("%d>%d", a, b)
			}
		}
		if e.rec && s == e.target {
			e.trace = append(e.trace, fmt.Sprintf("%d>%d", a, b))
		}
	case "notify":
		e.notify[s]++
		if e.rec && s == e.target {
			e.trace = append(e.trace, "n")
		}
	case "disc":
		if e.rec && s == e.target {
			e.trace = append(e.trace, fmt.Sprintf("d%d", a))
		}
	}
}

func (e *c07Env) gate(point string, s erpc.Session) {
	var th byte
	switch {
	case strings.HasPrefix(point, "close."):
		th = 'c'
	case strings.HasPrefix(point, "disc."):
		th = 'r'
	default:
		return
	}
	e.mu.Lock()
	if e.target == nil || s != e.target || e.free {
		e.mu.Unlock()
		return
	}
	p := &c07Park{point: point, ch: make(chan struct{})}
	e.parked[th] = p
	e.mu.Unlock()
	select {
	case <-p.ch:
	case <-time.After(5 * time.Second):
		e.mu.Lock()
		e.hung = true
		e.free = true
		if e.parked[th] == p {
			e.parked[th] = nil
		}
		e.mu.Unlock()
	}
}

func (e *c07Env) parkedAt(th byte) *c07Park {
	e.mu.Lock()
	defer e.mu.Unlock()
	return e.parked[th]
}

// release lets the goroutine parked for thread th go on; false when nothing is parked.
func (e *c07Env) release(th byte) bool {
	e.mu.Lock()
	p := e.parked[th]
	e.parked[th] = nil
	e.mu.Unlock()
	if p == nil {
		return false
	}
	close(p.ch)
	return true
}

// ---- quiescence ------------------------------------------------------------------------------------

var c07Busy = []string{
	"(*session).closeLocked", "(*session).readDisconnected", "(*handlerCtx).handle",
	"(*peer).ServeConn", "(*session).SetID", "(*session).Close(", "(*peer).Close(",
}

func c07Goroutines() []string {
	buf := make([]byte, 1<<18)
	for {
		n := runtime.Stack(buf, true)
		if n < len(buf) {
			return strings.Split(string(buf[:n]), "\n\n")
		}
		buf = make([]byte, 2*len(buf))
	}
}

// c07StackQuiet: no goroutine inside a close path, accept path or handler; every read loop is
// blocked (not merely standing) in the in-memory conn's Read; their number is wantReaders.
func c07StackQuiet(wantReaders int) bool {
	readers := 0
	for _, g := range c07Goroutines() {
		if strings.Contains(g, "c07Goroutines") {
			continue
		}
		for _, b := range c07Busy {
			if strings.Contains(g, b) {
				return false
			}
		}
		if strings.Contains(g, "(*session).startReadAndHandle") {
			if !strings.Contains(g, "mem.(*Conn).Read") || !strings.Contains(g[:strings.IndexByte(g+"\n", '\n')], "sync.Cond.Wait") {
				return false
			}
			readers++
		} else if strings.Contains(g, "(*peer).serveListener.func") {
			return false
		}
	}
	return readers == wantReaders
}

func c07InDisconnect() bool {
	for _, g := range c07Goroutines() {
		if strings.Contains(g, "(*session).readDisconnected") {
			return true
		}
	}
	return false
}

func (e *c07Env) quiet() bool {
	ok := 0
	for _, s := range e.sess {
		switch erpc.VerifStatus(s) {
		case 1:
			ok++
		case 3, 5:
		default:
			return false
		}
	}
	return c07StackQuiet(ok)
}

func (e *c07Env) waitQuiet() bool {
	return waitUntil(5*time.Second, e.quiet)
}

// ---- ids -------------------------------------------------------------------------------------------

func c07IDStr(peer, n int) string {
	if n%2 == 0 {
		if peer == 0 {
			return fmt.Sprintf("n%d-b:1", n/2)
		}
		return fmt.Sprintf("n%d-a:1", n/2)
	}
	return fmt.Sprintf("u%d", n)
}

func (e *c07Env) add(s erpc.Session, c *mem.Conn) {
	e.idx[s] = len(e.sess)
	e.sess = append(e.sess, s)
	e.conns = append(e.conns, c)
}

// ---- operations ------------------------------------------------------------------------------------

func (e *c07Env) accept(name int, listen bool, hook int, rej bool, hclose bool) string {
	ca, cb := mem.Pair(fmt.Sprintf("n%d", name))
	e.ids[2*name] = true
	sa, _ := e.peers[0].ServeConn(ca)
	if sa == nil {
		return "fail-a"
	}
	e.add(sa, ca)
	if !e.waitQuiet() {
		return "noquiet-a"
	}
	p := e.plugs[1]
	sc := c07Script{reject: rej, close: hclose}
	if hook >= 0 {
		sc.setID = c07IDStr(1, hook)
		e.ids[hook] = true
	}
	p.mu.Lock()
	p.script = sc
	p.last = nil
	p.mu.Unlock()
	before := atomic.LoadInt64(&p.accepted)
	if listen {
		if e.lis == nil || e.lis.isClosed() {
			e.lis = newC07Listener()
			lis := e.lis
			go erpc.VerifServeListener(e.peers[1], lis)
		}
		e.lis.ch <- cb
		if !waitUntil(5*time.Second, func() bool { return atomic.LoadInt64(&p.accepted) > before }) {
			return "noaccept-b"
		}
	} else {
		e.peers[1].ServeConn(cb)
	}
	p.mu.Lock()
	sb := p.last
	p.mu.Unlock()
	if sb == nil {
		return "nosess-b"
	}
	e.add(sb, cb)
	if hclose {
		e.hookClosed[len(e.sess)-1] = true
	}
	if rej {
		e.rejected[len(e.sess)-1] = true
		return "rej"
	}
	return "ok"
}

func (e *c07Env) send(s int, call bool) string {
	if s >= len(e.sess) {
		return "bad"
	}
	arg := 41
	if call {
		var res int
		st := e.sess[s].Call(e.callSM, &arg, &res).Status()
		if st.OK() && res != 42 {
			return "wrong"
		}
		return strconv.Itoa(int(st.Code()))
	}
	before := atomic.LoadInt64(&c07PushRan)
	st := e.sess[s].Push(e.pushSM, &arg)
	if st.OK() {
		waitUntil(5*time.Second, func() bool { return atomic.LoadInt64(&c07PushRan) > before })
	}
	return strconv.Itoa(int(st.Code()))
}

// probe: a Call and a Push on a session that is not Ok; both must come back at once with 102 and
// must not write to the connection.
func (e *c07Env) probe(i int) (string, bool) {
	s := e.sess[i]
	w0, _ := e.conns[i].Sent()
	arg := 1
	var res int
	t0 := time.Now()
	c := s.Call(e.callSM, &arg, &res).Status().Code()
	p := s.Push(e.pushSM, &arg).Code()
	dt := time.Since(t0)
	w1, _ := e.conns[i].Sent()
	touched := len(w1) != len(w0)
	if c == 102 && p == 102 {
		return "102", !touched && dt < time.Second
	}
	return fmt.Sprintf("%d/%d", c, p), false
}

func (e *c07Env) showHub(p int) (string, int, map[int]int) {
	peer := e.peers[p]
	var rng []int
	peer.RangeSession(func(s erpc.Session) bool {
		if i, ok := e.idx[s]; ok {
			rng = append(rng, i)
		} else {
			rng = append(rng, 9999)
		}
		return true
	})
	sort.Ints(rng)
	var ids []int
	for id := range e.ids {
		ids = append(ids, id)
	}
	sort.Ints(ids)
	byID := map[int]int{}
	var kv []string
	for _, id := range ids {
		if s, ok := peer.GetSession(c07IDStr(p, id)); ok {
			i, known := e.idx[s]
			if !known {
				i = 9999
			}
			byID[id] = i
			kv = append(kv, fmt.Sprintf("%d>%d", id, i))
		}
	}
	rs := make([]string, len(rng))
	for i, r := range rng {
		rs[i] = strconv.Itoa(r)
	}
	n := peer.CountSession()
	return fmt.Sprintf("P%d=%d[%s]{%s}", p, n, strings.Join(rs, "."), strings.Join(kv, ".")), n, byID
}

// observe renders the canonical observation of the whole system and evaluates the oracles.
func (e *c07Env) observe(viol func(oracle, detail, sig string)) string {
	var ss []string
	live := [2][]int{}
	for i, s := range e.sess {
		st := erpc.VerifStatus(s)
		h := "h"
		if s.Health() {
			h = "H"
		}
		n := "n"
		select {
		case <-s.CloseNotify():
			n = "N"
		default:
		}
		e.mu.Lock()
		nc := e.notify[s]
		lf, hasLeft := e.left[s]
		e.mu.Unlock()
		dc := e.plugs[i%2].discOf(s)
		probe := "-"
		if st != 1 {
			var fast bool
			probe, fast = e.probe(i)
			if probe != "102" || !fast {
				viol("fail-fast", fmt.Sprintf("session %d (status %d): probe Call/Push = %s fast/untouched=%v", i, st, probe, fast), "c07:probe-not-102")
			}
		}
		ss = append(ss, fmt.Sprintf("%d:%d%s%s:%d:%d:%s", i, st, h, n, nc, dc, probe))
		established := st == 1 || st == 5 || (st == 3 && e.wasEstablished(i))
		switch st {
		case 1:
			live[i%2] = append(live[i%2], i)
			if h != "H" || n != "n" || nc != 0 || dc != 0 {
				viol("live-session", fmt.Sprintf("session %d is Ok but health=%s notified=%s notify=%d hook=%d", i, h, n, nc, dc), "c07:live-session-state")
			}
		case 3, 5:
			if h != "h" {
				viol("unhealthy-after-close", fmt.Sprintf("session %d closed (status %d) reports Health()=true", i, st), "c07:healthy-after-close")
			}
			if nc != 1 || n != "N" {
				viol("notify-once", fmt.Sprintf("session %d closed: notify count %d, channel closed=%s", i, nc, n), "c07:notify-count")
			}
			if established && dc != 1 {
				sig := "c07:disc-hook-count"
				if dc == 2 {
					sig = "c07:close-vs-disconnect-double-hook"
				}
				if e.hookClosed[i] {
					sig = "c07:accept-revives-closed-session"
				}
				viol("disconnect-hook-once", fmt.Sprintf("established session %d closed: disconnect hook ran %d times", i, dc), sig)
			}
		}
		if hasLeft {
			sig := "c07:closed-state-left"
			if e.hookClosed[i] {
				sig = "c07:accept-revives-closed-session"
			}
			viol("closed-absorbing", fmt.Sprintf("session %d left a closed state: %s", i, lf), sig)
		}
	}
	hubs := [2]string{}
	for p := 0; p < 2; p++ {
		str, n, byID := e.showHub(p)
		hubs[p] = str
		// exactness: every live session is found under its current id, nothing else is indexed
		inHub := map[int]bool{}
		for _, i := range byID {
			inHub[i] = true
		}
		for _, i := range live[p] {
			got, ok := e.peers[p].GetSession(e.sess[i].ID())
			if !ok || got != e.sess[i] {
				viol("hub-exact", fmt.Sprintf("peer %d: live session %d (id %q) is not in the index under its id (%s)", p, i, e.sess[i].ID(), str), "c07:hub-delete-not-owner")
			}
		}
		for i := range inHub {
			if i < len(e.sess) && erpc.VerifStatus(e.sess[i]) != 1 {
				viol("hub-exact", fmt.Sprintf("peer %d: closed session %d (status %d) is in the index (%s)", p, i, erpc.VerifStatus(e.sess[i]), str), "c07:hub-closed-session-indexed")
			}
		}
		if n != len(live[p]) && len(inHub) == len(live[p]) {
			viol("hub-exact", fmt.Sprintf("peer %d: CountSession=%d with %d live sessions (%s)", p, n, len(live[p]), str), "c07:hub-count")
		}
	}
	return strings.Join(ss, ",") + "|" + hubs[0] + "|" + hubs[1]
}

// wasEstablished: the accept hooks of session i succeeded (it was returned by ServeConn / reached Ok).
func (e *c07Env) wasEstablished(i int) bool {
	return !e.rejected[i]
}

// ---- tokens ----------------------------------------------------------------------------------------

func c07Tokens(op string) [][2]int {
	var out [][2]int
	for i := 0; i < len(op); {
		k := int(op[i])
		i++
		n := 0
		for i < len(op) && op[i] >= '0' && op[i] <= '9' {
			n = n*10 + int(op[i]-'0')
			i++
		}
		out = append(out, [2]int{k, n})
	}
	return out
}

func c07Run(line string, out *hx.Out) (obs string, nontrivial bool) {
	defer func() {
		if p := recover(); p != nil {
			obs = fmt.Sprintf("panic:%v", p)
		}
	}()
	kind, f := hx.Fields(line)
	switch kind {
	case "c07hist":
		return c07RunHist(line, f["ops"], out)
	case "c07sched":
		return c07RunSched(line, f["order"], out)
	}
	return "bad-kind", false
}

func c07RunHist(line, opsStr string, out *hx.Out) (string, bool) {
	e := newC07Env()
	defer e.teardown()
	ops := strings.Split(opsStr, ",")
	seen := map[string]bool{}
	var res []string
	closes := 0
	for k, op := range ops {
		viol := func(oracle, detail, sig string) {
			if seen[sig] {
				return
			}
			seen[sig] = true
			out.Violate(line, oracle, fmt.Sprintf("after ops %s: %s", strings.Join(ops[:k+1], ","), detail), sig)
		}
		t := c07Tokens(op)
		if len(t) == 0 {
			return "bad-case", false
		}
		r := "ok"
		a := t[0][1]
		switch byte(t[0][0]) {
		case 'a', 'l':
			hook, rej, hclose := -1, false, false
			for _, x := range t[1:] {
				if x[0] == 's' {
					hook = x[1]
				}
				if x[0] == 'r' {
					rej = true
				}
				if x[0] == 'x' {
					hclose = true
				}
			}
			r = e.accept(a, t[0][0] == 'l', hook, rej, hclose)
			if hclose {
				out.Count("op:accept-hook-close")
			}
			out.Count("op:accept")
			if rej {
				out.Count("op:accept-reject")
			}
			if hook >= 0 {
				out.Count("op:accept-hook-setid")
			}
			if t[0][0] == 'l' {
				out.Count("op:accept-listener")
			}
		case 'i':
			if a >= len(e.sess) || len(t) != 2 {
				return "bad-case", false
			}
			e.ids[t[1][1]] = true
			if erpc.VerifStatus(e.sess[a]) != 1 {
				out.Count("op:setid-closed")
			}
			e.sess[a].SetID(c07IDStr(a%2, t[1][1]))
			out.Count("op:setid")
		case 'c', 'r':
			if a >= len(e.sess) {
				return "bad-case", false
			}
			if t[0][0] == 'r' {
				a ^= 1
				out.Count("op:remote-close")
			} else {
				out.Count("op:close")
			}
			e.sess[a].Close()
			closes++
		case 'u':
			if a >= len(e.sess) {
				return "bad-case", false
			}
			e.conns[a].Break(io.ErrUnexpectedEOF)
			out.Count("op:cut")
			closes++
		case 'p':
			if a > 1 {
				return "bad-case", false
			}
			if err := e.peers[a].Close(); err != nil {
				r = "err"
			}
			e.pclosed[a] = true
			out.Count("op:peer-close")
			closes++
		case 'q', 'w':
			if a >= len(e.sess) {
				return "bad-case", false
			}
			r = e.send(a, t[0][0] == 'q')
			out.Count("op:call-push")
			out.Count("send:" + r)
		default:
			return "bad-case", false
		}
		if !e.waitQuiet() {
			r += "!noquiet"
		}
		res = append(res, r+"|"+e.observe(viol)+"|m")
	}
	for sig := range seen {
		out.Count("viol:" + sig)
	}
	out.Count(fmt.Sprintf("hist:len%02d", (len(ops)/8)*8))
	return strings.Join(res, " ; "), len(e.sess) >= 4 && closes >= 1
}

// ---- forced schedules --------------------------------------------------------------------------------

func c07RunSched(line, order string, out *hx.Out) (string, bool) {
	e := newC07Env()
	defer e.teardown()
	if r := e.accept(0, false, -1, false, false); r != "ok" || !e.waitQuiet() {
		return "setup-" + r, false
	}
	tgt := e.sess[1]
	e.mu.Lock()
	e.target = tgt
	e.rec = true
	e.mu.Unlock()

	closerDone := make(chan struct{})
	isDone := func() bool {
		select {
		case <-closerDone:
			return true
		default:
			return false
		}
	}
	cStarted, cEnded, rStarted, rEnded := false, false, false, false
	stepC := func() string {
		if cEnded {
			return "-"
		}
		if !cStarted {
			cStarted = true
			go func() { tgt.Close(); close(closerDone) }()
		} else if !e.release('c') {
			return "lost"
		}
		var p *c07Park
		if !waitUntil(6*time.Second, func() bool { p = e.parkedAt('c'); return p != nil || isDone() }) {
			return "hang"
		}
		if p == nil {
			p = e.parkedAt('c')
		}
		if p != nil {
			return p.point
		}
		cEnded = true
		return "end"
	}
	stepR := func() string {
		if rEnded {
			return "-"
		}
		if !rStarted {
			rStarted = true
			if e.parkedAt('r') == nil {
				e.conns[0].Break(io.ErrUnexpectedEOF)
			}
			var p *c07Park
			if !waitUntil(6*time.Second, func() bool { p = e.parkedAt('r'); return p != nil }) {
				return "hang"
			}
			return p.point
		}
		if !e.release('r') {
			return "lost"
		}
		var p *c07Park
		if !waitUntil(6*time.Second, func() bool { p = e.parkedAt('r'); return p != nil || !c07InDisconnect() }) {
			return "hang"
		}
		if p == nil {
			p = e.parkedAt('r')
		}
		if p != nil {
			return p.point
		}
		rEnded = true
		return "end"
	}
	var toks []string
	for i := 0; i < len(order); i++ {
		switch order[i] {
		case 'c':
			toks = append(toks, "c:"+stepC())
		case 'r':
			toks = append(toks, "r:"+stepR())
		default:
			return "bad-case", false
		}
	}
	// the rest: closer to its end, then the reader; a thread no token started does not run
	for i := 0; i < 8 && cStarted && !cEnded; i++ {
		if g := stepC(); g == "hang" || g == "lost" {
			break
		}
	}
	if !rStarted && e.parkedAt('r') != nil {
		rStarted = true
	}
	for i := 0; i < 8 && rStarted && !rEnded; i++ {
		if g := stepR(); g == "hang" || g == "lost" {
			break
		}
	}
	waitUntil(5*time.Second, func() bool { return !c07InDisconnect() && (!cStarted || isDone()) })

	e.mu.Lock()
	e.rec = false
	trace := append([]string(nil), e.trace...)
	nc := e.notify[tgt]
	lf, hasLeft := e.left[tgt]
	hung := e.hung
	e.mu.Unlock()
	dc := e.plugs[1].discOf(tgt)
	st := erpc.VerifStatus(tgt)
	left := 0
	if hasLeft {
		left = 1
	}
	hub, _, _ := e.showHub(1)
	closed := st == 3 || st == 5
	if closed && dc != 1 {
		out.Violate(line, "disconnect-hook-once", fmt.Sprintf("schedule %s: disconnect hook ran %d times (events %s)", strings.Join(toks, ","), dc, strings.Join(trace, ",")), "c07:close-vs-disconnect-double-hook")
	}
	if hasLeft {
		out.Violate(line, "closed-absorbing", fmt.Sprintf("schedule %s: closed state left by %s (events %s)", strings.Join(toks, ","), lf, strings.Join(trace, ",")), "c07:close-vs-disconnect-double-hook")
	}
	if closed && nc != 1 {
		out.Violate(line, "notify-once", fmt.Sprintf("schedule %s: close notification fired %d times", strings.Join(toks, ","), nc), "c07:notify-count")
	}
	if closed && tgt.Health() {
		out.Violate(line, "unhealthy-after-close", "Health() true in a closed state", "c07:healthy-after-close")
	}
	if hung {
		out.Count("sched:hang")
	}
	out.Count(fmt.Sprintf("sched:hooks=%d", dc))
	o := fmt.Sprintf("%s|%s|st=%d n=%d d=%d left=%d %s", strings.Join(toks, ","), strings.Join(trace, ","), st, nc, dc, left, hub)
	if hung {
		o += " HANG"
	}
	return o, true
}

// ---- generation ----------------------------------------------------------------------------------------

// fixed histories: the pre-study scenarios and one of each operation.
var c07Fixed = []string{
	"c07hist ops=a0,a1,q0,w1,c0,a2s5,i5x7,a3s7,a4,i8x7,a1,a6r,u3,p1,p1,q4",
	"c07hist ops=a0,a0",                // a newer connection takes over an address id
	"c07hist ops=a0,a1,i3x0",           // SetID collides with a live session
	"c07hist ops=a0,a1,i3x5,i1x5",      // SetID collides with a user id
	"c07hist ops=a0,a1s5,a2s5",         // take-over through SetID in the accept hook
	"c07hist ops=a0,a0r",               // a refused connection with a colliding address
	"c07hist ops=a0,a1,c0,i0x3,i0x2",   // SetID on a closed session
	"c07hist ops=l0,l1s3,l2s3r,l0,a0r", // listener accept path
	"c07hist ops=a0,l1,p0,a2,l3,p1,l4,p0,p1,a5",
	"c07hist ops=a0,c0,c0,c1,r0,u0,q0,w1,i0x1",
	"c07hist ops=a0x,q0,a1",              // Close() lands while the accept hook runs (ServeConn)
	"c07hist ops=l0x,l1,l1s3x,l2s3,a3xr", // the same on the listener path, with SetID, refused
	"c07hist ops=a0,a1s0x,q0,a2",         // the hook takes over a live session's id, then is closed
}

func c07AllOrders(c, r int) []string {
	if c == 0 && r == 0 {
		return []string{""}
	}
	var out []string
	if c > 0 {
		for _, s := range c07AllOrders(c-1, r) {
			out = append(out, "c"+s)
		}
	}
	if r > 0 {
		for _, s := range c07AllOrders(c, r-1) {
			out = append(out, "r"+s)
		}
	}
	return out
}

func c07GenHist(r *hx.R, maxOps int) string {
	n := 4 + r.Intn(maxOps-3)
	var ops []string
	type sess struct{ closed bool }
	var ss []sess
	names := 0
	var usedNames []int
	userIDs := []int{}
	pickSess := func(wantLive bool) int {
		if len(ss) == 0 {
			return -1
		}
		for try := 0; try < 6; try++ {
			i := r.Intn(len(ss))
			if ss[i].closed != wantLive {
				return i
			}
		}
		return r.Intn(len(ss))
	}
	anyID := func() int {
		// an id that exists: an address id of some connection or a user id
		if len(userIDs) > 0 && r.Intn(2) == 0 {
			return userIDs[r.Intn(len(userIDs))]
		}
		if len(usedNames) > 0 {
			return 2 * usedNames[r.Intn(len(usedNames))]
		}
		return 1
	}
	freshID := func() int {
		v := 2*(len(userIDs)+1) + 99
		userIDs = append(userIDs, v)
		return v
	}
	for len(ops) < n {
		x := r.Intn(100)
		if len(ss) == 0 {
			x = 0
		}
		switch {
		case x < 30 && len(ss) < 28:
			k := "a"
			if r.Intn(10) < 3 {
				k = "l"
			}
			name := names
			if len(usedNames) > 0 && r.Intn(100) < 15 {
				name = usedNames[r.Intn(len(usedNames))]
			} else {
				names++
				usedNames = append(usedNames, name)
			}
			op := fmt.Sprintf("%s%d", k, name)
			if r.Intn(4) == 0 {
				if r.Intn(10) < 7 {
					op += fmt.Sprintf("s%d", freshID())
				} else {
					op += fmt.Sprintf("s%d", anyID())
				}
			}
			hclose := r.Intn(100) < 7
			if hclose {
				op += "x"
			}
			rej := r.Intn(100) < 12
			if rej {
				op += "r"
			}
			ops = append(ops, op)
			ss = append(ss, sess{closed: rej || hclose}, sess{closed: rej || hclose})
		case x < 45:
			s := pickSess(r.Intn(20) != 0)
			if s < 0 {
				continue
			}
			if r.Intn(10) < 6 {
				ops = append(ops, fmt.Sprintf("i%dx%d", s, freshID()))
			} else {
				ops = append(ops, fmt.Sprintf("i%dx%d", s, anyID()))
			}
		case x < 60:
			if s := pickSess(r.Intn(8) != 0); s >= 0 {
				ops = append(ops, fmt.Sprintf("q%d", s))
			}
		case x < 70:
			if s := pickSess(r.Intn(8) != 0); s >= 0 {
				ops = append(ops, fmt.Sprintf("w%d", s))
			}
		case x < 80:
			if s := pickSess(r.Intn(6) != 0); s >= 0 {
				ops = append(ops, fmt.Sprintf("c%d", s))
				ss[s].closed, ss[s^1].closed = true, true
			}
		case x < 88:
			if s := pickSess(r.Intn(6) != 0); s >= 0 {
				ops = append(ops, fmt.Sprintf("r%d", s))
				ss[s].closed, ss[s^1].closed = true, true
			}
		case x < 95:
			if s := pickSess(r.Intn(6) != 0); s >= 0 {
				ops = append(ops, fmt.Sprintf("u%d", s))
				ss[s].closed, ss[s^1].closed = true, true
			}
		case x < 97:
			ops = append(ops, fmt.Sprintf("p%d", r.Intn(2)))
			for i := range ss {
				ss[i].closed = true
			}
		}
	}
	return "c07hist ops=" + strings.Join(ops, ",")
}

func c07Gen(r *hx.R, tier string, out *hx.Out) []string {
	lines := append([]string(nil), c07Fixed...)
	nh, ns, maxOps := 90, 260, 26
	if tier == "thorough" {
		nh, ns, maxOps = 700, 1716, 40
	}
	for i := 0; i < nh; i++ {
		lines = append(lines, c07GenHist(r, maxOps))
	}
	all := c07AllOrders(7, 6)
	// always: both sequential orders and the two pre-study races
	lines = append(lines, "c07sched order=cccccccrrrrrr", "c07sched order=rrrrrrccccccc",
		"c07sched order=rcccccccrrrrr", "c07sched order=rcrrrrrcccccc", "c07sched order=crcrcrcrcrcrc")
	if ns >= len(all) {
		for _, o := range all {
			lines = append(lines, "c07sched order="+o)
		}
	} else {
		for _, i := range r.Perm(len(all))[:ns] {
			lines = append(lines, "c07sched order="+all[i])
		}
	}
	return lines
}
