package main

// C04 — the caller sees OK iff the handler succeeded and the reply was decoded; otherwise exactly
// the handler's status or the framework rule's.
//
// kind c04:     two REAL peers over an in-memory connection, protocol raw / jsonproto / pbproto,
//               every registered body codec; one call per case with a scripted cause of failure.
// kind c04wire: Pack → Unpack of a REPLY message over a buffer with every protocol including the
//               websocket sub-protocols; the status must survive.
// (thriftproto and httproto are left out: importing thriftproto switches process-wide defaults
// in its init for every runner linked into this binary.)
//
// c04 line: c04 proto=raw|json|pb codec=N kind=K stage=- code=N msg=hex cause=hex|nil rbody=hex rtype=i|s|b|p
//               rdec=ok|e<hex> derr=ok|e<hex> regs=.. rt=.. me=..
// observation: st=<code>,<msg>,<cause> dec=0|1     (or `hang`)

import (
	"bytes"
	"fmt"
	"hash/fnv"
	"reflect"
	"strconv"
	"strings"
	"sync/atomic"
	"time"

	erpc "github.com/henrylee2cn/erpc/v6"
	"github.com/henrylee2cn/erpc/v6/codec"
	"github.com/henrylee2cn/erpc/v6/mixer/websocket/jsonSubProto"
	"github.com/henrylee2cn/erpc/v6/mixer/websocket/pbSubProto"
	"github.com/henrylee2cn/erpc/v6/proto/jsonproto"
	"github.com/henrylee2cn/erpc/v6/proto/pbproto"
	pbpayload "github.com/henrylee2cn/erpc/v6/proto/pbproto/pb"
	"github.com/henrylee2cn/erpc/v6/socket"

	"verif/harness/internal/hx"
)

func init() {
	props["c04"] = &Prop{Setup: c04Setup, Gen: c04Gen, Run: c04Run}
}

type c04Case struct {
	proto    string
	codec    byte
	kind     string
	stage    string
	code     int32
	msg      []byte
	cause    []byte
	hasCause bool
	rbody    []byte
	rtype    byte
	rdec     string
	derr     string
	ranOK    int32 // the handler ran to completion and returned OK
	ran      int32
}

func (c *c04Case) status() *erpc.Status {
	if c.hasCause {
		return erpc.NewStatus(c.code, string(c.msg), strErr(c.cause))
	}
	return erpc.NewStatus(c.code, string(c.msg))
}

func (c *c04Case) Line() string {
	cause := "nil"
	if c.hasCause {
		cause = hx.Hex(c.cause)
	}
	return fmt.Sprintf("c04 proto=%s codec=%d kind=%s stage=%s code=%d msg=%s cause=%s rbody=%s rtype=%c rdec=%s derr=%s regs=%s rt=%s me=%s",
		c.proto, c.codec, c.kind, c.stage, c.code, hx.Hex(c.msg), cause, hx.Hex(c.rbody), c.rtype, c.rdec, c.derr,
		c03RegsField(), c03RoutesField(c04Routes), c04Me)
}

var c04cur atomic.Value // *c04Case

func c04Get() *c04Case {
	c, _ := c04cur.Load().(*c04Case)
	return c
}

func c04Behave(setCodec func(byte)) *erpc.Status {
	c := c04Get()
	if c == nil {
		return nil
	}
	atomic.AddInt32(&c.ran, 1)
	switch c.kind {
	case "fail":
		return c.status()
	case "panic":
		panic(string(c.msg))
	case "ret":
		setCodec(c.codec)
	}
	atomic.AddInt32(&c.ranOK, 1)
	return nil
}

func C04Raw(ctx erpc.CallCtx, arg *[]byte) ([]byte, *erpc.Status) {
	st := c04Behave(ctx.SetBodyCodec)
	if c := c04Get(); c != nil && st == nil {
		return append([]byte(nil), c.rbody...), nil
	}
	return nil, st
}
func C04Tint(ctx erpc.CallCtx, arg *int) (int, *erpc.Status) { return 7, c04Behave(ctx.SetBodyCodec) }
func C04Unm(ctx erpc.CallCtx, arg *[]byte) (*C03UnmT, *erpc.Status) {
	return &C03UnmT{A: 1, F: func() {}}, c04Behave(ctx.SetBodyCodec)
}

var (
	c04Routes = []*c03Route{{kind: 'r', fn: C04Raw}, {kind: 'i', fn: C04Tint}, {kind: 'u', fn: C04Unm}}
	c04Me     string
)

type c04SrvPlugin struct{}

func (c04SrvPlugin) Name() string { return "c04srv" }
func c04Veto(side string, stage string) *erpc.Status {
	c := c04Get()
	if c == nil || c.kind != side || c.stage != stage {
		return nil
	}
	return c.status()
}
func (c04SrvPlugin) PostReadCallHeader(erpc.ReadCtx) *erpc.Status { return c04Veto("vetoS", "h") }
func (c04SrvPlugin) PreReadCallBody(erpc.ReadCtx) *erpc.Status    { return c04Veto("vetoS", "b") }
func (c04SrvPlugin) PostReadCallBody(erpc.ReadCtx) *erpc.Status   { return c04Veto("vetoS", "p") }

type c04CliPlugin struct{}

func (c04CliPlugin) Name() string                                  { return "c04cli" }
func (c04CliPlugin) PreWriteCall(erpc.WriteCtx) *erpc.Status       { return c04Veto("vetoC", "w") }
func (c04CliPlugin) PostReadReplyHeader(erpc.ReadCtx) *erpc.Status { return c04Veto("vetoC", "h") }
func (c04CliPlugin) PreReadReplyBody(erpc.ReadCtx) *erpc.Status    { return c04Veto("vetoC", "b") }
func (c04CliPlugin) PostReadReplyBody(erpc.ReadCtx) *erpc.Status   { return c04Veto("vetoC", "p") }

func c04NewServer() erpc.Peer {
	srv := erpc.NewPeer(erpc.PeerConfig{}, c04SrvPlugin{})
	for _, r := range c04Routes {
		r.name = srv.RouteCallFunc(r.fn)
	}
	return srv
}

func c04Setup() {
	c03Setup()
	srv := c04NewServer()
	srv.Close()
	c04Me = c03Me
}

func c04ProtoFunc(name string) erpc.ProtoFunc {
	switch name {
	case "json":
		return jsonproto.NewJSONProtoFunc()
	case "pb":
		return pbproto.NewPbProtoFunc()
	case "wsjson":
		return jsonSubProto.NewJSONSubProtoFunc()
	case "wspb":
		return pbSubProto.NewPbSubProtoFunc()
	}
	return socket.RawProtoFunc
}

func c04NewResult(t byte) interface{} {
	switch t {
	case 'i':
		return new(int)
	case 's':
		return new(string)
	case 'p':
		return new(pbpayload.Payload)
	}
	return new([]byte)
}

// c04Direct decodes body with the codec straight into a fresh result: "ok" or e<hex of error>.
func c04Direct(cid byte, body []byte, t byte) (string, interface{}) {
	res := c04NewResult(t)
	if t == 'b' {
		*(res.(*[]byte)) = append([]byte(nil), body...)
		return "ok", res
	}
	cd, err := codec.Get(cid)
	if err != nil {
		return "e" + hx.Hex([]byte(err.Error())), res
	}
	out := "ok"
	func() {
		defer func() {
			if p := recover(); p != nil {
				out = "e" + hx.Hex([]byte(fmt.Sprint("panic:", p)))
			}
		}()
		if err := cd.Unmarshal(body, res); err != nil {
			out = "e" + hx.Hex([]byte(err.Error()))
		}
	}()
	return out, res
}

func c04IsZero(result interface{}, t byte) bool {
	if t == 'p' {
		pl := result.(*pbpayload.Payload)
		return pl.Seq == 0 && pl.ServiceMethod == "" && len(pl.Body) == 0 && len(pl.Meta) == 0 && len(pl.Status) == 0 && pl.Mtype == 0 && pl.BodyCodec == 0
	}
	return reflect.ValueOf(result).Elem().IsZero()
}

func c04Triple(st *erpc.Status) string {
	code, msg, cause := int32(0), "-", "nil"
	if st != nil {
		for _, part := range strings.Split(string(st.EncodeQuery()), "&") {
			switch {
			case strings.HasPrefix(part, "code="):
				c, _ := strconv.ParseInt(part[5:], 10, 64)
				code = int32(c)
			case strings.HasPrefix(part, "msg="):
				msg = hx.Hex(unq(part[4:]))
			case strings.HasPrefix(part, "cause="):
				cause = hx.Hex(unq(part[6:]))
			}
		}
	}
	return fmt.Sprintf("%d,%s,%s", code, msg, cause)
}

// ---- generation ---------------------------------------------------------------------------------

func c04Status(r *hx.R, c *c04Case, big bool) {
	c.code = int32(r.Pick(1, -1, 102, 404, 500, 405, 400, 104, 2147483647, -2147483648, int(int32(r.Uint32())), int(int32(r.Uint32()))))
	if c.code == 0 {
		c.code = 77
	}
	n := r.Pick(0, 1, 5, 255, 256)
	if big && r.Intn(3) == 0 {
		n = r.Pick(2000, 20000)
	}
	c.msg = r.AnyBytes(n)
	if r.Intn(3) > 0 {
		c.hasCause = true
		c.cause = r.AnyBytes(r.Pick(0, 1, 7, 255, 256))
	}
}

func c04Bodies(r *hx.R, cid byte, proto string) (body []byte, rtype byte) {
	// bodies for the reply, with the result type the caller asks for
	safe := proto == "json" // jsonproto cannot carry '\\' or control bytes in a body (C05 finding)
	switch r.Intn(9) {
	case 0:
		return []byte("41"), 'i'
	case 1:
		return []byte(`"tok` + strconv.Itoa(r.Intn(1000)) + `"`), 's'
	case 2:
		return []byte(`"str"`), 'i' // string into int
	case 3:
		return []byte(`{"a":`), 's' // truncated JSON
	case 4:
		return []byte("17"), 's'
	case 5:
		if safe {
			return []byte("abc"), 'b'
		}
		return r.AnyBytes(1 + r.Intn(20)), 'b'
	case 6:
		if safe {
			return []byte("zz"), 'p'
		}
		return append([]byte{0xff, 0xff, 0xff}, r.AnyBytes(r.Intn(8))...), 'p' // protobuf garbage
	case 7:
		pl := &pbpayload.Payload{Seq: 5, ServiceMethod: "m"}
		b, _ := codec.ProtoMarshal(pl)
		if safe {
			return []byte("q1"), 'p'
		}
		return b, 'p'
	default:
		return []byte("x=1"), 'i'
	}
}

func c04Gen(r *hx.R, tier string, out *hx.Out) []string {
	var lines []string
	n := 520
	if tier == "thorough" {
		n = 5000
	}
	protos := []string{"raw", "raw", "json", "pb"}
	kinds := []string{"ret", "ret", "ret", "ret", "fail", "fail", "fail", "panic", "noroute", "emptymethod", "badbody", "vetoS", "vetoC", "closed", "unmarsh"}
	mk := func(c *c04Case) {
		c.derr = "ok"
		if c.kind == "unmarsh" && !strings.Contains(","+c04Me, fmt.Sprintf(",u.%d.", c.codec)) {
			c.codec = 106 // only codecs that really cannot marshal the result
		}
		var direct interface{}
		c.rdec, direct = c04Direct(c.codec, c.rbody, c.rtype)
		if c.rdec == "ok" && c.rtype != 'b' && c04IsZero(direct, c.rtype) {
			// a codec that accepts the bytes but fills nothing: not observable as "decoded"
			c.rtype = 'b'
		}
		if c.kind == "badbody" {
			c.derr = c03Derr(c04Routes, []byte(c04Routes[1].name), c.codec, []byte("abc"))
		}
		lines = append(lines, c.Line())
	}
	// fixed: defect 2 witnesses and one of every rule, on every protocol
	for _, p := range []string{"raw", "json", "pb"} {
		mk(&c04Case{proto: p, codec: 106, kind: "ret", stage: "-", rbody: []byte(`"str"`), rtype: 'i'})
		mk(&c04Case{proto: p, codec: 106, kind: "ret", stage: "-", rbody: []byte(`{"a":`), rtype: 's'})
		mk(&c04Case{proto: p, codec: 106, kind: "ret", stage: "-", rbody: []byte(`41`), rtype: 'i'})
		for _, k := range kinds[4:] {
			c := &c04Case{proto: p, codec: 106, kind: k, stage: "-", code: 1001, msg: []byte("m"), hasCause: true, cause: []byte("c"), rbody: []byte("1"), rtype: 'i'}
			if k == "vetoS" || k == "vetoC" {
				c.stage = "h"
			}
			mk(c)
		}
	}
	for i := 0; i < n; i++ {
		c := &c04Case{proto: protos[r.Intn(len(protos))], stage: "-", rtype: 'i', rbody: []byte("1")}
		c.codec = c03Regs[r.Intn(len(c03Regs))]
		if r.Intn(2) == 0 {
			c.codec = 106
		}
		c.kind = kinds[r.Intn(len(kinds))]
		switch c.kind {
		case "ret":
			c.rbody, c.rtype = c04Bodies(r, c.codec, c.proto)
		case "fail":
			c04Status(r, c, true)
		case "panic":
			c.msg = r.Bytes(r.Pick(0, 1, 9, 300), 1)
		case "vetoS":
			c.stage = string("hbp"[r.Intn(3)])
			c04Status(r, c, false)
		case "vetoC":
			c.stage = string("whbp"[r.Intn(4)])
			c04Status(r, c, false)
		}
		if (c.kind == "vetoS" || c.kind == "vetoC") && c.code == 405 {
			c.code = 406 // a 405 veto on the server is a disconnect (covered by C03); keep this matrix about statuses
		}
		mk(c)
	}
	// wire level: every protocol including the websocket sub-protocols
	m := 300
	if tier == "thorough" {
		m = 3000
	}
	wp := []string{"raw", "json", "pb", "wsjson", "wspb"}
	for i := 0; i < m; i++ {
		c := &c04Case{}
		c04Status(r, c, true)
		if i < 10 {
			c.code, c.msg, c.hasCause, c.cause = 404, []byte("Not Found"), true, nil
		}
		if i%17 == 0 {
			c.code, c.msg, c.hasCause = 0, nil, false
		}
		cause := "nil"
		if c.hasCause {
			cause = hx.Hex(c.cause)
		}
		lines = append(lines, fmt.Sprintf("c04wire proto=%s seq=%d code=%d msg=%s cause=%s", wp[i%len(wp)], int32(r.Uint32()), c.code, hx.Hex(c.msg), cause))
	}
	return lines
}

// ---- run --------------------------------------------------------------------------------------

type c04Buf struct{ bytes.Buffer }

func c04RunWire(line string, f map[string]string, out *hx.Out) (obs string, nt bool) {
	code, _ := strconv.ParseInt(f["code"], 10, 64)
	seq, _ := strconv.ParseInt(f["seq"], 10, 64)
	msg := hx.UnHex(f["msg"])
	var st *erpc.Status
	if f["cause"] != "nil" {
		st = erpc.NewStatus(int32(code), string(msg), strErr(hx.UnHex(f["cause"])))
	} else {
		st = erpc.NewStatus(int32(code), string(msg))
	}
	buf := &c04Buf{}
	p := c04ProtoFunc(f["proto"])(buf)
	m := socket.NewMessage()
	m.SetMtype(erpc.TypeReply)
	m.SetSeq(int32(seq))
	m.SetStatus(st)
	if err := p.Pack(m); err != nil {
		return "packerr", true
	}
	got := socket.NewMessage(socket.WithNewBody(func(socket.Header) interface{} { return new([]byte) }))
	if err := p.Unpack(got); err != nil {
		return "unpackerr", true
	}
	want, have := c04Triple(st), c04Triple(got.Status())
	out.Count("wire:" + f["proto"])
	if want != have || got.Seq() != int32(seq) {
		sig := "c04:wire-status-altered:" + f["proto"]
		if strings.HasPrefix(f["proto"], "ws") {
			sig = "c04:ws-subproto-drops-status:" + strings.TrimPrefix(f["proto"], "ws")
		}
		out.Violate(line, "status-survives-the-wire", fmt.Sprintf("%s: packed status %s, unpacked %s", f["proto"], want, have), sig)
	}
	return "st=" + have, code != 0
}

func c04Run(line string, out *hx.Out) (obs string, nontrivial bool) {
	defer func() {
		if p := recover(); p != nil {
			obs = fmt.Sprint("harness-panic:", p)
		}
	}()
	kind, f := hx.Fields(line)
	if kind == "c04wire" {
		return c04RunWire(line, f, out)
	}
	c := &c04Case{proto: f["proto"], kind: f["kind"], stage: f["stage"], msg: hx.UnHex(f["msg"]), rbody: hx.UnHex(f["rbody"])}
	n, _ := strconv.Atoi(f["codec"])
	c.codec = byte(n)
	q, _ := strconv.ParseInt(f["code"], 10, 64)
	c.code = int32(q)
	if f["cause"] != "nil" {
		c.hasCause, c.cause = true, hx.UnHex(f["cause"])
	}
	if len(f["rtype"]) == 1 {
		c.rtype = f["rtype"][0]
	}
	srv := c04NewServer()
	cli := erpc.NewPeer(erpc.PeerConfig{}, c04CliPlugin{})
	defer srv.Close()
	defer cli.Close()
	c04cur.Store(c)
	defer c04cur.Store((*c04Case)(nil))

	pf := c04ProtoFunc(c.proto)
	var l *link
	conn := make(chan struct{})
	go func() { defer close(conn); l = connect(cli, srv, "", pf) }()
	select {
	case <-conn:
	case <-time.After(5 * time.Second):
		return "hang:connect", false
	}
	if l.A == nil || l.B == nil {
		return "no-session", false
	}
	method, args := c04Routes[0].name, []byte("a")
	switch c.kind {
	case "noroute":
		method = "/c04/nope"
	case "emptymethod":
		method = ""
	case "badbody":
		method, args = c04Routes[1].name, []byte("abc")
	case "unmarsh":
		method = c04Routes[2].name
	case "closed":
		l.A.Close()
	}
	// A third of the cases (a function of the case line) run with a slow-returning write on the calling
	// side (seed C04-D): the request is on the wire, the peer answers and the answer reaches the
	// caller's read loop while the caller is still inside its Write. The status the caller finally
	// sees must not depend on that (on code where the reply is shielded from the call until the
	// write has returned this only delays the case by a few milliseconds).
	if h := fnv.New32a(); true {
		h.Write([]byte(line))
		if h.Sum32()%3 == 0 {
			out.Count("slow-returning-write")
			base, _ := l.CB.Sent()
			n0 := len(base)
			l.CA.SetAfterWrite(func() {
				waitUntil(25*time.Millisecond, func() bool { b, _ := l.CB.Sent(); return len(b) > n0 })
				time.Sleep(3 * time.Millisecond)
			})
		}
	}
	result := c04NewResult(c.rtype)
	var st *erpc.Status
	done := make(chan struct{})
	go func() {
		defer close(done)
		defer func() { recover() }()
		st = l.A.Call(method, args, result, erpc.WithBodyCodec(c.codec)).Status()
	}()
	select {
	case <-done:
	case <-time.After(5 * time.Second):
		out.Violate(line, "liveness", "the call did not complete within 5 s", "c04:hang")
		l.CA.Close()
		l.CB.Close()
		return "hang", true
	}
	triple := c04Triple(st)
	dec := 0
	if !c04IsZero(result, c.rtype) {
		dec = 1
	}

	// ---- the property's own oracle ----
	ok := st.OK()
	ranOK := atomic.LoadInt32(&c.ranOK) == 1
	direct, want := c04Direct(c.codec, c.rbody, c.rtype)
	decodable := direct == "ok"
	out.Count("proto:" + c.proto)
	out.Count("kind:" + c.kind)
	out.Count(fmt.Sprintf("codec:%d", c.codec))
	if atomic.LoadInt32(&c.ran) > 1 {
		out.Violate(line, "at-most-once", "handler ran more than once", "c04:double-invocation")
	}
	switch c.kind {
	case "ret":
		if ok && !decodable {
			out.Violate(line, "ok-iff", fmt.Sprintf("%s codec %d: reply body %q cannot be decoded into the caller's %T (%s) but the caller sees OK, result left %v",
				c.proto, c.codec, c.rbody, result, string(hx.UnHex(direct[1:])), reflect.ValueOf(result).Elem().Interface()), "c04:undecodable-reply-seen-as-ok")
			out.Count("ret:undecodable")
		}
		if !ok && ranOK && decodable {
			out.Violate(line, "ok-iff", "handler returned OK and the body decodes, but the caller sees "+triple, "c04:ok-lost")
		}
		if ok && decodable {
			out.Count("ret:decoded")
			if !reflect.DeepEqual(result, want) && c.rtype != 'p' {
				out.Violate(line, "result-value", fmt.Sprintf("result %v differs from the direct decode %v", result, want), "c04:result-differs")
			}
		}
	default:
		if ok {
			out.Violate(line, "ok-iff", "kind "+c.kind+": the handler did not succeed but the caller sees OK", "c04:error-seen-as-ok")
		}
		var exp string
		switch c.kind {
		case "fail", "vetoS", "vetoC":
			exp = c04Triple(c.status())
		case "noroute":
			exp = "404," + hx.Hex([]byte("Not Found")) + ",-"
		case "emptymethod":
			exp = "400," + hx.Hex([]byte("Bad Message")) + "," + hx.Hex([]byte("invalid service method for message"))
		case "panic":
			exp = "500," + hx.Hex([]byte("Internal Server Error")) + "," + hx.Hex(c.msg)
		case "closed":
			exp = "102," + hx.Hex([]byte("Connection Closed")) + ",-"
		}
		if exp != "" && exp != triple {
			out.Violate(line, "exact-status", fmt.Sprintf("kind %s over %s: caller sees %s, rule says %s", c.kind, c.proto, triple, exp), "c04:rule:"+c.kind)
		}
		if (c.kind == "badbody" && !strings.HasPrefix(triple, "400,")) || (c.kind == "unmarsh" && !strings.HasPrefix(triple, "500,")) {
			out.Violate(line, "exact-status", fmt.Sprintf("kind %s: caller sees %s", c.kind, triple), "c04:rule:"+c.kind)
		}
	}
	return fmt.Sprintf("st=%s dec=%d", triple, dec), true
}
