package main

// C03 — each received CALL is handled at most once and answered exactly once.
//
// One case = one fresh real server peer (scripted handlers, a scripted veto plugin, optionally an
// unknown-call / unknown-push handler, optionally a context age) served over an in-memory
// connection, and a raw scripted client that writes 1..4 generated frames followed by a probe CALL.
// Observed: every frame the server wrote (decoded from the wire), handler invocations per request
// seq, whether the server disconnected by itself. The same case line drives Model/Dispatch.
//
// case line:  c03 unk=0|1 unkp=0|1 age=0|1 regs=<ids> rt=<hexname>:<kind>,.. pt=.. me=<kind>.<codec>.<hex>,.. frames=<spec>;<spec>
// spec (fields separated by '/'):
//   mtype/seq/method/codec/body/accept/hb/hcode/hmsg/hcause/sc/slow/veto/derr/meta
// observation: per frame  i<inv>r<n>{=code,msg,cause,codec,bodyflag}  joined by ';'  then  disc=0|1

import (
	"fmt"
	"io"
	"os"
	"sort"
	"strconv"
	"strings"
	"sync"
	"sync/atomic"
	"time"

	erpc "github.com/henrylee2cn/erpc/v6"
	"github.com/henrylee2cn/erpc/v6/codec"
	"github.com/henrylee2cn/erpc/v6/socket"

	"verif/harness/internal/hx"
	"verif/harness/internal/mem"
)

func init() {
	props["c03"] = &Prop{Setup: c03Setup, Gen: c03Gen, Run: c03Run}
}

const (
	c03ProbeSeq = int32(2147480000)
	c03Age      = 40 * time.Millisecond
)

type c03Spec struct {
	mtype          byte
	seq            int32
	method         []byte
	codec          byte
	body           []byte
	accept         string // "-" or decimal
	hb             byte   // r, f, p
	hcode          int32
	hmsg           []byte
	hcause         []byte
	hasCause       bool
	sc             string // "-" or decimal
	slow           bool
	veto           string // "-", r, h<code>, b<code>, p<code>
	derr           string // ok | e<hex>
	meta           [][2][]byte
	inv            int32 // observed invocations
}

func (s *c03Spec) String() string {
	cause := "nil"
	if s.hasCause {
		cause = hx.Hex(s.hcause)
	}
	sl := 0
	if s.slow {
		sl = 1
	}
	return fmt.Sprintf("%d/%d/%s/%d/%s/%s/%c/%d/%s/%s/%s/%d/%s/%s/%s", s.mtype, s.seq, hx.Hex(s.method), s.codec, hx.Hex(s.body),
		s.accept, s.hb, s.hcode, hx.Hex(s.hmsg), cause, s.sc, sl, s.veto, s.derr, hx.KVs(s.meta))
}

func c03ParseSpec(t string) (*c03Spec, error) {
	p := strings.Split(t, "/")
	if len(p) != 15 {
		return nil, fmt.Errorf("bad spec %q", t)
	}
	s := &c03Spec{}
	a, _ := strconv.Atoi(p[0])
	s.mtype = byte(a)
	q, _ := strconv.ParseInt(p[1], 10, 64)
	s.seq = int32(q)
	s.method = hx.UnHex(p[2])
	a, _ = strconv.Atoi(p[3])
	s.codec = byte(a)
	s.body = hx.UnHex(p[4])
	s.accept = p[5]
	if len(p[6]) != 1 {
		return nil, fmt.Errorf("bad hb %q", p[6])
	}
	s.hb = p[6][0]
	q, _ = strconv.ParseInt(p[7], 10, 64)
	s.hcode = int32(q)
	s.hmsg = hx.UnHex(p[8])
	if p[9] != "nil" {
		s.hasCause = true
		s.hcause = hx.UnHex(p[9])
	}
	s.sc = p[10]
	s.slow = p[11] == "1"
	s.veto = p[12]
	s.derr = p[13]
	s.meta = hx.ParseKVs(p[14])
	return s, nil
}

// the case being run (cases run one at a time)
type c03Cur struct {
	mu    sync.Mutex
	specs map[int32]*c03Spec
	reads int32 // PreReadHeader calls so far
	vetoR int32 // index of the read that fails (-1 none)
}

var c03cur atomic.Value // *c03Cur

func c03Get(seq int32) *c03Spec {
	c, _ := c03cur.Load().(*c03Cur)
	if c == nil {
		return nil
	}
	return c.specs[seq]
}

type C03UnmT struct {
	A int
	F func()
}

// c03Behave is the scripted part of every CALL handler.
func c03Behave(ctx interface {
	Seq() int32
}, setCodec func(byte)) *erpc.Status {
	s := c03Get(ctx.Seq())
	if s == nil {
		return nil
	}
	atomic.AddInt32(&s.inv, 1)
	if s.sc != "-" && setCodec != nil {
		n, _ := strconv.Atoi(s.sc)
		setCodec(byte(n))
	}
	if s.slow {
		time.Sleep(3 * c03Age)
	}
	switch s.hb {
	case 'p':
		panic(string(s.hmsg))
	case 'f':
		if s.hasCause {
			return erpc.NewStatus(s.hcode, string(s.hmsg), strErr(s.hcause))
		}
		return erpc.NewStatus(s.hcode, string(s.hmsg))
	}
	return nil
}

func C03Int(ctx erpc.CallCtx, arg *int) (int, *erpc.Status) {
	return 7, c03Behave(ctx, ctx.SetBodyCodec)
}
func C03Str(ctx erpc.CallCtx, arg *string) (string, *erpc.Status) {
	return "s7", c03Behave(ctx, ctx.SetBodyCodec)
}
func C03Raw(ctx erpc.CallCtx, arg *[]byte) ([]byte, *erpc.Status) {
	return append([]byte("r:"), *arg...), c03Behave(ctx, ctx.SetBodyCodec)
}
func C03Unm(ctx erpc.CallCtx, arg *int) (*C03UnmT, *erpc.Status) {
	return &C03UnmT{A: 1, F: func() {}}, c03Behave(ctx, ctx.SetBodyCodec)
}
func C03Probe(ctx erpc.CallCtx, arg *[]byte) ([]byte, *erpc.Status) { return []byte("p"), nil }
func C03Pint(ctx erpc.PushCtx, arg *int) *erpc.Status              { return c03Behave(ctx, nil) }
func C03Praw(ctx erpc.PushCtx, arg *[]byte) *erpc.Status           { return c03Behave(ctx, nil) }

func c03UnknownCall(ctx erpc.UnknownCallCtx) (interface{}, *erpc.Status) {
	return []byte("u"), c03Behave(ctx, ctx.SetBodyCodec)
}
func c03UnknownPush(ctx erpc.UnknownPushCtx) *erpc.Status { return c03Behave(ctx, nil) }

// result sample per route kind (what the handler returns on success)
func c03Result(kind byte) interface{} {
	switch kind {
	case 'i':
		return 7
	case 's':
		return "s7"
	case 'u':
		return &C03UnmT{A: 1, F: func() {}}
	}
	return nil
}

func c03NewArg(kind byte) interface{} {
	switch kind {
	case 'i', 'u':
		return new(int)
	case 's':
		return new(string)
	}
	return nil
}

// the veto plugin: one scripted verdict per frame, keyed by the frame's seq.
type c03Plugin struct{}

func (c03Plugin) Name() string { return "c03veto" }

func c03Veto(seq int32, stage byte) *erpc.Status {
	s := c03Get(seq)
	if s == nil || len(s.veto) < 2 || s.veto[0] != stage {
		return nil
	}
	code, _ := strconv.ParseInt(s.veto[1:], 10, 32)
	return erpc.NewStatus(int32(code), "veto", "vc")
}

func (c03Plugin) PreReadHeader(erpc.PreCtx) error {
	c, _ := c03cur.Load().(*c03Cur)
	if c == nil {
		return nil
	}
	n := atomic.AddInt32(&c.reads, 1) - 1
	if n == c.vetoR {
		return fmt.Errorf("c03 refuse read %d", n)
	}
	return nil
}
func (c03Plugin) PostReadCallHeader(ctx erpc.ReadCtx) *erpc.Status { return c03Veto(ctx.Seq(), 'h') }
func (c03Plugin) PreReadCallBody(ctx erpc.ReadCtx) *erpc.Status    { return c03Veto(ctx.Seq(), 'b') }
func (c03Plugin) PostReadCallBody(ctx erpc.ReadCtx) *erpc.Status   { return c03Veto(ctx.Seq(), 'p') }
func (c03Plugin) PostReadPushHeader(ctx erpc.ReadCtx) *erpc.Status { return c03Veto(ctx.Seq(), 'h') }
func (c03Plugin) PreReadPushBody(ctx erpc.ReadCtx) *erpc.Status    { return c03Veto(ctx.Seq(), 'b') }
func (c03Plugin) PostReadPushBody(ctx erpc.ReadCtx) *erpc.Status   { return c03Veto(ctx.Seq(), 'p') }

// PostWriteReply panics for every third sequence number: a fault in a post-write hook comes after
// the one reply of the call is on the wire; the framework recovers it and must not answer again
// (observably nothing changes, so the model needs no input for it).
func (c03Plugin) PostWriteReply(ctx erpc.WriteCtx) *erpc.Status {
	if ctx.Output().Seq()%3 == 0 {
		var m map[string]int
		m["audit"]++ // nil map write
	}
	return nil
}

// route bank: kind, handler
type c03Route struct {
	kind byte
	fn   interface{}
	name string
}

var (
	c03Calls  = []*c03Route{{kind: 'i', fn: C03Int}, {kind: 's', fn: C03Str}, {kind: 'r', fn: C03Raw}, {kind: 'u', fn: C03Unm}}
	c03Pushes = []*c03Route{{kind: 'i', fn: C03Pint}, {kind: 'r', fn: C03Praw}}
	c03ProbeName string
	c03Regs      []byte
	c03Me        string
)

func c03NewServer(unk, unkp, age bool) erpc.Peer {
	cfg := erpc.PeerConfig{}
	if age {
		cfg.DefaultContextAge = c03Age
	}
	srv := erpc.NewPeer(cfg, c03Plugin{})
	for _, r := range c03Calls {
		r.name = srv.RouteCallFunc(r.fn)
	}
	for _, r := range c03Pushes {
		r.name = srv.RoutePushFunc(r.fn)
	}
	c03ProbeName = srv.RouteCallFunc(C03Probe)
	if unk {
		srv.SetUnknownCall(c03UnknownCall)
	}
	if unkp {
		srv.SetUnknownPush(c03UnknownPush)
	}
	return srv
}

func c03Setup() {
	if os.Getenv("C03_LOG") == "" {
		erpc.SetLoggerLevel("OFF")
	}
	srv := c03NewServer(false, false, false)
	srv.Close()
	c03Regs = nil
	for i := 0; i < 256; i++ {
		if _, err := codec.Get(byte(i)); err == nil {
			c03Regs = append(c03Regs, byte(i))
		}
	}
	var me []string
	for _, k := range []byte{'i', 's', 'u'} {
		for _, id := range c03Regs {
			cd, _ := codec.Get(id)
			func() {
				defer func() {
					if p := recover(); p != nil {
						me = append(me, fmt.Sprintf("%c.%d.%s", k, id, hx.Hex([]byte(fmt.Sprint("panic:", p)))))
					}
				}()
				if _, err := cd.Marshal(c03Result(k)); err != nil {
					me = append(me, fmt.Sprintf("%c.%d.%s", k, id, hx.Hex([]byte(err.Error()))))
				}
			}()
		}
	}
	c03Me = strings.Join(me, ",")
	if c03Me == "" {
		c03Me = "-"
	}
}

func c03RoutesField(rs []*c03Route) string {
	var p []string
	for _, r := range rs {
		p = append(p, hx.Hex([]byte(r.name))+":"+string(r.kind))
	}
	return strings.Join(p, ",")
}

func c03RegsField() string {
	var p []string
	for _, id := range c03Regs {
		p = append(p, strconv.Itoa(int(id)))
	}
	return strings.Join(p, ",")
}

// c03Derr runs the real body codec the way UnmarshalBody would for a registered non-raw route.
func c03Derr(rs []*c03Route, method []byte, cid byte, body []byte) string {
	if len(body) == 0 {
		return "ok"
	}
	for _, r := range rs {
		if r.name == string(method) && r.kind != 'r' {
			cd, err := codec.Get(cid)
			if err != nil {
				return "ok"
			}
			res := "ok"
			func() {
				defer func() {
					if p := recover(); p != nil {
						res = "e" + hx.Hex([]byte(fmt.Sprint("panic:", p)))
					}
				}()
				if err := cd.Unmarshal(body, c03NewArg(r.kind)); err != nil {
					res = "e" + hx.Hex([]byte(err.Error()))
				}
			}()
			return res
		}
	}
	return "ok"
}

func c03Line(unk, unkp, age bool, specs []*c03Spec) string {
	b2 := func(b bool) int {
		if b {
			return 1
		}
		return 0
	}
	var fs []string
	for _, s := range specs {
		fs = append(fs, s.String())
	}
	return fmt.Sprintf("c03 unk=%d unkp=%d age=%d regs=%s rt=%s pt=%s me=%s frames=%s", b2(unk), b2(unkp), b2(age),
		c03RegsField(), c03RoutesField(c03Calls), c03RoutesField(c03Pushes), c03Me, strings.Join(fs, ";"))
}

// ---- generation ---------------------------------------------------------------------------

func c03GenSpec(r *hx.R, seq int32, last bool, age bool, out *hx.Out) *c03Spec {
	s := &c03Spec{seq: seq, accept: "-", sc: "-", veto: "-", hb: 'r', derr: "ok"}
	// type byte: mostly CALL, some PUSH, REPLY, and (only as last frame of a case) others
	switch x := r.Intn(20); {
	case x < 11:
		s.mtype = 1
	case x < 15:
		s.mtype = 3
	case x < 16:
		s.mtype = 2
	default:
		if last {
			s.mtype = byte(r.Pick(0, 4, 5, 255, 6, 128, r.Intn(256)))
			if s.mtype >= 1 && s.mtype <= 3 {
				s.mtype = 4
			}
		} else {
			s.mtype = 1
		}
	}
	routes := c03Calls
	if s.mtype == 3 {
		routes = c03Pushes
	}
	rt := routes[r.Intn(len(routes))]
	kind := rt.kind
	// route: registered / near miss / empty / 255 bytes / other namespace
	switch x := r.Intn(12); {
	case x < 8:
		s.method = []byte(rt.name)
	case x == 8:
		s.method = []byte(rt.name + "x")
	case x == 9:
		s.method = nil
	case x == 10:
		s.method = r.Bytes(255, 1)
	default:
		if s.mtype == 3 {
			s.method = []byte(c03Calls[0].name)
		} else {
			s.method = []byte(c03Pushes[0].name)
		}
	}
	// codec: json mostly; plain; 0; unregistered; protobuf
	s.codec = byte(r.Pick(106, 106, 106, 106, 115, 0, 200, 112, 102))
	// body
	switch kind {
	case 'i', 'u':
		s.body = [][]byte{[]byte("123"), []byte("-5"), []byte("abc"), []byte(`"x"`), nil, []byte("12"), []byte("{"), []byte("1.5")}[r.Intn(8)]
	case 's':
		s.body = [][]byte{[]byte(`"abc"`), []byte(`""`), []byte("12"), nil, []byte(`"a`), []byte(`"tok` + strconv.Itoa(int(seq)) + `"`)}[r.Intn(6)]
	default:
		s.body = r.AnyBytes(r.Pick(0, 1, 3, 40))
	}
	if r.Intn(5) == 0 {
		s.accept = strconv.Itoa(r.Pick(106, 0, 200, 115, 106))
	}
	// handler behaviour
	switch x := r.Intn(10); {
	case x < 5:
		s.hb = 'r'
	case x < 8:
		s.hb = 'f'
		s.hcode = int32(r.Pick(1, -1, 102, 404, 405, 500, 2147483647, -2147483648, int(int32(r.Uint32()))))
		if s.hcode == 0 {
			s.hcode = 9
		}
		s.hmsg = r.AnyBytes(r.Pick(0, 1, 5, 30))
		if r.Intn(2) == 0 {
			s.hasCause = true
			s.hcause = r.AnyBytes(r.Pick(0, 1, 5, 30))
		}
	default:
		s.hb = 'p'
		s.hmsg = r.Bytes(r.Pick(0, 1, 8), 1)
	}
	if r.Intn(8) == 0 {
		s.sc = strconv.Itoa(r.Pick(106, 0, 115, 200))
	}
	if age && r.Intn(2) == 0 {
		s.slow = true
	}
	if r.Intn(6) == 0 {
		code := r.Pick(1001, 1, -7, 404, 500, 0)
		if last && r.Intn(4) == 0 {
			code = 405
		}
		s.veto = string("hbp"[r.Intn(3)]) + strconv.Itoa(code)
	}
	for i := r.Intn(3); i > 0; i-- {
		s.meta = append(s.meta, [2][]byte{r.Bytes(1+r.Intn(4), 1), r.AnyBytes(r.Intn(6))})
	}
	if s.accept != "-" {
		s.meta = append(s.meta, [2][]byte{[]byte(erpc.MetaAcceptBodyCodec), []byte(s.accept)})
	}
	s.derr = c03Derr(routes, s.method, s.codec, s.body)
	return s
}

func c03Fixed() []string {
	mk := func(unk, unkp, age bool, specs ...*c03Spec) string {
		for _, s := range specs {
			rs := c03Calls
			if s.mtype == 3 {
				rs = c03Pushes
			}
			s.derr = c03Derr(rs, s.method, s.codec, s.body)
		}
		return c03Line(unk, unkp, age, specs)
	}
	base := func(mtype byte, seq int32, method string, cid byte, body string) *c03Spec {
		return &c03Spec{mtype: mtype, seq: seq, method: []byte(method), codec: cid, body: []byte(body), accept: "-", sc: "-", veto: "-", hb: 'r', derr: "ok"}
	}
	var out []string
	in, st, raw, unm := c03Calls[0].name, c03Calls[1].name, c03Calls[2].name, c03Calls[3].name
	pi := c03Pushes[0].name
	// happy call, unknown route, empty method, bad body, body with codec id 0 (disconnect)
	out = append(out, mk(false, false, false, base(1, 1, in, 106, "123")))
	out = append(out, mk(false, false, false, base(1, 2, in+"x", 106, "123")))
	out = append(out, mk(true, false, false, base(1, 3, in+"x", 106, "123")))
	out = append(out, mk(false, false, false, base(1, 4, "", 106, "123")))
	out = append(out, mk(false, false, false, base(1, 5, in, 106, "abc")))
	out = append(out, mk(false, false, false, base(1, 6, in, 0, "123")))
	out = append(out, mk(false, false, false, base(1, 7, in, 200, "123")))
	out = append(out, mk(false, false, false, base(1, 8, in, 200, "")))
	out = append(out, mk(false, false, false, base(1, 9, in, 0, "")))
	// reply that cannot be marshalled: double-write path
	out = append(out, mk(false, false, false, base(1, 10, unm, 106, "1")))
	// panic, failing status
	p := base(1, 11, st, 106, `"a"`)
	p.hb, p.hmsg = 'p', []byte("boom")
	out = append(out, mk(false, false, false, p))
	f := base(1, 12, raw, 106, "zz")
	f.hb, f.hcode, f.hmsg, f.hasCause, f.hcause = 'f', -2147483648, []byte("m&=%"), true, []byte{}
	out = append(out, mk(false, false, false, f))
	// pushes
	out = append(out, mk(false, false, false, base(3, 13, pi, 106, "5")))
	out = append(out, mk(false, true, false, base(3, 14, pi+"x", 106, "5")))
	out = append(out, mk(false, false, false, base(3, 15, pi, 106, "zz")))
	// unsupported types
	for i, t := range []byte{0, 4, 5, 255} {
		out = append(out, mk(false, false, false, base(1, 20+int32(i), in, 106, "1"), base(t, 30+int32(i), in, 106, "1")))
	}
	// a veto carrying 405
	v := base(1, 40, in, 106, "1")
	v.veto = "h405"
	out = append(out, mk(false, false, false, v))
	// refused read
	r0 := base(1, 41, in, 106, "1")
	r1 := base(1, 42, in, 106, "1")
	r1.veto = "r"
	out = append(out, mk(false, false, false, r0, r1))
	// context age expired while the handler ran: ok, failing and panicking handler
	for i, hb := range []byte{'r', 'f', 'p'} {
		a := base(1, 50+int32(i), in, 106, "1")
		a.slow, a.hb, a.hcode, a.hmsg = true, hb, 408, []byte("Handle Timeout")
		out = append(out, mk(false, false, true, a))
	}
	out = append(out, mk(false, false, true, base(1, 60, in, 106, "1")))
	return out
}

func c03Gen(r *hx.R, tier string, out *hx.Out) []string {
	lines := c03Fixed()
	n := 420
	if tier == "thorough" {
		n = 4000
	}
	for i := 0; i < n; i++ {
		unk, unkp := r.Intn(4) == 0, r.Intn(4) == 0
		age := r.Intn(14) == 0
		k := r.Pick(1, 1, 2, 3, 4)
		var specs []*c03Spec
		seq0 := int32(r.Pick(1, 100, 2147400000, -2147483648, int(int32(r.Uint32()>>1))))
		vr := -1
		if r.Intn(25) == 0 {
			vr = r.Intn(k)
		}
		for j := 0; j < k; j++ {
			s := c03GenSpec(r, seq0+int32(j), j == k-1, age, out)
			if s.seq == c03ProbeSeq {
				s.seq++
			}
			if j == vr {
				s.veto = "r"
			}
			specs = append(specs, s)
		}
		lines = append(lines, c03Line(unk, unkp, age, specs))
	}
	return lines
}

// ---- run --------------------------------------------------------------------------------------

type c03Rep struct {
	code          int32
	msg, cause    []byte
	hasCause      bool
	codec         byte
	hasBody       bool
}

func (p c03Rep) String() string {
	c := "nil"
	if p.hasCause {
		c = hx.Hex(p.cause)
	}
	b := 0
	if p.hasBody {
		b = 1
	}
	return fmt.Sprintf("%d,%s,%s,%d,%d", p.code, hx.Hex(p.msg), c, p.codec, b)
}

func c03Run(line string, out *hx.Out) (obs string, nontrivial bool) {
	defer func() {
		if p := recover(); p != nil {
			obs = fmt.Sprint("harness-panic:", p)
		}
	}()
	t0 := time.Now()
	var t1, t2, t3 time.Time
	defer func() {
		if os.Getenv("C03_PROF") != "" {
			fmt.Fprintf(os.Stderr, "prof serve+send+probe=%v settle=%v close+drain=%v\n", t1.Sub(t0), t2.Sub(t1), t3.Sub(t2))
		}
	}()
	_, f := hx.Fields(line)
	var specs []*c03Spec
	for _, t := range strings.Split(f["frames"], ";") {
		s, err := c03ParseSpec(t)
		if err != nil {
			return "bad-case", false
		}
		specs = append(specs, s)
	}
	cur := &c03Cur{specs: map[int32]*c03Spec{}, vetoR: -1}
	for i, s := range specs {
		cur.specs[s.seq] = s
		if s.veto == "r" && cur.vetoR < 0 {
			cur.vetoR = int32(i)
		}
	}
	age := f["age"] == "1"
	srv := c03NewServer(f["unk"] == "1", f["unkp"] == "1", age)
	defer srv.Close()
	c03cur.Store(cur)
	defer c03cur.Store((*c03Cur)(nil))

	ca, cb := mem.Pair("")
	var sess erpc.Session
	served := make(chan struct{})
	go func() {
		defer close(served)
		sess, _ = srv.ServeConn(cb)
	}()
	select {
	case <-served:
	case <-time.After(5 * time.Second):
		return "hang:serve", false
	}
	if sess == nil {
		return "no-session", false
	}
	rp := newRawPeer(ca, socket.DefaultProtoFunc())

	// reader: collects every frame the server writes until EOF
	type got struct {
		m   *M
		err error
	}
	frames := make(chan got, 64)
	go func() {
		for {
			m, err := rp.Recv()
			frames <- got{m, err}
			if err != nil {
				return
			}
		}
	}()

	special := false
	for _, s := range specs {
		m := &M{Seq: s.seq, Mtype: s.mtype, Method: s.method, Codec: s.codec, Body: s.body, Meta: s.meta}
		if err := rp.Send(m); err != nil {
			out.Count("send-error")
		}
		if s.mtype < 1 || s.mtype > 3 || strings.HasSuffix(s.veto, "405") && len(s.veto) == 4 {
			special = true
		}
	}
	rp.Send(&M{Seq: c03ProbeSeq, Mtype: 1, Method: []byte(c03ProbeName), Codec: 106, Body: []byte("q")})

	reps := map[int32][]c03Rep{}
	var order []int32
	record := func(m *M) {
		if m.Seq == c03ProbeSeq {
			return
		}
		if _, ok := reps[m.Seq]; !ok {
			order = append(order, m.Seq)
		}
		reps[m.Seq] = append(reps[m.Seq], c03Rep{m.Code, m.Msg, m.Cause, m.HasCause, m.Codec, len(m.Body) > 0})
		if m.Mtype != 2 {
			out.Violate(line, "reply-type", fmt.Sprintf("server wrote a frame of type %d", m.Mtype), "c03:non-reply-frame")
		}
	}
	// phase 1: until the probe is answered or the server hangs up
	eof, probed := false, false
	deadline := time.After(6 * time.Second)
	for !eof && !probed {
		select {
		case g := <-frames:
			if g.err != nil {
				eof = true
			} else if g.m.Seq == c03ProbeSeq {
				probed = true
			} else {
				record(g.m)
			}
		case <-deadline:
			out.Violate(line, "liveness", "neither the probe reply nor a disconnect within 6 s", "c03:hang")
			ca.Close()
			return "hang", true
		}
	}
	t1 = time.Now()
	// phase 2: did the server hang up by itself? (asynchronous Close after an unsupported type)
	disc := eof
	if !disc {
		settle := 12 * time.Millisecond
		if special {
			settle = 600 * time.Millisecond
		}
		disc = waitUntil(settle, func() bool { return !sess.Health() })
	}
	t2 = time.Now()
	// phase 3: graceful close waits for every running handler, then drain
	closed := make(chan struct{})
	go func() { sess.Close(); close(closed) }()
	select {
	case <-closed:
	case <-time.After(6 * time.Second):
		out.Violate(line, "liveness", "session Close did not return within 6 s", "c03:close-hang")
		ca.Close()
		return "hang:close", true
	}
	for !eof {
		select {
		case g := <-frames:
			if g.err != nil {
				eof = true
				if g.err != io.EOF && g.err != io.ErrUnexpectedEOF {
					out.Count("drain-error")
				}
			} else {
				record(g.m)
			}
		case <-time.After(3 * time.Second):
			eof = true
			out.Count("drain-timeout")
		}
	}
	ca.Close()
	t3 = time.Now()

	// observation + oracle
	var parts []string
	known := map[int32]bool{}
	for _, s := range specs {
		known[s.seq] = true
		inv := atomic.LoadInt32(&s.inv)
		rl := reps[s.seq]
		p := fmt.Sprintf("i%dr%d", inv, len(rl))
		for _, x := range rl {
			p += "=" + x.String()
		}
		parts = append(parts, p)
		cls := "other"
		switch s.mtype {
		case 1:
			cls = "call"
		case 2:
			cls = "reply"
		case 3:
			cls = "push"
		}
		out.Count("type:" + cls)
		out.Count(fmt.Sprintf("replies:%s:%d", cls, len(rl)))
		if inv > 1 {
			out.Violate(line, "at-most-one-invocation", fmt.Sprintf("seq %d: handler ran %d times", s.seq, inv), "c03:double-invocation")
		}
		switch {
		case s.mtype == 1:
			if len(rl) > 1 {
				out.Violate(line, "exactly-one-reply", fmt.Sprintf("seq %d: %d replies", s.seq, len(rl)), "c03:double-reply")
			}
			if len(rl) == 0 && !disc {
				sig := "c03:call-dropped"
				if age && s.slow {
					sig = "c03:call-dropped:context-age-expired"
				}
				out.Violate(line, "exactly-one-reply", fmt.Sprintf("seq %d: CALL got no reply and the connection stayed up (invocations=%d)", s.seq, inv), sig)
			}
		case s.mtype == 3:
			if len(rl) > 0 {
				out.Violate(line, "push-never-replied", fmt.Sprintf("seq %d: %d replies to a PUSH", s.seq, len(rl)), "c03:push-replied")
			}
		case s.mtype == 2:
			if len(rl) > 0 || inv > 0 {
				out.Violate(line, "reply-not-handled", fmt.Sprintf("seq %d: stray REPLY answered", s.seq), "c03:reply-replied")
			}
		default:
			if !disc {
				out.Violate(line, "unsupported-type-disconnects", fmt.Sprintf("type %d did not disconnect", s.mtype), "c03:bad-type-not-disconnected")
			}
			if len(rl) > 0 || inv > 0 {
				out.Violate(line, "unsupported-type-disconnects", fmt.Sprintf("type %d was handled (inv=%d replies=%d)", s.mtype, inv, len(rl)), "c03:bad-type-handled")
			}
		}
		if s.veto != "-" {
			out.Count("veto:" + s.veto[:1])
		}
		out.Count("hb:" + string(s.hb))
		if s.derr != "ok" {
			out.Count("body:undecodable")
		}
	}
	var stray []string
	for _, q := range order {
		if !known[q] {
			stray = append(stray, strconv.Itoa(int(q)))
		}
	}
	if len(stray) > 0 {
		sort.Strings(stray)
		out.Violate(line, "reply-seq", "replies with a seq nobody asked for: "+strings.Join(stray, ","), "c03:stray-reply")
	}
	d := 0
	if disc {
		d = 1
		out.Count("disconnected")
	}
	return strings.Join(parts, ";") + fmt.Sprintf(" disc=%d", d), true
}
