package main

import (
	"context"
	"fmt"
	"strconv"
	"strings"
	"sync/atomic"
	"time"

	erpc "github.com/henrylee2cn/erpc/v6"
	"github.com/henrylee2cn/erpc/v6/socket"

	"verif/harness/internal/hx"
	"verif/harness/internal/mem"
)

// C03, faults INSIDE the reply write (kind `xc03wp`, the property's own oracle, no model): a handler
// returns a result whose encoding panics (a MarshalJSON / String-like method that dereferences nil),
// so the panic is raised below session.write, inside socket.WriteMessage, with the session's write
// lock held. The property still demands exactly one REPLY for that CALL (the recover path's 500),
// at most one handler invocation, and - the connection staying up - one REPLY for every LATER call
// on the same session. Seed C03-D released the write lock without `defer`: the panic left it held,
// the recover path's own reply blocked for ever and every later CALL went unanswered.
//
//	xc03wp pos=<k> n=<calls> codec=<106|120> push=<0|1>
//
// n CALLs on one connection (raw scripted client), the k-th to the panicking route, the others to an
// echo route; optionally a PUSH to a route whose... (pushes have no reply; it only has to run once).

type C03xBad struct{ P *int }

// MarshalJSON panics (nil dereference) - reached from codec.Marshal inside Message.MarshalBody inside
// the protocol's Pack inside socket.WriteMessage.
func (b *C03xBad) MarshalJSON() ([]byte, error) { return []byte(strconv.Itoa(*b.P)), nil }

// MarshalXML likewise, for the XML codec (120 = 'x').
func (b *C03xBad) String() string { return strconv.Itoa(*b.P) }

var c03xInv [16]int32

func C03xBadR(ctx erpc.CallCtx, arg *int) (*C03xBad, *erpc.Status) {
	atomic.AddInt32(&c03xInv[ctx.Seq()&15], 1)
	return &C03xBad{}, nil
}
func C03xEcho(ctx erpc.CallCtx, arg *int) (int, *erpc.Status) {
	atomic.AddInt32(&c03xInv[ctx.Seq()&15], 1)
	return *arg + 1, nil
}
func C03xPush(ctx erpc.PushCtx, arg *int) *erpc.Status {
	atomic.AddInt32(&c03xInv[ctx.Seq()&15], 1)
	return nil
}

func init() {
	p := props["c03"]
	g, r := p.Gen, p.Run
	p.Gen = func(rr *hx.R, tier string, out *hx.Out) []string {
		ls := g(rr, tier, out)
		n := 6
		if tier == "thorough" {
			n = 40
		}
		for i := 0; i < n; i++ {
			k := 2 + rr.Intn(4)
			ls = append(ls, fmt.Sprintf("xc03wp pos=%d n=%d push=%d", 1+rr.Intn(k), k, rr.Intn(2)))
		}
		return ls
	}
	p.Run = func(line string, out *hx.Out) (string, bool) {
		if strings.HasPrefix(line, "xc03wp ") {
			return c03xRun(line, out)
		}
		if strings.HasPrefix(line, "xc03dl ") {
			return c03dlRun(line, out)
		}
		return r(line, out)
	}
	g2 := p.Gen
	p.Gen = func(rr *hx.R, tier string, out *hx.Out) []string {
		ls := g2(rr, tier, out)
		n := 3
		if tier == "thorough" {
			n = 12
		}
		for i := 0; i < n; i++ {
			ls = append(ls, fmt.Sprintf("xc03dl how=%s dl=%d calls=%d", []string{"push", "call"}[rr.Intn(2)], rr.Pick(2, 5, 10), 1+rr.Intn(3)))
		}
		return ls
	}
}

// xc03dl: state left on the CONNECTION by an earlier outgoing message. The serving side first sends a
// message of its own with a per-message context deadline (sess.Push / sess.AsyncCall with
// erpc.WithContext(ctxWithTimeout) - the write deadline of that message is put on the socket), the
// deadline passes, then CALLs arrive: each must be answered exactly once (the connection is fine; a
// write deadline is per message, not per connection). Seed C03-E skipped SetWriteDeadline for
// messages without a deadline, so the stale one stayed in force: every later reply write timed out,
// the fallback 500 too, the CALL was handled and never answered on a connection that stays up.
//
//	xc03dl how=push|call dl=<ms> calls=<n>
func c03dlRun(line string, out *hx.Out) (obs string, nontrivial bool) {
	defer func() {
		if p := recover(); p != nil {
			obs = fmt.Sprint("harness-panic:", p)
		}
	}()
	_, f := hx.Fields(line)
	dl, _ := strconv.Atoi(f["dl"])
	n, _ := strconv.Atoi(f["calls"])
	if dl < 1 || dl > 100 || n < 1 || n > 8 {
		return "bad-case", false
	}
	for i := range c03xInv {
		atomic.StoreInt32(&c03xInv[i], 0)
	}
	srv := erpc.NewPeer(erpc.PeerConfig{})
	defer func() {
		closed := make(chan struct{})
		go func() { srv.Close(); close(closed) }()
		select {
		case <-closed:
		case <-time.After(2 * time.Second):
		}
	}()
	echo := srv.RouteCallFunc(C03xEcho)
	ca, cb := mem.Pair("")
	var sess erpc.Session
	served := make(chan struct{})
	go func() { defer close(served); sess, _ = srv.ServeConn(cb) }()
	select {
	case <-served:
	case <-time.After(5 * time.Second):
		return "hang:serve", false
	}
	if sess == nil {
		return "no-session", false
	}
	rp := newRawPeer(ca, socket.DefaultProtoFunc())
	type got struct {
		m   *M
		err error
	}
	frames := make(chan got, 64)
	go func() {
		for {
			m, err := rp.Recv()
			frames <- got{m, err}
			if err != nil {
				return
			}
		}
	}()
	// 1. the server's own message with a deadline
	ctx, cancel := context.WithTimeout(context.Background(), time.Duration(dl)*time.Millisecond)
	defer cancel()
	if f["how"] == "push" {
		sess.Push("/c03dl/note", []byte("n"), erpc.WithContext(ctx))
	} else {
		sess.AsyncCall("/c03dl/ask", []byte("q"), new([]byte), make(chan erpc.CallCmd, 1), erpc.WithContext(ctx))
	}
	// 2. the deadline passes
	time.Sleep(time.Duration(dl)*time.Millisecond + 3*time.Millisecond)
	// 3. CALLs
	replies := map[int32]int{}
	eof := false
	for i := 1; i <= n && !eof; i++ {
		rp.Send(&M{Seq: int32(i), Mtype: 1, Method: []byte(echo), Codec: 106, Body: []byte("41")})
		deadline := time.After(2 * time.Second)
	wait:
		for replies[int32(i)] == 0 && !eof {
			select {
			case g := <-frames:
				if g.err != nil {
					eof = true
				} else if g.m.Mtype == 2 {
					replies[g.m.Seq]++
				}
			case <-deadline:
				break wait
			}
		}
	}
	out.Count("xc03dl:" + f["how"])
	for i := 1; i <= n; i++ {
		if replies[int32(i)] != 1 && !eof {
			out.Violate(line, "never-silently-dropped",
				fmt.Sprintf("CALL %d of %d, received after a server-side %s with a %d ms context deadline had been sent and that deadline had passed: handler ran %d time(s), %d REPLY frames, the connection stays up", i, n, f["how"], dl, atomic.LoadInt32(&c03xInv[i&15]), replies[int32(i)]),
				"c03:call-dropped:stale-write-deadline")
		}
	}
	ca.Close()
	return "oracle-only", true
}

func c03xRun(line string, out *hx.Out) (obs string, nontrivial bool) {
	defer func() {
		if p := recover(); p != nil {
			obs = fmt.Sprint("harness-panic:", p)
		}
	}()
	_, f := hx.Fields(line)
	pos, _ := strconv.Atoi(f["pos"])
	n, _ := strconv.Atoi(f["n"])
	if n < 1 || n > 12 || pos < 1 || pos > n {
		return "bad-case", false
	}
	for i := range c03xInv {
		atomic.StoreInt32(&c03xInv[i], 0)
	}
	srv := erpc.NewPeer(erpc.PeerConfig{})
	defer func() {
		// a session wedged by the fault must not wedge the harness: Close in the background
		closed := make(chan struct{})
		go func() { srv.Close(); close(closed) }()
		select {
		case <-closed:
		case <-time.After(2 * time.Second):
			out.Count("xc03wp:peer-close-stuck")
		}
	}()
	bad := srv.RouteCallFunc(C03xBadR)
	echo := srv.RouteCallFunc(C03xEcho)
	push := srv.RoutePushFunc(C03xPush)
	ca, cb := mem.Pair("")
	var sess erpc.Session
	served := make(chan struct{})
	go func() { defer close(served); sess, _ = srv.ServeConn(cb) }()
	select {
	case <-served:
	case <-time.After(5 * time.Second):
		return "hang:serve", false
	}
	if sess == nil {
		return "no-session", false
	}
	rp := newRawPeer(ca, socket.DefaultProtoFunc())
	type got struct {
		m   *M
		err error
	}
	frames := make(chan got, 64)
	go func() {
		for {
			m, err := rp.Recv()
			frames <- got{m, err}
			if err != nil {
				return
			}
		}
	}()
	// the calls are sent one after the other, each only after the previous one was answered (or given
	// up on), so "later call on the same session" is literal
	replies := map[int32][]int32{}
	eof := false
	await := func(seq int32, d time.Duration) bool {
		deadline := time.After(d)
		for {
			if len(replies[seq]) > 0 {
				return true
			}
			select {
			case g := <-frames:
				if g.err != nil {
					eof = true
					return false
				}
				if g.m.Mtype != 2 {
					out.Violate(line, "reply-type", fmt.Sprintf("server wrote a frame of type %d", g.m.Mtype), "c03:non-reply-frame")
				}
				replies[g.m.Seq] = append(replies[g.m.Seq], g.m.Code)
			case <-deadline:
				return false
			}
		}
	}
	for i := 1; i <= n && !eof; i++ {
		method := echo
		if i == pos {
			method = bad
		}
		rp.Send(&M{Seq: int32(i), Mtype: 1, Method: []byte(method), Codec: 106, Body: []byte("41")})
		await(int32(i), 2*time.Second)
		if f["push"] == "1" && i == pos {
			rp.Send(&M{Seq: 15, Mtype: 3, Method: []byte(push), Codec: 106, Body: []byte("1")})
		}
	}
	// settle: late or duplicate replies
	t := time.After(30 * time.Millisecond)
settle:
	for !eof {
		select {
		case g := <-frames:
			if g.err != nil {
				eof = true
			} else {
				replies[g.m.Seq] = append(replies[g.m.Seq], g.m.Code)
			}
		case <-t:
			break settle
		}
	}
	out.Count("xc03wp")
	if eof {
		out.Count("xc03wp:disconnected")
	}
	for i := 1; i <= n; i++ {
		inv := atomic.LoadInt32(&c03xInv[i&15])
		rs := replies[int32(i)]
		if inv > 1 {
			out.Violate(line, "at-most-once", fmt.Sprintf("CALL %d: handler ran %d times", i, inv), "c03:double-invocation")
		}
		if len(rs) > 1 {
			out.Violate(line, "answered-exactly-once", fmt.Sprintf("CALL %d answered %d times %v", i, len(rs), rs), "c03:answered-twice")
		}
		if len(rs) == 0 && !eof {
			out.Violate(line, "never-silently-dropped",
				fmt.Sprintf("CALL %d of %d (the result of CALL %d panics while the reply is being encoded): handler ran %d time(s), no REPLY, and the connection stays up", i, n, pos, inv),
				"c03:call-dropped:panic-inside-reply-write")
		}
		if len(rs) == 1 {
			want := int32(0)
			if i == pos {
				want = erpc.CodeInternalServerError
			}
			if rs[0] != want {
				out.Violate(line, "reply-status", fmt.Sprintf("CALL %d answered with code %d, want %d", i, rs[0], want), "c03:write-panic-reply-status")
			}
		}
	}
	if f["push"] == "1" && !eof {
		if inv := atomic.LoadInt32(&c03xInv[15]); inv != 1 {
			out.Violate(line, "push-at-most-once", fmt.Sprintf("PUSH after the faulty call: handler ran %d times", inv), "c03:push-after-write-panic")
		}
	}
	ca.Close()
	return "oracle-only", true
}
