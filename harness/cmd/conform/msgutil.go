package main

import (
	"bytes"
	"fmt"
	"io"
	"strconv"
	"strings"

	"github.com/henrylee2cn/erpc/v6/socket"
	"github.com/henrylee2cn/goutil/status"

	"verif/harness/internal/hx"
)

// M is the harness-side description of a message (the same fields as the Lean `Msg`).
type M struct {
	Seq      int32
	Mtype    byte
	Method   []byte
	Code     int32
	Msg      []byte
	Cause    []byte
	HasCause bool
	Meta     [][2][]byte
	Codec    byte
	Body     []byte
	Pipe     []byte
	Size     uint32
}

func (m *M) Line() string {
	cause := "nil"
	if m.HasCause {
		cause = hx.Hex(m.Cause)
	}
	return fmt.Sprintf("seq=%d mtype=%d method=%s code=%d msg=%s cause=%s meta=%s codec=%d body=%s pipe=%s",
		m.Seq, m.Mtype, hx.Hex(m.Method), m.Code, hx.Hex(m.Msg), cause, hx.KVs(m.Meta), m.Codec, hx.Hex(m.Body), hx.Hex(m.Pipe))
}

func (m *M) Show() string { return m.Line() + fmt.Sprintf(" size=%d", m.Size) }

func parseM(f map[string]string) *M {
	m := &M{}
	seq, _ := strconv.ParseInt(f["seq"], 10, 64)
	m.Seq = int32(seq)
	mt, _ := strconv.Atoi(f["mtype"])
	m.Mtype = byte(mt)
	m.Method = hx.UnHex(f["method"])
	code, _ := strconv.ParseInt(f["code"], 10, 64)
	m.Code = int32(code)
	m.Msg = hx.UnHex(f["msg"])
	if f["cause"] != "nil" {
		m.HasCause = true
		m.Cause = hx.UnHex(f["cause"])
	}
	m.Meta = hx.ParseKVs(f["meta"])
	c, _ := strconv.Atoi(f["codec"])
	m.Codec = byte(c)
	m.Body = hx.UnHex(f["body"])
	m.Pipe = hx.UnHex(f["pipe"])
	return m
}

type strErr string

func (e strErr) Error() string { return string(e) }

// toMessage builds a real socket.Message from M. The pipe may refer to unregistered ids or be
// too long; that error is returned.
func (m *M) toMessage() (socket.Message, error) {
	msg := socket.NewMessage()
	msg.SetSeq(m.Seq)
	msg.SetMtype(m.Mtype)
	msg.SetServiceMethod(string(m.Method))
	if m.Code != 0 || len(m.Msg) > 0 || m.HasCause {
		var st *status.Status
		if m.HasCause {
			st = status.New(m.Code, string(m.Msg), strErr(m.Cause))
		} else {
			st = status.New(m.Code, string(m.Msg))
		}
		msg.SetStatus(st)
	}
	for _, kv := range m.Meta {
		msg.Meta().AddBytesKV(kv[0], kv[1])
	}
	msg.SetBodyCodec(m.Codec)
	if m.Body != nil {
		msg.SetBody(append([]byte(nil), m.Body...))
	}
	if err := msg.XferPipe().Append(m.Pipe...); err != nil {
		return nil, err
	}
	return msg, nil
}

// unq decodes the %XX quoting produced by EncodeQuery (never contains '+').
func unq(s string) []byte {
	var o []byte
	for i := 0; i < len(s); i++ {
		if s[i] == '%' && i+2 < len(s) {
			v, err := strconv.ParseUint(s[i+1:i+3], 16, 8)
			if err == nil {
				o = append(o, byte(v))
				i += 2
				continue
			}
		}
		o = append(o, s[i])
	}
	return o
}

// fromMessage reads every observable header/body field back from a real message.
func fromMessage(msg socket.Message) *M {
	m := &M{Seq: msg.Seq(), Mtype: msg.Mtype(), Method: []byte(msg.ServiceMethod()), Codec: msg.BodyCodec(), Size: msg.Size()}
	if st := msg.Status(); st != nil {
		for _, part := range strings.Split(string(st.EncodeQuery()), "&") {
			switch {
			case strings.HasPrefix(part, "code="):
				c, _ := strconv.ParseInt(part[5:], 10, 64)
				m.Code = int32(c)
			case strings.HasPrefix(part, "msg="):
				m.Msg = unq(part[4:])
			case strings.HasPrefix(part, "cause="):
				m.HasCause = true
				m.Cause = unq(part[6:])
			}
		}
	}
	msg.Meta().VisitAll(func(k, v []byte) {
		m.Meta = append(m.Meta, [2][]byte{append([]byte(nil), k...), append([]byte(nil), v...)})
	})
	switch b := msg.Body().(type) {
	case *[]byte:
		if b != nil {
			m.Body = append([]byte(nil), *b...)
		}
	case []byte:
		m.Body = append([]byte(nil), b...)
	}
	m.Pipe = msg.XferPipe().IDs()
	return m
}

func sameM(a, b *M, withSize bool) string {
	x, y := a.Line(), b.Line()
	if withSize {
		x, y = a.Show(), b.Show()
	}
	if x == y {
		return ""
	}
	return "want " + x + " got " + y
}

// chunkReader delivers data in chunks whose sizes derive from a seed; it records the largest
// buffer a caller asked it to fill and counts reads.
type chunkReader struct {
	data    []byte
	pos     int
	r       *hx.R
	mode    int // 0 whole, 1 one byte, 2 random small, 3 prime 7
	MaxAsk  int
	Reads   int
	written bytes.Buffer
	Writes  int
}

func newChunkReader(data []byte, mode int, seed int64) *chunkReader {
	return &chunkReader{data: data, mode: mode, r: hx.NewR(seed)}
}

func (c *chunkReader) Read(p []byte) (int, error) {
	c.Reads++
	if len(p) > c.MaxAsk {
		c.MaxAsk = len(p)
	}
	if c.pos >= len(c.data) {
		return 0, io.EOF
	}
	if len(p) == 0 {
		return 0, nil
	}
	n := len(p)
	switch c.mode {
	case 1:
		n = 1
	case 2:
		n = 1 + c.r.Intn(9)
	case 3:
		n = 7
	}
	if n > len(p) {
		n = len(p)
	}
	if n > len(c.data)-c.pos {
		n = len(c.data) - c.pos
	}
	copy(p, c.data[c.pos:c.pos+n])
	c.pos += n
	return n, nil
}

func (c *chunkReader) Write(p []byte) (int, error) {
	c.Writes++
	return c.written.Write(p)
}

func (c *chunkReader) Rest() int { return len(c.data) - c.pos }
