package main

// C18 — overload plugin (plugin/overloader) on a real in-process peer.
//
// Case kinds (see Drv/C18.lean for the model side):
//
//	c18conn init=N ops=c,c,d0,x1,y0,z0,u3,...   connection history, replayed sequentially
//	c18qps  conf=L:ivl:h0:h1 ops=c0,p1,t,tt,t0,uL:ivl:h0:h1,...   call/push/tick history
//	c18stressconn lim=N g=G it=I                concurrent connect/close, oracle only
//	c18stressqps  lim=L g=G ticks=T             concurrent take vs. ticker, oracle only
//
// The refill of the token buckets is driven by a time.Ticker inside the plugin and cannot be
// injected. The harness stops that ticker right after it is created and sends the ticks itself on
// the ticker's own channel, so the plugin's own goroutine (startTicker → updateToken) does every
// refill, at the moments the case line says. Counters are read (never written) through reflect.

import (
	"fmt"
	"net"
	"reflect"
	"regexp"
	"runtime"
	"strconv"
	"strings"
	"sync"
	"sync/atomic"
	"time"
	"unsafe"

	erpc "github.com/henrylee2cn/erpc/v6"
	"github.com/henrylee2cn/erpc/v6/plugin/overloader"

	"verif/harness/internal/hx"
	"verif/harness/internal/mem"
)

func init() {
	props["c18"] = &Prop{Setup: func() { erpc.SetLoggerLevel("OFF") }, Gen: c18Gen, Run: c18Run}
}

// ---- handlers and recorder plugin -------------------------------------------------------

var c18CallRan, c18PushRan int64

// C18_Ovl (root) and Ovl (under sub-route /c18) map to the same service methods /c18/ovl/{a,b,c}, so a
// handler limit on a method covers its CALL and its PUSH route, as the plugin keys buckets by name.
type C18_Ovl struct{ erpc.CallCtx }

func (p *C18_Ovl) A(arg *int) (int, *erpc.Status) {
	atomic.AddInt64(&c18CallRan, 1)
	return *arg + 1, nil
}
func (p *C18_Ovl) B(arg *int) (int, *erpc.Status) {
	atomic.AddInt64(&c18CallRan, 1)
	return *arg + 1, nil
}
func (p *C18_Ovl) C(arg *int) (int, *erpc.Status) {
	atomic.AddInt64(&c18CallRan, 1)
	return *arg + 1, nil
}

type Ovl struct{ erpc.PushCtx }

func (p *Ovl) A(arg *int) *erpc.Status { atomic.AddInt64(&c18PushRan, 1); return nil }
func (p *Ovl) B(arg *int) *erpc.Status { atomic.AddInt64(&c18PushRan, 1); return nil }
func (p *Ovl) C(arg *int) *erpc.Status { atomic.AddInt64(&c18PushRan, 1); return nil }

// c18Rec is registered after the overloader: its header hooks run only when the overloader said OK,
// its disconnect hook runs after the overloader's (same loop, same goroutine).
type c18Rec struct {
	mu      sync.Mutex
	disc    map[interface{}]int // by session object (addresses may be shared)
	pushOK  int64
	callOK  int64
	discAll int64
}

func (r *c18Rec) Name() string { return "c18rec" }
func (r *c18Rec) PostReadCallHeader(erpc.ReadCtx) *erpc.Status {
	atomic.AddInt64(&r.callOK, 1)
	return nil
}
func (r *c18Rec) PostReadPushHeader(erpc.ReadCtx) *erpc.Status {
	atomic.AddInt64(&r.pushOK, 1)
	return nil
}
func (r *c18Rec) PostDisconnect(s erpc.BaseSession) *erpc.Status {
	r.mu.Lock()
	r.disc[s]++
	r.mu.Unlock()
	atomic.AddInt64(&r.discAll, 1)
	return nil
}
func (r *c18Rec) discOf(sess interface{}) int {
	r.mu.Lock()
	defer r.mu.Unlock()
	return r.disc[sess]
}

// c18Conn counts what the server's read loop has consumed: the loop is quiescent (every frame
// sent so far has been through its header hooks) when it has read all bytes and re-entered Read.
type c18Conn struct {
	net.Conn
	started, finished, bytes int64
}

func (c *c18Conn) Read(p []byte) (int, error) {
	atomic.AddInt64(&c.started, 1)
	n, err := c.Conn.Read(p)
	// `finished` before `bytes`: quiescent() loads bytes first, so "all bytes read" implies that the
	// Read which delivered the last of them is already counted as finished, and started == finished+1
	// can then only mean that the loop has come round to the NEXT Read (after the header hooks of
	// everything sent so far). With the opposite order there was a window (bytes added, finished not
	// yet) in which quiescent() was true while the frame had not even been handed to the read loop:
	// false alarm c18:rejected-push-handled / c18:mismatch:c18qps on a loaded machine (vp check 7).
	atomic.AddInt64(&c.finished, 1)
	atomic.AddInt64(&c.bytes, int64(n))
	return n, err
}

func (c *c18Conn) quiescent(sent int64) bool {
	b := atomic.LoadInt64(&c.bytes)
	f := atomic.LoadInt64(&c.finished)
	s := atomic.LoadInt64(&c.started)
	return b == sent && s == f+1
}

// ---- read-only access to the plugin's counters ------------------------------------------------

func c18Field(v reflect.Value, name string) (r reflect.Value, ok bool) {
	defer func() {
		if recover() != nil {
			ok = false
		}
	}()
	f := v.FieldByName(name)
	return f, f.IsValid()
}

// c18CL renders lim:now:tmp of the connection limiter, "nil" when there is none, "?" when the
// struct no longer has these fields.
func c18CL(o *overloader.Overloader) (s string, now, tmp int64, ok bool) {
	f, ok1 := c18Field(reflect.ValueOf(o).Elem(), "connLimiter")
	if !ok1 || f.Kind() != reflect.Ptr {
		return "?", 0, 0, false
	}
	if f.IsNil() {
		return "nil", 0, 0, false
	}
	e := f.Elem()
	l, a := e.FieldByName("lim"), e.FieldByName("now")
	t := e.FieldByName("tmp")
	if !l.IsValid() || !a.IsValid() || !t.IsValid() {
		return "?", 0, 0, false
	}
	return fmt.Sprintf("%d:%d:%d", l.Int(), a.Int(), t.Int()), a.Int(), t.Int(), true
}

type c18QL struct {
	v  reflect.Value // the qpsLimiter struct
	ch chan time.Time
}

func c18QLOf(p reflect.Value) *c18QL {
	if !p.IsValid() || p.Kind() != reflect.Ptr || p.IsNil() {
		return nil
	}
	return &c18QL{v: p.Elem()}
}

func (q *c18QL) String() string {
	if q == nil {
		return "nil"
	}
	l, t, o := q.v.FieldByName("limit"), q.v.FieldByName("tokens"), q.v.FieldByName("once")
	if !l.IsValid() || !t.IsValid() || !o.IsValid() {
		return "?"
	}
	// tokens is written by the ticker goroutine with atomic.Store: read it atomically too.
	tok := atomic.LoadInt32((*int32)(unsafe.Pointer(t.UnsafeAddr())))
	return fmt.Sprintf("%d:%d:%d", l.Int(), tok, o.Int())
}

// grab stops the limiter's real ticker and keeps its channel for manual ticks.
func (q *c18QL) grab() bool {
	if q == nil {
		return false
	}
	tf := q.v.FieldByName("ticker")
	if !tf.IsValid() || tf.Kind() != reflect.Ptr || tf.IsNil() || tf.Type() != reflect.TypeOf((*time.Ticker)(nil)) {
		return false
	}
	tk := *(**time.Ticker)(unsafe.Pointer(tf.UnsafeAddr()))
	tk.Stop()
	q.ch = *(*chan time.Time)(unsafe.Pointer(&tk.C))
	c18Chans.Store(q.ch, true)
	return cap(q.ch) == 1
}

// parked reports whether every goroutine running a limiter's startTicker loop is blocked in
// its channel receive (found = at least one such goroutine is visible in the stack dump).
func (q *c18QL) parked() (found, parked bool) {
	buf := make([]byte, 1<<18)
	for {
		n := runtime.Stack(buf, true)
		if n < len(buf) {
			buf = buf[:n]
			break
		}
		buf = make([]byte, 2*len(buf))
	}
	// The receiver argument is not always printed (an inlined or not yet started startTicker shows
	// as "startTicker(...)"), so every ticker goroutine of the plugin is looked at: cases run one at
	// a time, and the goroutines left over from earlier cases stay blocked or have exited.
	needle := "overloader.(*qpsLimiter).startTicker("
	parked = true
	for _, blk := range strings.Split(string(buf), "\n\n") {
		if !strings.Contains(blk, needle) {
			continue
		}
		found = true
		hdr := blk
		if i := strings.IndexByte(blk, '\n'); i >= 0 {
			hdr = blk[:i]
		}
		if !strings.Contains(hdr, "[chan receive") {
			parked = false
		}
	}
	return found, found && parked
}

// tick makes the plugin's ticker goroutine run updateToken once and returns when it has: the
// tick has been taken from the channel and the goroutine is blocked in the next receive.
func (q *c18QL) tick() {
	if q == nil || q.ch == nil {
		return
	}
	q.ch <- time.Time{}
	c18TickSync(q)
}

var c18NoStackSync int32

func c18TickSync(q *c18QL) {
	waitUntil(5*time.Second, func() bool { return len(q.ch) == 0 })
	if atomic.LoadInt32(&c18NoStackSync) == 0 {
		if found, _ := q.parked(); found {
			waitUntil(5*time.Second, func() bool { _, p := q.parked(); return p && len(q.ch) == 0 })
			return
		}
		atomic.StoreInt32(&c18NoStackSync, 1) // goroutine not identifiable in the dump: fall back to waiting
	}
	time.Sleep(2 * time.Millisecond)
}

// every ticker channel taken over; closed when the case ends so the plugin's ticker goroutines
// (which the plugin itself never stops) exit instead of piling up.
var c18Chans sync.Map

func c18CloseChans() {
	c18Chans.Range(func(k, _ interface{}) bool {
		func() {
			defer func() { recover() }()
			close(k.(chan time.Time))
		}()
		c18Chans.Delete(k)
		return true
	})
}

type c18Limiters struct {
	total *c18QL
	h     map[string]*c18QL
}

func c18Grab(o *overloader.Overloader) (*c18Limiters, bool) {
	ov := reflect.ValueOf(o).Elem()
	ls := &c18Limiters{h: map[string]*c18QL{}}
	ok := true
	if f, ok1 := c18Field(ov, "totalQPSLimiter"); ok1 {
		ls.total = c18QLOf(f)
		if ls.total != nil {
			ok = ls.total.grab() && ok
		}
	} else {
		ok = false
	}
	if f, ok1 := c18Field(ov, "handlerQPSLimiter"); ok1 && f.Kind() == reflect.Map {
		it := f.MapRange()
		for it.Next() {
			q := c18QLOf(it.Value())
			if q != nil {
				ok = q.grab() && ok
				ls.h[it.Key().String()] = q
			}
		}
	} else {
		ok = false
	}
	return ls, ok
}

// ---- peers ------------------------------------------------------------------------------------

type c18Env struct {
	o      *overloader.Overloader
	rec    *c18Rec
	srv    erpc.Peer
	cli    erpc.Peer
	calls  []string // /c18_p/a ...
	pushes []string
}

func c18NewEnv(cfg overloader.LimitConfig) (e *c18Env, panicked bool) {
	defer func() {
		if recover() != nil {
			e, panicked = nil, true
		}
	}()
	o := overloader.New(cfg)
	e = &c18Env{o: o, rec: &c18Rec{disc: map[interface{}]int{}}}
	e.srv = erpc.NewPeer(erpc.PeerConfig{}, o, e.rec)
	e.calls = e.srv.RouteCall(new(C18_Ovl))
	e.pushes = e.srv.SubRoute("/c18").RoutePush(new(Ovl))
	c18SortStrings(e.calls)
	c18SortStrings(e.pushes)
	e.cli = erpc.NewPeer(erpc.PeerConfig{})
	return e, false
}

var (
	c18Calls, c18Pushes []string
	c18NamesOnce        sync.Once
)

// c18Names learns the service-method names the router gives the test handlers.
func c18Names() {
	c18NamesOnce.Do(func() {
		p := erpc.NewPeer(erpc.PeerConfig{})
		c18Calls = p.RouteCall(new(C18_Ovl))
		c18Pushes = p.SubRoute("/c18").RoutePush(new(Ovl))
		c18SortStrings(c18Calls)
		c18SortStrings(c18Pushes)
		p.Close()
	})
}

func c18SortStrings(a []string) {
	for i := 1; i < len(a); i++ {
		for j := i; j > 0 && a[j] < a[j-1]; j-- {
			a[j], a[j-1] = a[j-1], a[j]
		}
	}
}

func (e *c18Env) close() {
	e.cli.Close()
	e.srv.Close()
}

var c18RejRe = regexp.MustCompile(`^connection overload, limit=(-?\d+), now=(-?\d+)$`)
var c18QpsRe = regexp.MustCompile(`^qps overload, (total|handler)_limit=(-?\d+)$`)

// ---- c18conn ------------------------------------------------------------------------------------

type c18Link struct {
	l        *link
	admitted bool
	open     bool // by the harness's own bookkeeping
}

func (e *c18Env) callable(ls []*c18Link) int {
	n := 0
	for _, k := range ls {
		if k.l.A == nil {
			continue
		}
		var r int
		if st := k.l.A.Call(e.calls[2], 41, &r).Status(); st.OK() && r == 42 {
			n++
		}
	}
	return n
}

func c18Pick(ls []*c18Link, k int, pred func(*c18Link) bool) *c18Link {
	var sel []*c18Link
	for _, x := range ls {
		if pred(x) {
			sel = append(sel, x)
		}
	}
	if len(sel) == 0 {
		return nil
	}
	return sel[k%len(sel)]
}

// c18DupVictim returns a live admitted session whose address a connection that is certain to be
// refused (limit reached) may share, or nil.
func c18DupVictim(enabled bool, lim int, links []*c18Link) *c18Link {
	if !enabled || lim <= 0 {
		return nil
	}
	live := 0
	var v *c18Link
	for _, x := range links {
		if x.open && x.admitted {
			live++
			v = x
		}
	}
	if live < lim {
		return nil
	}
	return v
}

func c18RunConn(line string, f map[string]string, out *hx.Out) (string, bool) {
	init, _ := strconv.Atoi(f["init"])
	ops := strings.Split(f["ops"], ",")
	e, pan := c18NewEnv(overloader.LimitConfig{MaxConn: int32(init)})
	if pan {
		return "panic", true
	}
	defer e.close()
	var links []*c18Link
	var obs []string
	violated := map[string]bool{}
	viol := func(step int, oracle, detail, sig string) {
		if violated[oracle+sig] {
			return
		}
		violated[oracle+sig] = true
		out.Violate(line, oracle, fmt.Sprintf("step %d (%s) of init=%d ops=%s: %s", step, ops[step], init, strings.Join(ops[:step+1], ","), detail), sig)
	}
	lim := init   // limit in force (<=0: none)
	rejSince := 0 // rejections since the current limiter was created
	carried := 0  // sessions that were open when the current limiter was created
	nontrivial := false
	for i, op := range ops {
		if op == "" {
			return "bad-case", false
		}
		arg := 0
		if len(op) > 1 {
			arg, _ = strconv.Atoi(op[1:])
		}
		res := "?"
		switch op[0] {
		case 'c':
			_, now0, tmp0, okc := c18CL(e.o)
			var l *link
			if victim := c18DupVictim(f["dup"] == "1", lim, links); victim != nil {
				// this connection is certain to be refused: give it the SAME remote address as a live
				// admitted session (clients behind one NAT address, unix sockets, net.Pipe): a slot
				// must still be released only by the session that took it
				out.Count("conn:dup-address")
				ca, cb := mem.PairAddr(victim.l.B.RemoteAddr().String(), victim.l.B.LocalAddr().String()+"'")
				l = &link{CA: ca, CB: cb}
				l.B, l.StB = e.srv.ServeConn(cb)
				ca.Close()
			} else {
				l = connect(e.cli, e.srv, "")
			}
			k := &c18Link{l: l}
			links = append(links, k)
			if l.B != nil {
				k.admitted, k.open = true, true
				res = "a"
				out.Count("conn:admit")
				live := 0
				for _, x := range links {
					if x.open {
						live++
					}
				}
				if lim > 0 && live > lim {
					// sessions that the re-created limiter never counted explain an excess on their own;
					// a release by a rejected connection is reported at the rejection itself (oracle
					// reject-consumes-no-slot below) whenever a limiter exists.
					sig := "c18:conn-over-admit"
					if carried > 0 {
						sig = "c18:reenable-forgets-sessions"
					} else if rejSince > 0 {
						sig = "c18:reject-releases-slot"
					}
					viol(i, "admitted<=limit", fmt.Sprintf("connection admitted as concurrent session %d with MaxConn=%d (rejections since the limiter was created: %d, sessions open when it was created: %d)", live, lim, rejSince, carried), sig)
				}
			} else {
				nontrivial = true
				out.Count("conn:reject")
				m := c18RejRe.FindStringSubmatch(l.StB.Msg())
				if m == nil || l.StB.Code() != erpc.CodeInternalServerError {
					res = "r:?:?"
				} else {
					res = "r:" + m[1] + ":" + m[2]
				}
				rejSince++
				_, now1, tmp1, okc1 := c18CL(e.o)
				if okc && okc1 && (now0 != now1 || tmp0 != tmp1) {
					viol(i, "reject-consumes-no-slot", fmt.Sprintf("rejected connection changed the limiter's counters: now %d->%d, tmp %d->%d", now0, now1, tmp0, tmp1), "c18:reject-releases-slot")
				}
				if l.A != nil {
					l.A.Close()
				}
			}
		case 'd', 'x', 'y':
			k := c18Pick(links, arg, func(x *c18Link) bool { return x.admitted && x.open })
			if k == nil {
				res = "-"
				break
			}
			res = "d"
			out.Count("close:" + op[:1])
			var addr interface{} = k.l.B
			switch op[0] {
			case 'd':
				k.l.B.Close()
			case 'x':
				k.l.A.Close()
			case 'y':
				k.l.CA.Close()
			}
			if !waitUntil(5*time.Second, func() bool { return e.rec.discOf(addr) >= 1 }) {
				res = "d:nohook"
			}
			k.open = false
			if op[0] == 'y' {
				k.l.A.Close()
			}
		case 'z':
			k := c18Pick(links, arg, func(x *c18Link) bool { return x.admitted && !x.open })
			if k == nil {
				res = "-"
				break
			}
			res = "z"
			out.Count("close:again")
			k.l.B.Close()
		case 'u':
			res = "u"
			nontrivial = true
			out.Count("update")
			_, _, _, had := c18CL(e.o)
			func() {
				defer func() {
					if recover() != nil {
						res = "panic"
					}
				}()
				e.o.Update(overloader.LimitConfig{MaxConn: int32(arg)})
			}()
			lim = arg
			if arg <= 0 {
				out.Count("update:off")
			} else if !had {
				rejSince, carried = 0, 0
				for _, x := range links {
					if x.open {
						carried++
					}
				}
				if carried > 0 {
					out.Count("update:reenable-with-sessions")
				}
			}
		default:
			return "bad-case", false
		}
		// exactly-once: every session a close path has finished for has run the hook once
		for _, x := range links {
			if x.admitted && !x.open {
				if c := e.rec.discOf(x.l.B); c != 1 {
					viol(i, "release-once", fmt.Sprintf("disconnect hook ran %d times for one session", c), "c18:release-count")
				}
			}
		}
		n := e.srv.CountSession()
		call := e.callable(links)
		live := 0
		for _, x := range links {
			if x.open {
				live++
			}
		}
		if n != live || call != live {
			viol(i, "session-count", fmt.Sprintf("CountSession=%d callable=%d, sessions admitted and not closed=%d", n, call, live), "c18:session-count")
		}
		cs, _, _, _ := c18CL(e.o)
		obs = append(obs, fmt.Sprintf("%s/%d/%d/%s", res, n, call, cs))
	}
	return strings.Join(obs, " "), nontrivial || len(ops) >= 3
}

// ---- c18qps -------------------------------------------------------------------------------------

func c18ParseConf(s string) (cfg overloader.LimitConfig, ok bool) {
	p := strings.Split(s, ":")
	if len(p) != 4 {
		return cfg, false
	}
	var v [4]int64
	for i := range p {
		x, err := strconv.ParseInt(p[i], 10, 64)
		if err != nil {
			return cfg, false
		}
		v[i] = x
	}
	cfg.MaxTotalQPS = int32(v[0])
	cfg.QPSInterval = time.Duration(v[1])
	return cfg, true
}

// c18Once is the refill per tick the configuration asks for (limit per second spread over the
// ticks of one second, at least 1) — the property's "refill of that interval".
func c18Once(limit int64, ivl int64) int64 {
	per := int64(time.Second) / ivl
	o := limit / per
	if o == 0 {
		o = 1
	}
	return o
}

type c18Bucket struct {
	limit, once int64
	// carry: tokens a reconfigured bucket may still hold from the previous capacity (Update stores
	// the new limit and leaves the token count; the first refill under the new limit caps it).
	carry int64
	ev    []int // per op since the last (re)configuration: +1 admitted, -1 tick, 0 other
}

// capNow is the most tokens the bucket can hold at the end of its recorded events.
func (b *c18Bucket) capNow() int64 {
	for _, e := range b.ev {
		if e < 0 {
			return b.limit
		}
	}
	if b.carry > b.limit {
		return b.carry
	}
	return b.limit
}

// exceeded returns a window whose admissions exceed capacity + refill + one per tick.
func (b *c18Bucket) exceeded() (bool, string) {
	ticked := false
	for i := range b.ev {
		capacity := b.limit
		if !ticked && b.carry > capacity {
			capacity = b.carry
		}
		adm, ticks := int64(0), int64(0)
		for j := i; j < len(b.ev); j++ {
			if b.ev[j] > 0 {
				adm++
			} else if b.ev[j] < 0 {
				ticks++
			}
			if adm > capacity+ticks*b.once+ticks {
				return true, fmt.Sprintf("%d admissions in a window with %d ticks: capacity %d + refill %d + slack %d", adm, ticks, capacity, ticks*b.once, ticks)
			}
		}
		if b.ev[i] < 0 {
			ticked = true
		}
	}
	return false, ""
}

// c18Taint is set by c18RunQps when more than half a refill interval passed between the creation
// of a limiter and the moment its real ticker was stopped.
var c18Taint bool

func c18RunQps(line string, f map[string]string, out *hx.Out) (string, bool) {
	cfg, ok := c18ParseConf(f["conf"])
	if !ok {
		return "bad-case", false
	}
	ops := strings.Split(f["ops"], ",")
	mkCfg := func(s string) (overloader.LimitConfig, [4]int64, bool) {
		c, ok := c18ParseConf(s)
		var v [4]int64
		if !ok {
			return c, v, false
		}
		for i, p := range strings.Split(s, ":") {
			v[i], _ = strconv.ParseInt(p, 10, 64)
		}
		return c, v, true
	}
	_, v0, _ := mkCfg(f["conf"])
	c18Names()
	full := func(c overloader.LimitConfig, v [4]int64) overloader.LimitConfig {
		if v[2] > 0 {
			c.MaxHandlerQPS = append(c.MaxHandlerQPS, overloader.HandlerLimit{ServiceMethod: c18Calls[0], MaxQPS: int32(v[2])})
		}
		if v[3] > 0 {
			c.MaxHandlerQPS = append(c.MaxHandlerQPS, overloader.HandlerLimit{ServiceMethod: c18Calls[1], MaxQPS: int32(v[3])})
		}
		return c
	}
	tNew := time.Now()
	e, pan := c18NewEnv(full(cfg, v0))
	if pan {
		out.Count("qps:new-panic")
		return "panic", true
	}
	defer e.close()
	defer c18CloseChans()
	o := e.o
	ls, gok := c18Grab(o)
	if !gok {
		return "no-manual-ticker", false
	}
	if v0[1] > 0 && time.Since(tNew) >= time.Duration(v0[1])/2 {
		c18Taint = true
	}
	// one session over a counting conn
	ca, cb := mem.Pair("")
	sc := &c18Conn{Conn: cb}
	var sb erpc.Session
	var wg sync.WaitGroup
	wg.Add(1)
	go func() { defer wg.Done(); sb, _ = e.srv.ServeConn(sc) }()
	sa, sta := e.cli.ServeConn(ca)
	wg.Wait()
	if sa == nil || sb == nil || !sta.OK() {
		return "no-session", false
	}
	sent := func() int64 { b, _ := ca.Sent(); return int64(len(b)) }

	violated := map[string]bool{}
	viol := func(step int, oracle, detail, sig string) {
		if violated[oracle+sig] {
			return
		}
		violated[oracle+sig] = true
		out.Violate(line, oracle, fmt.Sprintf("step %d (%s) of conf=%s ops=%s: %s", step, ops[step], f["conf"], strings.Join(ops[:step+1], ","), detail), sig)
	}
	mkBuckets := func(v [4]int64, prev map[string]*c18Bucket) map[string]*c18Bucket {
		m := map[string]*c18Bucket{}
		defer func() {
			for k, b := range m {
				if p := prev[k]; p != nil {
					b.carry = p.capNow()
				}
			}
		}()
		if v[1] <= 0 || int64(time.Second)/v[1] == 0 {
			return m
		}
		if v[0] > 0 {
			m["t"] = &c18Bucket{limit: v[0], once: c18Once(v[0], v[1])}
		}
		if v[2] > 0 {
			m["0"] = &c18Bucket{limit: v[2], once: c18Once(v[2], v[1])}
		}
		if v[3] > 0 {
			m["1"] = &c18Bucket{limit: v[3], once: c18Once(v[3], v[1])}
		}
		return m
	}
	buckets := mkBuckets(v0, nil)
	note := func(admKeys map[string]bool, tickKeys map[string]bool) {
		for k, b := range buckets {
			switch {
			case admKeys[k]:
				b.ev = append(b.ev, 1)
			case tickKeys[k]:
				b.ev = append(b.ev, -1)
			default:
				b.ev = append(b.ev, 0)
			}
		}
	}
	showQ := func() string {
		return ls.total.String() + "/" + ls.h[e.calls[0]].String() + "/" + ls.h[e.calls[1]].String()
	}
	var obs []string
	nontrivial := false
	for i, op := range ops {
		if op == "" {
			return "bad-case", false
		}
		res := "?"
		switch op[0] {
		case 'c', 'p':
			mi, err := strconv.Atoi(op[1:])
			if err != nil || mi < 0 {
				return "bad-case", false
			}
			if mi > 2 {
				mi = 2
			}
			if op[0] == 'c' {
				ran0 := atomic.LoadInt64(&c18CallRan)
				var r int
				st := sa.Call(e.calls[mi], 41, &r).Status()
				ran := atomic.LoadInt64(&c18CallRan) - ran0
				dec := "?"
				if st.OK() {
					dec = "ok"
					out.Count("call:ok")
					note(map[string]bool{"t": true, strconv.Itoa(mi): true}, nil)
					if ran != 1 || r != 42 {
						viol(i, "ok-means-handled", fmt.Sprintf("OK reply but handler ran %d times, result %d", ran, r), "c18:ok-call-not-handled")
					}
				} else {
					nontrivial = true
					note(nil, nil)
					if m := c18QpsRe.FindStringSubmatch(st.Msg()); m != nil && st.Code() == erpc.CodeInternalServerError {
						dec = m[1][:1] + m[2]
						out.Count("call:rej-" + m[1])
					} else {
						dec = "err" + strconv.Itoa(int(st.Code()))
						viol(i, "rejected-call-gets-error-reply", "refused call did not receive the overload reply: "+st.String(), "c18:rejected-call-no-reply")
					}
					if ran != 0 {
						viol(i, "rejected-call-not-handled", fmt.Sprintf("call refused with %q but its handler ran", st.Msg()), "c18:rejected-call-handled")
					}
				}
				res = fmt.Sprintf("c:%s:%d", dec, ran)
			} else {
				ran0 := atomic.LoadInt64(&c18PushRan)
				ok0 := atomic.LoadInt64(&e.rec.pushOK)
				if st := sa.Push(e.pushes[mi], 7); !st.OK() {
					res = "p:senderr"
					break
				}
				w := sent()
				if !waitUntil(5*time.Second, func() bool { return sc.quiescent(w) }) {
					res = "p:stuck"
					break
				}
				admitted := atomic.LoadInt64(&e.rec.pushOK) - ok0
				if admitted == 1 {
					waitUntil(5*time.Second, func() bool { return atomic.LoadInt64(&c18PushRan)-ran0 >= 1 })
					out.Count("push:ok")
					note(map[string]bool{"t": true, strconv.Itoa(mi): true}, nil)
				} else {
					nontrivial = true
					time.Sleep(200 * time.Microsecond)
					out.Count("push:rej")
					note(nil, nil)
				}
				ran := atomic.LoadInt64(&c18PushRan) - ran0
				if ran != admitted {
					viol(i, "rejected-push-not-handled", fmt.Sprintf("push admitted=%d but handler ran %d times", admitted, ran), "c18:rejected-push-handled")
				}
				if admitted == 1 {
					res = fmt.Sprintf("p:ok:%d", ran)
				} else {
					res = fmt.Sprintf("p:rej:%d", ran)
				}
			}
		case 't':
			res = "t"
			nontrivial = true
			out.Count("tick")
			switch op[1:] {
			case "":
				ls.total.tick()
				ls.h[e.calls[0]].tick()
				ls.h[e.calls[1]].tick()
				note(nil, map[string]bool{"t": true, "0": true, "1": true})
			case "t":
				ls.total.tick()
				note(nil, map[string]bool{"t": true})
			default:
				mi, err := strconv.Atoi(op[1:])
				if err != nil || mi < 0 || mi > 2 {
					return "bad-case", false
				}
				ls.h[e.calls[mi]].tick()
				note(nil, map[string]bool{strconv.Itoa(mi): true})
			}
		case 'u':
			c, v, ok := mkCfg(op[1:])
			if !ok {
				return "bad-case", false
			}
			res = "u"
			nontrivial = true
			out.Count("update")
			var tUpd time.Time
			func() {
				defer func() {
					if recover() != nil {
						res = "panic"
					}
				}()
				tUpd = time.Now()
				o.Update(full(c, v))
			}()
			if res == "panic" {
				// the plugin's lock is left held by the panic: nothing more can be asked of it
				obs = append(obs, "panic/-")
				return strings.Join(obs, " "), true
			}
			for k, b := range buckets {
				if bad, d := b.exceeded(); bad {
					viol(i, "rate-bound", "bucket "+k+": "+d, "c18:rate-over-admit")
				}
			}
			ls, gok = c18Grab(o)
			if !gok {
				return "no-manual-ticker", false
			}
			if v[1] > 0 && time.Since(tUpd) >= time.Duration(v[1])/2 {
				c18Taint = true
			}
			buckets = mkBuckets(v, buckets)
		default:
			return "bad-case", false
		}
		obs = append(obs, res+"/"+showQ())
	}
	for k, b := range buckets {
		if bad, d := b.exceeded(); bad {
			viol(len(ops)-1, "rate-bound", "bucket "+k+": "+d, "c18:rate-over-admit")
		}
	}
	sa.Close()
	return strings.Join(obs, " "), nontrivial
}

// ---- stress (oracle only) ---------------------------------------------------------------------

func c18StressConn(line string, f map[string]string, out *hx.Out) (string, bool) {
	lim, _ := strconv.Atoi(f["lim"])
	g, _ := strconv.Atoi(f["g"])
	it, _ := strconv.Atoi(f["it"])
	e, pan := c18NewEnv(overloader.LimitConfig{MaxConn: int32(lim)})
	if pan {
		return "done", false
	}
	defer e.close()
	var cur, max, rej, adm int64
	var wg sync.WaitGroup
	for w := 0; w < g; w++ {
		wg.Add(1)
		go func(w int) {
			defer wg.Done()
			for i := 0; i < it; i++ {
				l := connect(e.cli, e.srv, "")
				if l.B == nil {
					atomic.AddInt64(&rej, 1)
					if l.A != nil {
						l.A.Close()
					}
					continue
				}
				atomic.AddInt64(&adm, 1)
				c := atomic.AddInt64(&cur, 1)
				for {
					m := atomic.LoadInt64(&max)
					if c <= m || atomic.CompareAndSwapInt64(&max, m, c) {
						break
					}
				}
				var r int
				l.A.Call(e.calls[2], 1, &r)
				atomic.AddInt64(&cur, -1)
				if (i+w)%2 == 0 {
					l.B.Close()
					l.A.Close()
				} else {
					var addr interface{} = l.B
					l.A.Close()
					waitUntil(5*time.Second, func() bool { return e.rec.discOf(addr) >= 1 })
				}
			}
		}(w)
	}
	wg.Wait()
	out.Count("stressconn:runs")
	if max > int64(lim) {
		sig := "c18:conn-over-admit"
		if rej > 0 {
			sig = "c18:reject-releases-slot"
		}
		out.Violate(line, "admitted<=limit (concurrent)", fmt.Sprintf("%d sessions admitted concurrently with MaxConn=%d (%d goroutines, %d admitted, %d rejected)", max, lim, g, adm, rej), sig)
	}
	cs, now, tmp, ok := c18CL(e.o)
	if ok && (now != 0 || tmp != 0) && rej == 0 {
		out.Violate(line, "release-once (concurrent)", "all sessions ended, no rejection, counters "+cs, "c18:release-count")
	}
	return "done", true
}

type c18FakeCtx struct{ erpc.ReadCtx }

func (c18FakeCtx) ServiceMethod() string { return "/none" }

// c18StressQps: rounds of one burst against a full bucket with exactly one refill in the middle.
// Each round is one interval with one tick, so the bound is capacity + once + 1. An atomic refill
// can never exceed it; the load/compute/store refill forgets the admissions that fall between its
// load and its store.
func c18StressQps(line string, f map[string]string, out *hx.Out) (string, bool) {
	lim, _ := strconv.Atoi(f["lim"])
	g, _ := strconv.Atoi(f["g"])
	rounds, _ := strconv.Atoi(f["rounds"])
	ivl := time.Millisecond
	once := c18Once(int64(lim), int64(ivl))
	bound := int64(lim) + once + 1
	defer c18CloseChans()
	worst, hits := int64(0), 0
	for r := 0; r < rounds; r++ {
		o := overloader.New(overloader.LimitConfig{MaxTotalQPS: int32(lim), QPSInterval: ivl})
		ls, ok := c18Grab(o)
		if !ok || ls.total == nil {
			return "done", false
		}
		tokf := ls.total.v.FieldByName("tokens")
		if !tokf.IsValid() {
			return "done", false
		}
		tokens := (*int32)(unsafe.Pointer(tokf.UnsafeAddr()))
		time.Sleep(2 * ivl) // a real tick that slipped in before Stop has been handled (bucket is full: no effect)
		var adm int64
		var stop int32
		var wg sync.WaitGroup
		for w := 0; w < g; w++ {
			wg.Add(1)
			go func() {
				defer wg.Done()
				ctx := c18FakeCtx{}
				n := int64(0)
				for atomic.LoadInt32(&stop) == 0 {
					if o.PostReadCallHeader(ctx) == nil {
						n++
					}
				}
				atomic.AddInt64(&adm, n)
			}()
		}
		for atomic.LoadInt32(tokens) > int32(lim*3/4) {
		}
		ls.total.ch <- time.Time{}
		c18TickSync(ls.total)
		waitUntil(5*time.Second, func() bool { return atomic.LoadInt32(tokens) <= 0 })
		atomic.StoreInt32(&stop, 1)
		wg.Wait()
		if adm > bound {
			hits++
			if adm-bound > worst {
				worst = adm - bound
			}
		}
		c18CloseChans()
	}
	out.Count("stressqps:runs")
	if hits > 0 {
		out.Count("stressqps:race-hit")
		out.Violate(line, "rate-bound (concurrent)", fmt.Sprintf("in %d of %d rounds a full bucket of capacity %d with ONE refill of %d in the middle of a burst of %d concurrent takers admitted more than capacity + refill + 1 = %d calls (worst: %d more): admissions between the ticker's load and its store are forgotten", hits, rounds, lim, once, g, bound, worst), "c18:refill-race")
	}
	return "done", true
}

// ---- generation ---------------------------------------------------------------------------------

func c18GenConn(r *hx.R, out *hx.Out) string {
	init := r.Pick(1, 1, 1, 2, 2, 3, 4)
	if r.Intn(25) == 0 {
		init = 0
	}
	classB := r.Intn(5) == 0 // updates may switch the limiter off
	if classB {
		out.Count("gen:conn-with-off")
	} else {
		out.Count("gen:conn")
	}
	n := 3 + r.Intn(22)
	ops := make([]string, 0, n)
	for i := 0; i < n; i++ {
		switch x := r.Intn(100); {
		case x < 48:
			ops = append(ops, "c")
		case x < 63:
			ops = append(ops, fmt.Sprintf("d%d", r.Intn(6)))
		case x < 73:
			ops = append(ops, fmt.Sprintf("x%d", r.Intn(6)))
		case x < 79:
			ops = append(ops, fmt.Sprintf("y%d", r.Intn(6)))
		case x < 85:
			ops = append(ops, fmt.Sprintf("z%d", r.Intn(6)))
		default:
			v := r.Pick(1, 1, 2, 2, 3, 5)
			if classB && r.Intn(2) == 0 {
				v = r.Pick(0, 0, -1)
			}
			ops = append(ops, fmt.Sprintf("u%d", v))
		}
	}
	return fmt.Sprintf("c18conn init=%d dup=%d ops=%s", init, r.Intn(2), strings.Join(ops, ","))
}

func c18GenConf(r *hx.R) string {
	l := r.Pick(1, 2, 3, 3, 5, 8, 12, 20, 40)
	if r.Intn(12) == 0 {
		l = 0
	}
	ivl := r.Pick(1000000000, 500000000, 250000000, 100000000, 50000000)
	h := func() int {
		if r.Intn(2) == 0 {
			return 0
		}
		return r.Pick(1, 2, 3, 6, 10, 25)
	}
	return fmt.Sprintf("%d:%d:%d:%d", l, ivl, h(), h())
}

func c18GenQps(r *hx.R, out *hx.Out) string {
	conf := c18GenConf(r)
	if r.Intn(40) == 0 {
		// interval outside (0, 1s]: New panics (integer divide by zero) when any bucket is configured
		conf = fmt.Sprintf("%d:%d:%d:0", r.Pick(0, 3), r.Pick(0, 2000000000, 1000000001), r.Pick(0, 2))
		out.Count("gen:qps-bad-interval")
		return fmt.Sprintf("c18qps conf=%s ops=c0,c2", conf)
	}
	out.Count("gen:qps")
	n := 4 + r.Intn(50)
	ops := make([]string, 0, n)
	for i := 0; i < n; i++ {
		switch x := r.Intn(100); {
		case x < 55:
			ops = append(ops, fmt.Sprintf("c%d", r.Intn(3)))
		case x < 75:
			ops = append(ops, fmt.Sprintf("p%d", r.Intn(3)))
		case x < 88:
			ops = append(ops, "t")
		case x < 92:
			ops = append(ops, "tt")
		case x < 96:
			ops = append(ops, fmt.Sprintf("t%d", r.Intn(2)))
		default:
			ops = append(ops, "u"+c18GenConf(r))
		}
	}
	return fmt.Sprintf("c18qps conf=%s ops=%s", conf, strings.Join(ops, ","))
}

func c18Gen(r *hx.R, tier string, out *hx.Out) []string {
	nc, nq, ns := 350, 350, 3
	if tier == "thorough" {
		nc, nq, ns = 3000, 3000, 12
	}
	lines := []string{
		// the two pre-study histories, always first
		"c18conn init=1 ops=c,c,c",
		"c18conn init=1 ops=c,u0,u1,c,d0,d0,c,c",
		"c18qps conf=3:1000000000:0:0 ops=c2,c2,c2,c2,p2,t,c2,c2,c2,c2",
	}
	for i := 0; i < nc; i++ {
		lines = append(lines, c18GenConn(r, out))
	}
	for i := 0; i < nq; i++ {
		lines = append(lines, c18GenQps(r, out))
	}
	for i := 0; i < ns; i++ {
		lines = append(lines, fmt.Sprintf("c18stressconn lim=%d g=%d it=%d", r.Pick(1, 2, 4), r.Pick(4, 8), r.Pick(10, 20)))
		lines = append(lines, fmt.Sprintf("c18stressqps lim=%d g=%d rounds=%d", r.Pick(20000, 50000), r.Pick(4, 8), r.Pick(30, 60)))
	}
	return lines
}

func c18Run(line string, out *hx.Out) (obs string, nontrivial bool) {
	defer func() {
		if p := recover(); p != nil {
			obs, nontrivial = fmt.Sprintf("harness-panic:%v", p), false
		}
	}()
	kind, f := hx.Fields(line)
	switch kind {
	case "c18conn":
		return c18RunConn(line, f, out)
	case "c18qps":
		// The plugin's real ticker runs from its creation (New / Update) until the harness has stopped
		// it (grab). On a loaded machine that can take longer than the interval, and a real tick then
		// refills a bucket behind the model's back. Such an attempt proves nothing either way: it is
		// discarded (with the oracle verdicts it produced) and the case is run again.
		for attempt := 0; ; attempt++ {
			nv := len(out.Viol)
			c18Taint = false
			o, nt := c18RunQps(line, f, out)
			if !c18Taint {
				return o, nt
			}
			out.Viol = out.Viol[:nv]
			out.Count("qps:real-tick-possible-retry")
			if attempt == 4 {
				return "inconclusive:real-tick-possible", false
			}
		}
	case "c18stressconn":
		return c18StressConn(line, f, out)
	case "c18stressqps":
		return c18StressQps(line, f, out)
	}
	return "bad-kind", false
}
