package main

// C02 — every call completes exactly once; none hangs, none completes twice.
//
// A real client peer (ServeConn over an in-memory connection) issues AsyncCalls; the remote end is a
// scripted raw peer that speaks the wire format itself. One case = one script of operations
// (issue a call, send a reply frame of some decode class, cut, local Close, gate holds that force the
// two schedules on which the outcome depends) with explicit observation points. The observation is
// the life-cycle state of every call (Done() closed?, deliveries on its completion channel, status
// class), the pending-call table size, whether the session reached a closed state, whether Close()
// returned, and how many goroutines sit blocked inside callCmd.done (a second completion attempt
// on a full completion channel). The Lean model (Model/CallLife, the transition system of the
// theorems, run by a deterministic scheduler) prints the same line for the same script.
//
// Every case runs in a worker sub-process (this binary re-executed with C02_WORKER=1): a wedged
// reader goroutine cannot be killed, and one schedule ends in an unrecovered panic of a pool
// goroutine (close of closed channel), which takes the process down — observed as `crash:...`.
// Waiting is always bounded: a call that is still pending after the connection is gone is the
// observation, never a stuck harness.

import (
	"bufio"
	"bytes"
	"context"
	"fmt"
	"os"
	"os/exec"
	"runtime"
	"strconv"
	"strings"
	"sync"
	"sync/atomic"
	"time"

	erpc "github.com/henrylee2cn/erpc/v6"
	"github.com/henrylee2cn/erpc/v6/codec"
	"github.com/henrylee2cn/erpc/v6/proto/jsonproto"
	"github.com/henrylee2cn/erpc/v6/socket"

	"verif/harness/internal/hx"
	"verif/harness/internal/mem"
)

func init() {
	if os.Getenv("C02_WORKER") == "1" {
		c02Worker()
		os.Exit(0)
	}
	props["c02"] = &Prop{Setup: func() { erpc.SetLoggerLevel("OFF") }, Gen: c02Gen, Run: c02Run, Finish: c02Finish}
}

// ---- result types of the caller ---------------------------------------------------------------

type c02Struct struct {
	A int `json:"A"`
}

type c02Arr struct {
	A [2]int `form:"A"`
}

func c02NewResult(t string) interface{} {
	switch t {
	case "bytes":
		return new([]byte)
	case "int":
		return new(int)
	case "struct":
		return new(c02Struct)
	case "string":
		return new(string)
	case "arr":
		return new(c02Arr)
	}
	return nil
}

// c02GoodBody is a JSON body that decodes into the result type.
func c02GoodBody(t string) []byte {
	switch t {
	case "bytes":
		return []byte("raw-bytes")
	case "int":
		return []byte("7")
	case "struct":
		return []byte(`{"A":7}`)
	case "string":
		return []byte(`"x"`)
	case "arr":
		return []byte(`{"A":[1,2]}`)
	}
	return nil
}

// c02BadBody is a body the given codec cannot decode into any non-bytes result type of the bank.
func c02BadBody(codecID byte) []byte {
	switch codecID {
	case 'j':
		return []byte("{{{")
	case 'x':
		return []byte("<<<")
	case 's':
		return []byte("zz-not-a-number")
	case 'f':
		return []byte("%zz=%zz")
	case 'p', 't':
		return []byte{0xff, 0xff, 0xff, 0xff, 0x07}
	}
	return []byte("??")
}

const (
	c02Method     = "/c/m"
	c02UnknownSeq = 999999
	c02UnregCodec = 'z'
)

// c02PanicCodec is a registered body codec whose decoder panics (what the read loop's recover is for).
type c02PanicCodec struct{}

const c02PanicCodecID = 'Q'

func (c02PanicCodec) ID() byte     { return c02PanicCodecID }
func (c02PanicCodec) Name() string { return "c02panic" }
func (c02PanicCodec) Marshal(v interface{}) ([]byte, error) {
	return nil, fmt.Errorf("c02panic: no encoder")
}
func (c02PanicCodec) Unmarshal(data []byte, v interface{}) error {
	panic("c02panic: decoder panic")
}

// ---- veto plugin --------------------------------------------------------------------------------

type c02Veto struct{ sc *c02Scn }

func (*c02Veto) Name() string { return "c02veto" }
func (v *c02Veto) PreWriteCall(ctx erpc.WriteCtx) *erpc.Status {
	if _, ok := v.sc.vetoSeq.Load(ctx.Output().Seq()); ok {
		return erpc.NewStatus(499, "vetoed", "")
	}
	return nil
}

// ---- one scenario on the real code ---------------------------------------------------------------

type c02Call struct {
	cmd erpc.CallCmd
	ret chan struct{}
	ch  chan erpc.CallCmd
	pan interface{}
}

type c02Scn struct {
	sess     erpc.Session
	ca, cb   *mem.Conn
	raw      *rawPeer
	veto     *c02Veto
	res      string
	capn     int
	calls    []*c02Call
	sent     int32
	readMsg  int32
	readerEx int32
	holdH    int32
	holdC    int32
	parkedH  int32
	parkedC  int32
	relH     chan struct{}
	relC     chan struct{}
	closeRet chan struct{}
	gone     bool
	dblk0    int
	vetoSeq  sync.Map
}

var c02Cur atomic.Value // *c02Scn

func c02Gate(point string, sess erpc.Session) {
	sc, _ := c02Cur.Load().(*c02Scn)
	if sc == nil || sc.sess == nil || sess != sc.sess {
		return
	}
	switch point {
	case "read.msg":
		atomic.AddInt32(&sc.readMsg, 1)
	case "disc.load":
		atomic.StoreInt32(&sc.readerEx, 1)
	case "reply.done":
		if atomic.LoadInt32(&sc.holdH) == 1 {
			ch := sc.relH
			atomic.AddInt32(&sc.parkedH, 1)
			<-ch
		}
	case "call.store":
		if atomic.LoadInt32(&sc.holdC) == 1 {
			ch := sc.relC
			atomic.AddInt32(&sc.parkedC, 1)
			<-ch
		}
	}
}

const c02Wait = 2 * time.Second

func c02Stacks() string {
	buf := make([]byte, 1<<20)
	n := runtime.Stack(buf, true)
	return string(buf[:n])
}

// c02Blocked counts goroutines whose stack contains every given substring.
func c02Blocked(subs ...string) int {
	n := 0
	for _, g := range strings.Split(c02Stacks(), "\n\n") {
		ok := true
		for _, s := range subs {
			if !strings.Contains(g, s) {
				ok = false
				break
			}
		}
		if ok {
			n++
		}
	}
	return n
}

// c02Quiesce waits until no goroutine that is inside erpc code is running or runnable (two
// consecutive goroutine dumps agree): every remaining step of the real system then needs a new
// external event — the "no internal step enabled" of the model.
var c02Busy string

func c02Quiesce() bool {
	busy := func() bool {
		for _, g := range strings.Split(c02Stacks(), "\n\n") {
			if !strings.Contains(g, "henrylee2cn/erpc/v6.") {
				continue
			}
			if strings.HasPrefix(g, "goroutine ") {
				if i := strings.Index(g, "["); i > 0 {
					st := g[i+1:]
					if strings.HasPrefix(st, "running") || strings.HasPrefix(st, "runnable") {
						c02Busy = g
						return true
					}
				}
			}
		}
		return false
	}
	calm := 0
	return waitUntil(c02Wait, func() bool {
		if busy() {
			calm = 0
			return false
		}
		calm++
		return calm >= 2
	})
}

// c02Excerpt returns the goroutines of the dump that sit in erpc code and are blocked on a lock,
// a channel or a wait group (for the detail of a hang report).
func c02Excerpt() string {
	var out []string
	for _, g := range strings.Split(c02Stacks(), "\n\n") {
		if !strings.Contains(g, "henrylee2cn/erpc/v6.") {
			continue
		}
		if strings.Contains(g, "sync.(*Mutex).Lock") || strings.Contains(g, "chan send") || strings.Contains(g, "sync.(*WaitGroup).Wait") {
			ls := strings.Split(g, "\n")
			var keep []string
			for _, l := range ls {
				if strings.HasPrefix(l, "goroutine ") || (strings.Contains(l, "erpc/v6.") && !strings.HasPrefix(l, "\t")) || strings.HasPrefix(l, "sync.") {
					if i := strings.Index(l, "("); i > 0 && !strings.HasPrefix(l, "goroutine ") {
						l = l[:i]
					}
					keep = append(keep, strings.TrimSpace(l))
				}
			}
			out = append(out, strings.Join(keep, " < "))
		}
		if len(out) >= 6 {
			break
		}
	}
	return strings.Join(out, " || ")
}

func (sc *c02Scn) frame(kind string, seq int32) *M {
	m := &M{Seq: seq, Mtype: erpc.TypeReply, Method: []byte(c02Method), Codec: 'j'}
	switch {
	case kind == "ok":
		m.Body = c02GoodBody(sc.res)
	case kind == "st":
		m.Code, m.Msg, m.Codec = 500, []byte("boom"), 0
	case kind == "nil":
		m.Codec, m.Body = 0, c02GoodBody(sc.res)
	case kind == "nile":
		m.Codec = 0
	case kind == "unreg":
		m.Codec, m.Body = c02UnregCodec, c02GoodBody(sc.res)
	case kind == "pan":
		m.Codec, m.Body = c02PanicCodecID, []byte("boom")
	case kind == "fov": // more form values than fixed-array slots: the form codec reports an error
		m.Codec, m.Body = 'f', []byte("A=1&A=2&A=3")
	case kind == "push":
		m.Mtype, m.Body = erpc.TypePush, []byte(`"p"`)
	case strings.HasPrefix(kind, "bad") && len(kind) == 4:
		m.Codec, m.Body = kind[3], c02BadBody(kind[3])
	default:
		return nil
	}
	return m
}

func c02FrameBytes(m *M) []byte {
	a, b := mem.Pair("")
	p := socket.RawProtoFunc(a)
	msg, err := m.toMessage()
	if err != nil {
		return nil
	}
	p.Pack(msg)
	_ = b
	w, _ := a.Sent()
	return w
}

func c02SeqOf(tgt string) (int32, bool) {
	if tgt == "u" {
		return c02UnknownSeq, true
	}
	i, err := strconv.Atoi(tgt)
	if err != nil || i < 0 {
		return 0, false
	}
	return int32(i + 1), true
}

func (sc *c02Scn) readerIdle() bool {
	return atomic.LoadInt32(&sc.readMsg) >= atomic.LoadInt32(&sc.sent) || atomic.LoadInt32(&sc.readerEx) == 1
}

func c02Class(st *erpc.Status) string {
	if st.OK() {
		return "ok"
	}
	switch c := st.Code(); c {
	case 102, 104, 400, 499, 500:
		return strconv.Itoa(int(c))
	default:
		return "other"
	}
}

func (sc *c02Scn) snapshot(final bool) string {
	allDone := func() bool {
		for _, c := range sc.calls {
			select {
			case <-c.ret:
			default:
				return false
			}
			if c.cmd == nil {
				if len(c.ch) == 0 {
					return false
				}
				continue
			}
			select {
			case <-c.cmd.Done():
			default:
				return false
			}
		}
		return true
	}
	closed := func() bool {
		select {
		case <-sc.sess.CloseNotify():
			st := erpc.VerifStatus(sc.sess)
			return st == 3 || st == 5
		default:
			return false
		}
	}
	if final {
		waitUntil(c02Wait, func() bool { return allDone() && closed() })
		time.Sleep(3 * time.Millisecond)
	}
	var parts []string
	for _, c := range sc.calls {
		returned := false
		select {
		case <-c.ret:
			returned = true
		default:
		}
		switch {
		case !returned:
			parts = append(parts, fmt.Sprintf("0:%d:incall", len(c.ch)))
		case c.cmd == nil:
			// AsyncCall's deferred recover swallowed a panic: the zero CallCmd came back.
			st := "nilcmd"
			if len(c.ch) > 0 {
				v := <-c.ch
				st = "nilcmd/" + c02Class(v.Status())
				c.ch <- v
			}
			parts = append(parts, fmt.Sprintf("0:%d:%s", len(c.ch), st))
		default:
			d, st := 0, "-"
			select {
			case <-c.cmd.Done():
				d, st = 1, c02Class(c.cmd.Status())
			default:
			}
			parts = append(parts, fmt.Sprintf("%d:%d:%s", d, len(c.ch), st))
		}
	}
	cl, cr := 0, "-"
	if closed() {
		cl = 1
	}
	if sc.closeRet != nil {
		cr = "0"
		select {
		case <-sc.closeRet:
			cr = "1"
		default:
		}
	}
	calls := strings.Join(parts, "|")
	if calls == "" {
		calls = "-"
	}
	return fmt.Sprintf("calls=%s pend=%d closed=%d closeret=%s dblk=%d", calls, erpc.VerifPendingCalls(sc.sess), cl, cr,
		c02Blocked("(*callCmd).done", "chan send")-sc.dblk0)
}

// c02Exec runs one case line on the real code; emit receives "V ..." / "C ..." lines for the parent.
func c02Exec(line string, emit func(string)) (obs string) {
	defer func() {
		if p := recover(); p != nil {
			obs = fmt.Sprintf("harness-panic:%v", p)
		}
	}()
	_, f := hx.Fields(line)
	res := f["res"]
	if c02NewResult(res) == nil {
		return "bad-case"
	}
	capn, err := strconv.Atoi(f["cap"])
	if err != nil || capn < 1 {
		return "bad-case"
	}
	var pf socket.ProtoFunc = socket.RawProtoFunc
	switch f["proto"] {
	case "raw":
	case "json":
		pf = jsonproto.NewJSONProtoFunc()
	default:
		return "bad-case"
	}
	if l := f["lim"]; l != "" && l != "0" {
		n, err := strconv.Atoi(l)
		if err != nil {
			return "bad-case"
		}
		old := socket.MessageSizeLimit()
		socket.SetMessageSizeLimit(uint32(n))
		defer socket.SetMessageSizeLimit(old)
	}
	veto := &c02Veto{}
	cli := erpc.NewPeer(erpc.PeerConfig{}, veto)
	ca, cb := mem.Pair("")
	sc := &c02Scn{ca: ca, cb: cb, veto: veto, res: res, capn: capn, relH: make(chan struct{}), relC: make(chan struct{})}
	sc.raw = newRawPeer(cb, pf)
	sc.dblk0 = c02Blocked("(*callCmd).done", "chan send")
	veto.sc = sc
	c02Cur.Store(sc)
	sess, st := cli.ServeConn(ca, pf)
	if !st.OK() {
		return "harness-error:serve"
	}
	sc.sess = sess
	c02Cur.Store(sc)
	defer func() {
		// leave nothing of this case running that can be stopped: release holds, cut the connection.
		atomic.StoreInt32(&sc.holdH, 0)
		atomic.StoreInt32(&sc.holdC, 0)
		close(sc.relH)
		close(sc.relC)
		cb.Break(nil)
		go cli.Close()
	}()

	var segs []string
	for _, op := range strings.Split(f["ops"], ",") {
		arg := ""
		if i := strings.IndexByte(op, ':'); i >= 0 {
			op, arg = op[:i], op[i+1:]
		}
		switch {
		case op == "call" || op == "callx" || op == "callv" || op == "callbig" || strings.HasPrefix(op, "callcut"):
			c := &c02Call{ret: make(chan struct{}), ch: make(chan erpc.CallCmd, capn)}
			sc.calls = append(sc.calls, c)
			var setting []erpc.MessageSetting
			var args interface{} = []byte("req")
			switch {
			case op == "callx":
				ctx, cancel := context.WithCancel(context.Background())
				cancel()
				setting = append(setting, erpc.WithContext(ctx))
			case op == "callv":
				sc.vetoSeq.Store(int32(len(sc.calls)), true)
			case op == "callbig":
				args = bytes.Repeat([]byte("B"), 4096)
			case strings.HasPrefix(op, "callcut"):
				k, err := strconv.Atoi(op[7:])
				if err != nil {
					return "bad-case"
				}
				ca.CutAfter(int64(k), nil)
			}
			parkedBefore := atomic.LoadInt32(&sc.parkedC)
			go func() {
				defer close(c.ret)
				defer func() { c.pan = recover() }()
				c.cmd = sess.AsyncCall(c02Method, args, c02NewResult(res), c.ch, setting...)
			}()
			waitUntil(c02Wait, func() bool {
				select {
				case <-c.ret:
					return true
				default:
					return atomic.LoadInt32(&sc.holdC) == 1 && atomic.LoadInt32(&sc.parkedC) > parkedBefore
				}
			})
		case op == "rraw":
			cb.Write(hx.UnHex(arg))
			atomic.AddInt32(&sc.sent, 1)
			waitUntil(c02Wait, sc.readerIdle)
		case len(op) > 2 && op[:2] == "rt":
			k, err := strconv.Atoi(op[2:])
			seq, ok := c02SeqOf(arg)
			if err != nil || !ok {
				return "bad-case"
			}
			fb := c02FrameBytes(sc.frame("ok", seq))
			if k > len(fb) {
				k = len(fb)
			}
			cb.Write(fb[:k])
			cb.Break(nil)
			sc.gone = true
			waitUntil(c02Wait, func() bool { return erpc.VerifStatus(sess) != 1 })
		case len(op) > 1 && op[0] == 'r' && op != "rclose":
			kind, block := op[1:], false
			if kind[0] == 'b' && !strings.HasPrefix(kind, "bad") {
				kind, block = kind[1:], true
			}
			seq, ok := c02SeqOf(arg)
			m := sc.frame(kind, seq)
			if !ok || m == nil {
				return "bad-case"
			}
			if err := sc.raw.Send(m); err != nil && !sc.gone {
				return "harness-error:send"
			}
			atomic.AddInt32(&sc.sent, 1)
			if block {
				if !waitUntil(c02Wait, func() bool { return c02Blocked("(*handlerCtx).bindReply", "sync.(*Mutex).Lock") > 0 }) {
					emit("N reader-not-blocked-in-bindReply")
				}
			} else {
				waitUntil(c02Wait, sc.readerIdle)
				if atomic.LoadInt32(&sc.holdH) == 1 {
					waitUntil(c02Wait, func() bool { return atomic.LoadInt32(&sc.parkedH) > 0 })
				}
			}
		case op == "cut" || op == "rclose":
			sc.gone = true
			if op == "cut" {
				cb.Break(nil)
			} else {
				cb.Close()
			}
			waitUntil(c02Wait, func() bool { return erpc.VerifStatus(sess) != 1 })
		case op == "close":
			cr := make(chan struct{})
			if sc.closeRet == nil {
				sc.closeRet = cr
			}
			go func() { sess.Close(); close(cr) }()
			waitUntil(c02Wait, func() bool { return erpc.VerifStatus(sess) != 1 })
		case op == "gh+":
			atomic.StoreInt32(&sc.holdH, 1)
		case op == "gc+":
			atomic.StoreInt32(&sc.holdC, 1)
		case op == "gh-":
			atomic.StoreInt32(&sc.holdH, 0)
			old := sc.relH
			sc.relH = make(chan struct{})
			close(old)
		case op == "gc-":
			atomic.StoreInt32(&sc.holdC, 0)
			old := sc.relC
			sc.relC = make(chan struct{})
			close(old)
			for _, c := range sc.calls {
				c := c
				waitUntil(c02Wait, func() bool {
					select {
					case <-c.ret:
						return true
					default:
						return false
					}
				})
			}
		case len(op) > 1 && op[0] == 'w':
			i, err := strconv.Atoi(op[1:])
			if err != nil || i >= len(sc.calls) {
				return "bad-case"
			}
			c := sc.calls[i]
			waitUntil(c02Wait, func() bool {
				select {
				case <-c.ret:
				default:
					return false
				}
				if c.cmd == nil {
					return true
				}
				select {
				case <-c.cmd.Done():
					return true
				default:
					return false
				}
			})
		case op == "obs":
			c02Quiesce()
			segs = append(segs, sc.snapshot(false))
		case op == "obsf":
			segs = append(segs, sc.snapshot(true))
		default:
			return "bad-case"
		}
		if !c02Quiesce() {
			b := c02Busy
			if len(b) > 700 {
				b = b[:700]
			}
			emit("N not-quiescent after " + op + ": " + strings.ReplaceAll(b, "\n", " / "))
		}
	}
	obs = strings.Join(segs, " ; ")
	// excerpt of the goroutine dump for the parent's oracle (only when something is still pending)
	if last := segs[len(segs)-1]; strings.Contains(last, ":-") || strings.Contains(last, "nilcmd") && !strings.Contains(last, "nilcmd/") ||
		strings.Contains(last, "incall") || !strings.Contains(last, "dblk=0") || strings.Contains(last, "closed=0") {
		emit("D " + c02Excerpt())
	}
	return obs
}

func c02Worker() {
	erpc.SetLoggerLevel("OFF")
	codec.Reg(c02PanicCodec{})
	erpc.VerifSetHooks(&erpc.VerifHooks{Gate: c02Gate})
	in := bufio.NewScanner(os.Stdin)
	in.Buffer(make([]byte, 1<<20), 1<<24)
	w := bufio.NewWriter(os.Stdout)
	var mu sync.Mutex
	for in.Scan() {
		obs := c02Exec(in.Text(), func(s string) { mu.Lock(); fmt.Fprintln(w, s); mu.Unlock() })
		mu.Lock()
		fmt.Fprintln(w, "O "+obs)
		fmt.Fprintln(w, "END")
		w.Flush()
		mu.Unlock()
	}
}

// ---- parent side: worker pool, oracles -------------------------------------------------------------

type c02Result struct {
	notes  []string
	rerun  int
	obs    string
	dump   string
	stderr string
}

type c02Proc struct {
	cmd   *exec.Cmd
	in    *bufio.Writer
	lines chan string
	errb  *bytes.Buffer
}

func c02Start() *c02Proc {
	exe := "/proc/self/exe"
	if _, err := os.Stat(exe); err != nil {
		exe = os.Args[0]
	}
	cmd := exec.Command(exe)
	cmd.Env = append(os.Environ(), "C02_WORKER=1", "GOMAXPROCS=4")
	stdin, _ := cmd.StdinPipe()
	stdout, _ := cmd.StdoutPipe()
	errb := &bytes.Buffer{}
	cmd.Stderr = errb
	if err := cmd.Start(); err != nil {
		panic(err)
	}
	p := &c02Proc{cmd: cmd, in: bufio.NewWriter(stdin), lines: make(chan string, 64), errb: errb}
	go func() {
		sc := bufio.NewScanner(stdout)
		sc.Buffer(make([]byte, 1<<20), 1<<24)
		for sc.Scan() {
			p.lines <- sc.Text()
		}
		close(p.lines)
	}()
	return p
}

func (p *c02Proc) kill() {
	p.cmd.Process.Kill()
	p.cmd.Wait()
}

// c02RunOn runs one case on a worker; ok=false means the worker is gone and must be replaced.
func c02RunOn(p *c02Proc, line string) (r c02Result, alive bool) {
	fmt.Fprintln(p.in, line)
	p.in.Flush()
	timeout := time.After(60 * time.Second)
	for {
		select {
		case l, ok := <-p.lines:
			if !ok {
				p.cmd.Wait()
				se := p.errb.String()
				r.stderr = se
				switch {
				case strings.Contains(se, "close of closed channel"):
					r.obs = "crash:close-of-closed-channel"
				case strings.Contains(se, "negative WaitGroup counter"):
					r.obs = "crash:negative-waitgroup"
				default:
					r.obs = "crash:other"
				}
				return r, false
			}
			switch {
			case strings.HasPrefix(l, "O "):
				r.obs = l[2:]
			case strings.HasPrefix(l, "D "):
				r.dump = l[2:]
			case strings.HasPrefix(l, "N "):
				r.notes = append(r.notes, l[2:])
			case l == "END":
				return r, true
			}
		case <-timeout:
			p.kill()
			r.obs = "harness-timeout"
			return r, false
		}
	}
}

var (
	c02Pre    map[string]chan c02Result
	c02Solo   *c02Proc
	c02SoloMu sync.Mutex
)

// c02Prefetch runs all generated lines on a pool of workers; Run picks the results up in order.
func c02Prefetch(lines []string, workers int) {
	c02Pre = map[string]chan c02Result{}
	var todo []string
	for _, l := range lines {
		if _, dup := c02Pre[l]; !dup {
			c02Pre[l] = make(chan c02Result, 1)
			todo = append(todo, l)
		}
	}
	var idx int32 = -1
	for w := 0; w < workers; w++ {
		go func() {
			var p *c02Proc
			for {
				i := int(atomic.AddInt32(&idx, 1))
				if i >= len(todo) {
					break
				}
				if p == nil {
					p = c02Start()
				}
				r, alive := c02RunOn(p, todo[i])
				if !alive {
					p = nil
				} else if len(c02Oracle(todo[i], r.obs)) > 0 || r.dump != "" {
					p.kill() // the case left blocked goroutines behind: next case gets a fresh process
					p = nil
				}
				if c02Hangish(c02Oracle(todo[i], r.obs)) || r.obs == "harness-timeout" {
					// a hang verdict is confirmed by a second run on a fresh process before it is reported
					q := c02Start()
					r2, alive2 := c02RunOn(q, todo[i])
					if alive2 {
						q.kill()
					}
					r2.rerun = 1
					if r2.obs != r.obs {
						r2.rerun = 2
					}
					r = r2
				}
				c02Pre[todo[i]] <- r
			}
			if p != nil {
				p.kill()
			}
		}()
	}
}

func c02RunSolo(line string) c02Result {
	c02SoloMu.Lock()
	defer c02SoloMu.Unlock()
	if c02Solo == nil {
		c02Solo = c02Start()
	}
	r, alive := c02RunOn(c02Solo, line)
	if !alive {
		c02Solo = nil
	} else if len(c02Oracle(line, r.obs)) > 0 || r.dump != "" {
		c02Solo.kill()
		c02Solo = nil
	}
	return r
}

func c02Finish(out *hx.Out) {
	if c02Solo != nil {
		c02Solo.kill()
		c02Solo = nil
	}
}

// c02Oracle evaluates the property's own statement on the observation of the real code.
// Returns the list of (oracle, sig, detail).
func c02Oracle(line, obs string) (v [][3]string) {
	_, f := hx.Fields(line)
	ops := f["ops"]
	if strings.HasPrefix(obs, "crash:") {
		return [][3]string{{"exactly-once", "c02:double-completion",
			"the process died with an unrecovered panic `" + obs[6:] + "` in a handler goroutine: callCmd.done ran a second time for one call (second send on the completion channel, then close of the already closed done channel)"}}
	}
	segs := strings.Split(obs, " ; ")
	last := segs[len(segs)-1]
	_, lf := hx.Fields("x " + last)
	gone := strings.Contains(ops, "cut") || strings.Contains(ops, "rclose") || strings.Contains(ops, ",rt") || strings.Contains(ops, "rraw")
	class := "other"
	switch {
	case strings.Contains(ops, "rnil:") || strings.Contains(ops, "rbnil:"):
		class = "nilcodec-reply"
	case strings.Contains(ops, "rpan:") || strings.Contains(ops, "rfov:"):
		class = "decode-panic"
	case strings.Contains(ops, "callbig"):
		class = "oversize-request"
	case strings.Contains(ops, "gh+") || strings.Contains(ops, "gc+"):
		class = "duplicate-or-early-reply"
	}
	for i, c := range strings.Split(lf["calls"], "|") {
		if c == "-" || c == "" {
			continue
		}
		p := strings.SplitN(c, ":", 3)
		if len(p) != 3 {
			continue
		}
		n, _ := strconv.Atoi(p[1])
		if n > 1 {
			v = append(v, [3]string{"exactly-once", "c02:double-completion", fmt.Sprintf("call %d was delivered %d times on its completion channel", i, n)})
		}
		if strings.HasPrefix(p[2], "nilcmd") {
			v = append(v, [3]string{"completes-with-status", "c02:oversize-pack-panic-hangs-call",
				fmt.Sprintf("call %d: AsyncCall returned a nil CallCmd (Pack panicked inside write, the deferred recover swallowed it, done() never ran); the call stayed in the pending table with nothing on the wire (state %s)", i, c)})
			continue
		}
		if gone && (p[0] != "1" || n < 1) {
			sig := "c02:hang:" + class
			if class == "nilcodec-reply" {
				sig = "c02:nilcodec-reply-wedges-call"
			}
			v = append(v, [3]string{"no-hang-after-connection-lost", sig,
				fmt.Sprintf("call %d is still pending %v after the connection was lost (state %s)", i, c02Wait, c)})
		}
	}
	if lf["dblk"] != "" && lf["dblk"] != "0" {
		v = append(v, [3]string{"exactly-once", "c02:double-completion",
			"a goroutine is blocked inside callCmd.done on the completion channel: done() ran a second time for a call that had already completed"})
	}
	return v
}

func c02Hangish(vs [][3]string) bool {
	for _, v := range vs {
		if strings.Contains(v[1], "hang") || strings.Contains(v[1], "wedges") {
			return true
		}
	}
	return false
}

func c02Run(line string, out *hx.Out) (string, bool) {
	var r c02Result
	if ch, ok := c02Pre[line]; ok {
		r = <-ch
		ch <- r
	} else {
		r = c02RunSolo(line)
	}
	_, f := hx.Fields(line)
	vs := c02Oracle(line, r.obs)
	if r.rerun == 0 && (c02Hangish(vs) || r.obs == "harness-timeout") {
		// a hang verdict is confirmed by a second run before it is reported
		r2 := c02RunSolo(line)
		r2.rerun = 1
		if r2.obs != r.obs {
			r2.rerun = 2
		}
		r = r2
		vs = c02Oracle(line, r.obs)
	}
	for _, n := range r.notes {
		out.Count("note:" + strings.SplitN(n, ":", 2)[0])
		if _, ok := out.Extra["first_note"]; !ok {
			out.Extra["first_note"] = n
		}
	}
	if r.rerun > 0 {
		out.Count("hang-rerun")
	}
	if r.rerun == 2 {
		out.Count("hang-rerun-differs")
	}
	seen := map[string]bool{}
	for _, v := range vs {
		if seen[v[1]] {
			continue
		}
		seen[v[1]] = true
		detail := v[2]
		if r.dump != "" {
			detail += "; blocked goroutines: " + r.dump
		}
		if r.stderr != "" {
			se := r.stderr
			if i := strings.Index(se, "panic:"); i >= 0 {
				se = se[i:]
			}
			if len(se) > 600 {
				se = se[:600]
			}
			detail += "; stderr: " + strings.ReplaceAll(se, "\n", " / ")
		}
		out.Violate(line, v[0], detail, v[1])
		out.Count("violation:" + v[1])
	}
	ops := strings.Split(f["ops"], ",")
	for _, op := range ops {
		k := op
		if i := strings.IndexByte(k, ':'); i >= 0 {
			k = k[:i]
		}
		k = strings.TrimRight(k, "0123456789")
		out.Count("op:" + k)
	}
	out.Count("res:" + f["res"])
	out.Count("final:" + c02FinalClass(r.obs))
	nt := strings.Contains(f["ops"], "call") && (strings.Contains(f["ops"], ",r") || strings.Contains(f["ops"], "cut") || strings.Contains(f["ops"], "close"))
	return r.obs, nt
}

func c02FinalClass(obs string) string {
	if strings.HasPrefix(obs, "crash") || strings.HasPrefix(obs, "harness") || obs == "bad-case" {
		return obs
	}
	segs := strings.Split(obs, " ; ")
	_, lf := hx.Fields("x " + segs[len(segs)-1])
	set := map[string]bool{}
	for _, c := range strings.Split(lf["calls"], "|") {
		p := strings.SplitN(c, ":", 3)
		if len(p) == 3 {
			set[p[2]] = true
		}
	}
	var ks []string
	for _, k := range []string{"ok", "102", "104", "400", "499", "500", "other", "-", "nilcmd", "nilcmd/102", "incall"} {
		if set[k] {
			ks = append(ks, k)
		}
	}
	return strings.Join(ks, "+") + "/closed=" + lf["closed"]
}

// ---- generator ----------------------------------------------------------------------------------

func c02Line(res string, capn int, ops ...string) string {
	return fmt.Sprintf("c02 proto=raw lim=0 cap=%d res=%s dok=%s ops=%s", capn, res, c02DecodesOK(res), strings.Join(ops, ","))
}

// c02DecodesOK lists the "undecodable body" reply kinds whose body the REAL codec nevertheless decodes
// into the result type res without an error (e.g. the plain codec reads any bytes into a *string):
// the decode outcome of a frame is an input of the model, not something it computes.
func c02DecodesOK(res string) string {
	var ok []string
	if res != "bytes" {
		sc := &c02Scn{res: res}
		for _, k := range []string{"badj", "badp", "bads", "badf", "badx", "badt", "fov"} {
			m := sc.frame(k, 1)
			cd, err := codec.Get(m.Codec)
			if err != nil {
				continue
			}
			func() {
				defer func() { recover() }()
				if cd.Unmarshal(m.Body, c02NewResult(res)) == nil {
					ok = append(ok, k)
				}
			}()
		}
	}
	if len(ok) == 0 {
		return "-"
	}
	return strings.Join(ok, "+")
}

var c02Kinds = []string{"ok", "st", "nil", "nile", "unreg", "badj", "badp", "bads", "badf", "badx", "badt", "push", "pan", "fov"}
var c02ResTypes = []string{"bytes", "int", "struct", "string", "arr"}

// c02KindOK: every reply class applies to every result type.
func c02KindOK(kind, res string) bool { return true }

var c02Garbage = []string{"0000000100", "ffffffff", "0000001001ee", "0000000800013102"}

func c02Gen(r *hx.R, tier string, out *hx.Out) []string {
	thorough := tier == "thorough"
	var ls []string
	add := func(l string) { ls = append(ls, l) }
	pickRes := func() string { return c02ResTypes[r.Intn(len(c02ResTypes))] }
	pickKind := func(res string) string {
		for {
			k := c02Kinds[r.Intn(len(c02Kinds))]
			if c02KindOK(k, res) {
				return k
			}
		}
	}
	// F1: one call, every reply decode class x every result type, then the connection is cut
	for _, res := range c02ResTypes {
		for _, k := range c02Kinds {
			if c02KindOK(k, res) {
				add(c02Line(res, 2, "call", "r"+k+":0", "obs", "cut", "obsf"))
			}
		}
	}
	// F2: unknown seq, late duplicates (second frame of every class after the first completed)
	for _, k := range c02Kinds {
		res := pickRes()
		if !c02KindOK(k, res) {
			res = "arr"
		}
		add(c02Line(res, 2, "call", "r"+k+":u", "obs", "rok:0", "obs", "cut", "obsf"))
		add(c02Line(res, 2, "call", "rok:0", "r"+k+":0", "obs", "cut", "obsf"))
		add(c02Line(res, 1, "call", "rst:0", "r"+k+":0", "r"+k+":0", "obs", "rclose", "obsf"))
	}
	// F3: reply truncated at byte offset k, then cut
	for _, res := range c02ResTypes {
		sc := &c02Scn{res: res}
		L := len(c02FrameBytes(sc.frame("ok", 1)))
		out.Extra["reply_frame_len_"+res] = L
		for k := 0; k < L; k++ {
			if thorough || k == 0 || k == L-1 || r.Intn(L) < 3 {
				add(c02Line(res, 2, "call", fmt.Sprintf("rt%d:0", k), "obsf"))
			}
		}
	}
	// F4: request cut at byte offset k of the request frame (k = L: cut right after the last byte)
	{
		m := &M{Seq: 1, Mtype: erpc.TypeCall, Method: []byte(c02Method), Codec: 'j', Body: []byte("req")}
		L := len(c02FrameBytes(m))
		out.Extra["request_frame_len"] = L
		for k := 0; k <= L; k++ {
			if thorough || k == 0 || k == L || r.Intn(L) < 4 {
				add(c02Line(pickRes(), 2, fmt.Sprintf("callcut%d", k), "obs", "call", "obsf"))
			}
		}
	}
	// F5: nothing + cut / remote close / local Close; orders of {reply, local Close, remote close}
	for _, res := range []string{"bytes", "int"} {
		add(c02Line(res, 2, "call", "cut", "obsf"))
		add(c02Line(res, 2, "call", "rclose", "obsf"))
		add(c02Line(res, 2, "call", "close", "obs", "cut", "obsf"))
		add(c02Line(res, 2, "call", "close", "obs", "rclose", "obsf"))
		add(c02Line(res, 2, "call", "close", "rok:0", "obsf"))
		add(c02Line(res, 2, "call", "rok:0", "close", "obsf"))
		add(c02Line(res, 2, "call", "cut", "close", "obsf"))
		add(c02Line(res, 2, "close", "call", "obs", "cut", "obsf"))
		add(c02Line(res, 2, "cut", "call", "close", "obsf"))
		add(c02Line(res, 2, "call", "close", "close", "rst:0", "call", "obsf"))
		add(c02Line(res, 2, "callx", "obs", "cut", "obsf"))
		add(c02Line(res, 2, "callv", "obs", "close", "obsf"))
		for _, k := range []string{"nil", "badj", "unreg", "nile", "push"} {
			add(c02Line(res, 2, "call", "close", "r"+k+":0", "obs", "cut", "obsf"))
		}
	}
	add(c02Line("arr", 2, "call", "close", "rpan:0", "obs", "cut", "obsf"))
	add(c02Line("arr", 2, "call", "rfov:0", "obs", "cut", "obsf"))
	// F7: the two schedules on which the outcome depends, forced with gates
	for _, capn := range []int{1, 2, 3} {
		add(c02Line("int", capn, "call", "gh+", "rok:0", "rbok:0", "gh-", "cut", "obsf"))
		add(c02Line("bytes", capn, "call", "gh+", "rst:0", "rbbadj:0", "gh-", "cut", "obsf"))
		add(c02Line("int", capn, "gc+", "callx", "rbok:0", "gc-", "cut", "obsf"))
		add(c02Line("struct", capn, "gc+", "callv", "rbok:0", "gc-", "cut", "obsf"))
	}
	add(c02Line("int", 2, "gc+", "call", "rbok:0", "gc-", "obs", "cut", "obsf"))
	add(c02Line("int", 2, "gc+", "call", "rbnil:0", "gc-", "obs", "cut", "obsf"))
	add(c02Line("int", 2, "call", "gh+", "rok:0", "rbnil:0", "gh-", "obs", "cut", "obsf"))
	add(c02Line("int", 2, "call", "gh+", "rok:0", "cut", "gh-", "obsf"))
	add(c02Line("int", 2, "call", "gh+", "rok:0", "close", "obs", "gh-", "obsf"))
	add(c02Line("int", 2, "call", "call", "gh+", "rok:1", "rok:0", "cut", "obs", "gh-", "obsf"))
	// F8: request above the size limit (jsonproto: Pack panics inside write)
	for _, tail := range [][]string{{"obs", "cut", "obsf"}, {"close", "obs", "cut", "obsf"}, {"call", "rok:1", "obs", "cut", "obsf"}} {
		add(fmt.Sprintf("c02 proto=json lim=512 cap=2 res=int ops=%s", strings.Join(append([]string{"callbig"}, tail...), ",")))
	}
	add("c02 proto=json lim=0 cap=2 res=int ops=callbig,rok:0,obs,cut,obsf")
	// F9: unreadable bytes
	for _, g := range c02Garbage {
		add(c02Line(pickRes(), 2, "call", "rraw:"+g, "obs", "call", "obsf"))
	}
	// F6: random multi-call scripts
	n := 70
	if thorough {
		n = 700
	}
	for c := 0; c < n; c++ {
		res := pickRes()
		var ops []string
		calls, closed := 0, false
		steps := 3 + r.Intn(8)
		for i := 0; i < steps; i++ {
			x := r.Intn(100)
			switch {
			case calls == 0 || x < 30:
				switch y := r.Intn(12); {
				case y == 0:
					ops = append(ops, "callx")
				case y == 1:
					ops = append(ops, "callv")
				default:
					ops = append(ops, "call")
				}
				calls++
			case x < 78:
				tgt := "u"
				if r.Intn(8) > 0 {
					tgt = strconv.Itoa(r.Intn(calls))
				}
				k := "ok"
				if r.Intn(3) == 0 {
					k = pickKind(res)
				}
				if (k == "nil" || k == "pan") && calls != 1 {
					// with several pending calls the outcome of a wedge depends on the map iteration order
					// of the cancel loop (which calls are visited before the locked one): keep scripts deterministic
					k = "unreg"
				}
				ops = append(ops, "r"+k+":"+tgt)
			case x < 86 && !closed:
				ops = append(ops, "close")
				closed = true
			case x < 92:
				ops = append(ops, "obs")
			case x < 96:
				ops = append(ops, "cut")
			default:
				ops = append(ops, "rclose")
			}
		}
		ops = append(ops, "obs", "cut", "obsf")
		add(c02Line(res, 1+r.Intn(3), ops...))
	}
	workers := 8
	if thorough {
		workers = 12
	}
	c02Prefetch(ls, workers)
	return ls
}
