package main

import (
	"fmt"
	"strconv"
	"strings"
	"time"

	"github.com/henrylee2cn/erpc/v6/plugin/overloader"

	"verif/harness/internal/hx"
)

// C18, real-ticker cases (kind `xqpsreal`, the property's own oracle, no model): the scripted
// cases drive the refill by hand on a stopped ticker; here the plugin's OWN ticker goroutines run in
// real time across an Update that changes the refill interval, and the admissions of a saturating
// caller are counted over a window. Bound (property text): capacity + refill of the window
// (+ one admission of slack per tick), with the interval and refill IN FORCE after the update.

func init() {
	p := props["c18"]
	g, r := p.Gen, p.Run
	p.Gen = func(rr *hx.R, tier string, out *hx.Out) []string {
		ls := g(rr, tier, out)
		n := 4
		if tier == "thorough" {
			n = 16
		}
		for i := 0; i < n; i++ {
			// interval made coarser or finer, limit kept or changed
			ls = append(ls, fmt.Sprintf("xqpsreal qps0=%d ivl0=%d qps1=%d ivl1=%d win=%d",
				rr.Pick(50, 100, 200), rr.Pick(10, 20), rr.Pick(50, 100, 200), rr.Pick(100, 200, 10), rr.Pick(300, 500)))
		}
		return ls
	}
	p.Run = func(line string, out *hx.Out) (string, bool) {
		if strings.HasPrefix(line, "xqpsreal ") {
			return c18bRun(line, out)
		}
		return r(line, out)
	}
}

func c18bRun(line string, out *hx.Out) (string, bool) {
	_, f := hx.Fields(line)
	at := func(k string) int { v, _ := strconv.Atoi(f[k]); return v }
	qps0, ivl0, qps1, ivl1, win := at("qps0"), at("ivl0"), at("qps1"), at("ivl1"), at("win")
	o := overloader.New(overloader.LimitConfig{MaxTotalQPS: int32(qps0), QPSInterval: time.Duration(ivl0) * time.Millisecond})
	defer o.Update(overloader.LimitConfig{}) // switch the limiter (and its ticker) off again
	time.Sleep(time.Duration(3*ivl0) * time.Millisecond)
	o.Update(overloader.LimitConfig{MaxTotalQPS: int32(qps1), QPSInterval: time.Duration(ivl1) * time.Millisecond})
	ctx := c18FakeCtx{}
	// drain, so that the window starts from an empty bucket
	for i := 0; i < 4*(qps0+qps1) && o.PostReadCallHeader(ctx) == nil; i++ {
	}
	start := time.Now()
	adm := int64(0)
	for time.Since(start) < time.Duration(win)*time.Millisecond {
		if o.PostReadCallHeader(ctx) == nil {
			adm++
		} else {
			time.Sleep(200 * time.Microsecond)
		}
	}
	el := time.Since(start)
	once := c18Once(int64(qps1), int64(time.Duration(ivl1)*time.Millisecond))
	ticks := int64(el/(time.Duration(ivl1)*time.Millisecond)) + 2 // scheduling slack: two extra ticks
	bound := int64(qps1) + ticks*(once+1)
	out.Count("xqpsreal")
	if adm > bound {
		out.Violate(line, "rate-bound-after-update",
			fmt.Sprintf("%d calls admitted in %v after Update to %d qps / %d ms refill interval (refill %d per tick): the limit allows at most %d (capacity %d + %d ticks x (%d+1))",
				adm, el.Round(time.Millisecond), qps1, ivl1, once, bound, qps1, ticks, once),
			"c18:rate-exceeded-after-interval-update")
	}
	return "oracle-only", true
}
