package main

import (
	"fmt"
	"runtime"
	"strconv"
	"strings"
	"sync"
	"time"

	erpc "github.com/henrylee2cn/erpc/v6"
	"github.com/henrylee2cn/erpc/v6/plugin/secure"

	"verif/harness/internal/hx"
)

// C17, OVERLAPPING secure messages (kind `xc17ovl`, the property's own oracle, no model): the scripted
// families run one exchange at a time. Here a secure CALL A is held between the return of the secure
// plugin's pre-write hook and the write of its frame (by a later caller-side plugin, exactly what a
// slow later plugin would do), while other secure messages of the same size - calls B1..Bk, or
// replies produced by the server for them - are encrypted, written and answered; then A is released.
// Each handler must see its own argument and each caller its own result (same key on both sides).
// Whatever the plugin keeps between its hook and the write (a buffer it encrypts into, a cached
// envelope) must not be shared with the messages that overtake it. Seed C17-D encrypted into a pooled
// buffer that was returned to the pool when the hook returned while the envelope still aliased it.
//
//	xc17ovl k=<overtakers> n=<body size> procs=<GOMAXPROCS during the case; 0 = unchanged> mode=call|reply
//
// mode=reply holds a secure REPLY on the server between PreWriteReply of the secure plugin and the
// write (a server-side plugin registered after it), while k other calls are answered.

type C17OvlArg struct {
	ID   string
	Text string
}

type c17ovlCtl struct {
	mu      sync.Mutex
	holdID  string        // message to hold
	side    string        // "cli": hold the CALL on the caller; "srv": hold the REPLY on the server
	parked  chan struct{} // closed when the held message has reached the holder
	release chan struct{}
	held    bool
}

var c17ovl = &c17ovlCtl{}

// c17ovlHolder is registered AFTER the secure plugin on both peers.
type c17ovlHolder struct{ side string }

func (h *c17ovlHolder) Name() string { return "c17ovl-holder-" + h.side }

func (h *c17ovlHolder) hold(id string) {
	c17ovl.mu.Lock()
	if c17ovl.holdID == "" || id != c17ovl.holdID || c17ovl.held || c17ovl.side != h.side {
		c17ovl.mu.Unlock()
		return
	}
	c17ovl.held = true
	parked, release := c17ovl.parked, c17ovl.release
	c17ovl.mu.Unlock()
	close(parked)
	select {
	case <-release:
	case <-time.After(5 * time.Second):
	}
}

func (h *c17ovlHolder) PreWriteCall(ctx erpc.WriteCtx) *erpc.Status {
	if h.side == "cli" {
		if v, ok := ctx.Swap().Load("c17ovl-id"); ok {
			h.hold(v.(string))
		}
	}
	return nil
}

func (h *c17ovlHolder) PreWriteReply(ctx erpc.WriteCtx) *erpc.Status {
	if h.side == "srv" {
		if v, ok := ctx.Swap().Load("c17ovl-id"); ok {
			h.hold(v.(string))
		}
	}
	return nil
}

// c17ovlTag runs BEFORE the secure plugin and remembers which message this is (the body is replaced
// by the envelope later, so the identity is taken from the clear body here).
type c17ovlTag struct{ side string }

func (t *c17ovlTag) Name() string { return "c17ovl-tag-" + t.side }
func (t *c17ovlTag) tag(ctx erpc.WriteCtx) {
	if a, ok := ctx.Output().Body().(*C17OvlArg); ok && a != nil {
		ctx.Swap().Store("c17ovl-id", a.ID)
	}
}
func (t *c17ovlTag) PreWriteCall(ctx erpc.WriteCtx) *erpc.Status {
	if t.side == "cli" {
		t.tag(ctx)
	}
	return nil
}
func (t *c17ovlTag) PreWriteReply(ctx erpc.WriteCtx) *erpc.Status {
	if t.side == "srv" {
		t.tag(ctx)
	}
	return nil
}

type C17Ovl struct{ erpc.CallCtx }

func (c *C17Ovl) Echo(arg *C17OvlArg) (*C17OvlArg, *erpc.Status) {
	return &C17OvlArg{ID: arg.ID, Text: "re:" + arg.Text}, nil
}

func init() {
	p := props["c17"]
	g, r := p.Gen, p.Run
	p.Gen = func(rr *hx.R, tier string, out *hx.Out) []string {
		ls := g(rr, tier, out)
		n := 8
		if tier == "thorough" {
			n = 60
		}
		for i := 0; i < n; i++ {
			mode := "call"
			if rr.Intn(3) == 0 {
				mode = "reply"
			}
			ls = append(ls, fmt.Sprintf("xc17ovl k=%d n=%d procs=%d mode=%s", rr.Pick(1, 2, 4, 16), rr.Pick(16, 64, 100, 1000), rr.Pick(1, 1, 2, 0), mode))
		}
		return ls
	}
	p.Run = func(line string, out *hx.Out) (string, bool) {
		if strings.HasPrefix(line, "xc17ovl ") {
			return c17ovlRun(line, out)
		}
		return r(line, out)
	}
}

func c17ovlRun(line string, out *hx.Out) (obs string, nt bool) {
	defer func() {
		if p := recover(); p != nil {
			obs, nt = fmt.Sprintf("harness-panic:%v", p), true
		}
	}()
	_, f := hx.Fields(line)
	k, _ := strconv.Atoi(f["k"])
	n, _ := strconv.Atoi(f["n"])
	procs, _ := strconv.Atoi(f["procs"])
	mode := f["mode"]
	if k < 1 || k > 64 || n < 1 || n > 1<<16 || (mode != "call" && mode != "reply") {
		return "bad-case", false
	}
	if procs > 0 {
		defer runtime.GOMAXPROCS(runtime.GOMAXPROCS(procs))
	}
	const key = "0123456789abcdef"
	srv := erpc.NewPeer(erpc.PeerConfig{}, &c17ovlTag{"srv"}, secure.NewPlugin(c17StatCode, key), &c17ovlHolder{"srv"})
	cli := erpc.NewPeer(erpc.PeerConfig{}, &c17ovlTag{"cli"}, secure.NewPlugin(c17StatCode, key), &c17ovlHolder{"cli"})
	srv.RouteCall(new(C17Ovl))
	defer srv.Close()
	defer cli.Close()
	l := connect(cli, srv, "")
	if l.A == nil || l.B == nil {
		return "no-session", false
	}
	text := func(id string) string { return strings.Repeat(id[:1], n) }
	c17ovl.mu.Lock()
	c17ovl.holdID, c17ovl.held = "A", false
	c17ovl.side = "cli"
	if mode == "reply" {
		c17ovl.side = "srv"
	}
	c17ovl.parked, c17ovl.release = make(chan struct{}), make(chan struct{})
	parked, release := c17ovl.parked, c17ovl.release
	c17ovl.mu.Unlock()
	defer func() {
		c17ovl.mu.Lock()
		c17ovl.holdID = ""
		c17ovl.mu.Unlock()
	}()
	type res struct {
		id  string
		got C17OvlArg
		st  *erpc.Status
	}
	call := func(id string) res {
		var r C17OvlArg
		st := l.A.Call("/c17_ovl/echo", &C17OvlArg{ID: id, Text: text(id)}, &r, secure.WithSecureMeta()).Status()
		return res{id, r, st}
	}
	resc := make(chan res, k+1)
	go func() { resc <- call("A") }()
	select {
	case <-parked:
	case <-time.After(5 * time.Second):
		close(release)
		return "holder-not-reached", false
	}
	// A is held after the secure plugin's hook; the overtakers run to completion, one after the other
	// and (for k > 1) also concurrently
	ids := "BCDEFGHIJKLMNOPQRSTUVWXYZbcdefghijklmnopqrstuvwxyz0123456789+/-_"
	var all []res
	all = append(all, call(ids[:1]))
	var wg sync.WaitGroup
	var mu sync.Mutex
	for i := 1; i < k; i++ {
		wg.Add(1)
		go func(id string) {
			defer wg.Done()
			r := call(id)
			mu.Lock()
			all = append(all, r)
			mu.Unlock()
		}(ids[i : i+1])
	}
	wg.Wait()
	close(release)
	select {
	case r := <-resc:
		all = append(all, r)
	case <-time.After(5 * time.Second):
		out.Violate(line, "no-hang", "the held call did not complete within 5 s of its release", "c17:overlap-hang")
		return "oracle-only", true
	}
	out.Count("xc17ovl:" + mode)
	for _, r := range all {
		want := C17OvlArg{ID: r.id, Text: "re:" + text(r.id)}
		if !r.st.OK() {
			out.Violate(line, "same-key-restores", fmt.Sprintf("call %s (held=%v, %d overtakers, body %d bytes): status %s with the same key on both sides", r.id, r.id == "A", k, n, r.st.String()),
				"c17:overlap-call-failed")
		} else if r.got != want {
			g := r.got
			if len(g.Text) > 24 {
				g.Text = g.Text[:24] + "..."
			}
			out.Violate(line, "own-result", fmt.Sprintf("call %s (held=%v, %d overtakers, body %d bytes): result {ID:%s Text:%s}, want the echo of its own argument", r.id, r.id == "A", k, n, g.ID, g.Text),
				"c17:overlap-foreign-body")
		}
	}
	return "oracle-only", true
}
