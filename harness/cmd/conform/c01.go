package main

// C01 — a call's result is the reply to that call, under any concurrency.
//
// Three case kinds:
//
//	c01seq    a single-goroutine scenario (calls, async calls, pushes, server-initiated calls and
//	          pushes with given tokens) on two fresh real peers; the observation (sequence numbers,
//	          result tokens, reply metadata, handler inputs) must equal the Lean model's exactly.
//	c01run    TRACE INCLUSION. The line carries the recorded linearisation of one concurrent run of the
//	          real code (S sessions x G goroutines x N ops; the run happens in Gen, the events are
//	          recorded under one global mutex by a pre-write plugin, a connection wrapper that
//	          parses every Write as a frame, the handlers and the callers). Run re-evaluates the
//	          token oracles on the recorded trace; the Lean model runs as a monitor over the same
//	          event list. Both print `accept n=<events>`.
//	c01stress a larger concurrent run of the real code without recording (oracles only; the
//	          frame-per-Write check uses mem.Conn.Sent()).
//
// Oracles on the real code (the property itself): every OK result == H(own token, own meta) and reply
// meta == Hm(own token, own meta); every handler / push input is a payload that was sent, on that
// session, in that direction, delivered exactly once; every conn.Write is exactly one whole frame.

import (
	"errors"
	"bytes"
	"fmt"
	"net"
	"os"
	"sort"
	"strconv"
	"strings"
	"sync"
	"sync/atomic"
	"time"

	erpc "github.com/henrylee2cn/erpc/v6"
	"github.com/henrylee2cn/erpc/v6/codec"
	"github.com/henrylee2cn/erpc/v6/examples/bench/msg"
	"github.com/henrylee2cn/erpc/v6/proto/jsonproto"
	"github.com/henrylee2cn/erpc/v6/proto/pbproto"
	"github.com/henrylee2cn/erpc/v6/socket"
	xgzip "github.com/henrylee2cn/erpc/v6/xfer/gzip"
	xmd5 "github.com/henrylee2cn/erpc/v6/xfer/md5"

	"verif/harness/internal/hx"
	"verif/harness/internal/mem"
)

// ---- configuration matrix ----------------------------------------------------------------------

var (
	c01ProtoNames = []string{"raw", "json", "pb"}
	// codec 3: form values made only of unreserved characters; codec 4: form values holding one escaped
	// character (a space). The two take different paths through net/url's unescaping.
	c01CodecNames = []string{"json", "plain", "protobuf", "form", "form-esc"}
	c01CodecIDs   = []byte{codec.ID_JSON, codec.ID_PLAIN, codec.ID_PROTOBUF, codec.ID_FORM, codec.ID_FORM}
	c01Pipes      = [][]byte{{}, {'g'}, {'m'}, {'g', 'm'}, {'m', 'g', 'g'}}
	c01PipeNames  = []string{"none", "gzip", "md5", "gzip+md5", "md5+gzip+gzip"}
)

type c01Cfg struct{ proto, codec, pipe int }

func (c c01Cfg) String() string { return fmt.Sprintf("%d.%d.%d", c.proto, c.codec, c.pipe) }
func (c c01Cfg) Name() string {
	return c01ProtoNames[c.proto] + "/" + c01CodecNames[c.codec] + "/" + c01PipeNames[c.pipe]
}

// c01CfgOK: jsonproto embeds the body bytes in a JSON string (only `"` is escaped), so a binary
// protobuf body does not survive that protocol — that is protocol transparency (C05's scope),
// not call/reply matching; the combination is left out.
func (c c01Cfg) OK() bool { return !(c.proto == 1 && c.codec == 2) }

// aliasing: rawproto x form codec with values that need no unescaping (see c01AliasProbe).
func (c c01Cfg) aliasing() bool { return c.proto == 0 && c.codec == 3 }

const c01AliasSig = "c01:rawproto-form-value-aliases-read-buffer"

// c01AliasSeen: the direct probe (c01AliasProbe) observed, in this process, that a form value handed to
// a caller is rewritten when the next frame is read.
var c01AliasSeen bool

func c01ParseCfg(s string) (c01Cfg, bool) {
	p := strings.Split(s, ".")
	if len(p) != 3 {
		return c01Cfg{}, false
	}
	a, e1 := strconv.Atoi(p[0])
	b, e2 := strconv.Atoi(p[1])
	c, e3 := strconv.Atoi(p[2])
	if e1 != nil || e2 != nil || e3 != nil || a < 0 || a >= len(c01ProtoNames) || b < 0 || b >= len(c01CodecNames) || c < 0 || c >= len(c01Pipes) {
		return c01Cfg{}, false
	}
	return c01Cfg{a, b, c}, true
}

func c01ProtoFunc(i int) erpc.ProtoFunc {
	switch i {
	case 1:
		return jsonproto.NewJSONProtoFunc()
	case 2:
		return pbproto.NewPbProtoFunc()
	}
	return socket.RawProtoFunc
}

// ---- tokens, the handler function, payloads --------------------------------------------------------

// c01H / c01Hm: what every handler computes from (argument token, metadata token); the Lean driver
// uses the same two functions (Drv/C01.lean `hF`, `hmF`). c01OK: the handler's verdict.
func c01H(a, m uint64) uint64  { return a + 3*m }
func c01Hm(a, m uint64) uint64 { return 2*a + m + 1 }
func c01OK(a uint64) bool      { return a%11 != 0 }

const c01FailCode = 4242

func c01Mix(x uint64) uint64 {
	x += 0x9e3779b97f4a7c15
	x = (x ^ (x >> 30)) * 0xbf58476d1ce4e5b9
	x = (x ^ (x >> 27)) * 0x94d049bb133111eb
	return x ^ (x >> 31)
}

// c01PadLen: payload sizes from a few bytes to 64 KiB, a function of the token alone.
func c01PadLen(tok uint64) int {
	h := c01Mix(tok)
	v := int((h >> 8) & 0xffffff)
	switch c := h % 100; {
	case c < 62:
		return v % 48
	case c < 86:
		return 100 + v%1900
	case c < 97:
		return 2000 + v%14000
	default:
		return 60000 + v%5536
	}
}

const c01Alpha = "abcdefghijklmnopqrstuvwxyABCDEFGHIJKLMNOPQRSTUVWXY0123456789" // no 't', no 'z'

// c01Payload: the full body text of a token: "t<tok>z" + padding derived from the token, so that any
// observer can check every byte of a body against the token it names.
func c01Payload(tok uint64, esc ...bool) string {
	n := c01PadLen(tok)
	var b strings.Builder
	b.Grow(n + 24)
	b.WriteByte('t')
	b.WriteString(strconv.FormatUint(tok, 10))
	b.WriteByte('z')
	if len(esc) > 0 && esc[0] {
		b.WriteByte(' ')
	}
	x := c01Mix(tok ^ 0x5555)
	for i := 0; i < n; i++ {
		if i%8 == 0 {
			x = c01Mix(x)
		}
		b.WriteByte(c01Alpha[(x>>(uint(i%8)*8))&0xff%uint64(len(c01Alpha))])
	}
	return b.String()
}

// c01Tok parses a payload; ok only if every byte is the payload of the token it names.
func c01Tok(s string) (uint64, bool) {
	if len(s) < 3 || s[0] != 't' {
		return 0, false
	}
	i := strings.IndexByte(s, 'z')
	if i < 2 {
		return 0, false
	}
	tok, err := strconv.ParseUint(s[1:i], 10, 64)
	if err != nil {
		return 0, false
	}
	return tok, c01Payload(tok, i+1 < len(s) && s[i+1] == ' ') == s
}

// c01FindTok locates a payload inside codec-encoded body bytes (json string / plain / protobuf string
// field / form value: the payload alphabet is never escaped by any of them).
func c01FindTok(body []byte) (uint64, bool) {
	for i := 0; i < len(body); i++ {
		if body[i] != 't' {
			continue
		}
		j := i + 1
		for j < len(body) && body[j] >= '0' && body[j] <= '9' {
			j++
		}
		if j == i+1 || j >= len(body) || body[j] != 'z' {
			continue
		}
		tok, err := strconv.ParseUint(string(body[i+1:j]), 10, 64)
		if err != nil {
			continue
		}
		return tok, bytes.HasPrefix(body[i:], []byte(c01Payload(tok, j+1 < len(body) && body[j+1] == ' ')))
	}
	return 0, false
}

type C01Form struct {
	P string `form:"p"`
}

// c01Arg builds the argument / result objects of a codec.
func c01Arg(cd int, payload string) interface{} {
	switch cd {
	case 2:
		return &msg.BenchmarkMessage{Field1: payload, Field2: 7, Field3: 9}
	case 3, 4:
		return &C01Form{P: payload}
	}
	return payload
}

func c01NewResult(cd int) interface{} {
	switch cd {
	case 2:
		return new(msg.BenchmarkMessage)
	case 3, 4:
		return new(C01Form)
	}
	return new(string)
}

func c01Text(v interface{}) string {
	switch x := v.(type) {
	case string:
		return x
	case *string:
		if x != nil {
			return *x
		}
	case *msg.BenchmarkMessage:
		if x != nil {
			return x.Field1
		}
	case *C01Form:
		if x != nil {
			return x.P
		}
	}
	return ""
}

var c01Routes = []string{"str", "str", "pb", "fm", "fm"} // per codec

// ---- one run --------------------------------------------------------------------------------------

type c01Ev struct {
	k    byte // I W E C
	s, d int
	t    byte // c p r
	seq  int32
	ok   bool
	x, y uint64
}

func (e c01Ev) String() string {
	ok := 0
	if e.ok {
		ok = 1
	}
	return fmt.Sprintf("%c%d.%d.%c.%d.%d.%d.%d", e.k, e.s, e.d, e.t, e.seq, ok, e.x, e.y)
}

func c01ParseEv(s string) (c01Ev, bool) {
	if len(s) < 2 {
		return c01Ev{}, false
	}
	p := strings.Split(s[1:], ".")
	if len(p) != 7 || len(p[2]) != 1 {
		return c01Ev{}, false
	}
	e := c01Ev{k: s[0], t: p[2][0]}
	var err [6]error
	e.s, err[0] = strconv.Atoi(p[0])
	e.d, err[1] = strconv.Atoi(p[1])
	sq, e2 := strconv.ParseInt(p[3], 10, 32)
	e.seq, err[2] = int32(sq), e2
	e.ok = p[4] == "1"
	e.x, err[3] = strconv.ParseUint(p[5], 10, 64)
	e.y, err[4] = strconv.ParseUint(p[6], 10, 64)
	for _, x := range err {
		if x != nil {
			return e, false
		}
	}
	return e, true
}

type c01Issued struct {
	s, d   int
	isPush bool
	m      uint64
	seen   int32
}

type c01Viol struct{ oracle, detail, sig string }

type c01Run struct {
	cfg    c01Cfg
	id     int
	record bool
	mu     sync.Mutex // the one global recorder mutex
	evs    []c01Ev
	ctr    []uint64 // per (session, direction) token counters
	iss    sync.Map // arg token -> *c01Issued
	vmu    sync.Mutex
	viols  []c01Viol
	hist   map[string]int
	links  []*c01Link
	routes [2]map[string]string // per side: kind -> path ("c:str", "p:str", ...)
	nested int64
	dead   int32 // a call timed out: the workers stop issuing
}

type c01Link struct {
	A, B   erpc.Session
	CA, CB *mem.Conn
}

var c01Cur atomic.Value // *c01Run — the handlers find the current run here
var c01RunNo int

func (r *c01Run) viol(oracle, sig, format string, a ...interface{}) {
	r.vmu.Lock()
	if len(r.viols) < 40 {
		detail := fmt.Sprintf(format, a...)
		if r.cfg.aliasing() && c01AliasSeen && sig != "c01:frame-split-across-writes" {
			detail = "[" + sig + " in a configuration where form values alias the pooled read buffer] " + detail
			sig = c01AliasSig
		}
		r.viols = append(r.viols, c01Viol{oracle, detail, sig})
	}
	r.vmu.Unlock()
}

// onlyTimeouts: the run recorded violations and every one of them is a call-timeout.
func (r *c01Run) onlyTimeouts() bool {
	r.vmu.Lock()
	defer r.vmu.Unlock()
	if len(r.viols) == 0 {
		return false
	}
	for _, v := range r.viols {
		if v.sig != "c01:call-timeout" {
			return false
		}
	}
	return true
}

func (r *c01Run) count(k string) {
	r.vmu.Lock()
	r.hist[k]++
	r.vmu.Unlock()
}

func (r *c01Run) rec(e c01Ev) {
	if !r.record {
		return
	}
	r.mu.Lock()
	r.evs = append(r.evs, e)
	r.mu.Unlock()
}

// newTok allocates the next (argument, metadata) token pair of (session, direction); the tokens
// encode the session and the direction: k = (s*2+d)<<22 | n, a = 2k, m = 2k+1.
func (r *c01Run) newTok(s, d int) (uint64, uint64) {
	n := atomic.AddUint64(&r.ctr[s*2+d], 1)
	k := uint64(s*2+d)<<22 | n
	return 2 * k, 2*k + 1
}

func c01TokHome(a uint64) (s, d int) {
	k := a / 2
	sd := int(k >> 22)
	return sd / 2, sd % 2
}

// c01Where: which session of the run and which end (0 = A, the dialing side; 1 = B) a session object is.
func c01Where(remote string) (s, d int, ok bool) {
	// remote address of an end is "<name>-a:1" (then this end is B) or "<name>-b:1" (this end is A)
	i := strings.LastIndex(remote, "-")
	j := strings.LastIndex(remote[:max(i, 0)], "s")
	if i < 0 || j < 0 || i+2 > len(remote) {
		return 0, 0, false
	}
	n, err := strconv.Atoi(remote[j+1 : i])
	if err != nil {
		return 0, 0, false
	}
	if remote[i+1] == 'a' {
		return n, 1, true
	}
	return n, 0, true
}

// ---- recording plugin: issue events between the table store and the write ----------------------------

// c01Refuser drops the trial session of a run at its first PreReadHeader.
type c01Refuser struct{}

func (c01Refuser) Name() string { return "c01refuser" }
func (c01Refuser) PreReadHeader(ctx erpc.PreCtx) error {
	if a := ctx.Session().RemoteAddr().String(); strings.Contains(a, "trial-a") {
		return errors.New("trial session refused")
	}
	return nil
}

type c01Plugin struct{}

func (c01Plugin) Name() string { return "c01rec" }

func c01Issue(ctx erpc.WriteCtx, t byte) {
	r, _ := c01Cur.Load().(*c01Run)
	if r == nil || !r.record {
		return
	}
	s, d, ok := c01Where(ctx.Session().RemoteAddr().String())
	if !ok {
		return
	}
	out := ctx.Output()
	a, _ := c01Tok(c01Text(out.Body()))
	m, _ := strconv.ParseUint(string(out.Meta().Peek("c01m")), 10, 64)
	r.rec(c01Ev{k: 'I', s: s, d: d, t: t, seq: out.Seq(), ok: true, x: a, y: m})
}

func (c01Plugin) PreWriteCall(ctx erpc.WriteCtx) *erpc.Status { c01Issue(ctx, 'c'); return nil }
func (c01Plugin) PreWritePush(ctx erpc.WriteCtx) *erpc.Status { c01Issue(ctx, 'p'); return nil }

// ---- connection wrapper: every Write must be one whole frame; record it ---------------------------------

type c01RW struct{ r *bytes.Reader }

func (x c01RW) Read(p []byte) (int, error)  { return x.r.Read(p) }
func (x c01RW) Write(p []byte) (int, error) { return len(p), nil }

type c01Frame struct {
	mtype byte
	seq   int32
	ok    bool
	x, y  uint64
	xok   bool // body text is byte-for-byte the payload of x (or empty)
}

// c01ParseOne parses exactly one frame from b with the real protocol implementation; used is the
// number of bytes it consumed.
func c01ParseOne(pf erpc.ProtoFunc, b []byte) (f c01Frame, used int, err error) {
	defer func() {
		if p := recover(); p != nil {
			err = fmt.Errorf("panic: %v", p)
		}
	}()
	rd := bytes.NewReader(b)
	proto := pf(c01RW{rd})
	m := socket.NewMessage(socket.WithNewBody(func(socket.Header) interface{} { return new([]byte) }))
	if err = proto.Unpack(m); err != nil {
		return f, len(b) - rd.Len(), err
	}
	used = len(b) - rd.Len()
	f.mtype, f.seq, f.ok = m.Mtype(), m.Seq(), m.Status().OK()
	key := "c01m"
	if f.mtype == erpc.TypeReply {
		key = "c01r"
	}
	f.y, _ = strconv.ParseUint(string(m.Meta().Peek(key)), 10, 64)
	f.xok = true
	if bp, _ := m.Body().(*[]byte); bp != nil && len(*bp) > 0 {
		body := *bp
		if m.BodyCodec() == codec.ID_FORM {
			body = bytes.Replace(body, []byte{'+'}, []byte{' '}, -1)
		}
		f.x, f.xok = c01FindTok(body)
	}
	return f, used, nil
}

type c01Conn struct {
	*mem.Conn
	run  *c01Run
	s, d int
	pf   erpc.ProtoFunc
}

func (c *c01Conn) Write(p []byte) (int, error) {
	r := c.run
	f, used, err := c01ParseOne(c.pf, p)
	if err != nil || used != len(p) {
		r.viol("frame-per-write", "c01:frame-split-across-writes", "session %d end %d: a Write of %d bytes is not exactly one frame (parsed %d bytes, err %v)", c.s, c.d, len(p), used, err)
		return c.Conn.Write(p)
	}
	if !f.xok {
		r.viol("wire-body", "c01:wire-body-mixed", "session %d end %d: frame seq %d type %d carries a body that is not the payload of the token it names (%d)", c.s, c.d, f.seq, f.mtype, f.x)
	}
	t := byte('c')
	switch f.mtype {
	case erpc.TypeReply:
		t = 'r'
	case erpc.TypePush:
		t = 'p'
	}
	// record and forward under the recorder mutex: the recorded order of the frames of one direction
	// is then the order of the bytes in the pipe whatever the code under test does.
	r.mu.Lock()
	r.evs = append(r.evs, c01Ev{k: 'W', s: c.s, d: c.d, t: t, seq: f.seq, ok: f.ok, x: f.x, y: f.y})
	n, werr := c.Conn.Write(p)
	r.mu.Unlock()
	return n, werr
}

var _ net.Conn = (*c01Conn)(nil)

// c01CheckCapture re-parses everything one end wrote and checks that the frame boundaries are the
// Write boundaries (mem.Conn.Sent()).
func (r *c01Run) checkCapture(s, d int, c *mem.Conn) int {
	wire, writes := c.Sent()
	pf := c01ProtoFunc(r.cfg.proto)
	off := 0
	for i, n := range writes {
		if off+n > len(wire) {
			r.viol("frame-per-write", "c01:frame-split-across-writes", "session %d end %d: capture shorter than its Write lengths", s, d)
			return i
		}
		f, used, err := c01ParseOne(pf, wire[off:off+n])
		if err != nil || used != n {
			r.viol("frame-per-write", "c01:frame-split-across-writes", "session %d end %d: Write #%d of %d bytes is not exactly one frame (parsed %d bytes, err %v)", s, d, i, n, used, err)
			return i
		}
		if !f.xok {
			r.viol("wire-body", "c01:wire-body-mixed", "session %d end %d: frame #%d seq %d carries a body that is not the payload of the token it names", s, d, i, f.seq)
		}
		off += n
	}
	if off != len(wire) {
		r.viol("frame-per-write", "c01:frame-split-across-writes", "session %d end %d: %d captured bytes beyond the last Write", s, d, len(wire)-off)
	}
	return len(writes)
}

// ---- handlers (registered on both peers) -------------------------------------------------------------

// c01Extra: the value of the second metadata pair that travels with every message (request key
// "c01e", reply key "c01f"): a function of the metadata token, EMPTY for every third token (a
// value-less pair on the wire) — a pooled context / message must not show an earlier message's value.
func c01Extra(m uint64) string {
	if m%3 == 0 {
		return ""
	}
	return "x" + strconv.FormatUint(m*7+1, 10)
}

type c01Svc struct{ erpc.CallCtx }
type c01Psh struct{ erpc.PushCtx }

// c01Enter: the oracle on a handler / push-receiver input, and the E event.
func c01Enter(sess erpc.CtxSession, seq int32, metaTok []byte, text string, isPush bool, extra ...[]byte) (r *c01Run, s, d int, a, m uint64, good bool) {
	r, _ = c01Cur.Load().(*c01Run)
	if r == nil {
		return nil, 0, 0, 0, 0, false
	}
	s, d, _ = c01Where(sess.RemoteAddr().String())
	a, whole := c01Tok(text)
	m, _ = strconv.ParseUint(string(metaTok), 10, 64)
	t := byte('c')
	if isPush {
		t = 'p'
	}
	r.rec(c01Ev{k: 'E', s: s, d: d, t: t, seq: seq, ok: c01OK(a), x: a, y: m})
	if !whole {
		r.viol("handler-input", "c01:handler-input-mismatch", "session %d end %d seq %d: handler input %.60q (%d bytes) is not the payload of any token", s, d, seq, text, len(text))
		return r, s, d, a, m, false
	}
	v, found := r.iss.Load(a)
	if !found {
		if hs, _ := c01TokHome(a); hs != s && a >= 1<<23 {
			r.viol("handler-input", "c01:cross-session", "session %d end %d seq %d: handler received token %d which belongs to session %d", s, d, seq, a, hs)
		} else {
			r.viol("handler-input", "c01:handler-input-mismatch", "session %d end %d seq %d: handler received token %d which nobody sent", s, d, seq, a)
		}
		return r, s, d, a, m, false
	}
	is := v.(*c01Issued)
	if is.s != s {
		r.viol("handler-input", "c01:cross-session", "session %d end %d seq %d: handler received token %d which was sent on session %d", s, d, seq, a, is.s)
		return r, s, d, a, m, false
	}
	if is.d == d {
		r.viol("handler-input", "c01:handler-input-mismatch", "session %d end %d seq %d: handler received token %d which this very end issued", s, d, seq, a)
		return r, s, d, a, m, false
	}
	if is.m != m || is.isPush != isPush {
		r.viol("handler-input", "c01:handler-input-mismatch", "session %d end %d seq %d: token %d arrived with metadata %d (push=%v), sent with %d (push=%v)", s, d, seq, a, m, isPush, is.m, is.isPush)
		return r, s, d, a, m, false
	}
	if len(extra) == 1 && string(extra[0]) != c01Extra(m) {
		r.viol("handler-input", "c01:handler-input-mismatch", "session %d end %d seq %d: token %d arrived with second metadata value %q, sent with %q", s, d, seq, a, extra[0], c01Extra(m))
	}
	if atomic.AddInt32(&is.seen, 1) != 1 {
		r.viol("delivery", "c01:duplicate-delivery", "session %d end %d seq %d: token %d delivered more than once", s, d, seq, a)
	}
	return r, s, d, a, m, true
}

func c01Serve(ctx erpc.CallCtx, cd int, text string) (string, *erpc.Status) {
	r, s, d, a, m, _ := c01Enter(ctx.Session(), ctx.Seq(), ctx.PeekMeta("c01m"), text, false, ctx.PeekMeta("c01e"))
	if r == nil {
		return "", erpc.NewStatus(c01FailCode+1, "no run", "")
	}
	cd = r.cfg.codec
	// a server-side handler sometimes calls back to the client through ctx.Session() before it answers
	if d == 1 && a%7 == 0 {
		atomic.AddInt64(&r.nested, 1)
		r.call(ctx.Session(), s, 1, cd, false)
	}
	if !c01OK(a) {
		return "", erpc.NewStatus(c01FailCode, "c01 deliberate", "")
	}
	ctx.SetMeta("c01r", strconv.FormatUint(c01Hm(a, m), 10))
	ctx.SetMeta("c01f", c01Extra(m+1))
	return c01Payload(c01H(a, m), cd == 4), nil
}

func (h *c01Svc) Str(arg *string) (string, *erpc.Status) { return c01Serve(h, 0, *arg) }
func (h *c01Svc) Pb(arg *msg.BenchmarkMessage) (*msg.BenchmarkMessage, *erpc.Status) {
	t, st := c01Serve(h, 2, arg.Field1)
	if st != nil {
		return nil, st
	}
	return &msg.BenchmarkMessage{Field1: t, Field2: 1, Field3: 2}, nil
}
func (h *c01Svc) Fm(arg *C01Form) (*C01Form, *erpc.Status) {
	t, st := c01Serve(h, 3, arg.P)
	if st != nil {
		return nil, st
	}
	return &C01Form{P: t}, nil
}

func (h *c01Psh) Str(arg *string) *erpc.Status {
	c01Enter(h.Session(), h.Seq(), h.PeekMeta("c01m"), *arg, true, h.PeekMeta("c01e"))
	return nil
}
func (h *c01Psh) Pb(arg *msg.BenchmarkMessage) *erpc.Status {
	c01Enter(h.Session(), h.Seq(), h.PeekMeta("c01m"), arg.Field1, true, h.PeekMeta("c01e"))
	return nil
}
func (h *c01Psh) Fm(arg *C01Form) *erpc.Status {
	c01Enter(h.Session(), h.Seq(), h.PeekMeta("c01m"), arg.P, true, h.PeekMeta("c01e"))
	return nil
}

// ---- the caller side -------------------------------------------------------------------------------------

type c01CallSess interface {
	AsyncCall(serviceMethod string, args interface{}, result interface{}, callCmdChan chan<- erpc.CallCmd, setting ...erpc.MessageSetting) erpc.CallCmd
	Push(serviceMethod string, args interface{}, setting ...erpc.MessageSetting) *erpc.Status
}

type c01Pending struct {
	a, m uint64
	res  interface{}
	s, d int
}

func (r *c01Run) settings(m uint64, cd int) []erpc.MessageSetting {
	return []erpc.MessageSetting{
		erpc.WithBodyCodec(c01CodecIDs[cd]),
		erpc.WithXferPipe(c01Pipes[r.cfg.pipe]...),
		erpc.WithSetMeta("c01m", strconv.FormatUint(m, 10)),
		erpc.WithSetMeta("c01e", c01Extra(m)),
	}
}

// start issues one asynchronous call with fresh tokens (or the given ones).
func (r *c01Run) start(sess c01CallSess, s, d, cd int, ch chan erpc.CallCmd, tok ...uint64) (erpc.CallCmd, *c01Pending) {
	var a, m uint64
	if len(tok) == 2 {
		a, m = tok[0], tok[1]
	} else {
		a, m = r.newTok(s, d)
	}
	r.iss.Store(a, &c01Issued{s: s, d: d, m: m})
	p := &c01Pending{a: a, m: m, res: c01NewResult(cd), s: s, d: d}
	cmd := sess.AsyncCall(r.routes[1-d]["c:"+c01Routes[cd]], c01Arg(cd, c01Payload(a, cd == 4)), p.res, ch, r.settings(m, cd)...)
	return cmd, p
}

// finish checks a completed call: the property's oracle at the caller. Returns (ok, result token, reply meta token).
func (r *c01Run) finish(cmd erpc.CallCmd, p *c01Pending) (bool, uint64, uint64) {
	st := cmd.Status()
	seq := cmd.Output().Seq()
	if !st.OK() {
		r.rec(c01Ev{k: 'C', s: p.s, d: p.d, t: 'c', seq: seq, ok: false})
		if c01OK(p.a) || st.Code() != c01FailCode {
			r.viol("call-status", "c01:unexpected-status", "session %d end %d seq %d token %d: status %v on a healthy connection (handler verdict ok=%v)", p.s, p.d, seq, p.a, st, c01OK(p.a))
		}
		r.count("call:handler-status")
		return false, 0, 0
	}
	reply, _ := cmd.Reply()
	text := c01Text(reply)
	rt, whole := c01Tok(text)
	rm, _ := strconv.ParseUint(string(cmd.InputMeta().Peek("c01r")), 10, 64)
	r.rec(c01Ev{k: 'C', s: p.s, d: p.d, t: 'c', seq: seq, ok: true, x: rt, y: rm})
	if reply != p.res && c01Text(p.res) != text {
		r.viol("call-result", "c01:result-mismatch", "session %d end %d seq %d: Reply() is not the result object passed to the call", p.s, p.d, seq)
	}
	switch {
	case !c01OK(p.a):
		r.viol("call-status", "c01:unexpected-status", "session %d end %d seq %d token %d: OK status although the handler refuses this token", p.s, p.d, seq, p.a)
	case !whole:
		r.viol("call-result", "c01:result-mismatch", "session %d end %d seq %d token %d: result %.60q (%d bytes) is not the payload of any token", p.s, p.d, seq, p.a, text, len(text))
	case rt != c01H(p.a, p.m):
		sig := "c01:result-mismatch"
		detail := ""
		if other := c01UnH(rt); other != 0 {
			if hs, _ := c01TokHome(other); hs != p.s {
				sig, detail = "c01:cross-session", fmt.Sprintf(" (that is the answer to token %d of session %d)", other, hs)
			} else {
				detail = fmt.Sprintf(" (that is the answer to token %d)", other)
			}
		}
		r.viol("call-result", sig, "session %d end %d seq %d token %d meta %d: result token %d, want H = %d%s", p.s, p.d, seq, p.a, p.m, rt, c01H(p.a, p.m), detail)
	case rm != c01Hm(p.a, p.m):
		r.viol("call-result", "c01:result-mismatch", "session %d end %d seq %d token %d meta %d: reply metadata %d, want Hm = %d", p.s, p.d, seq, p.a, p.m, rm, c01Hm(p.a, p.m))
	case string(cmd.InputMeta().Peek("c01f")) != c01Extra(p.m+1):
		r.viol("call-result", "c01:result-mismatch", "session %d end %d seq %d token %d meta %d: second reply metadata value %q, want %q", p.s, p.d, seq, p.a, p.m, cmd.InputMeta().Peek("c01f"), c01Extra(p.m+1))
	}
	r.count("call:ok")
	return true, rt, rm
}

// c01UnH inverts H on harness tokens (a = 2k, m = 2k+1: H = 8k+3); 0 if rt is no such value.
func c01UnH(rt uint64) uint64 {
	if rt < 3 || (rt-3)%8 != 0 {
		return 0
	}
	return 2 * ((rt - 3) / 8)
}

const c01CallWait = 10 * time.Second

// c01Timeouts counts calls that never completed in this process; after three of them (each already
// reported as c01:call-timeout) the remaining real-code cases are skipped so that the run ends.
var c01Timeouts int32

func c01GiveUp() bool { return atomic.LoadInt32(&c01Timeouts) >= 3 }

// call = AsyncCall + wait (what Session.Call does), with a watchdog.
func (r *c01Run) call(sess c01CallSess, s, d, cd int, useCall bool, tok ...uint64) (seq int32, ok bool, rt, rm uint64) {
	ch := make(chan erpc.CallCmd, 1)
	cmd, p := r.start(sess, s, d, cd, ch, tok...)
	select {
	case <-cmd.Done():
	case <-time.After(c01CallWait):
		r.viol("call-completes", "c01:call-timeout", "session %d end %d token %d: no completion within %v", s, d, p.a, c01CallWait)
		atomic.StoreInt32(&r.dead, 1)
		atomic.AddInt32(&c01Timeouts, 1)
		return cmd.Output().Seq(), false, 0, 0
	}
	ok, rt, rm = r.finish(cmd, p)
	return cmd.Output().Seq(), ok, rt, rm
}

func (r *c01Run) push(sess c01CallSess, s, d, cd int, tok ...uint64) uint64 {
	var a, m uint64
	if len(tok) == 2 {
		a, m = tok[0], tok[1]
	} else {
		a, m = r.newTok(s, d)
	}
	r.iss.Store(a, &c01Issued{s: s, d: d, m: m, isPush: true})
	st := sess.Push(r.routes[1-d]["p:"+c01Routes[cd]], c01Arg(cd, c01Payload(a, cd == 4)), r.settings(m, cd)...)
	if !st.OK() {
		r.viol("push-status", "c01:unexpected-status", "session %d end %d token %d: push status %v on a healthy connection", s, d, a, st)
	}
	r.count("push")
	return a
}

// ---- setting up and tearing down a run -----------------------------------------------------------------------

func c01NewRun(cfg c01Cfg, sessions int, record bool) (*c01Run, func()) {
	c01RunNo++
	r := &c01Run{cfg: cfg, id: c01RunNo, record: record, ctr: make([]uint64, 2*sessions), hist: map[string]int{}}
	peers := [2]erpc.Peer{}
	for side := 0; side < 2; side++ {
		p := erpc.NewPeer(erpc.PeerConfig{}, c01Plugin{}, c01Refuser{})
		r.routes[side] = map[string]string{}
		for _, path := range p.RouteCall(new(c01Svc)) {
			r.routes[side]["c:"+path[strings.LastIndex(path, "/")+1:]] = path
		}
		for _, path := range p.RoutePush(new(c01Psh)) {
			r.routes[side]["p:"+path[strings.LastIndex(path, "/")+1:]] = path
		}
		peers[side] = p
	}
	c01Cur.Store(r)
	pf := c01ProtoFunc(cfg.proto)
	for i := 0; i < sessions; i++ {
		ca, cb := mem.Pair(fmt.Sprintf("c01r%ds%d", r.id, i))
		var na, nb net.Conn = ca, cb
		if record {
			na, nb = &c01Conn{Conn: ca, run: r, s: i, d: 0, pf: pf}, &c01Conn{Conn: cb, run: r, s: i, d: 1, pf: pf}
		}
		l := &c01Link{CA: ca, CB: cb}
		var wg sync.WaitGroup
		wg.Add(1)
		go func() {
			defer wg.Done()
			l.B, _ = peers[1].ServeConn(nb, pf)
		}()
		l.A, _ = peers[0].ServeConn(na, pf)
		wg.Wait()
		if l.A == nil || l.B == nil {
			r.viol("connect", "c01:connect-failed", "session %d could not be served", i)
			continue
		}
		r.links = append(r.links, l)
	}
	// A "trial" session that the B side drops at its very first PreReadHeader (what a quota / ban
	// plugin does): an exit path of the read loop that hands its context back. Whatever that path
	// does with pooled objects must not reach the sessions of the run (seed C01-E: the context was
	// put into the pool twice, two read loops then shared one context). It is not part of r.links.
	if ta, tb := mem.Pair(fmt.Sprintf("c01r%dtrial", r.id)); true {
		var wg sync.WaitGroup
		wg.Add(1)
		var sb erpc.Session
		go func() { defer wg.Done(); sb, _ = peers[1].ServeConn(tb, pf) }()
		sa, _ := peers[0].ServeConn(ta, pf)
		wg.Wait()
		if sa != nil && sb != nil {
			waitUntil(2*time.Second, func() bool {
				select {
				case <-sb.CloseNotify():
					return true
				default:
					return false
				}
			})
			sa.Close()
		}
		ta.Close()
		tb.Close()
	}
	return r, func() {
		// Session.Close waits for every pending call; after a lost call it would wait for ever
		fin := make(chan struct{})
		go func() {
			for _, l := range r.links {
				l.A.Close()
				l.B.Close()
			}
			peers[0].Close()
			peers[1].Close()
			close(fin)
		}()
		select {
		case <-fin:
		case <-time.After(3 * time.Second):
			for _, l := range r.links {
				l.CA.Close()
				l.CB.Close()
			}
		}
		c01Cur.Store((*c01Run)(nil))
	}
}

// settle waits until every push that was written has reached its receiver, then runs the whole-run
// oracles: exactly-once delivery and the capture check.
func (r *c01Run) settle() (frames int) {
	missing := func() (n int, first uint64) {
		r.iss.Range(func(k, v interface{}) bool {
			if atomic.LoadInt32(&v.(*c01Issued).seen) == 0 {
				n++
				first = k.(uint64)
			}
			return true
		})
		return
	}
	if atomic.LoadInt32(&r.dead) == 0 {
		waitUntil(10*time.Second, func() bool { n, _ := missing(); return n == 0 })
	}
	if n, first := missing(); n > 0 {
		s, d := c01TokHome(first)
		r.viol("delivery", "c01:missing-delivery", "%d message(s) written on a healthy connection never reached a handler (e.g. token %d of session %d end %d)", n, first, s, d)
	}
	for i, l := range r.links {
		frames += r.checkCapture(i, 0, l.CA)
		frames += r.checkCapture(i, 1, l.CB)
	}
	return frames
}

// stress: S sessions x G client goroutines (+ G/2 server goroutines) x N operations each.
func (r *c01Run) stress(G, N int, seed int64) {
	var wg sync.WaitGroup
	cd := r.cfg.codec
	worker := func(sess erpc.Session, s, d int, rnd *hx.R) {
		defer wg.Done()
		for i := 0; i < N && atomic.LoadInt32(&r.dead) == 0; i++ {
			switch k := rnd.Intn(10); {
			case k < 4:
				r.call(sess, s, d, cd, true)
			case k < 7:
				r.push(sess, s, d, cd)
			default: // a burst of asynchronous calls completing on one shared channel
				n := 2 + rnd.Intn(4)
				ch := make(chan erpc.CallCmd, n)
				pend := map[erpc.CallCmd]*c01Pending{}
				for j := 0; j < n; j++ {
					cmd, p := r.start(sess, s, d, cd, ch)
					pend[cmd] = p
				}
				for j := 0; j < n; j++ {
					select {
					case cmd := <-ch:
						p := pend[cmd]
						if p == nil {
							r.viol("call-completes", "c01:foreign-completion", "session %d end %d: the shared channel delivered a call command that was not started on it", s, d)
							continue
						}
						delete(pend, cmd)
						r.finish(cmd, p)
					case <-time.After(c01CallWait):
						r.viol("call-completes", "c01:call-timeout", "session %d end %d: %d asynchronous call(s) never completed", s, d, len(pend))
						atomic.StoreInt32(&r.dead, 1)
						atomic.AddInt32(&c01Timeouts, 1)
						j = n
					}
				}
				i += n - 1
			}
		}
	}
	for s, l := range r.links {
		for g := 0; g < G; g++ {
			wg.Add(1)
			go worker(l.A, s, 0, hx.NewR(seed*1000003+int64(s)*1009+int64(g)))
		}
		for g := 0; g < (G+1)/2; g++ {
			wg.Add(1)
			go worker(l.B, s, 1, hx.NewR(seed*1000003+int64(s)*1009+500+int64(g)))
		}
	}
	wg.Wait()
}

// volleys: in every round all goroutines of a session are released together and each starts one call,
// so that the sequence-number increments, table stores and writes of different calls overlap.
func (r *c01Run) volleys(G, rounds int) {
	cd := r.cfg.codec
	for round := 0; round < rounds && atomic.LoadInt32(&r.dead) == 0; round++ {
		var ready, done sync.WaitGroup
		gate := make(chan struct{})
		for s, l := range r.links {
			for g := 0; g < G; g++ {
				ready.Add(1)
				done.Add(1)
				var sess erpc.Session = l.A
				d := 0
				if g%3 == 2 {
					sess, d = l.B, 1
				}
				go func(s, d int, sess erpc.Session) {
					defer done.Done()
					ready.Done()
					<-gate
					r.call(sess, s, d, cd, true)
				}(s, d, sess)
			}
		}
		ready.Wait()
		close(gate)
		done.Wait()
	}
	r.count("volley-rounds")
}

func (r *c01Run) flush(line string, out *hx.Out) {
	for _, v := range r.viols {
		out.Violate(line, v.oracle, v.detail, v.sig)
	}
	for k, v := range r.hist {
		for i := 0; i < v; i++ {
			out.Count(k)
		}
	}
}

// ---- trace oracle (pure function of a recorded event list) ----------------------------------------------------

type c01Key struct {
	s, d int
	seq  int32
}

// c01CheckTrace evaluates the property's token oracles on a recorded linearisation. It is what Run
// prints for a c01run line; the Lean monitor decides the same line with the model.
func c01CheckTrace(evs []c01Ev) (why string, at int, sig string) {
	type iss struct {
		t    byte
		a, m uint64
		w    bool
		e    int
	}
	calls := map[c01Key]*iss{}  // issued by end d
	pushes := map[c01Key]*iss{} // issued by end d
	for i, e := range evs {
		k := c01Key{e.s, e.d, e.seq}
		pk := c01Key{e.s, 1 - e.d, e.seq} // the peer's key space
		switch e.k {
		case 'I':
			if calls[k] != nil || pushes[k] != nil {
				return "seq-reused", i, "c01:seq-reused"
			}
			if e.t == 'c' {
				calls[k] = &iss{t: 'c', a: e.x, m: e.y}
			} else {
				pushes[k] = &iss{t: 'p', a: e.x, m: e.y}
			}
		case 'W':
			switch e.t {
			case 'c', 'p':
				is := calls[k]
				if e.t == 'p' {
					is = pushes[k]
				}
				if is == nil || is.a != e.x || is.m != e.y {
					return "wire-frame-differs-from-issue", i, "c01:handler-input-mismatch"
				}
				is.w = true
			case 'r':
				is := calls[pk]
				if is == nil {
					return "reply-without-call", i, "c01:result-mismatch"
				}
				if e.ok && (e.x != c01H(is.a, is.m) || e.y != c01Hm(is.a, is.m)) {
					return "reply-frame-not-H-of-call", i, "c01:result-mismatch"
				}
			}
		case 'E':
			is := calls[pk]
			if e.t == 'p' {
				is = pushes[pk]
			}
			if is == nil || !is.w || is.a != e.x || is.m != e.y {
				return "handler-input-not-sent", i, "c01:handler-input-mismatch"
			}
			is.e++
			if is.e > 1 {
				return "handler-input-twice", i, "c01:duplicate-delivery"
			}
		case 'C':
			is := calls[k]
			if is == nil {
				return "completion-without-call", i, "c01:result-mismatch"
			}
			if e.ok && (e.x != c01H(is.a, is.m) || e.y != c01Hm(is.a, is.m)) {
				return "result-not-own-reply", i, "c01:result-mismatch"
			}
		default:
			return "bad-event", i, "c01:bad-trace"
		}
	}
	return "", len(evs), ""
}

// ---- Prop -------------------------------------------------------------------------------------------------------------

func c01Setup() {
	erpc.SetLoggerLevel(c01LogLevel())
	xgzip.Reg('g', "gzip", 5)
	xmd5.Reg('m', "md5")
	c01AliasSeen, _ = c01AliasProbe(c01Cfg{0, 3, 0})
}

// c01AliasProbe: one goroutine, one session. A call completes OK; the caller keeps the result object
// and a private copy of its text; then up to 60 further calls run on the same session. If the text
// of the first result changes, a later frame was written into memory the first result still refers
// to (rawproto hands codec.Unmarshal a slice of its pooled read buffer, and the form codec returns
// substrings of it: codec/form_codec.go Unmarshal `url.ParseQuery(goutil.BytesToString(data))`).
func c01AliasProbe(cfg c01Cfg) (mutated bool, detail string) {
	run, done := c01NewRun(cfg, 1, false)
	defer done()
	if len(run.links) != 1 {
		return false, "no connection"
	}
	l := run.links[0]
	first := func() (interface{}, string, uint64) {
		for {
			a, m := run.newTok(0, 0)
			if !c01OK(a) || a%7 == 0 {
				continue
			}
			ch := make(chan erpc.CallCmd, 1)
			cmd, p := run.start(l.A, 0, 0, cfg.codec, ch, a, m)
			select {
			case <-cmd.Done():
			case <-time.After(c01CallWait):
				atomic.StoreInt32(&run.dead, 1)
				atomic.AddInt32(&c01Timeouts, 1)
			}
			return p.res, strings.Clone(c01Text(p.res)), a
		}
	}
	res, want, a := first()
	if _, whole := c01Tok(want); !whole {
		return false, "first result already broken"
	}
	for i := 0; i < 60 && atomic.LoadInt32(&run.dead) == 0; i++ {
		run.call(l.A, 0, 0, cfg.codec, true)
		if got := c01Text(res); got != want {
			return true, fmt.Sprintf("the result of the call with token %d was %.40q... (%d bytes) when the call completed; after %d more call(s) on the session the same result object reads %.40q...", a, want, len(want), i+1, got)
		}
	}
	return false, ""
}

func c01AllCfgs() []c01Cfg {
	var l []c01Cfg
	for p := range c01ProtoNames {
		for c := range c01CodecNames {
			for x := range c01Pipes {
				if cfg := (c01Cfg{p, c, x}); cfg.OK() {
					l = append(l, cfg)
				}
			}
		}
	}
	return l
}

func c01Gen(r *hx.R, tier string, out *hx.Out) []string {
	var lines []string
	cfgs := c01AllCfgs()
	r.Shuffle(len(cfgs), func(i, j int) { cfgs[i], cfgs[j] = cfgs[j], cfgs[i] })
	nSeq, nRun, nStress := 60, 5, 12
	if tier == "thorough" {
		nSeq, nRun, nStress = 220, 16, len(cfgs)
	}
	// direct probe for results that change after completion, every protocol x {form, form-esc} and a few others
	for _, cfg := range cfgs {
		if cfg.codec >= 3 && (cfg.pipe == 0 || cfg.proto == 0) || (cfg.pipe == 0 && cfg.proto == 0) {
			lines = append(lines, fmt.Sprintf("c01alias cfg=%s", cfg))
		}
	}
	// sequential scenarios and recorded runs compare with the model event by event; the configuration in
	// which results are rewritten after completion is covered by c01alias and c01stress instead.
	var mcfgs []c01Cfg
	for _, c := range cfgs {
		if !c.aliasing() {
			mcfgs = append(mcfgs, c)
		}
	}
	// sequential scenarios: every configuration at least once
	for i := 0; i < nSeq; i++ {
		cfg := mcfgs[i%len(mcfgs)]
		n := 1 + r.Intn(10)
		ops := make([]string, n)
		for j := range ops {
			a := uint64(1 + r.Intn(400))
			if r.Intn(6) == 0 {
				a = uint64(11 * (1 + r.Intn(30))) // the handler refuses multiples of 11
			}
			ops[j] = fmt.Sprintf("%c.%d.%d", "caapsq"[r.Intn(6)], a, r.Intn(1000))
		}
		lines = append(lines, fmt.Sprintf("c01seq cfg=%s ops=%s", cfg, strings.Join(ops, ",")))
	}
	// recorded concurrent runs (the real code runs here; the line carries the recorded events)
	for i := 0; i < nRun && !c01GiveUp(); i++ {
		cfg := mcfgs[(i*7+3)%len(mcfgs)]
		S, G, N := 1+r.Intn(3), 2+r.Intn(5), 0
		target := 700 + r.Intn(500) // operations in the run
		N = target/(S*(G+(G+1)/2)) + 1
		run, done := c01NewRun(cfg, S, true)
		run.stress(G, N, r.Int63n(1<<40))
		frames := run.settle()
		done()
		parts := make([]string, len(run.evs))
		for j, e := range run.evs {
			parts[j] = e.String()
		}
		line := fmt.Sprintf("c01run cfg=%s s=%d g=%d n=%d frames=%d nested=%d ev=%s", cfg, S, G, N, frames, run.nested, strings.Join(parts, ","))
		run.flush(line[:min(len(line), 300)], out)
		out.Count("run:cfg=" + cfg.Name())
		lines = append(lines, line)
	}
	// unrecorded stress
	for i := 0; i < nStress; i++ {
		cfg := cfgs[(i*5+1)%len(cfgs)]
		S, G := 1+r.Intn(4), 2+r.Intn(10)
		N := 20 + r.Intn(40)
		if tier == "thorough" {
			N *= 3
		}
		lines = append(lines, fmt.Sprintf("c01stress cfg=%s s=%d g=%d n=%d seed=%d", cfg, S, G, N, r.Int63n(1<<40)))
	}
	return lines
}

func c01Run1(line string, out *hx.Out) (obs string, nontrivial bool) {
	kind, f := hx.Fields(line)
	defer func() {
		if p := recover(); p != nil {
			obs, nontrivial = fmt.Sprintf("panic %v", p), false
			out.Violate(line[:min(len(line), 300)], "harness", obs, "c01:harness-panic")
		}
	}()
	cfg, ok := c01ParseCfg(f["cfg"])
	if !ok || !cfg.OK() {
		return "bad-case", false
	}
	atoi := func(k string) int { n, _ := strconv.Atoi(f[k]); return n }
	if kind != "c01run" && c01GiveUp() {
		return "skipped-after-timeouts", false
	}
	short := line[:min(len(line), 300)]
	switch kind {
	case "c01seq":
		return c01Seq(short, cfg, f["ops"], out)
	case "c01run":
		var evs []c01Ev
		if f["ev"] != "" {
			for _, s := range strings.Split(f["ev"], ",") {
				e, ok := c01ParseEv(s)
				if !ok {
					return "bad-case", false
				}
				evs = append(evs, e)
			}
		}
		out.Count(fmt.Sprintf("run:events<=%d", (len(evs)/1000+1)*1000))
		for _, e := range evs {
			out.Count("ev:" + string(e.k) + string(e.t))
		}
		why, at, sig := c01CheckTrace(evs)
		if why != "" {
			out.Violate(short, "trace-oracle", fmt.Sprintf("event %d (%s): %s", at, evs[at], why), sig)
			return fmt.Sprintf("reject at=%d why=%s", at, why), true
		}
		return fmt.Sprintf("accept n=%d", len(evs)), len(evs) > 0
	case "c01alias":
		mutated, detail := c01AliasProbe(cfg)
		out.Count(fmt.Sprintf("alias:cfg=%s:mutated=%v", cfg.Name(), mutated))
		if mutated {
			out.Violate(short, "result-stable-after-completion", detail, c01AliasSig)
		}
		return "ok probed", true
	case "c01stress":
		S, G, N := atoi("s"), atoi("g"), atoi("n")
		if S < 1 || G < 1 || N < 1 || S > 64 {
			return "bad-case", false
		}
		seed, _ := strconv.ParseInt(f["seed"], 10, 64)
		var run *c01Run
		var frames int
		// a timeout verdict (a call without completion after c01CallWait) depends on the machine: it
		// is confirmed by running the same case once more; what the first run saw is reported only if
		// the second run times out as well. Every other violation is reported from the first run.
		for attempt := 0; attempt < 2; attempt++ {
			before := atomic.LoadInt32(&c01Timeouts)
			var done func()
			run, done = c01NewRun(cfg, S, false)
			run.stress(G, N, seed)
			run.volleys(max(G, 8), 40)
			frames = run.settle()
			done()
			if attempt == 0 && run.onlyTimeouts() {
				atomic.StoreInt32(&c01Timeouts, before)
				out.Count("stress:timeout-first-run")
				time.Sleep(2 * time.Second)
				continue
			}
			break
		}
		run.flush(short, out)
		out.Count("stress:cfg=" + cfg.Name())
		out.Count(fmt.Sprintf("stress:frames<=%d", (frames/2000+1)*2000))
		return fmt.Sprintf("ok sessions=%d workers=%d", S, S*(G+(G+1)/2)), true
	}
	return "bad-kind", false
}

// c01Seq: one goroutine; every operation finishes (for a push: its receiver has run) before the next starts.
func c01Seq(line string, cfg c01Cfg, opsField string, out *hx.Out) (string, bool) {
	run, done := c01NewRun(cfg, 1, false)
	defer done()
	if len(run.links) != 1 {
		run.flush(line, out)
		return "bad-connect", false
	}
	l := run.links[0]
	var obs []string
	for _, op := range strings.Split(opsField, ",") {
		if atomic.LoadInt32(&run.dead) != 0 {
			obs = append(obs, "timeout")
			break
		}
		p := strings.Split(op, ".")
		if len(p) != 3 || len(p[0]) != 1 {
			return "bad-case", false
		}
		a, e1 := strconv.ParseUint(p[1], 10, 62)
		m, e2 := strconv.ParseUint(p[2], 10, 62)
		if e1 != nil || e2 != nil {
			return "bad-case", false
		}
		if _, dup := run.iss.Load(a); dup {
			// the harness's delivery oracle is keyed by token; a repeated token is issued under a fresh key
			run.iss.Delete(a)
		}
		var sess erpc.Session = l.A
		d := 0
		if p[0] == "s" || p[0] == "q" {
			sess, d = l.B, 1
		}
		out.Count("seq:op=" + p[0])
		switch p[0] {
		case "c", "a", "s":
			seq, ok, rt, rm := run.callSeq(sess, d, cfg.codec, a, m)
			o := 0
			if ok {
				o = 1
			}
			obs = append(obs, fmt.Sprintf("c%d:%d:%d:%d:%d", d, seq, o, rt, rm))
		case "p", "q":
			run.pushSeq(sess, d, cfg.codec, a, m)
			v, _ := run.iss.Load(a)
			is := v.(*c01Issued)
			if !waitUntil(10*time.Second, func() bool { return atomic.LoadInt32(&is.seen) > 0 }) {
				obs = append(obs, fmt.Sprintf("p%d:lost", d))
				continue
			}
			obs = append(obs, fmt.Sprintf("p%d:%d:%d", d, a, m))
		default:
			return "bad-case", false
		}
	}
	run.settleSeq()
	run.flush(line, out)
	out.Count("seq:cfg=" + cfg.Name())
	return "ok " + strings.Join(obs, " "), true
}

// In sequential scenarios the tokens come from the case line (they do not encode a session), so the
// handler-side oracle compares against the issue table only.
func (r *c01Run) callSeq(sess erpc.Session, d, cd int, a, m uint64) (int32, bool, uint64, uint64) {
	return r.call(sess, 0, d, cd, true, c01SeqTok(d, a), m)
}

func (r *c01Run) pushSeq(sess erpc.Session, d, cd int, a, m uint64) {
	r.push(sess, 0, d, cd, c01SeqTok(d, a), m)
}

// c01SeqTok keeps the case's token value; the home check of the handler oracle (session 0, issuing
// end) is satisfied by construction only for harness tokens, so sequential runs skip it (see c01Enter:
// tokens below 1<<22 carry no home).
func c01SeqTok(d int, a uint64) uint64 { return a }

func (r *c01Run) settleSeq() {
	for i, l := range r.links {
		r.checkCapture(i, 0, l.CA)
		r.checkCapture(i, 1, l.CB)
	}
}

func c01Finish(out *hx.Out) {
	keys := make([]string, 0)
	for k := range out.Hist {
		if strings.HasPrefix(k, "run:cfg=") || strings.HasPrefix(k, "stress:cfg=") || strings.HasPrefix(k, "seq:cfg=") {
			keys = append(keys, k[strings.Index(k, "=")+1:])
		}
	}
	sort.Strings(keys)
	uniq := keys[:0]
	for i, k := range keys {
		if i == 0 || keys[i-1] != k {
			uniq = append(uniq, k)
		}
	}
	out.Extra["c01_configurations_exercised"] = len(uniq)
	out.Extra["c01_not_exercised"] = "thriftproto, httproto (their package init changes process-wide defaults); jsonproto x protobuf body (protocol not binary-transparent, C05)"
}

func init() {
	props["c01"] = &Prop{Setup: c01Setup, Gen: c01Gen, Run: c01Run1, Finish: c01Finish}
}

func c01LogLevel() string {
	if v := os.Getenv("C01_LOG"); v != "" {
		return v
	}
	return "OFF"
}
