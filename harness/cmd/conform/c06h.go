package main

import (
	"fmt"
	"io"
	"strconv"
	"strings"

	erpc "github.com/henrylee2cn/erpc/v6"
	"github.com/henrylee2cn/erpc/v6/socket"

	"verif/harness/internal/hx"
)

// C06, httproto.Unpack against its Lean model (Model/HttpProto), kind
//   httpread  one real Unpack of arbitrary bytes under a small read limit vs the model on
//             (class, bytes consumed, largest read request), plus the property's own oracle:
//             the bytes buffered for ONE message (first line + header lines + the line being read,
//             line ends not counted) stay within the read limit (sig c06:http:head-exceeds-read-limit),
//             every read request stays within it (c06:http:read-request-above-limit), and an eof
//             result means the input is exhausted unless the gzip filter reported it
//             (c06:http:eof-with-input-left).
// Families: first line or a header line longer than the limit (with and without a line end), many
// short header lines whose total exceeds the limit, messages whose head or head+body sits exactly
// at / one byte around the limit, Content-Length at every boundary, and the mutated / truncated /
// hand-made / random inputs of the C05 generator with small limits.

func init() {
	p := props["c06"]
	g, r := p.Gen, p.Run
	p.Gen = func(rr *hx.R, tier string, out *hx.Out) []string {
		ls := g(rr, tier, out)
		return append(ls, c05hGenSub(rr, tier, "c06hgen", out)...)
	}
	// generator in a child process, gzip registered here only when the first httpread case runs
	// (after every raw / xproto / xlive case): see c05h.go
	props["c06hgen"] = &Prop{
		Setup: func() { erpc.SetLoggerLevel("OFF"); regTestFilters(); c05hRegGzip() },
		Gen:   c06hGen,
		Run:   func(string, *hx.Out) (string, bool) { return "generated", false },
	}
	p.Run = func(line string, out *hx.Out) (string, bool) {
		if strings.HasPrefix(line, "httpread") {
			return c06hRun(line, out)
		}
		return r(line, out)
	}
}

func c06hLine(r *hx.R, n int) string {
	const al = "abcdefghijklmnopqrstuvwxyzABCDEFGHIJKLMNOPQRSTUVWXYZ0123456789-_/ :;=\r"
	b := make([]byte, n)
	for i := range b {
		b[i] = al[r.Intn(len(al))]
	}
	return string(b)
}

func c06hGenBytes(r *hx.R, out *hx.Out) ([]byte, int) {
	limit := r.Pick(16, 40, 64, 100, 300, 1024)
	eol := "\r\n"
	if r.Intn(4) == 0 {
		eol = "\n"
	}
	first := []string{"POST /a/b HTTP/1.1", "HTTP/1.1 200 OK", "HTTP/1.1 299 Business Error", "GET /x?k=v HTTP/1.1"}[r.Intn(4)]
	switch r.Intn(9) {
	case 0: // a first line longer than the limit
		n := limit + r.Pick(-6, -5, -4, -1, 0, 1, 2, 50, 3*limit)
		if n < 0 {
			n = 0
		}
		s := "POST /" + c06hLine(r, n)
		if r.Intn(2) == 0 {
			s += " HTTP/1.1" + eol + eol
		}
		return []byte(s), limit
	case 1: // one header line longer than what is left of the limit
		n := limit - len(first) + r.Pick(-3, -2, -1, 0, 1, 2, 40, 4*limit)
		if n < 2 {
			n = 2
		}
		s := first + eol + "K:" + c06hLine(r, n-2)
		if r.Intn(2) == 0 {
			s += eol + eol
		}
		return []byte(s), limit
	case 2: // many short header lines
		s := first + eol
		total := len(first)
		want := limit + r.Pick(-8, -1, 0, 1, 30, 5*limit)
		for i := 0; total < want; i++ {
			l := fmt.Sprintf("k%d:%s", i, c06hLine(r, r.Intn(6)))
			if r.Intn(6) == 0 {
				l = ":"
			}
			s += l + eol
			total += len(strings.TrimSuffix(l, "\r"))
		}
		if r.Intn(3) != 0 {
			s += eol
		}
		return []byte(s), limit
	case 3: // head + body exactly at / around the limit
		hdr := []string{"X-Seq: 5", "Content-Type: text/plain", "Foo: bar"}[:r.Intn(4)]
		head := len(first)
		s := first + eol
		for _, h := range hdr {
			s += h + eol
			head += len(h)
		}
		body := limit - head + r.Pick(-2, -1, 0, 1, 2) - r.Pick(17, 18, 19, 20) // the Content-Length line itself
		if body < 1 {
			body = 1
		}
		cl := fmt.Sprintf("Content-Length: %d", body)
		s += cl + eol + eol
		have := body + r.Pick(0, 0, 0, -1, 3)
		if have < 0 {
			have = 0
		}
		return append([]byte(s), r.Bytes(have, 0)...), r.Pick(limit, limit, head+len(cl)+body, head+len(cl)+body-1, head+len(cl)+body+1)
	case 4: // Content-Length at the boundaries, no or little body
		cl := r.Pick(0, 1, -1, limit, limit+1, limit-len(first)-20, 1<<24, 1<<32, 1<<32+5, 1<<62)
		s := fmt.Sprintf("%s%sContent-Length: %d%s%s", first, eol, cl, eol, eol)
		return append([]byte(s), r.Bytes(r.Intn(8), 0)...), limit
	case 5: // limits below the 5-byte prefix
		return []byte(first + eol + eol), r.Pick(1, 2, 4, 5, 6, len(first), len(first)+1)
	}
	b, _ := c05hGenUnpackBytes(r, out, "httpread")
	return b, limit
}

func c06hGen(r *hx.R, tier string, out *hx.Out) []string {
	n := 1500
	if tier == "thorough" {
		n = 15000
	}
	var ls []string
	for i := 0; i < n; i++ {
		b, limit := c06hGenBytes(r, out)
		if !c05hTargetsInClass(b) {
			out.Count("httpread:gen-outside-model-domain")
			b = []byte("POST /a HTTP/1.1\r\n\r\n")
		}
		t := newC05hTabs()
		t.addUnpack(b, limit)
		ls = append(ls, fmt.Sprintf("httpread limit=%d chunk=%d cseed=%d %s bytes=%s", limit, r.Intn(4), r.Intn(1000), t, hx.Hex(b)))
	}
	return ls
}

// c06hReader: a chunking reader that also accounts for what the line reader buffers: bytes
// delivered through 1-byte requests, minus line feeds and the carriage return in front of them.
type c06hReader struct {
	*chunkReader
	one, lf, cr int
	prevCR      bool
}

func (c *c06hReader) Read(p []byte) (int, error) {
	n, err := c.chunkReader.Read(p)
	if len(p) == 1 && n == 1 {
		c.one++
		switch {
		case p[0] == '\n':
			c.lf++
			if c.prevCR {
				c.cr++
			}
			c.prevCR = false
		default:
			c.prevCR = p[0] == '\r'
		}
	}
	return n, err
}

func c06hRun(line string, out *hx.Out) (string, bool) {
	_, f := hx.Fields(line)
	limit, _ := strconv.Atoi(f["limit"])
	chunk, _ := strconv.Atoi(f["chunk"])
	cseed, _ := strconv.Atoi(f["cseed"])
	b := hx.UnHex(f["bytes"])
	c05hRegGzip()
	regTestFilters()
	socket.SetMessageSizeLimit(uint32(limit))
	defer socket.SetMessageSizeLimit(0)
	rd := &c06hReader{chunkReader: newChunkReader(b, chunk, int64(cseed))}
	p := c05hPF()(rd)
	msg := socket.NewMessage(socket.WithNewBody(func(socket.Header) interface{} { return new([]byte) }))
	class := ""
	var err error
	func() {
		defer func() {
			if e := recover(); e != nil {
				class = "reject"
			}
		}()
		err = p.Unpack(msg)
	}()
	switch {
	case class == "reject":
	case err == nil:
		class = "ok"
	case err == io.EOF || err == io.ErrUnexpectedEOF:
		class = "eof"
	case err == socket.ErrExceedMessageSizeLimit:
		class = "size"
	default:
		class = "reject"
	}
	out.Count("httpread:" + class)
	lim := limit
	if lim < 5 {
		lim = 5
	}
	// head bytes held for this message: the 5-byte prefix + every byte the line reader was given,
	// line ends not counted; + 1: the byte that was read and refused; + 1: a one-byte body
	held := 5 + rd.one - rd.lf - rd.cr
	if held > lim+2 {
		out.Violate(line, "head-within-read-limit", fmt.Sprintf("Unpack (%s) buffered %d head bytes of one message under a read limit of %d (%d bytes consumed)", class, held, limit, rd.pos), "c06:http:head-exceeds-read-limit")
	}
	if rd.MaxAsk > lim {
		out.Violate(line, "read-request-bounded", fmt.Sprintf("Unpack asked for %d bytes with limit %d", rd.MaxAsk, limit), "c06:http:read-request-above-limit")
	}
	if class == "eof" && rd.pos != len(b) && len(msg.XferPipe().IDs()) == 0 {
		out.Violate(line, "eof-consumes-all", fmt.Sprintf("eof after %d of %d bytes", rd.pos, len(b)), "c06:http:eof-with-input-left")
	}
	return fmt.Sprintf("%s consumed=%d ask=%d", class, rd.pos, rd.MaxAsk), len(b) > 5
}
