// Command conform is the correspondence harness (tie B): it generates cases from one seed,
// runs them on the real teleport code built from /repo with -tags verif, and writes
// the case lines, the implementation's canonical observations and run statistics.
//
//	conform <prop> -seed N -tier quick|thorough -cases f -obs f -stats f [-replay casefile]
package main

import (
	"flag"
	"fmt"
	"os"

	"verif/harness/internal/hx"
)

// Prop is one property runner: gen produces case lines; run executes one case line on the real
// code and returns the canonical observation plus whether the case is non-trivial by the rule.
type Prop struct {
	Gen func(r *hx.R, tier string, out *hx.Out) []string
	Run func(line string, out *hx.Out) (obs string, nontrivial bool)
	// Setup runs once before any case (registering filters, silencing the logger, ...).
	Setup func()
	// Finish runs once after all cases (whole-run oracles, extra statistics).
	Finish func(out *hx.Out)
}

var props = map[string]*Prop{}

func main() {
	if len(os.Args) < 2 {
		fmt.Fprintln(os.Stderr, "usage: conform <prop> [flags]")
		os.Exit(2)
	}
	name := os.Args[1]
	p, ok := props[name]
	if !ok {
		fmt.Fprintln(os.Stderr, "unknown property runner:", name)
		os.Exit(2)
	}
	fs := flag.NewFlagSet(name, flag.ExitOnError)
	seed := fs.Int64("seed", 1, "PRNG seed")
	tier := fs.String("tier", "quick", "quick|thorough")
	cases := fs.String("cases", "cases.txt", "case file (written, or read with -replay)")
	obs := fs.String("obs", "obs.txt", "implementation observations (written)")
	stats := fs.String("stats", "stats.json", "statistics (written)")
	replay := fs.String("replay", "", "run the cases of this file instead of generating")
	fs.Parse(os.Args[2:])

	if p.Setup != nil {
		p.Setup()
	}
	var lines []string
	if *replay != "" {
		lines = readLines(*replay)
	}
	out := hx.NewOut(*cases, *obs)
	if *replay == "" {
		lines = p.Gen(hx.NewR(*seed), *tier, out)
	}
	for _, l := range lines {
		// the case being run, for the orchestration to name it when the process dies in it
		os.WriteFile(*obs+".cur", []byte(l), 0o644)
		o, nt := p.Run(l, out)
		out.Emit(l, o, nt)
	}
	os.Remove(*obs + ".cur")
	if p.Finish != nil {
		p.Finish(out)
	}
	out.Close(*stats)
}

func readLines(path string) []string {
	b, err := os.ReadFile(path)
	if err != nil {
		panic(err)
	}
	var ls []string
	start := 0
	for i, c := range b {
		if c == '\n' {
			if i > start {
				ls = append(ls, string(b[start:i]))
			}
			start = i + 1
		}
	}
	if start < len(b) {
		ls = append(ls, string(b[start:]))
	}
	return ls
}
